//! C20 correspondence harness: every indexed registry of the library driven through systematic
//! edit histories inside the Soroban host; after every call (also failing ones) the public
//! getters are queried and printed.  One section per registry; each trace starts from a fresh
//! contract instance.  All limits are read from the library's `pub const`s and printed into
//! the trace header, so a changed constant is not an alarm.
#![allow(clippy::too_many_arguments)]
use soroban_sdk::{
    contract, contractimpl, contracttype, panic_with_error, symbol_short,
    testutils::{Address as _, Ledger as _},
    Address, Bytes, BytesN, Env, IntoVal, Map, String as SString, Symbol, Val, Vec,
};
use stellar_accounts::smart_account::{self as sal, ContextRule, ContextRuleType, Signer};
use stellar_tokens::rwa::claim_issuer as cil;
use stellar_tokens::rwa::claim_topics_and_issuers::{self as ctim, storage as ctil};
use stellar_tokens::rwa::compliance::{self as cmm, storage as cml, ComplianceHook};
use stellar_tokens::rwa::extensions::doc_manager as dml;
use stellar_tokens::rwa::identity_claims as icl;
use stellar_tokens::rwa::identity_registry_storage::{
    self as irl, CountryData, CountryRelation, IdentityType, IndividualCountryRelation, OrganizationCountryRelation,
};
use stellar_tokens::rwa::utils::token_binder as tbl;
use vh::*;

// ------------------------------------------------------------------------------------------
// harness contracts: thin wrappers around the library functions, and mocks of the external
// collaborators (in a module of their own because `String` must be soroban's there)
// ------------------------------------------------------------------------------------------
mod k {
    use super::*;
    use soroban_sdk::String;

    #[contract]
    pub struct BinderC;
    #[contractimpl]
    impl BinderC {
        /// fixture for the capacity-limit trace of the quick tier: writes the storage that binding
        /// `ts` one after the other into the empty registry produces (full buckets in order + count).
        /// The thorough tier reaches the limit through genuine calls instead.
        pub fn preload(e: Env, ts: Vec<Address>) {
            let bs = tbl::BUCKET_SIZE;
            let n = ts.len();
            let mut k = 0u32;
            while k * bs < n {
                let hi = core::cmp::min((k + 1) * bs, n);
                e.storage().persistent().set(&TokenBinderStorageKey::TokenBucket(k), &ts.slice(k * bs..hi));
                k += 1;
            }
            e.storage().persistent().set(&TokenBinderStorageKey::TotalCount, &n);
        }
        pub fn bind(e: Env, t: Address) { tbl::bind_token(&e, &t) }
        pub fn bind_many(e: Env, ts: Vec<Address>) { tbl::bind_tokens(&e, &ts) }
        pub fn unbind(e: Env, t: Address) { tbl::unbind_token(&e, &t) }
        pub fn linked(e: Env) -> Vec<Address> { tbl::linked_tokens(&e) }
        pub fn is_bound(e: Env, t: Address) -> bool { tbl::is_token_bound(&e, &t) }
        pub fn index_of(e: Env, t: Address) -> u32 { tbl::get_token_index(&e, &t) }
        pub fn by_index(e: Env, i: u32) -> Address { tbl::get_token_by_index(&e, i) }
    }

    #[contract]
    pub struct DocsC;
    #[contractimpl]
    impl DocsC {
        pub fn set_doc(e: Env, name: BytesN<32>, uri: String, hash: BytesN<32>) { dml::set_document(&e, &name, &uri, &hash) }
        pub fn remove_doc(e: Env, name: BytesN<32>) { dml::remove_document(&e, &name) }
        /// fixture for the capacity-limit trace of the quick tier: writes the storage that setting
        /// documents `base .. base+n` one after the other in the empty registry produces; the
        /// thorough tier reaches the limit through genuine calls instead.
        pub fn preload(e: Env, n: u32, ts: u64) {
            let bs = dml::BUCKET_SIZE;
            let mut k = 0u32;
            while k * bs < n {
                let hi = core::cmp::min((k + 1) * bs, n);
                let mut bucket: Vec<(BytesN<32>, dml::Document)> = Vec::new(&e);
                for i in k * bs..hi {
                    let name = bn32(&e, i as u64);
                    let d = dml::Document { uri: uri_of(&e, 1 + (i as u64) % 9, 1 + (i as u64) % 3), document_hash: bn32(&e, (i as u64) % 7), timestamp: ts };
                    bucket.push_back((name.clone(), d));
                    e.storage().persistent().set(&dml::DocumentStorageKey::Index(name), &i);
                }
                e.storage().persistent().set(&dml::DocumentStorageKey::Bucket(k), &bucket);
                k += 1;
            }
            e.storage().persistent().set(&dml::DocumentStorageKey::Count, &n);
        }
        pub fn count(e: Env) -> u32 { dml::get_document_count(&e) }
        pub fn get(e: Env, name: BytesN<32>) -> dml::Document { dml::get_document(&e, &name) }
        pub fn by_index(e: Env, i: u32) -> (BytesN<32>, dml::Document) { dml::get_document_by_index(&e, i) }
        pub fn bucket(e: Env, k: u32) -> Vec<(BytesN<32>, dml::Document)> { dml::get_documents(&e, k) }
    }

    #[contract]
    pub struct CtiC;
    #[contractimpl]
    impl CtiC {
        pub fn add_claim_topic(e: Env, t: u32) { ctil::add_claim_topic(&e, t) }
        pub fn remove_claim_topic(e: Env, t: u32) { ctil::remove_claim_topic(&e, t) }
        pub fn add_trusted_issuer(e: Env, i: Address, ts: Vec<u32>) { ctil::add_trusted_issuer(&e, &i, &ts) }
        pub fn remove_trusted_issuer(e: Env, i: Address) { ctil::remove_trusted_issuer(&e, &i) }
        pub fn update_issuer_topics(e: Env, i: Address, ts: Vec<u32>) { ctil::update_issuer_claim_topics(&e, &i, &ts) }
        pub fn get_claim_topics(e: Env) -> Vec<u32> { ctil::get_claim_topics(&e) }
        pub fn get_trusted_issuers(e: Env) -> Vec<Address> { ctil::get_trusted_issuers(&e) }
        pub fn get_topic_issuers(e: Env, t: u32) -> Vec<Address> { ctil::get_claim_topic_issuers(&e, t) }
        pub fn get_issuer_topics(e: Env, i: Address) -> Vec<u32> { ctil::get_trusted_issuer_claim_topics(&e, &i) }
        pub fn get_all(e: Env) -> Map<u32, Vec<Address>> { ctil::get_claim_topics_and_issuers(&e) }
        pub fn is_trusted_issuer(e: Env, i: Address) -> bool { ctil::is_trusted_issuer(&e, &i) }
        pub fn has_claim_topic(e: Env, i: Address, t: u32) -> bool { ctil::has_claim_topic(&e, &i, t) }
    }

    /// the registry consulted by allow_key: answers has_claim_topic as configured by the harness
    #[contract]
    pub struct RegistryMock;
    #[contractimpl]
    impl RegistryMock {
        pub fn set_mode(e: Env, m: u32) { e.storage().instance().set(&symbol_short!("mode"), &m) }
        pub fn has_claim_topic(e: Env, _issuer: Address, _t: u32) -> bool {
            let m: u32 = e.storage().instance().get(&symbol_short!("mode")).unwrap_or(0);
            if m == 2 { panic_with_error!(&e, ctim::ClaimTopicsAndIssuersError::IssuerDoesNotExist) }
            m == 0
        }
    }

    #[contract]
    pub struct KeysC;
    #[contractimpl]
    impl KeysC {
        pub fn allow_key(e: Env, pk: Bytes, registry: Address, scheme: u32, t: u32) { cil::allow_key(&e, &pk, &registry, scheme, t) }
        pub fn remove_key(e: Env, pk: Bytes, registry: Address, scheme: u32, t: u32) { cil::remove_key(&e, &pk, &registry, scheme, t) }
        pub fn keys_for_topic(e: Env, t: u32) -> Vec<cil::SigningKey> { cil::get_keys_for_topic(&e, t) }
        pub fn registries(e: Env, pk: Bytes, scheme: u32) -> Vec<Address> { cil::get_registries(&e, &cil::SigningKey { public_key: pk, scheme }) }
        pub fn allowed_topic(e: Env, pk: Bytes, scheme: u32, t: u32) -> bool { cil::is_key_allowed_for_topic(&e, &pk, scheme, t) }
        pub fn allowed_registry(e: Env, pk: Bytes, scheme: u32, r: Address) -> bool { cil::is_key_allowed_for_registry(&e, &pk, scheme, &r) }
    }

    #[contract]
    pub struct IrsC;
    #[contractimpl]
    impl IrsC {
        pub fn add_identity(e: Env, account: Address, identity: Address, org: bool, cs: Vec<CountryData>) {
            irl::add_identity(&e, &account, &identity, if org { IdentityType::Organization } else { IdentityType::Individual }, &cs)
        }
        pub fn modify_identity(e: Env, account: Address, identity: Address) { irl::modify_identity(&e, &account, &identity) }
        pub fn remove_identity(e: Env, account: Address) { irl::remove_identity(&e, &account) }
        pub fn recover_identity(e: Env, old: Address, new: Address) { irl::recover_identity(&e, &old, &new) }
        pub fn add_countries(e: Env, account: Address, cs: Vec<CountryData>) { irl::add_country_data_entries(&e, &account, &cs) }
        pub fn modify_country(e: Env, account: Address, i: u32, c: CountryData) { irl::modify_country_data(&e, &account, i, &c) }
        pub fn delete_country(e: Env, account: Address, i: u32) { irl::delete_country_data(&e, &account, i) }
        pub fn stored_identity(e: Env, account: Address) -> Address { irl::stored_identity(&e, &account) }
        pub fn profile(e: Env, account: Address) -> irl::IdentityProfile { irl::get_identity_profile(&e, &account) }
        pub fn country(e: Env, account: Address, i: u32) -> CountryData { irl::get_country_data(&e, &account, i) }
        pub fn countries(e: Env, account: Address) -> Vec<CountryData> { irl::get_country_data_entries(&e, &account) }
        pub fn recovered_to(e: Env, old: Address) -> Option<Address> { irl::get_recovered_to(&e, &old) }
    }

    #[contract]
    pub struct CmC;
    #[contractimpl]
    impl CmC {
        pub fn add_module(e: Env, hook: ComplianceHook, m: Address) { cml::add_module_to(&e, hook, m) }
        pub fn remove_module(e: Env, hook: ComplianceHook, m: Address) { cml::remove_module_from(&e, hook, m) }
        pub fn modules(e: Env, hook: ComplianceHook) -> Vec<Address> { cml::get_modules_for_hook(&e, hook) }
        pub fn is_registered(e: Env, hook: ComplianceHook, m: Address) -> bool { cml::is_module_registered(&e, hook, m) }
    }

    /// claim issuer consulted by add_claim: rejects (traps on) an empty signature
    #[contract]
    pub struct IssuerMock;
    #[contractimpl]
    impl IssuerMock {
        pub fn is_claim_valid(e: Env, _identity: Address, _topic: u32, _scheme: u32, sig_data: Bytes, _claim_data: Bytes) {
            if sig_data.is_empty() { panic_with_error!(&e, cil::ClaimIssuerError::SigDataMismatch) }
        }
    }

    #[contract]
    pub struct ClaimsC;
    #[contractimpl]
    impl ClaimsC {
        pub fn add_claim(e: Env, topic: u32, scheme: u32, issuer: Address, signature: Bytes, data: Bytes, uri: String) -> BytesN<32> {
            icl::add_claim(&e, topic, scheme, &issuer, &signature, &data, &uri)
        }
        pub fn remove_claim(e: Env, id: BytesN<32>) { icl::remove_claim(&e, &id) }
        pub fn get_claim(e: Env, id: BytesN<32>) -> icl::Claim { icl::get_claim(&e, &id) }
        pub fn ids_by_topic(e: Env, t: u32) -> Vec<BytesN<32>> { icl::get_claim_ids_by_topic(&e, t) }
    }

    /// policy mocks: `install` traps iff its parameter is 1; the second kind also traps on uninstall
    #[contract]
    pub struct PolicyMock;
    #[contractimpl]
    impl PolicyMock {
        pub fn install(e: Env, p: Val, _rule: ContextRule, _sa: Address) {
            let v: u32 = soroban_sdk::FromVal::from_val(&e, &p);
            if v == 1 { panic_with_error!(&e, sal::SmartAccountError::UnvalidatedContext) }
        }
        pub fn uninstall(_e: Env, _rule: ContextRule, _sa: Address) {}
    }

    #[contract]
    pub struct GrumpyPolicyMock;
    #[contractimpl]
    impl GrumpyPolicyMock {
        pub fn install(e: Env, p: Val, _rule: ContextRule, _sa: Address) {
            let v: u32 = soroban_sdk::FromVal::from_val(&e, &p);
            if v == 1 { panic_with_error!(&e, sal::SmartAccountError::UnvalidatedContext) }
        }
        pub fn uninstall(e: Env, _rule: ContextRule, _sa: Address) { panic_with_error!(&e, sal::SmartAccountError::UnvalidatedContext) }
    }

    #[contract]
    pub struct SaC;
    #[contractimpl]
    impl SaC {
        pub fn add_rule(e: Env, ct: ContextRuleType, name: String, until: Option<u32>, signers: Vec<Signer>, policies: Map<Address, Val>) -> ContextRule {
            sal::add_context_rule(&e, &ct, &name, until, &signers, &policies)
        }
        pub fn update_name(e: Env, id: u32, name: String) -> ContextRule { sal::update_context_rule_name(&e, id, &name) }
        pub fn update_until(e: Env, id: u32, until: Option<u32>) -> ContextRule { sal::update_context_rule_valid_until(&e, id, until) }
        pub fn remove_rule(e: Env, id: u32) { sal::remove_context_rule(&e, id) }
        pub fn add_signer(e: Env, id: u32, s: Signer) { sal::add_signer(&e, id, &s) }
        pub fn remove_signer(e: Env, id: u32, s: Signer) { sal::remove_signer(&e, id, &s) }
        pub fn add_policy(e: Env, id: u32, p: Address, param: Val) { sal::add_policy(&e, id, &p, param) }
        pub fn remove_policy(e: Env, id: u32, p: Address) { sal::remove_policy(&e, id, &p) }
        pub fn rule(e: Env, id: u32) -> ContextRule { sal::get_context_rule(&e, id) }
        pub fn rules(e: Env, ct: ContextRuleType) -> Vec<ContextRule> { sal::get_context_rules(&e, &ct) }
        pub fn count(e: Env) -> u32 { sal::get_context_rules_count(&e) }
    }

    // ---- collaborators that answer a value of ANOTHER TYPE than the interface declares (class K4) ----
    /// a "registry" whose has_claim_topic answers a number instead of a bool
    #[contract]
    pub struct OddRegistryMock;
    #[contractimpl]
    impl OddRegistryMock {
        pub fn has_claim_topic(_e: Env, _issuer: Address, _t: u32) -> u32 { 1 }
    }
    /// a "claim issuer" whose is_claim_valid answers `true` (the interface returns nothing and vetoes by trapping)
    #[contract]
    pub struct OddIssuerMock;
    #[contractimpl]
    impl OddIssuerMock {
        pub fn is_claim_valid(_e: Env, _identity: Address, _topic: u32, _scheme: u32, _sig_data: Bytes, _claim_data: Bytes) -> bool { true }
    }
    /// a "policy" whose install answers a number (the interface returns nothing)
    #[contract]
    pub struct OddPolicyMock;
    #[contractimpl]
    impl OddPolicyMock {
        pub fn install(_e: Env, _p: Val, _rule: ContextRule, _sa: Address) -> u32 { 7 }
        pub fn uninstall(_e: Env, _rule: ContextRule, _sa: Address) {}
    }

    /// same variant names and payloads as the (not re-exported) key enum of token_binder/storage.rs;
    /// used only by the `preload` fixture
    #[contracttype]
    pub enum TokenBinderStorageKey {
        TokenBucket(u32),
        TotalCount,
    }
}
use k::*;

// ---- sibling entry paths (class K3): the REAL example contracts that wire the same library functions ----
// (examples/rwa, the only other wiring of binder / identity storage, is not a workspace member and does not compile
// against the current access-control API - it is not a reachable entry path)
mod sa_example {
    #[path = "/repo/examples/multisig-smart-account/account/src/contract.rs"]
    pub mod contract;
}
use sa_example::contract::{MultisigContract, MultisigContractClient};

// ------------------------------------------------------------------------------------------
// common helpers
// ------------------------------------------------------------------------------------------
/// Two host configurations (alternating per trace): persistent entries and the contract instance
/// outlive every ledger gap of a trace (so that only genuinely persistent state survives and the
/// library's own extend_ttl calls never trap); they differ in the temporary-entry minimum and sizes.
static ENV_COUNTER: std::sync::atomic::AtomicU64 = std::sync::atomic::AtomicU64::new(0);
fn new_env() -> Env {
    let k = ENV_COUNTER.fetch_add(1, std::sync::atomic::Ordering::Relaxed);
    let e = Env::default();
    // (no diagnostic events: they only cost memory - over 1 GB in the capacity histories)
    let _ = e.host().set_diagnostic_level(Default::default());
    e.cost_estimate().budget().reset_unlimited();
    e.cost_estimate().disable_resource_limits();
    e.ledger().with_mut(|l| {
        l.sequence_number = 100;
        l.timestamp = 1_000;
        if k % 2 == 0 { l.min_temp_entry_ttl = 1; l.min_persistent_entry_ttl = 60_000_000; l.max_entry_ttl = 120_000_000; }
        else { l.min_temp_entry_ttl = 16; l.min_persistent_entry_ttl = 40_000_000; l.max_entry_ttl = 50_000_000; }
    });
    e
}
/// n ledgers pass, nothing is called
fn advance(e: &Env, n: u64) { e.ledger().with_mut(|l| { l.sequence_number += n as u32; l.timestamp += 5 * n; }); }
/// the ledger gaps used everywhere: short, one day (+1), beyond the library's 30-day extension, months
const GAPS: [u64; 6] = [20, 100, 17_281, 20_000, 600_000, 4_000_000];
macro_rules! tryv { ($e:expr) => { match $e { Ok(Ok(v)) => Some(v), _ => None } } }

/// plain numerals: the Coq header opens N_scope
fn nn(v: u64) -> String { format!("{}", v) }
fn nlist(xs: &[u64]) -> String { list(&xs.iter().map(|x| nn(*x)).collect::<std::vec::Vec<_>>()) }
fn okv(s: &str) -> String { format!("(Ok {})", s) }

/// small universe of addresses; the model sees an address as its index
/// (an address outside the universe - never on the unchanged tree - gets an id of its own: 10^9 + k, the
/// k-th distinct unknown address of the trace, so that two different unknown addresses are never confused)
struct Uni { a: std::vec::Vec<Address>, m: std::collections::HashMap<soroban_sdk::xdr::ScAddress, u64>,
             unk: std::cell::RefCell<std::collections::HashMap<soroban_sdk::xdr::ScAddress, u64>> }
impl Uni {
    fn new(e: &Env, n: usize) -> Uni {
        let a: std::vec::Vec<Address> = (0..n).map(|_| Address::generate(e)).collect();
        Uni::of(a)
    }
    fn of(a: std::vec::Vec<Address>) -> Uni {
        let mut m = std::collections::HashMap::new();
        for (i, x) in a.iter().enumerate() { m.insert(soroban_sdk::xdr::ScAddress::from(x), i as u64); }
        Uni { a, m, unk: Default::default() }
    }
    fn id(&self, x: &Address) -> u64 {
        let k = soroban_sdk::xdr::ScAddress::from(x);
        if let Some(i) = self.m.get(&k) { return *i; }
        let mut u = self.unk.borrow_mut();
        let n = u.len() as u64;
        *u.entry(k).or_insert(1_000_000_000 + n)
    }
    fn ids(&self, xs: &Vec<Address>) -> std::vec::Vec<u64> { xs.iter().map(|x| self.id(&x)).collect() }
    fn vec(&self, e: &Env, idx: &[usize]) -> Vec<Address> {
        // (one host object: push_back / from_slice copy the vector once per element - 400 MB for the preload fixture)
        let vals: std::vec::Vec<Val> = idx.iter().map(|&i| self.a[i].to_val()).collect();
        let obj = soroban_sdk::EnvBase::vec_new_from_slice(e, &vals).unwrap();
        soroban_sdk::FromVal::from_val(e, &obj.to_val())
    }
}

/// every sequence of `len` operation indexes below `nops` (exhaustive small-scope enumeration)
fn all_seqs(nops: usize, len: usize) -> std::vec::Vec<std::vec::Vec<usize>> {
    let mut out = vec![];
    let total = nops.pow(len as u32);
    for mut k in 0..total {
        let mut v = vec![];
        for _ in 0..len { v.push(k % nops); k /= nops; }
        out.push(v);
    }
    out
}

/// events of one trace
struct Tr { ev: std::vec::Vec<String> }
impl Tr {
    fn new() -> Tr { Tr { ev: vec![] } }
    fn push(&mut self, out: &mut Out, label: &str, call: &str, ok: Option<String>, queries: std::vec::Vec<String>) {
        let o = match &ok { Some(v) => format!("(Ok {})", v), None => "Fail".to_string() };
        out.case(&format!("{}/{}", label, if ok.is_some() { "ok" } else { "fail" }), call);
        self.ev.push(format!("(Call ({}), {}, {})", call, o, list(&queries)));
    }
    /// a ledger gap: `dflt` is the outcome term recorded for it ("tt" or "None")
    fn advance(&mut self, out: &mut Out, reg: &str, n: u64, dflt: &str, queries: std::vec::Vec<String>) {
        out.case(&format!("{}.advance.{}/ok", reg, if n >= 500_000 { "long" } else { "short" }), &format!("Advance {}", n));
        self.ev.push(format!("(Advance {}, (Ok {}), {})", n, dflt, list(&queries)));
    }
    /// a call of a DIRECTED history: besides the kind label it carries a label of its own for the situation
    /// it was built to produce (`<situation>/ok|fail`); these labels are hit on every seed (props must_cover)
    fn sit(&mut self, out: &mut Out, kind: &str, sit: &str, call: &str, ok: Option<String>, queries: std::vec::Vec<String>) {
        out.label(&format!("{}/{}", sit, if ok.is_some() { "ok" } else { "fail" }));
        self.push(out, kind, call, ok, queries);
    }
    fn len(&self) -> usize { self.ev.len() }
}
/// only the directed (seed-independent) histories are run: used to compute the must_cover list
fn directed_only() -> bool { std::env::var("C20_DIRECTED_ONLY").is_ok() }

// ---- printing values IN FULL: every byte of a string / byte string / hash reaches the Coq term ----
/// numeral of the big-endian number `bytes`: decimal up to 64 bits, hexadecimal beyond (Coq converts long decimal
/// numerals very slowly)
fn big_dec(bytes: &[u8]) -> String {
    let v: std::vec::Vec<u8> = bytes.iter().cloned().skip_while(|x| *x == 0).collect();
    if v.len() <= 8 { let mut x = 0u64; for bt in &v { x = x * 256 + *bt as u64; } return format!("{}", x); }
    let mut s = String::from("0x");
    for bt in &v { s += &format!("{:02x}", bt); }
    s
}
/// a string as a number: the bytes 0x01 || s (injective; Coq's `str_len` recovers the length)
fn enc(bytes: &[u8]) -> String { let mut v = vec![1u8]; v.extend_from_slice(bytes); big_dec(&v) }
/// a value outside the shape the harness sends (never on the unchanged tree): 2^(8*(9+len)) + bytes, above every u64
fn odd(bytes: &[u8]) -> String { let mut v = vec![1u8, 0, 0, 0, 0, 0, 0, 0, 0, 0]; v.extend_from_slice(bytes); big_dec(&v) }
/// the harness only sends decimal numerals as rule names / claim uris: those print as the number, anything else via `odd`
fn num_or_odd(s: &[u8]) -> String {
    match std::str::from_utf8(s).ok().and_then(|t| t.parse::<u64>().ok().filter(|v| format!("{}", v) == t)) { Some(v) => format!("{}", v), None => odd(s) }
}
fn sbytes(s: &SString) -> std::vec::Vec<u8> { let n = s.len() as usize; let mut buf = vec![0u8; n]; s.copy_into_slice(&mut buf); buf }
fn bbytes(x: &Bytes) -> std::vec::Vec<u8> { x.iter().collect() }

// ------------------------------------------------------------------------------------------
// 1. token binder
// ------------------------------------------------------------------------------------------


struct Tb<'a> { e: Env, c: BinderCClient<'a>, u: Uni }
impl<'a> Tb<'a> {
    fn new(n: usize) -> Tb<'a> {
        let e = new_env();
        let id = e.register(BinderC, ());
        let c = BinderCClient::new(&e, &id);
        let u = Uni::new(&e, n);
        Tb { e, c, u }
    }
    fn linked(&self) -> std::vec::Vec<u64> { tryv!(self.c.try_linked()).map(|v| self.u.ids(&v)).unwrap_or_default() }
    /// queries: `full` = list + count; token probes; index probes
    fn queries(&self, full: bool, toks: &[usize], idxs: &[u32]) -> std::vec::Vec<String> {
        let mut q = vec![];
        match tryv!(self.c.try_linked()) {
            Some(lv) => { if full { q.push(format!("(TqLinked, TaList {})", nlist(&self.u.ids(&lv)))); }
                          q.push(format!("(TqCount, TaNat {})", lv.len())); }
            None => { q.push("(TqLinked, TaTrap)".into()); }
        }
        for &t in toks {
            let a = &self.u.a[t];
            q.push(match tryv!(self.c.try_is_bound(a)) { Some(x) => format!("(TqIsBound {}, TaBool {})", t, b(x)), None => format!("(TqIsBound {}, TaTrap)", t) });
            let r = match self.c.try_index_of(a) { Ok(Ok(i)) => okv(&nn(i as u64)), _ => "Fail".into() };
            q.push(format!("(TqIndexOf {}, TaIdx {})", t, r));
        }
        for &i in idxs {
            let r = match self.c.try_by_index(&i) { Ok(Ok(a)) => okv(&nn(self.u.id(&a))), _ => "Fail".into() };
            q.push(format!("(TqByIndex {}, TaAddr {})", i, r));
        }
        q
    }
    fn bind(&self, t: usize) -> Option<String> { match self.c.try_bind(&self.u.a[t]) { Ok(Ok(())) => Some("tt".into()), _ => None } }
    fn unbind(&self, t: usize) -> Option<String> { match self.c.try_unbind(&self.u.a[t]) { Ok(Ok(())) => Some("tt".into()), _ => None } }
    fn preload(&self, ts: &[usize]) -> Option<String> {
        match self.c.try_preload(&self.u.vec(&self.e, ts)) { Ok(Ok(())) => Some("tt".into()), _ => None }
    }
    fn bind_many(&self, ts: &[usize]) -> Option<String> {
        match self.c.try_bind_many(&self.u.vec(&self.e, ts)) { Ok(Ok(())) => Some("tt".into()), _ => None }
    }
}

fn tb_header() -> String { format!("TrBinder {} {} []", tbl::BUCKET_SIZE, tbl::MAX_TOKENS) }
fn tb_many_call(ts: &[usize]) -> String { format!("TbBindMany {}", nlist(&ts.iter().map(|x| *x as u64).collect::<std::vec::Vec<_>>())) }

/// DIRECTED histories (no random choice): every situation named in the property's quantifier, one label each
fn directed_binder(out: &mut Out) {
    let bs = tbl::BUCKET_SIZE as usize;
    let qs = |t: &Tb, toks: &[usize]| -> std::vec::Vec<String> { let n = t.linked().len() as u32; t.queries(true, toks, &(0..n + 2).collect::<std::vec::Vec<u32>>()) };
    let first = |t: &Tb| t.linked()[0] as usize;
    let last = |t: &Tb| { let l = t.linked(); l[l.len() - 1] as usize };
    // 1. a small set: remove the first / last / only element, re-add after removal, duplicates and absent elements
    {
        let t = Tb::new(5); let mut tr = Tr::new(); let all = [0usize, 1, 2, 3, 4];
        tr.sit(out, "tb.bind_many", "tb.s.batch_one_bucket", &tb_many_call(&[0, 1, 2]), t.bind_many(&[0, 1, 2]), qs(&t, &all));
        advance(&t.e, 20); tr.advance(out, "tb", 20, "tt", qs(&t, &all));
        let x = first(&t); tr.sit(out, "tb.unbind", "tb.s.unbind_first", &format!("TbUnbind {}", x), t.unbind(x), qs(&t, &all));
        let x = last(&t); tr.sit(out, "tb.unbind", "tb.s.unbind_last", &format!("TbUnbind {}", x), t.unbind(x), qs(&t, &all));
        advance(&t.e, 4_000_000); tr.advance(out, "tb", 4_000_000, "tt", qs(&t, &all));
        let x = first(&t); tr.sit(out, "tb.unbind", "tb.s.unbind_only", &format!("TbUnbind {}", x), t.unbind(x), qs(&t, &all));
        tr.sit(out, "tb.unbind", "tb.s.unbind_absent", &format!("TbUnbind {}", x), t.unbind(x), qs(&t, &all));
        tr.sit(out, "tb.bind", "tb.s.readd_after_removal", &format!("TbBind {}", x), t.bind(x), qs(&t, &all));
        tr.sit(out, "tb.bind", "tb.s.bind_duplicate", &format!("TbBind {}", x), t.bind(x), qs(&t, &all));
        tr.sit(out, "tb.bind_many", "tb.s.batch_internal_duplicate", &tb_many_call(&[3, 4, 3]), t.bind_many(&[3, 4, 3]), qs(&t, &all));
        tr.sit(out, "tb.bind_many", "tb.s.batch_already_bound", &tb_many_call(&[3, x]), t.bind_many(&[3, x]), qs(&t, &all));
        tr.sit(out, "tb.bind_many", "tb.s.batch_empty", &tb_many_call(&[]), t.bind_many(&[]), qs(&t, &all));
        advance(&t.e, 600_000); tr.advance(out, "tb", 600_000, "tt", qs(&t, &all));
        let n = tr.len(); out.trace("binder/directed-small", format!("{} {}", tb_header(), list(&tr.ev)), n);
    }
    // 2. a batch touching THREE buckets (partly filled + full + partly filled), then a removal whose replacement
    //    comes from another bucket
    {
        let t = Tb::new(3 * bs + 10); let mut tr = Tr::new();
        let pr = |t: &Tb| -> std::vec::Vec<String> {
            let c = t.linked().len();
            let mut idx: std::vec::Vec<u32> = vec![0, 10, (bs / 2) as u32, (bs - 1) as u32, bs as u32, (2 * bs - 1) as u32, (2 * bs) as u32, c.saturating_sub(1) as u32, c as u32, c as u32 + 1];
            idx.sort(); idx.dedup();
            t.queries(true, &[0, 10, bs / 2 - 1, bs / 2, bs, 2 * bs, 2 * bs + bs / 2 - 1, 2 * bs + bs / 2], &idx)
        };
        let a: std::vec::Vec<usize> = (0..bs / 2).collect();
        tr.sit(out, "tb.bind_many", "tb.s.batch_one_bucket", &tb_many_call(&a), t.bind_many(&a), pr(&t));
        let b3: std::vec::Vec<usize> = (bs / 2..bs / 2 + 2 * bs).collect();
        tr.sit(out, "tb.bind_many", "tb.s.batch_three_buckets", &tb_many_call(&b3), t.bind_many(&b3), pr(&t));
        advance(&t.e, 17_281); tr.advance(out, "tb", 17_281, "tt", pr(&t));
        let x = t.linked()[10] as usize;
        tr.sit(out, "tb.unbind", "tb.s.unbind_cross_bucket_swap", &format!("TbUnbind {}", x), t.unbind(x), pr(&t));
        tr.sit(out, "tb.bind", "tb.s.readd_after_removal", &format!("TbBind {}", x), t.bind(x), pr(&t));
        let n = tr.len(); out.trace("binder/directed-three-buckets", format!("{} {}", tb_header(), list(&tr.ev)), n);
    }
    // 3. a batch crossing a boundary from a partly filled bucket; a removal that empties the last bucket
    {
        let t = Tb::new(2 * bs + 20); let mut tr = Tr::new();
        let pr = |t: &Tb| -> std::vec::Vec<String> {
            let c = t.linked().len();
            let mut idx: std::vec::Vec<u32> = vec![0, 5, (bs - 6) as u32, (bs - 5) as u32, (bs - 1) as u32, bs as u32, (bs + 4) as u32, (bs + 5) as u32, c.saturating_sub(1) as u32, c as u32];
            idx.sort(); idx.dedup();
            t.queries(true, &[0, 5, bs - 6, bs - 5, bs + 4, bs + 5, 2 * bs + 10], &idx)
        };
        let a: std::vec::Vec<usize> = (0..bs - 5).collect();
        tr.sit(out, "tb.bind_many", "tb.s.batch_one_bucket", &tb_many_call(&a), t.bind_many(&a), pr(&t));
        let b2: std::vec::Vec<usize> = (bs - 5..bs + 5).collect();
        tr.sit(out, "tb.bind_many", "tb.s.batch_cross_from_partial", &tb_many_call(&b2), t.bind_many(&b2), pr(&t));
        for k in 0..4 { let x = t.linked()[5] as usize; tr.sit(out, "tb.unbind", "tb.s.unbind_cross_bucket_swap", &format!("TbUnbind {}", x), t.unbind(x), pr(&t)); let _ = k; }
        advance(&t.e, 100); tr.advance(out, "tb", 100, "tt", pr(&t));
        let x = t.linked()[5] as usize;
        tr.sit(out, "tb.unbind", "tb.s.unbind_empties_last_bucket", &format!("TbUnbind {}", x), t.unbind(x), pr(&t));
        tr.sit(out, "tb.bind", "tb.s.bind_reopens_bucket", &format!("TbBind {}", 2 * bs + 10), t.bind(2 * bs + 10), pr(&t));
        let n = tr.len(); out.trace("binder/directed-boundary", format!("{} {}", tb_header(), list(&tr.ev)), n);
    }
}

/// universe = n plain addresses, then the binder contract's OWN address (index n) and another REGISTERED contract (index n + 1)
fn tb_special<'a>(n: usize) -> Tb<'a> {
    let e = new_env();
    let id = e.register(BinderC, ());
    let c = BinderCClient::new(&e, &id);
    let mut a: std::vec::Vec<Address> = (0..n).map(|_| Address::generate(&e)).collect();
    a.push(id.clone());
    a.push(e.register(RegistryMock, ()));
    Tb { e, c, u: Uni::of(a) }
}

/// CLASS histories (seed-independent): special addresses as tokens (K1), unusual values (K2), removal orders over
/// six elements with every index-valued getter asked for every token and index (K6)
fn classes_binder(out: &mut Out) {
    let qs = |t: &Tb| -> std::vec::Vec<String> {
        let n = t.linked().len() as u32; let all: std::vec::Vec<usize> = (0..t.u.a.len()).collect();
        let mut idx: std::vec::Vec<u32> = (0..n + 2).collect(); idx.push(u32::MAX);
        t.queries(true, &all, &idx) };
    let at = |t: &Tb, i: usize| t.linked()[i] as usize;
    // K1 / K2: the contract's own address and another registered contract as tokens
    {
        let t = tb_special(3); let mut tr = Tr::new(); let (own, other) = (3usize, 4usize);
        tr.sit(out, "tb.bind", "tb.s.bind_own_address", &format!("TbBind {}", own), t.bind(own), qs(&t));
        tr.sit(out, "tb.bind", "tb.s.bind_registered_contract", &format!("TbBind {}", other), t.bind(other), qs(&t));
        tr.sit(out, "tb.bind", "tb.s.bind_own_address_duplicate", &format!("TbBind {}", own), t.bind(own), qs(&t));
        tr.sit(out, "tb.bind", "tb.s.bind_after_own_address", "TbBind 0", t.bind(0), qs(&t));
        advance(&t.e, 4_000_000); tr.advance(out, "tb", 4_000_000, "tt", qs(&t));
        tr.sit(out, "tb.unbind", "tb.s.unbind_own_address", &format!("TbUnbind {}", own), t.unbind(own), qs(&t));
        tr.sit(out, "tb.unbind", "tb.s.unbind_own_address_absent", &format!("TbUnbind {}", own), t.unbind(own), qs(&t));
        tr.sit(out, "tb.bind_many", "tb.s.batch_with_own_address", &tb_many_call(&[1, own]), t.bind_many(&[1, own]), qs(&t));
        tr.sit(out, "tb.bind_many", "tb.s.batch_own_address_already_bound", &tb_many_call(&[own]), t.bind_many(&[own]), qs(&t));
        tr.sit(out, "tb.bind_many", "tb.s.batch_of_one", &tb_many_call(&[2]), t.bind_many(&[2]), qs(&t));
        tr.sit(out, "tb.unbind", "tb.s.unbind_registered_contract", &format!("TbUnbind {}", other), t.unbind(other), qs(&t));
        advance(&t.e, 20); tr.advance(out, "tb", 20, "tt", qs(&t));
        let n = tr.len(); out.trace("binder/classes-special-addresses", format!("{} {}", tb_header(), list(&tr.ev)), n);
    }
    // K6: six tokens, removals in two different orders (middle, second-to-last, first, the one just swapped in, last
    //     / last, second-to-last, middle, first), re-additions in between
    {
        let t = Tb::new(6); let mut tr = Tr::new();
        tr.sit(out, "tb.bind_many", "tb.s.batch_one_bucket", &tb_many_call(&[0, 1, 2, 3, 4, 5]), t.bind_many(&[0, 1, 2, 3, 4, 5]), qs(&t));
        let x = at(&t, 2); tr.sit(out, "tb.unbind", "tb.s.unbind_middle_of_six", &format!("TbUnbind {}", x), t.unbind(x), qs(&t));
        let l = t.linked().len(); let x = at(&t, l - 2); tr.sit(out, "tb.unbind", "tb.s.unbind_second_to_last", &format!("TbUnbind {}", x), t.unbind(x), qs(&t));
        let x = at(&t, 0); tr.sit(out, "tb.unbind", "tb.s.unbind_first", &format!("TbUnbind {}", x), t.unbind(x), qs(&t));
        let x = at(&t, 0); tr.sit(out, "tb.unbind", "tb.s.unbind_just_swapped_in", &format!("TbUnbind {}", x), t.unbind(x), qs(&t));
        let l = t.linked().len(); let x = at(&t, l - 1); tr.sit(out, "tb.unbind", "tb.s.unbind_last", &format!("TbUnbind {}", x), t.unbind(x), qs(&t));
        tr.sit(out, "tb.bind_many", "tb.s.batch_readd_after_removals", &tb_many_call(&[4, 2, 0]), t.bind_many(&[4, 2, 0]), qs(&t));
        advance(&t.e, 600_000); tr.advance(out, "tb", 600_000, "tt", qs(&t));
        let x = at(&t, 1); tr.sit(out, "tb.unbind", "tb.s.unbind_second_of_four", &format!("TbUnbind {}", x), t.unbind(x), qs(&t));
        let n = tr.len(); out.trace("binder/classes-removal-order-a", format!("{} {}", tb_header(), list(&tr.ev)), n);
    }
    {
        let t = Tb::new(6); let mut tr = Tr::new();
        for x in 0..6 { tr.sit(out, "tb.bind", "tb.s.bind_one_by_one", &format!("TbBind {}", x), t.bind(x), qs(&t)); }
        let l = t.linked().len(); let x = at(&t, l - 1); tr.sit(out, "tb.unbind", "tb.s.unbind_last", &format!("TbUnbind {}", x), t.unbind(x), qs(&t));
        let l = t.linked().len(); let x = at(&t, l - 2); tr.sit(out, "tb.unbind", "tb.s.unbind_second_to_last", &format!("TbUnbind {}", x), t.unbind(x), qs(&t));
        let x = at(&t, 1); tr.sit(out, "tb.unbind", "tb.s.unbind_second_of_four", &format!("TbUnbind {}", x), t.unbind(x), qs(&t));
        let x = at(&t, 0); tr.sit(out, "tb.unbind", "tb.s.unbind_first", &format!("TbUnbind {}", x), t.unbind(x), qs(&t));
        tr.sit(out, "tb.bind", "tb.s.readd_after_removal", "TbBind 5", t.bind(5), qs(&t));
        let x = at(&t, 1); tr.sit(out, "tb.unbind", "tb.s.unbind_middle_of_three", &format!("TbUnbind {}", x), t.unbind(x), qs(&t));
        advance(&t.e, 100); tr.advance(out, "tb", 100, "tt", qs(&t));
        let n = tr.len(); out.trace("binder/classes-removal-order-b", format!("{} {}", tb_header(), list(&tr.ev)), n);
    }
    // K2: removals and additions exactly at the bucket edges (index BUCKET_SIZE - 1, BUCKET_SIZE, 2 * BUCKET_SIZE - 1)
    {
        let bs = tbl::BUCKET_SIZE as usize;
        let t = Tb::new(2 * bs + 4); let mut tr = Tr::new();
        let pr = |t: &Tb, toks: &[usize]| -> std::vec::Vec<String> {
            let c = t.linked().len() as u32; let b = bs as u32;
            let mut idx: std::vec::Vec<u32> = vec![0, b - 2, b - 1, b, b + 1, 2 * b - 2, 2 * b - 1, 2 * b, 2 * b + 1, c.saturating_sub(1), c, u32::MAX];
            idx.sort(); idx.dedup();
            let mut tk: std::vec::Vec<usize> = vec![0, bs - 1, bs, 2 * bs - 1, 2 * bs, 2 * bs + 1]; tk.extend_from_slice(toks); tk.sort(); tk.dedup();
            t.queries(true, &tk, &idx) };
        let a: std::vec::Vec<usize> = (0..2 * bs).collect();
        tr.sit(out, "tb.bind_many", "tb.s.batch_two_full_buckets", &tb_many_call(&a), t.bind_many(&a), pr(&t, &[]));
        tr.sit(out, "tb.bind_many", "tb.s.batch_opens_third_bucket", &tb_many_call(&[2 * bs, 2 * bs + 1]), t.bind_many(&[2 * bs, 2 * bs + 1]), pr(&t, &[]));
        let x = at(&t, bs - 1); tr.sit(out, "tb.unbind", "tb.s.unbind_at_last_slot_of_bucket", &format!("TbUnbind {}", x), t.unbind(x), pr(&t, &[x]));
        let x = at(&t, bs); tr.sit(out, "tb.unbind", "tb.s.unbind_at_first_slot_of_bucket", &format!("TbUnbind {}", x), t.unbind(x), pr(&t, &[x]));
        let x = at(&t, 2 * bs - 1); tr.sit(out, "tb.unbind", "tb.s.unbind_last_at_bucket_end", &format!("TbUnbind {}", x), t.unbind(x), pr(&t, &[x]));
        advance(&t.e, 17_281); tr.advance(out, "tb", 17_281, "tt", pr(&t, &[]));
        tr.sit(out, "tb.bind", "tb.s.bind_fills_bucket", &format!("TbBind {}", 2 * bs + 2), t.bind(2 * bs + 2), pr(&t, &[2 * bs + 2]));
        tr.sit(out, "tb.bind", "tb.s.bind_opens_bucket", &format!("TbBind {}", 2 * bs + 3), t.bind(2 * bs + 3), pr(&t, &[2 * bs + 3]));
        let x = at(&t, 2 * bs - 1); tr.sit(out, "tb.unbind", "tb.s.unbind_second_to_last_across_buckets", &format!("TbUnbind {}", x), t.unbind(x), pr(&t, &[x, 2 * bs + 3]));
        let n = tr.len(); out.trace("binder/classes-bucket-edges", format!("{} {}", tb_header(), list(&tr.ev)), n);
    }
}

fn run_binder(out: &mut Out, rng: &mut Rng) {
    let bs = tbl::BUCKET_SIZE as usize;
    let maxt = tbl::MAX_TOKENS as usize;
    let thorough = out.cfg.thorough;
    let scale = out.cfg.scale as usize;
    let donly = directed_only();
    directed_binder(out);
    classes_binder(out);

    // A. small universe, every query after every call
    let na = if donly { 0 } else if thorough { 400 } else { 37 } * scale;
    for _ in 0..na {
        let nu = 3 + rng.below(6) as usize;
        let t = Tb::new(nu);
        let mut tr = Tr::new();
        let all: std::vec::Vec<usize> = (0..nu).collect();
        let ncalls = if thorough { 60 } else { 30 };
        let mut last_touched = 0usize;
        for _ in 0..ncalls {
            if rng.chance(1, 10) {
                let n = *rng.pick(&GAPS); advance(&t.e, n);
                let idx: std::vec::Vec<u32> = (0..(t.linked().len() as u32 + 2)).collect();
                tr.advance(out, "tb", n, "tt", t.queries(true, &all, &idx));
            }
            let cur = t.linked();
            let pick_bound = |rng: &mut Rng| -> usize {
                if cur.is_empty() { rng.below(nu as u64) as usize } else {
                    match rng.below(4) { 0 => cur[0] as usize, 1 => cur[cur.len() - 1] as usize, _ => cur[rng.below(cur.len() as u64) as usize] as usize }
                }
            };
            match rng.below(10) {
                0..=3 => { let x = rng.below(nu as u64) as usize; last_touched = x; let r = t.bind(x);
                           let idx: std::vec::Vec<u32> = (0..(t.linked().len() as u32 + 2)).collect();
                           tr.push(out, "tb.bind", &format!("TbBind {}", x), r, t.queries(true, &all, &idx)); }
                4..=6 => { let x = if rng.chance(3, 4) { pick_bound(rng) } else { rng.below(nu as u64) as usize }; let r = t.unbind(x);
                           let idx: std::vec::Vec<u32> = (0..(t.linked().len() as u32 + 2)).collect();
                           tr.push(out, "tb.unbind", &format!("TbUnbind {}", x), r, t.queries(true, &all, &idx)); }
                7 => { // remove the element that the previous removal swapped in / re-add after removal
                       let x = last_touched; let r = if cur.contains(&(x as u64)) { t.unbind(x) } else { t.bind(x) };
                       let call = if cur.contains(&(x as u64)) { format!("TbUnbind {}", x) } else { format!("TbBind {}", x) };
                       let idx: std::vec::Vec<u32> = (0..(t.linked().len() as u32 + 2)).collect();
                       tr.push(out, if cur.contains(&(x as u64)) { "tb.unbind" } else { "tb.bind" }, &call, r, t.queries(true, &all, &idx)); }
                _ => { let k = rng.below(5) as usize;
                       let mut ts: std::vec::Vec<usize> = vec![];
                       for _ in 0..k {
                           let x = rng.below(nu as u64) as usize;
                           if rng.chance(1, 5) || !ts.contains(&x) { ts.push(x); }
                       }
                       let r = t.bind_many(&ts);
                       let idx: std::vec::Vec<u32> = (0..(t.linked().len() as u32 + 2)).collect();
                       tr.push(out, "tb.bind_many", &tb_many_call(&ts), r, t.queries(true, &all, &idx)); }
            }
        }
        let n = tr.len();
        out.trace("binder/small", format!("{} {}", tb_header(), list(&tr.ev)), n);
    }

    // A'. thorough tier: EVERY sequence of 5 bind / unbind operations over 3 tokens
    if thorough && !donly {
        for seq in all_seqs(6, 5) {
            let t = Tb::new(3);
            let mut tr = Tr::new();
            for op in seq {
                let x = op % 3;
                let (label, call, r) = if op < 3 { ("tb.bind", format!("TbBind {}", x), t.bind(x)) } else { ("tb.unbind", format!("TbUnbind {}", x), t.unbind(x)) };
                let idx: std::vec::Vec<u32> = (0..(t.linked().len() as u32 + 1)).collect();
                tr.push(out, label, &call, r, t.queries(true, &[0, 1, 2], &idx));
            }
            let n = tr.len();
            out.trace("binder/exhaustive", format!("{} {}", tb_header(), list(&tr.ev)), n);
        }
    }

    // B. histories around the bucket boundaries (BUCKET_SIZE, 2*BUCKET_SIZE)
    let nb = if donly { 0 } else if thorough { 120 } else { 13 } * scale;
    for it in 0..nb {
        let nu = 2 * bs + 40;
        let t = Tb::new(nu);
        let mut tr = Tr::new();
        let mut next = 0usize; // next never-bound token
        let base = if it % 3 == 2 { 2 * bs } else { bs };
        let start = base - 3 + rng.below(7) as usize;
        // fill in batches of at most 2*BUCKET_SIZE
        let mut left = start;
        while left > 0 {
            let k = left.min(2 * bs);
            let ts: std::vec::Vec<usize> = (next..next + k).collect(); next += k; left -= k;
            let r = t.bind_many(&ts);
            tr.push(out, "tb.bind_many", &tb_many_call(&ts), r, t.queries(true, &[0, ts[ts.len() - 1]], &[0, (bs - 1) as u32, bs as u32]));
        }
        let ncalls = if thorough { 40 } else { 22 };
        let mut hole: Option<u32> = None; // index where the last swap landed
        for step in 0..ncalls {
            if step == 0 || rng.chance(1, 8) {
                let n = if step == 0 { 4_000_000 } else { *rng.pick(&GAPS) }; advance(&t.e, n);
                let c0 = t.linked().len() as u32;
                tr.advance(out, "tb", n, "tt", t.queries(true, &[0, (bs - 1).min(nu - 1), bs.min(nu - 1)], &[0, (bs - 1) as u32, bs as u32, c0.saturating_sub(1), c0]));
            }
            let cur = t.linked();
            let cnt = cur.len();
            let mut probes_t: std::vec::Vec<usize> = vec![];
            let (label, call, r);
            match rng.below(10) {
                0..=2 if next < nu => { let x = next; next += 1; probes_t.push(x); r = t.bind(x); label = "tb.bind"; call = format!("TbBind {}", x); }
                3 if cnt > 0 => { let x = cur[rng.below(cnt as u64) as usize] as usize; probes_t.push(x); r = t.bind(x); label = "tb.bind"; call = format!("TbBind {}", x); }
                4..=7 if cnt > 0 => {
                    let cand: std::vec::Vec<usize> = vec![0, bs - 1, bs, bs + 1, 2 * bs - 1, 2 * bs, cnt - 1, cnt.saturating_sub(2), hole.unwrap_or(0) as usize, rng.below(cnt as u64) as usize];
                    let i = *rng.pick(&cand); let i = if i < cnt { i } else { cnt - 1 };
                    let x = cur[i] as usize; probes_t.push(x); probes_t.push(cur[cnt - 1] as usize);
                    hole = Some(i as u32);
                    r = t.unbind(x); label = "tb.unbind"; call = format!("TbUnbind {}", x);
                }
                8 => { let x = if next < nu { next } else { 0 }; probes_t.push(x); r = t.unbind(x); label = "tb.unbind"; call = format!("TbUnbind {}", x); }
                _ => {
                    let k = 1 + rng.below(9) as usize;
                    let mut ts: std::vec::Vec<usize> = vec![];
                    for _ in 0..k { if next < nu { ts.push(next); next += 1; } }
                    if rng.chance(1, 6) && cnt > 0 { ts.push(cur[rng.below(cnt as u64) as usize] as usize); }
                    if rng.chance(1, 8) && !ts.is_empty() { let d = ts[0]; ts.push(d); }
                    if let Some(x) = ts.last() { probes_t.push(*x); }
                    r = t.bind_many(&ts); label = "tb.bind_many"; call = tb_many_call(&ts);
                }
            }
            let cnt2 = t.linked().len() as u32;
            let mut idx: std::vec::Vec<u32> = vec![0, (bs - 1) as u32, bs as u32, (bs + 1) as u32, (2 * bs - 1) as u32, (2 * bs) as u32,
                                                  cnt2.saturating_sub(1), cnt2, cnt2 + 1, u32::MAX, rng.below(cnt2 as u64 + 1) as u32];
            if let Some(h) = hole { idx.push(h); }
            idx.sort(); idx.dedup();
            probes_t.push(0); probes_t.sort(); probes_t.dedup();
            tr.push(out, label, &call, r, t.queries(true, &probes_t, &idx));
        }
        let n = tr.len();
        out.trace("binder/bucket-boundary", format!("{} {}", tb_header(), list(&tr.ev)), n);
    }

    // C. batch-size limit: exactly 2*BUCKET_SIZE is accepted, one more is refused
    {
        let nu = 4 * bs + 2;
        let t = Tb::new(nu);
        let mut tr = Tr::new();
        let ts: std::vec::Vec<usize> = (0..2 * bs + 1).collect();
        let r = t.bind_many(&ts);
        tr.push(out, "tb.bind_many.batch_limit", &tb_many_call(&ts), r, t.queries(true, &[0], &[0]));
        let ts: std::vec::Vec<usize> = (0..2 * bs).collect();
        let r = t.bind_many(&ts);
        tr.push(out, "tb.bind_many.batch_limit", &tb_many_call(&ts), r, t.queries(true, &[0, 2 * bs - 1, 2 * bs], &[0, (2 * bs - 1) as u32, (2 * bs) as u32]));
        let ts: std::vec::Vec<usize> = (2 * bs..4 * bs + 1).collect();
        let r = t.bind_many(&ts);
        tr.push(out, "tb.bind_many.batch_limit", &tb_many_call(&ts), r, t.queries(true, &[2 * bs], &[(2 * bs) as u32]));
        let n = tr.len();
        out.trace("binder/batch-limit", format!("{} {}", tb_header(), list(&tr.ev)), n);
    }

    // D. the capacity limit MAX_TOKENS: at the limit and one past it (light queries)
    {
        let nu = maxt + 3;
        let t = Tb::new(nu);
        let mut tr = Tr::new();
        let mut next = 0usize;
        let mut header = tb_header();
        let light = |t: &Tb, toks: &[usize], cnt: usize| -> std::vec::Vec<String> {
            t.queries(false, toks, &[0, (cnt as u32).saturating_sub(1), cnt as u32, (maxt - 1) as u32, maxt as u32])
        };
        // fill up to MAX - tail: thorough tier through genuine batches, quick tier by the fixture.  (One ACCEPTED batch
        // at this size costs ~0.8 GB of host objects whatever its length: bind_tokens builds a Map of all bound tokens
        // by 10^4 copying insertions; the quick tier therefore does exactly one.)
        let tail = if thorough { bs } else { 10 };
        if thorough {
            while next < maxt - tail {
                let k = (maxt - tail - next).min(2 * bs);
                let ts: std::vec::Vec<usize> = (next..next + k).collect(); next += k;
                let r = t.bind_many(&ts);
                tr.push(out, "tb.bind_many", &tb_many_call(&ts), r, light(&t, &[ts[0]], next));
            }
        } else {
            let ts: std::vec::Vec<usize> = (0..maxt - tail).collect(); next = maxt - tail;
            if t.preload(&ts).is_none() { panic!("binder preload fixture failed"); }
            header = format!("TrBinder {} {} {}", tbl::BUCKET_SIZE, tbl::MAX_TOKENS, nlist(&ts.iter().map(|x| *x as u64).collect::<std::vec::Vec<_>>()));
        }
        advance(&t.e, 4_000_000);
        tr.advance(out, "tb", 4_000_000, "tt", light(&t, &[0, next - 1], next));
        // a batch that would end one past the limit is refused, the one ending at the limit accepted
        let ts: std::vec::Vec<usize> = (next..next + tail + 1).collect();
        let r = t.bind_many(&ts);
        tr.push(out, "tb.bind_many.limit", &tb_many_call(&ts), r, light(&t, &[next], next));
        let ts: std::vec::Vec<usize> = (next..next + tail).collect(); next += tail;
        let r = t.bind_many(&ts);
        tr.push(out, "tb.bind_many.limit", &tb_many_call(&ts), r, light(&t, &[next - 1], next));
        // at the limit
        let r = t.bind(next);
        tr.push(out, "tb.bind.limit", &format!("TbBind {}", next), r, light(&t, &[next], maxt));
        let r = t.bind_many(&[next]);
        tr.push(out, "tb.bind_many.limit", &tb_many_call(&[next]), r, light(&t, &[next], maxt));
        if thorough { // (each batch call that passes the size checks costs seconds at this size)
            let r = t.bind_many(&[]);
            tr.push(out, "tb.bind_many.limit", &tb_many_call(&[]), r, light(&t, &[next], maxt));
        }
        advance(&t.e, 600_000);
        tr.advance(out, "tb", 600_000, "tt", light(&t, &[0, maxt - 1, maxt], maxt));
        let victim = rng.below(maxt as u64) as usize;
        let r = t.unbind(victim);
        tr.push(out, "tb.unbind", &format!("TbUnbind {}", victim), r, light(&t, &[victim, maxt - 1], maxt - 1));
        let r = t.bind(next);
        tr.push(out, "tb.bind.limit", &format!("TbBind {}", next), r, light(&t, &[next, victim], maxt));
        let r = t.bind(next + 1);
        tr.push(out, "tb.bind.limit", &format!("TbBind {}", next + 1), r, light(&t, &[next + 1], maxt));
        let r = t.unbind(next);
        tr.push(out, "tb.unbind", &format!("TbUnbind {}", next), r, light(&t, &[next], maxt - 1));
        let r = t.bind_many(&[victim, next + 1]);
        tr.push(out, "tb.bind_many.limit", &tb_many_call(&[victim, next + 1]), r, light(&t, &[victim], maxt - 1));
        if thorough {
            let r = t.bind_many(&[victim]);
            tr.push(out, "tb.bind_many.limit", &tb_many_call(&[victim]), r, light(&t, &[victim], maxt));
        }
        let r = t.bind(victim);
        tr.push(out, "tb.bind.limit", &format!("TbBind {}", victim), r, t.queries(true, &[victim, next, next + 1], &[0, (maxt - 1) as u32, maxt as u32]));
        let n = tr.len();
        out.trace("binder/capacity-limit", format!("{} {}", header, list(&tr.ev)), n);
    }
}


fn unit_ok<E, F>(r: Result<Result<(), E>, F>) -> Option<String> { match r { Ok(Ok(())) => Some("tt".into()), _ => None } }
fn bn32(e: &Env, id: u64) -> BytesN<32> { let mut a = [0u8; 32]; a[24..32].copy_from_slice(&id.to_be_bytes()); BytesN::from_array(e, &a) }
/// the full 256-bit value (equal to `id` for the names / hashes the harness sends)
fn bn32_id(b: &BytesN<32>) -> String { big_dec(&b.to_array()) }

// ------------------------------------------------------------------------------------------
// 2. document manager
// ------------------------------------------------------------------------------------------

/// uri (k, len): `len` characters whose content depends on k and on the position; printed IN FULL
/// (the number 0x01 || bytes) together with its length
fn uri_string(k: u64, len: u64) -> std::string::String {
    (0..len).map(|i| char::from(b'a' + ((k * 7 + i * (k + 1)) % 26) as u8)).collect()
}
fn uri_of(e: &Env, k: u64, len: u64) -> SString { SString::from_str(e, &uri_string(k, len)) }
fn uri_coq(k: u64, len: u64) -> String { format!("{} {}", enc(uri_string(k, len).as_bytes()), len) }
fn doc_coq(d: &dml::Document) -> String {
    let u = sbytes(&d.uri);
    format!("(Build_doc {} {} {} {})", enc(&u), u.len(), bn32_id(&d.document_hash), d.timestamp)
}
fn entry_coq(x: &(BytesN<32>, dml::Document)) -> String { format!("({}, {})", bn32_id(&x.0), doc_coq(&x.1)) }

struct Dm<'a> { e: Env, c: DocsCClient<'a>, ts: u64 }
impl<'a> Dm<'a> {
    fn new() -> Dm<'a> {
        let e = new_env();
        let id = e.register(DocsC, ());
        let c = DocsCClient::new(&e, &id);
        Dm { e, c, ts: 1000 }
    }
    fn count(&self) -> u32 { tryv!(self.c.try_count()).unwrap_or(0) }
    /// returns (call text, outcome)
    fn set(&mut self, name: u64, k: u64, len: u64, hash: u64, rng: &mut Rng) -> (String, Option<String>) { let d = rng.below(3); self.set_d(name, k, len, hash, d) }
    /// (dts: seconds passing before the call)
    fn set_d(&mut self, name: u64, k: u64, len: u64, hash: u64, dts: u64) -> (String, Option<String>) {
        self.ts += dts;
        let ts = self.ts;
        self.e.ledger().with_mut(|l| l.timestamp = ts);
        let r = unit_ok(self.c.try_set_doc(&bn32(&self.e, name), &uri_of(&self.e, k, len), &bn32(&self.e, hash)));
        (format!("DmSet {} (Build_doc {} {} {})", name, uri_coq(k, len), hash, ts), r)
    }
    fn remove(&self, name: u64) -> (String, Option<String>) {
        (format!("DmRemove {}", name), unit_ok(self.c.try_remove_doc(&bn32(&self.e, name))))
    }
    fn queries(&self, names: &[u64], idxs: &[u32], bks: &[u32]) -> std::vec::Vec<String> {
        let mut q = vec![match tryv!(self.c.try_count()) { Some(n) => format!("(DqCount, DaNat {})", n), None => "(DqCount, DaTrap)".into() }];
        for &n in names {
            let r = match self.c.try_get(&bn32(&self.e, n)) { Ok(Ok(d)) => okv(&doc_coq(&d)), _ => "Fail".into() };
            q.push(format!("(DqGet {}, DaDoc {})", n, r));
        }
        for &i in idxs {
            let r = match self.c.try_by_index(&i) { Ok(Ok(x)) => okv(&entry_coq(&x)), _ => "Fail".into() };
            q.push(format!("(DqByIndex {}, DaEntry {})", i, r));
        }
        for &k in bks {
            q.push(match tryv!(self.c.try_bucket(&k)) {
                Some(bk) => { let v: std::vec::Vec<String> = bk.iter().map(|x| entry_coq(&x)).collect(); format!("(DqBucket {}, DaList {})", k, list(&v)) }
                None => format!("(DqBucket {}, DaTrap)", k) });
        }
        q
    }
}
fn dm_header() -> String { format!("TrDocs {} {} {} []", dml::BUCKET_SIZE, dml::MAX_DOCUMENTS, dml::MAX_URI_LEN) }

fn directed_docs(out: &mut Out) {
    let bs = dml::BUCKET_SIZE as u64;
    let maxu = dml::MAX_URI_LEN as u64;
    let order = |d: &Dm| -> std::vec::Vec<u64> {
        (0..d.count()).filter_map(|i| d.c.try_by_index(&i).ok().and_then(|r| r.ok()).map(|x| { let a = x.0.to_array(); let mut b8 = [0u8; 8]; b8.copy_from_slice(&a[24..32]); u64::from_be_bytes(b8) })).collect()
    };
    // 1. small map
    {
        let mut d = Dm::new(); let mut tr = Tr::new(); let names = [0u64, 1, 2, 3];
        let qs = |d: &Dm| d.queries(&names, &(0..d.count() + 2).collect::<std::vec::Vec<u32>>(), &[0, 1]);
        for n in 0..3u64 { let (c, r) = d.set_d(n, 1 + n, 2 + n, n, 1); tr.sit(out, "dm.set", "dm.s.set_new", &c, r, qs(&d)); }
        advance(&d.e, 20); tr.advance(out, "dm", 20, "tt", qs(&d));
        let (c, r) = d.set_d(1, 7, 5, 9, 2); tr.sit(out, "dm.set", "dm.s.update_in_place", &c, r, qs(&d));
        let x = order(&d)[0]; let (c, r) = d.remove(x); tr.sit(out, "dm.remove", "dm.s.remove_first", &c, r, qs(&d));
        let o = order(&d); let x = o[o.len() - 1]; let (c, r) = d.remove(x); tr.sit(out, "dm.remove", "dm.s.remove_last", &c, r, qs(&d));
        advance(&d.e, 4_000_000); tr.advance(out, "dm", 4_000_000, "tt", qs(&d));
        let x = order(&d)[0]; let (c, r) = d.remove(x); tr.sit(out, "dm.remove", "dm.s.remove_only", &c, r, qs(&d));
        let (c, r) = d.remove(x); tr.sit(out, "dm.remove", "dm.s.remove_absent", &c, r, qs(&d));
        let (c, r) = d.set_d(x, 3, 4, 5, 1); tr.sit(out, "dm.set", "dm.s.readd_after_removal", &c, r, qs(&d));
        let (c, r) = d.set_d(3, 2, maxu, 1, 0); tr.sit(out, "dm.set.uri_limit", "dm.s.uri_at_limit", &c, r, qs(&d));
        let (c, r) = d.set_d(2, 2, maxu + 1, 1, 0); tr.sit(out, "dm.set.uri_limit", "dm.s.uri_over_limit", &c, r, qs(&d));
        let (c, r) = d.set_d(x, 2, maxu + 1, 1, 0); tr.sit(out, "dm.set.uri_limit", "dm.s.update_uri_over_limit", &c, r, qs(&d));
        let (c, r) = d.set_d(2, 2, 0, 1, 1); tr.sit(out, "dm.set", "dm.s.uri_empty", &c, r, qs(&d));
        advance(&d.e, 600_000); tr.advance(out, "dm", 600_000, "tt", qs(&d));
        let n = tr.len(); out.trace("docs/directed-small", format!("{} {}", dm_header(), list(&tr.ev)), n);
    }
    // 2. across the bucket boundary: the removed entry's replacement comes from the next bucket; the last bucket
    //    is emptied and reopened; every bucket is read in every event
    {
        let mut d = Dm::new(); let mut tr = Tr::new();
        let pr = |d: &Dm, names: &[u64]| { let c = d.count();
            let mut idx: std::vec::Vec<u32> = vec![0, 3, (bs - 1) as u32, bs as u32, (bs + 1) as u32, c.saturating_sub(1), c, c + 1]; idx.sort(); idx.dedup();
            d.queries(names, &idx, &[0, 1, 2]) };
        for n in 0..bs + 2 { let (c, r) = d.set_d(n, 1 + n % 9, 1 + n % 4, n % 7, n % 2);
            let q = if n + 3 >= bs { pr(&d, &[0, n]) } else { d.queries(&[n], &[n as u32], &[]) };
            tr.sit(out, "dm.set", if n == bs { "dm.s.set_opens_bucket" } else { "dm.s.set_new" }, &c, r, q); }
        advance(&d.e, 17_281); tr.advance(out, "dm", 17_281, "tt", pr(&d, &[0, 3, bs - 1, bs, bs + 1]));
        let x = order(&d)[3]; let (c, r) = d.remove(x); tr.sit(out, "dm.remove", "dm.s.remove_cross_bucket_swap", &c, r, pr(&d, &[x, bs, bs + 1]));
        let x = order(&d)[0]; let (c, r) = d.remove(x); tr.sit(out, "dm.remove", "dm.s.remove_empties_last_bucket", &c, r, pr(&d, &[x, bs, bs + 1]));
        let (c, r) = d.set_d(x, 4, 3, 2, 1); tr.sit(out, "dm.set", "dm.s.set_reopens_bucket", &c, r, pr(&d, &[x, bs]));
        let (c, r) = d.set_d(bs, 5, 6, 3, 1); tr.sit(out, "dm.set", "dm.s.update_in_place", &c, r, pr(&d, &[x, bs]));
        advance(&d.e, 100); tr.advance(out, "dm", 100, "tt", pr(&d, &[x, bs]));
        let n = tr.len(); out.trace("docs/directed-boundary", format!("{} {}", dm_header(), list(&tr.ev)), n);
    }
}

// ---- CLASS histories of the document manager: names / hashes as raw 32-byte values (K2), aliasing (K5), removal orders (K6) ----
impl<'a> Dm<'a> {
    fn set_raw(&mut self, name: &BytesN<32>, k: u64, len: u64, hash: &BytesN<32>, dts: u64) -> (String, Option<String>) {
        self.ts += dts;
        let ts = self.ts;
        self.e.ledger().with_mut(|l| l.timestamp = ts);
        let r = unit_ok(self.c.try_set_doc(name, &uri_of(&self.e, k, len), hash));
        (format!("DmSet {} (Build_doc {} {} {})", bn32_id(name), uri_coq(k, len), bn32_id(hash), ts), r)
    }
    fn remove_raw(&self, name: &BytesN<32>) -> (String, Option<String>) { (format!("DmRemove {}", bn32_id(name)), unit_ok(self.c.try_remove_doc(name))) }
    fn queries_raw(&self, names: &[BytesN<32>], idxs: &[u32], bks: &[u32]) -> std::vec::Vec<String> {
        let mut q = vec![];
        for n in names {
            let r = match self.c.try_get(n) { Ok(Ok(d)) => okv(&doc_coq(&d)), _ => "Fail".into() };
            q.push(format!("(DqGet {}, DaDoc {})", bn32_id(n), r));
        }
        q.extend(self.queries(&[], idxs, bks));
        q
    }
    fn name_at(&self, i: u32) -> BytesN<32> { match self.c.try_by_index(&i) { Ok(Ok(x)) => x.0, _ => bn32(&self.e, 999_999) } }
}
fn classes_docs(out: &mut Out) {
    let mk = |e: &Env| -> std::vec::Vec<BytesN<32>> {
        vec![BytesN::from_array(e, &[0u8; 32]), BytesN::from_array(e, &[0xffu8; 32]), bn32(e, 5), bn32(e, 6), bn32(e, 7), bn32(e, 8)] };
    let qs = |d: &Dm, names: &[BytesN<32>]| { let mut idx: std::vec::Vec<u32> = (0..d.count() + 2).collect(); idx.push(u32::MAX); d.queries_raw(names, &idx, &[0, 1, 1000]) };
    // order a: values and aliasing first, then middle / second-to-last / first / just swapped in / last
    {
        let mut d = Dm::new(); let mut tr = Tr::new(); let nm = mk(&d.e);
        let (c, r) = d.set_raw(&nm[0], 3, 4, &nm[1], 1); tr.sit(out, "dm.set", "dm.s.name_all_zero_hash_all_ones", &c, r, qs(&d, &nm));
        let (c, r) = d.set_raw(&nm[1], 4, 1, &nm[0], 1); tr.sit(out, "dm.set", "dm.s.name_all_ones_hash_all_zero", &c, r, qs(&d, &nm));
        let (c, r) = d.set_raw(&nm[2], 5, 3, &nm[2], 1); tr.sit(out, "dm.set", "dm.s.name_equals_hash", &c, r, qs(&d, &nm));
        let (c, r) = d.set_raw(&nm[2], 5, 3, &nm[2], 0); tr.sit(out, "dm.set", "dm.s.update_identical", &c, r, qs(&d, &nm));
        let (c, r) = d.set_raw(&nm[2], 6, 7, &nm[2], 3); tr.sit(out, "dm.set", "dm.s.update_same_hash_other_uri", &c, r, qs(&d, &nm));
        for i in 3..6 { let (c, r) = d.set_raw(&nm[i], i as u64, 2, &nm[0], 1); tr.sit(out, "dm.set", "dm.s.set_new", &c, r, qs(&d, &nm)); }
        advance(&d.e, 4_000_000); tr.advance(out, "dm", 4_000_000, "tt", qs(&d, &nm));
        let x = d.name_at(2); let (c, r) = d.remove_raw(&x); tr.sit(out, "dm.remove", "dm.s.remove_middle_of_six", &c, r, qs(&d, &nm));
        let x = d.name_at(d.count() - 2); let (c, r) = d.remove_raw(&x); tr.sit(out, "dm.remove", "dm.s.remove_second_to_last", &c, r, qs(&d, &nm));
        let x = d.name_at(0); let (c, r) = d.remove_raw(&x); tr.sit(out, "dm.remove", "dm.s.remove_first", &c, r, qs(&d, &nm));
        let x = d.name_at(0); let (c, r) = d.remove_raw(&x); tr.sit(out, "dm.remove", "dm.s.remove_just_swapped_in", &c, r, qs(&d, &nm));
        let x = d.name_at(d.count() - 1); let (c, r) = d.remove_raw(&x); tr.sit(out, "dm.remove", "dm.s.remove_last", &c, r, qs(&d, &nm));
        let (c, r) = d.set_raw(&nm[0], 9, 2, &nm[3], 1); tr.sit(out, "dm.set", "dm.s.readd_after_removal", &c, r, qs(&d, &nm));
        let (c, r) = d.set_raw(&nm[3], 1, 1, &nm[3], 1); tr.sit(out, "dm.set", "dm.s.readd_after_removal", &c, r, qs(&d, &nm));
        advance(&d.e, 20); tr.advance(out, "dm", 20, "tt", qs(&d, &nm));
        let n = tr.len(); out.trace("docs/classes-order-a", format!("{} {}", dm_header(), list(&tr.ev)), n);
    }
    // order b: last / second-to-last / second of four / first
    {
        let mut d = Dm::new(); let mut tr = Tr::new(); let nm = mk(&d.e);
        for i in 0..6 { let (c, r) = d.set_raw(&nm[i], 1 + i as u64, 1 + i as u64 % 3, &nm[5 - i], i as u64 % 2); tr.sit(out, "dm.set", "dm.s.set_new", &c, r, qs(&d, &nm)); }
        let x = d.name_at(d.count() - 1); let (c, r) = d.remove_raw(&x); tr.sit(out, "dm.remove", "dm.s.remove_last", &c, r, qs(&d, &nm));
        let x = d.name_at(d.count() - 2); let (c, r) = d.remove_raw(&x); tr.sit(out, "dm.remove", "dm.s.remove_second_to_last", &c, r, qs(&d, &nm));
        let x = d.name_at(1); let (c, r) = d.remove_raw(&x); tr.sit(out, "dm.remove", "dm.s.remove_second_of_four", &c, r, qs(&d, &nm));
        let x = d.name_at(0); let (c, r) = d.remove_raw(&x); tr.sit(out, "dm.remove", "dm.s.remove_first", &c, r, qs(&d, &nm));
        advance(&d.e, 600_000); tr.advance(out, "dm", 600_000, "tt", qs(&d, &nm));
        let (c, r) = d.set_raw(&nm[5], 2, 2, &nm[1], 1); tr.sit(out, "dm.set", "dm.s.readd_after_removal", &c, r, qs(&d, &nm));
        let x = d.name_at(1); let (c, r) = d.remove_raw(&x); tr.sit(out, "dm.remove", "dm.s.remove_middle_of_three", &c, r, qs(&d, &nm));
        let n = tr.len(); out.trace("docs/classes-order-b", format!("{} {}", dm_header(), list(&tr.ev)), n);
    }
    // K2: removals and additions exactly at the bucket edge (index BUCKET_SIZE - 1, BUCKET_SIZE)
    {
        let bs = dml::BUCKET_SIZE as u64;
        let mut d = Dm::new(); let mut tr = Tr::new();
        let pr = |d: &Dm, names: &[u64]| { let c = d.count(); let b = bs as u32;
            let mut idx: std::vec::Vec<u32> = vec![0, b - 2, b - 1, b, b + 1, c.saturating_sub(1), c, c + 1, u32::MAX]; idx.sort(); idx.dedup();
            let mut nm: std::vec::Vec<u64> = vec![0, bs - 1, bs, bs + 1]; nm.extend_from_slice(names); nm.sort(); nm.dedup();
            d.queries(&nm, &idx, &[0, 1, 2]) };
        let low = |d: &Dm, i: u32| -> u64 { let a = d.name_at(i).to_array(); let mut b8 = [0u8; 8]; b8.copy_from_slice(&a[24..32]); u64::from_be_bytes(b8) };
        for n in 0..bs + 2 { let (c, r) = d.set_d(n, 1 + n % 9, 1 + n % 4, n % 7, n % 2);
            let q = if n + 3 >= bs { pr(&d, &[n]) } else { d.queries(&[n], &[n as u32], &[]) };
            tr.sit(out, "dm.set", if n == bs { "dm.s.set_opens_bucket" } else { "dm.s.set_new" }, &c, r, q); }
        let x = low(&d, (bs - 1) as u32); let (c, r) = d.remove(x); tr.sit(out, "dm.remove", "dm.s.remove_at_last_slot_of_bucket", &c, r, pr(&d, &[x]));
        let x = low(&d, bs as u32); let (c, r) = d.remove(x); tr.sit(out, "dm.remove", "dm.s.remove_last_alone_in_its_bucket", &c, r, pr(&d, &[x]));
        let x = low(&d, (bs - 1) as u32); let (c, r) = d.remove(x); tr.sit(out, "dm.remove", "dm.s.remove_last_at_bucket_end", &c, r, pr(&d, &[x]));
        advance(&d.e, 17_281); tr.advance(out, "dm", 17_281, "tt", pr(&d, &[]));
        let (c, r) = d.set_d(bs + 7, 3, 3, 3, 1); tr.sit(out, "dm.set", "dm.s.set_fills_bucket", &c, r, pr(&d, &[bs + 7]));
        let (c, r) = d.set_d(bs + 8, 4, 4, 4, 1); tr.sit(out, "dm.set", "dm.s.set_reopens_bucket", &c, r, pr(&d, &[bs + 7, bs + 8]));
        let x = low(&d, (bs - 1) as u32); let (c, r) = d.remove(x); tr.sit(out, "dm.remove", "dm.s.remove_second_to_last_across_buckets", &c, r, pr(&d, &[x, bs + 8]));
        let n = tr.len(); out.trace("docs/classes-bucket-edge", format!("{} {}", dm_header(), list(&tr.ev)), n);
    }
}

fn run_docs(out: &mut Out, rng: &mut Rng) {
    let bs = dml::BUCKET_SIZE as u64;
    let maxd = dml::MAX_DOCUMENTS as u64;
    let maxu = dml::MAX_URI_LEN as u64;
    let thorough = out.cfg.thorough;
    let scale = out.cfg.scale as usize;
    let donly = directed_only();
    directed_docs(out);
    classes_docs(out);

    // A. small universe, every query after every call
    let na = if donly { 0 } else if thorough { 300 } else { 28 } * scale;
    for _ in 0..na {
        let nu = 2 + rng.below(5);
        let mut d = Dm::new();
        let mut tr = Tr::new();
        let names: std::vec::Vec<u64> = (0..nu).collect();
        let ncalls = if thorough { 60 } else { 30 };
        let mut present: std::vec::Vec<u64> = vec![];
        for _ in 0..ncalls {
            if rng.chance(1, 10) {
                let n = *rng.pick(&GAPS); advance(&d.e, n);
                let idx: std::vec::Vec<u32> = (0..d.count() + 2).collect();
                tr.advance(out, "dm", n, "tt", d.queries(&names, &idx, &[0, 1]));
            }
            let (label, call, r);
            match rng.below(10) {
                0..=4 => { let n = rng.below(nu);
                           let len = match rng.below(12) { 0 => 0, 1 => maxu, 2 => maxu + 1, 3 => maxu - 1, _ => 1 + rng.below(6) };
                           let (c2, r2) = d.set(n, 1 + rng.below(9), len, rng.below(4), rng); label = if len >= maxu { "dm.set.uri_limit" } else { "dm.set" }; call = c2; r = r2;
                           if r.is_some() && !present.contains(&n) { present.push(n); } }
                _ => { let n = if !present.is_empty() && rng.chance(3, 4) {
                                   match rng.below(3) { 0 => present[0], 1 => present[present.len() - 1], _ => *rng.pick(&present) } } else { rng.below(nu) };
                       let (c2, r2) = d.remove(n); label = "dm.remove"; call = c2; r = r2;
                       if r.is_some() { present.retain(|x| *x != n); } }
            }
            let idx: std::vec::Vec<u32> = (0..d.count() + 2).collect();
            tr.push(out, label, &call, r, d.queries(&names, &idx, &[0, 1]));
        }
        let n = tr.len();
        out.trace("docs/small", format!("{} {}", dm_header(), list(&tr.ev)), n);
    }

    // A'. thorough tier: EVERY sequence of 5 set / remove operations over 3 names
    if thorough && !donly {
        for seq in all_seqs(6, 5) {
            let mut d = Dm::new();
            let mut tr = Tr::new();
            for (j, op) in seq.iter().enumerate() {
                let n = (*op % 3) as u64;
                let (label, (call, r)) = if *op < 3 { ("dm.set", d.set(n, 1 + j as u64, 2, j as u64, rng)) } else { ("dm.remove", d.remove(n)) };
                let idx: std::vec::Vec<u32> = (0..d.count() + 1).collect();
                tr.push(out, label, &call, r, d.queries(&[0, 1, 2], &idx, &[0, 1]));
            }
            let n = tr.len();
            out.trace("docs/exhaustive", format!("{} {}", dm_header(), list(&tr.ev)), n);
        }
    }

    // B. around the bucket boundaries
    let nb = if donly { 0 } else if thorough { 100 } else { 11 } * scale;
    for it in 0..nb {
        let mut d = Dm::new();
        let mut tr = Tr::new();
        let base = if it % 3 == 2 { 2 * bs } else { bs };
        let start = base - 3 + rng.below(7);
        let mut next = 0u64;
        let mut order: std::vec::Vec<u64> = vec![]; // harness-side mirror of by_index, for choosing victims only
        for _ in 0..start {
            let (call, r) = d.set(next, 1 + rng.below(9), 1 + rng.below(3), next % 7, rng);
            order.push(next); next += 1;
            tr.push(out, "dm.set", &call, r, d.queries(&[], &[], &[]));
        }
        let ncalls = if thorough { 40 } else { 22 };
        for step in 0..ncalls {
            if step == 0 || rng.chance(1, 8) {
                let n = if step == 0 { 4_000_000 } else { *rng.pick(&GAPS) }; advance(&d.e, n);
                let c0 = d.count();
                tr.advance(out, "dm", n, "tt", d.queries(&[0, (bs - 1), bs], &[0, (bs - 1) as u32, bs as u32, c0.saturating_sub(1), c0], &[0, 1, 2, 3]));
            }
            let cnt = d.count() as u64;
            let mut probes: std::vec::Vec<u64> = vec![0];
            let (label, call, r);
            match rng.below(10) {
                0..=2 => { let n = next; next += 1; probes.push(n); let (c2, r2) = d.set(n, 1 + rng.below(9), 1 + rng.below(3), n % 7, rng);
                           if r2.is_some() { order.push(n); } label = "dm.set"; call = c2; r = r2; }
                3 if cnt > 0 && !order.is_empty() => { let n = *rng.pick(&order); probes.push(n); let (c2, r2) = d.set(n, 1 + rng.below(9), 1 + rng.below(3), rng.below(9), rng); label = "dm.set"; call = c2; r = r2; }
                4..=8 if cnt > 0 && !order.is_empty() => {
                    let cnt = cnt.min(order.len() as u64); // (the mirror is only a guide for choosing victims)
                    let cand = [0u64, bs - 1, bs, bs + 1, 2 * bs - 1, 2 * bs, cnt - 1, cnt.saturating_sub(2), rng.below(cnt)];
                    let i = *rng.pick(&cand); let i = if i < cnt { i } else { cnt - 1 };
                    let n = order[i as usize]; probes.push(n); probes.push(order[(cnt - 1) as usize]);
                    let (c2, r2) = d.remove(n);
                    if r2.is_some() { if let Some(last) = order.pop() { if (i as usize) < order.len() { order[i as usize] = last; } } }
                    label = "dm.remove"; call = c2; r = r2;
                }
                _ => { let n = next + 5; probes.push(n); let (c2, r2) = d.remove(n); label = "dm.remove"; call = c2; r = r2; }
            }
            let cnt2 = d.count();
            let mut idx: std::vec::Vec<u32> = vec![0, (bs - 1) as u32, bs as u32, (bs + 1) as u32, (2 * bs - 1) as u32, (2 * bs) as u32,
                                                  cnt2.saturating_sub(1), cnt2, cnt2 + 1, u32::MAX, rng.below(cnt2 as u64 + 1) as u32];
            idx.sort(); idx.dedup(); probes.sort(); probes.dedup();
            tr.push(out, label, &call, r, d.queries(&probes, &idx, &[0, 1, 2, 3]));
        }
        let n = tr.len();
        out.trace("docs/bucket-boundary", format!("{} {}", dm_header(), list(&tr.ev)), n);
    }

    // C. the capacity limit MAX_DOCUMENTS
    {
        let mut header = dm_header();
        let mut d = Dm::new();
        let mut tr = Tr::new();
        if thorough {
            for n in 0..maxd {
                let (call, r) = d.set(n, 1 + n % 9, 1 + n % 3, n % 7, rng);
                let q = if n % 500 == 499 || n + 2 >= maxd { d.queries(&[0, n], &[0, n as u32, (n + 1) as u32], &[]) } else { d.queries(&[], &[], &[]) };
                tr.push(out, "dm.set", &call, r, q);
            }
        } else {
            let n0 = maxd - 2;
            if unit_ok(d.c.try_preload(&(n0 as u32), &d.ts)).is_none() { panic!("docs preload fixture failed"); }
            let ents: std::vec::Vec<String> = (0..n0).map(|i| format!("({}, Build_doc {} {} {})", i, uri_coq(1 + i % 9, 1 + i % 3), i % 7, d.ts)).collect();
            header = format!("TrDocs {} {} {} {}", dml::BUCKET_SIZE, dml::MAX_DOCUMENTS, dml::MAX_URI_LEN, list(&ents));
            for n in n0..maxd {
                let (call, r) = d.set(n, 1 + n % 9, 1 + n % 3, n % 7, rng);
                tr.push(out, "dm.set", &call, r, d.queries(&[0, n], &[0, n as u32, (n + 1) as u32], &[]));
            }
        }
        let lim = |d: &Dm, names: &[u64]| d.queries(names, &[0, (maxd - 1) as u32, maxd as u32], &[(maxd / bs - 1) as u32, (maxd / bs) as u32]);
        advance(&d.e, 4_000_000);
        // (once: EVERY bucket is read, so that the paging is checked for completeness at MAX_DOCUMENTS)
        let allb: std::vec::Vec<u32> = (0..=(maxd / bs) as u32).collect();
        tr.advance(out, "dm", 4_000_000, "tt", d.queries(&[0, maxd - 1], &[0, (maxd - 1) as u32, maxd as u32], &allb));
        let (call, r) = d.set(maxd, 3, 2, 1, rng); tr.push(out, "dm.set.limit", &call, r, lim(&d, &[maxd]));
        let (call, r) = d.set(7, 4, 2, 5, rng); tr.push(out, "dm.set.limit", &call, r, lim(&d, &[7]));   // update at the limit
        let victim = rng.below(maxd);
        let (call, r) = d.remove(victim); tr.push(out, "dm.remove", &call, r, lim(&d, &[victim, maxd - 1]));
        let (call, r) = d.set(maxd, 3, 2, 1, rng); tr.push(out, "dm.set.limit", &call, r, lim(&d, &[maxd, victim]));
        let (call, r) = d.set(maxd + 1, 3, 2, 1, rng); tr.push(out, "dm.set.limit", &call, r, lim(&d, &[maxd + 1]));
        let n = tr.len();
        out.trace("docs/capacity-limit", format!("{} {}", header, list(&tr.ev)), n);
    }
}

// ------------------------------------------------------------------------------------------
// 3. claim topics and trusted issuers
// ------------------------------------------------------------------------------------------

struct Ct<'a> { e: Env, c: CtiCClient<'a>, u: Uni }
impl<'a> Ct<'a> {
    fn new(n: usize) -> Ct<'a> {
        let e = new_env();
        let id = e.register(CtiC, ());
        let c = CtiCClient::new(&e, &id);
        let u = Uni::new(&e, n);
        Ct { e, c, u }
    }
    fn u32s(&self, ts: &[u64]) -> Vec<u32> { let mut v = Vec::new(&self.e); for t in ts { v.push_back(*t as u32); } v }
    fn queries(&self, topics: &[u64], issuers: &[usize], pairs: bool) -> std::vec::Vec<String> {
        let mut q = vec![];
        q.push(match tryv!(self.c.try_get_claim_topics()) { Some(v) => format!("(CqTopics, CaList {})", nlist(&v.iter().map(|x| x as u64).collect::<std::vec::Vec<_>>())), None => "(CqTopics, CaTrap)".into() });
        q.push(match tryv!(self.c.try_get_trusted_issuers()) { Some(v) => format!("(CqIssuers, CaList {})", nlist(&self.u.ids(&v))), None => "(CqIssuers, CaTrap)".into() });
        for &t in topics {
            let r = match self.c.try_get_topic_issuers(&(t as u32)) { Ok(Ok(v)) => okv(&nlist(&self.u.ids(&v))), _ => "Fail".into() };
            q.push(format!("(CqTopicIssuers {}, CaRList {})", t, r));
        }
        for &i in issuers {
            let a = &self.u.a[i];
            let r = match self.c.try_get_issuer_topics(a) { Ok(Ok(v)) => okv(&nlist(&v.iter().map(|x| x as u64).collect::<std::vec::Vec<_>>())), _ => "Fail".into() };
            q.push(format!("(CqIssuerTopics {}, CaRList {})", i, r));
            q.push(match tryv!(self.c.try_is_trusted_issuer(a)) { Some(x) => format!("(CqIsTrusted {}, CaBool {})", i, b(x)), None => format!("(CqIsTrusted {}, CaTrap)", i) });
            if pairs { for &t in topics {
                let r = match self.c.try_has_claim_topic(a, &(t as u32)) { Ok(Ok(x)) => okv(&b(x)), _ => "Fail".into() };
                q.push(format!("(CqHasTopic {} {}, CaRBool {})", i, t, r));
            } }
        }
        let r = match self.c.try_get_all() {
            Ok(Ok(m)) => { let v: std::vec::Vec<String> = m.iter().map(|(k, is)| format!("({}, {})", k, nlist(&self.u.ids(&is)))).collect(); okv(&list(&v)) }
            _ => "Fail".into() };
        q.push(format!("(CqAll, CaMap {})", r));
        q
    }
}
fn cti_header() -> String { format!("TrCTI {} {}", ctim::MAX_CLAIM_TOPICS, ctim::MAX_ISSUERS) }

fn directed_cti(out: &mut Out) {
    let t = Ct::new(4); let mut tr = Tr::new();
    let topics = [1u64, 2, 3, 4]; let issuers = [0usize, 1, 2, 3];
    let qs = |t: &Ct| t.queries(&topics, &issuers, true);
    let cur_t = |t: &Ct| -> std::vec::Vec<u64> { tryv!(t.c.try_get_claim_topics()).map(|v| v.iter().map(|x| x as u64).collect()).unwrap_or_default() };
    let cur_i = |t: &Ct| -> std::vec::Vec<u64> { tryv!(t.c.try_get_trusted_issuers()).map(|v| t.u.ids(&v)).unwrap_or_default() };
    let add_t = |t: &Ct, x: u64| (format!("CtAddTopic {}", x), unit_ok(t.c.try_add_claim_topic(&(x as u32))));
    let rem_t = |t: &Ct, x: u64| (format!("CtRemoveTopic {}", x), unit_ok(t.c.try_remove_claim_topic(&(x as u32))));
    let add_i = |t: &Ct, i: usize, ts: &[u64]| (format!("CtAddIssuer {} {}", i, nlist(ts)), unit_ok(t.c.try_add_trusted_issuer(&t.u.a[i], &t.u32s(ts))));
    let upd_i = |t: &Ct, i: usize, ts: &[u64]| (format!("CtUpdateIssuer {} {}", i, nlist(ts)), unit_ok(t.c.try_update_issuer_topics(&t.u.a[i], &t.u32s(ts))));
    let rem_i = |t: &Ct, i: usize| (format!("CtRemoveIssuer {}", i), unit_ok(t.c.try_remove_trusted_issuer(&t.u.a[i])));
    for x in 1..=3u64 { let (c, r) = add_t(&t, x); tr.sit(out, "cti.add_topic", "cti.s.add_topic", &c, r, qs(&t)); }
    let (c, r) = add_t(&t, 2); tr.sit(out, "cti.add_topic", "cti.s.add_topic_duplicate", &c, r, qs(&t));
    let (c, r) = add_i(&t, 0, &[3, 1]); tr.sit(out, "cti.add_issuer", "cti.s.add_issuer_permuted_topics", &c, r, qs(&t));
    let (c, r) = add_i(&t, 0, &[1]); tr.sit(out, "cti.add_issuer", "cti.s.add_issuer_duplicate", &c, r, qs(&t));
    let (c, r) = add_i(&t, 1, &[]); tr.sit(out, "cti.add_issuer", "cti.s.add_issuer_no_topics", &c, r, qs(&t));
    let (c, r) = add_i(&t, 1, &[1, 1]); tr.sit(out, "cti.add_issuer", "cti.s.add_issuer_repeated_topic", &c, r, qs(&t));
    let (c, r) = add_i(&t, 1, &[1, 4]); tr.sit(out, "cti.add_issuer", "cti.s.add_issuer_unknown_topic", &c, r, qs(&t));
    let (c, r) = add_i(&t, 1, &[1, 2]); tr.sit(out, "cti.add_issuer", "cti.s.add_issuer", &c, r, qs(&t));
    let (c, r) = add_i(&t, 2, &[2]); tr.sit(out, "cti.add_issuer", "cti.s.add_issuer", &c, r, qs(&t));
    advance(&t.e, 100); tr.advance(out, "cti", 100, "tt", qs(&t));
    let (c, r) = upd_i(&t, 1, &[3, 2]); tr.sit(out, "cti.update_issuer", "cti.s.update_adds_and_removes", &c, r, qs(&t));
    let (c, r) = upd_i(&t, 3, &[1]); tr.sit(out, "cti.update_issuer", "cti.s.update_absent_issuer", &c, r, qs(&t));
    let (c, r) = upd_i(&t, 1, &[]); tr.sit(out, "cti.update_issuer", "cti.s.update_no_topics", &c, r, qs(&t));
    let x = cur_t(&t)[0]; let (c, r) = rem_t(&t, x); tr.sit(out, "cti.remove_topic", "cti.s.remove_topic_first_held_by_issuer", &c, r, qs(&t));
    let l = cur_t(&t); let x = l[l.len() - 1]; let (c, r) = rem_t(&t, x); tr.sit(out, "cti.remove_topic", "cti.s.remove_topic_last_leaves_issuer_without_topics", &c, r, qs(&t));
    advance(&t.e, 4_000_000); tr.advance(out, "cti", 4_000_000, "tt", qs(&t));
    let (c, r) = rem_t(&t, x); tr.sit(out, "cti.remove_topic", "cti.s.remove_topic_absent", &c, r, qs(&t));
    let (c, r) = add_t(&t, x); tr.sit(out, "cti.add_topic", "cti.s.readd_topic_after_removal", &c, r, qs(&t));
    let i = cur_i(&t)[0] as usize; let (c, r) = rem_i(&t, i); tr.sit(out, "cti.remove_issuer", "cti.s.remove_issuer_first", &c, r, qs(&t));
    let l = cur_i(&t); let i = l[l.len() - 1] as usize; let (c, r) = rem_i(&t, i); tr.sit(out, "cti.remove_issuer", "cti.s.remove_issuer_last", &c, r, qs(&t));
    let i = cur_i(&t)[0] as usize; let (c, r) = rem_i(&t, i); tr.sit(out, "cti.remove_issuer", "cti.s.remove_issuer_only", &c, r, qs(&t));
    let (c, r) = rem_i(&t, i); tr.sit(out, "cti.remove_issuer", "cti.s.remove_issuer_absent", &c, r, qs(&t));
    let (c, r) = add_i(&t, i, &[2]); tr.sit(out, "cti.add_issuer", "cti.s.readd_issuer_after_removal", &c, r, qs(&t));
    let (c, r) = rem_t(&t, x); tr.sit(out, "cti.remove_topic", "cti.s.remove_topic", &c, r, qs(&t));
    let x = cur_t(&t)[0]; let (c, r) = rem_t(&t, x); tr.sit(out, "cti.remove_topic", "cti.s.remove_topic_only", &c, r, qs(&t));
    advance(&t.e, 20); tr.advance(out, "cti", 20, "tt", qs(&t));
    let n = tr.len(); out.trace("cti/directed", format!("{} {}", cti_header(), list(&tr.ev)), n);
}

/// CLASS histories of claim topics / trusted issuers: the registry's own address and another registered contract as
/// issuers (K1), topics 0 and u32::MAX, repeated / unknown topics in an update (K2), an update to the same set (K5),
/// removals of the middle / second-to-last / first / last of five topics and of five issuers (K6)
fn classes_cti(out: &mut Out) {
    let e = new_env();
    let id = e.register(CtiC, ());
    let c = CtiCClient::new(&e, &id);
    let mut a: std::vec::Vec<Address> = (0..3).map(|_| Address::generate(&e)).collect();
    a.push(id.clone()); a.push(e.register(RegistryMock, ()));
    let t = Ct { e, c, u: Uni::of(a) }; let mut tr = Tr::new();
    let (own, other) = (3usize, 4usize); let mx = u32::MAX as u64;
    let topics = [0u64, mx, 1, 2, 3, 9]; let issuers = [0usize, 1, 2, 3, 4];
    let qs = |t: &Ct| t.queries(&topics, &issuers, true);
    let cur_t = |t: &Ct| -> std::vec::Vec<u64> { tryv!(t.c.try_get_claim_topics()).map(|v| v.iter().map(|x| x as u64).collect()).unwrap_or_default() };
    let cur_i = |t: &Ct| -> std::vec::Vec<u64> { tryv!(t.c.try_get_trusted_issuers()).map(|v| t.u.ids(&v)).unwrap_or_default() };
    let add_t = |t: &Ct, x: u64| (format!("CtAddTopic {}", x), unit_ok(t.c.try_add_claim_topic(&(x as u32))));
    let rem_t = |t: &Ct, x: u64| (format!("CtRemoveTopic {}", x), unit_ok(t.c.try_remove_claim_topic(&(x as u32))));
    let add_i = |t: &Ct, i: usize, ts: &[u64]| (format!("CtAddIssuer {} {}", i, nlist(ts)), unit_ok(t.c.try_add_trusted_issuer(&t.u.a[i], &t.u32s(ts))));
    let upd_i = |t: &Ct, i: usize, ts: &[u64]| (format!("CtUpdateIssuer {} {}", i, nlist(ts)), unit_ok(t.c.try_update_issuer_topics(&t.u.a[i], &t.u32s(ts))));
    let rem_i = |t: &Ct, i: usize| (format!("CtRemoveIssuer {}", i), unit_ok(t.c.try_remove_trusted_issuer(&t.u.a[i])));
    let at = |l: std::vec::Vec<u64>, back: usize| -> u64 { if l.len() > back { l[l.len() - 1 - back] } else { 0 } };
    let (c, r) = add_t(&t, 0); tr.sit(out, "cti.add_topic", "cti.s.add_topic_zero", &c, r, qs(&t));
    let (c, r) = add_t(&t, mx); tr.sit(out, "cti.add_topic", "cti.s.add_topic_u32_max", &c, r, qs(&t));
    let (c, r) = add_t(&t, 0); tr.sit(out, "cti.add_topic", "cti.s.add_topic_zero_duplicate", &c, r, qs(&t));
    for x in 1..=3u64 { let (c, r) = add_t(&t, x); tr.sit(out, "cti.add_topic", "cti.s.add_topic", &c, r, qs(&t)); }
    let (c, r) = add_i(&t, own, &[0, mx]); tr.sit(out, "cti.add_issuer", "cti.s.add_issuer_own_address", &c, r, qs(&t));
    let (c, r) = add_i(&t, own, &[1]); tr.sit(out, "cti.add_issuer", "cti.s.add_issuer_own_address_duplicate", &c, r, qs(&t));
    let (c, r) = add_i(&t, other, &[1]); tr.sit(out, "cti.add_issuer", "cti.s.add_issuer_registered_contract", &c, r, qs(&t));
    let (c, r) = add_i(&t, 0, &[1, 2, 3]); tr.sit(out, "cti.add_issuer", "cti.s.add_issuer", &c, r, qs(&t));
    let (c, r) = add_i(&t, 1, &[2, 0]); tr.sit(out, "cti.add_issuer", "cti.s.add_issuer", &c, r, qs(&t));
    let (c, r) = add_i(&t, 2, &[3]); tr.sit(out, "cti.add_issuer", "cti.s.add_issuer", &c, r, qs(&t));
    let (c, r) = upd_i(&t, 0, &[1, 2, 3]); tr.sit(out, "cti.update_issuer", "cti.s.update_same_topics", &c, r, qs(&t));
    let (c, r) = upd_i(&t, 0, &[3, 1, 2]); tr.sit(out, "cti.update_issuer", "cti.s.update_permuted_same_set", &c, r, qs(&t));
    let (c, r) = upd_i(&t, 0, &[1, 1]); tr.sit(out, "cti.update_issuer", "cti.s.update_repeated_topic", &c, r, qs(&t));
    let (c, r) = upd_i(&t, 0, &[1, 9]); tr.sit(out, "cti.update_issuer", "cti.s.update_unknown_topic", &c, r, qs(&t));
    let (c, r) = upd_i(&t, own, &[mx]); tr.sit(out, "cti.update_issuer", "cti.s.update_own_address", &c, r, qs(&t));
    advance(&t.e, 4_000_000); tr.advance(out, "cti", 4_000_000, "tt", qs(&t));
    // issuers in order [own, other, 0, 1, 2]
    let i = cur_i(&t).get(2).cloned().unwrap_or(0) as usize; let (c, r) = rem_i(&t, i); tr.sit(out, "cti.remove_issuer", "cti.s.remove_issuer_middle_of_five", &c, r, qs(&t));
    let i = at(cur_i(&t), 1) as usize; let (c, r) = rem_i(&t, i); tr.sit(out, "cti.remove_issuer", "cti.s.remove_issuer_second_to_last", &c, r, qs(&t));
    let (c, r) = rem_i(&t, own); tr.sit(out, "cti.remove_issuer", "cti.s.remove_issuer_own_address", &c, r, qs(&t));
    let i = at(cur_i(&t), 0) as usize; let (c, r) = rem_i(&t, i); tr.sit(out, "cti.remove_issuer", "cti.s.remove_issuer_last_of_two", &c, r, qs(&t));
    let (c, r) = add_i(&t, own, &[mx, 2]); tr.sit(out, "cti.add_issuer", "cti.s.readd_own_address", &c, r, qs(&t));
    let (c, r) = add_i(&t, 1, &[0, 1, 2, 3, mx]); tr.sit(out, "cti.add_issuer", "cti.s.add_issuer_all_topics", &c, r, qs(&t));
    // topics in order [0, MAX, 1, 2, 3]
    let x = cur_t(&t).get(2).cloned().unwrap_or(0); let (c, r) = rem_t(&t, x); tr.sit(out, "cti.remove_topic", "cti.s.remove_topic_middle_of_five", &c, r, qs(&t));
    let x = at(cur_t(&t), 1); let (c, r) = rem_t(&t, x); tr.sit(out, "cti.remove_topic", "cti.s.remove_topic_second_to_last", &c, r, qs(&t));
    let (c, r) = rem_t(&t, 0); tr.sit(out, "cti.remove_topic", "cti.s.remove_topic_zero", &c, r, qs(&t));
    let x = at(cur_t(&t), 0); let (c, r) = rem_t(&t, x); tr.sit(out, "cti.remove_topic", "cti.s.remove_topic_last_of_two", &c, r, qs(&t));
    let (c, r) = add_t(&t, 0); tr.sit(out, "cti.add_topic", "cti.s.readd_topic_zero", &c, r, qs(&t));
    let (c, r) = rem_t(&t, mx); tr.sit(out, "cti.remove_topic", "cti.s.remove_topic_u32_max", &c, r, qs(&t));
    advance(&t.e, 100); tr.advance(out, "cti", 100, "tt", qs(&t));
    let n = tr.len(); out.trace("cti/classes", format!("{} {}", cti_header(), list(&tr.ev)), n);
}

fn run_cti(out: &mut Out, rng: &mut Rng) {
    let maxt = ctim::MAX_CLAIM_TOPICS as u64;
    let maxi = ctim::MAX_ISSUERS as usize;
    let thorough = out.cfg.thorough;
    let scale = out.cfg.scale as usize;
    let donly = directed_only();
    directed_cti(out);
    classes_cti(out);
    // A. small universes
    let na = if donly { 0 } else if thorough { 400 } else { 42 } * scale;
    for _ in 0..na {
        let nt = 2 + rng.below(5); let ni = 2 + rng.below(3) as usize;
        let t = Ct::new(ni);
        let mut tr = Tr::new();
        let topics: std::vec::Vec<u64> = (1..=nt).collect();
        let issuers: std::vec::Vec<usize> = (0..ni).collect();
        let ncalls = if thorough { 50 } else { 28 };
        for step in 0..ncalls {
            if step > 2 && rng.chance(1, 10) {
                let n = *rng.pick(&GAPS); advance(&t.e, n);
                tr.advance(out, "cti", n, "tt", t.queries(&topics, &issuers, true));
            }
            let cur_t: std::vec::Vec<u64> = tryv!(t.c.try_get_claim_topics()).map(|v| v.iter().map(|x| x as u64).collect()).unwrap_or_default();
            let cur_i: std::vec::Vec<u64> = tryv!(t.c.try_get_trusted_issuers()).map(|v| t.u.ids(&v)).unwrap_or_default();
            let subset = |rng: &mut Rng| -> std::vec::Vec<u64> {
                // mostly a non-empty duplicate-free subset of the existing topics, in random order;
                // sometimes empty / with a duplicate / with an unknown or removed topic
                let mut pool: std::vec::Vec<u64> = if cur_t.is_empty() { topics.clone() } else { cur_t.clone() };
                for i in (1..pool.len()).rev() { let j = rng.below(i as u64 + 1) as usize; pool.swap(i, j); }
                let k = 1 + rng.below(pool.len().min(4) as u64) as usize;
                let mut v: std::vec::Vec<u64> = pool[..k].to_vec();
                match rng.below(14) {
                    0 => v.clear(),
                    1 => { let x = v[0]; v.push(x); }
                    2 => v.push(*rng.pick(&topics)),
                    _ => {}
                }
                v
            };
            let (label, call, r);
            let choice = if step < 2 { 0 } else { rng.below(14) };
            match choice {
                0..=2 => { let x = 1 + rng.below(nt); r = unit_ok(t.c.try_add_claim_topic(&(x as u32))); label = "cti.add_topic"; call = format!("CtAddTopic {}", x); }
                3..=4 => { let x = if !cur_t.is_empty() && rng.chance(3, 4) { match rng.below(3) { 0 => cur_t[0], 1 => cur_t[cur_t.len() - 1], _ => *rng.pick(&cur_t) } } else { 1 + rng.below(nt) };
                           r = unit_ok(t.c.try_remove_claim_topic(&(x as u32))); label = "cti.remove_topic"; call = format!("CtRemoveTopic {}", x); }
                5..=7 => { let i = rng.below(ni as u64) as usize; let ts = subset(rng);
                           r = unit_ok(t.c.try_add_trusted_issuer(&t.u.a[i], &t.u32s(&ts))); label = "cti.add_issuer"; call = format!("CtAddIssuer {} {}", i, nlist(&ts)); }
                8..=9 => { let i = if !cur_i.is_empty() && rng.chance(3, 4) { *rng.pick(&cur_i) as usize } else { rng.below(ni as u64) as usize };
                           r = unit_ok(t.c.try_remove_trusted_issuer(&t.u.a[i])); label = "cti.remove_issuer"; call = format!("CtRemoveIssuer {}", i); }
                _ => { let i = if !cur_i.is_empty() && rng.chance(4, 5) { *rng.pick(&cur_i) as usize } else { rng.below(ni as u64) as usize }; let ts = subset(rng);
                       r = unit_ok(t.c.try_update_issuer_topics(&t.u.a[i], &t.u32s(&ts))); label = "cti.update_issuer"; call = format!("CtUpdateIssuer {} {}", i, nlist(&ts)); }
            }
            tr.push(out, label, &call, r, t.queries(&topics, &issuers, true));
        }
        let n = tr.len();
        out.trace("cti/small", format!("{} {}", cti_header(), list(&tr.ev)), n);
    }
    // B. limits: MAX_CLAIM_TOPICS and MAX_ISSUERS, at the limit and one past it
    let nbl = if thorough { 6 } else { 1 } * scale;
    for _ in 0..nbl {
        let t = Ct::new(maxi + 2);
        let mut tr = Tr::new();
        let all_t: std::vec::Vec<u64> = (1..=maxt + 1).collect();
        for x in 1..=maxt + 1 {
            let r = unit_ok(t.c.try_add_claim_topic(&(x as u32)));
            tr.push(out, if x >= maxt { "cti.add_topic.limit" } else { "cti.add_topic" }, &format!("CtAddTopic {}", x), r, t.queries(&[x], &[], false));
        }
        let victim = 1 + rng.below(maxt);
        let r = unit_ok(t.c.try_remove_claim_topic(&(victim as u32)));
        tr.push(out, "cti.remove_topic", &format!("CtRemoveTopic {}", victim), r, t.queries(&all_t, &[], false));
        for x in [maxt + 1, maxt + 2] {
            let r = unit_ok(t.c.try_add_claim_topic(&(x as u32)));
            tr.push(out, "cti.add_topic.limit", &format!("CtAddTopic {}", x), r, t.queries(&[x], &[], false));
        }
        // issuers: every one with a few topics; the first with ALL topics (a full-size topic list)
        let mut cur_t: std::vec::Vec<u64> = tryv!(t.c.try_get_claim_topics()).map(|v| v.iter().map(|x| x as u64).collect()).unwrap_or_default();
        if cur_t.is_empty() { cur_t.push(1); } // (only when the code under test lost the topics)
        for i in 0..maxi + 1 {
            let ts: std::vec::Vec<u64> = if i == 0 { cur_t.clone() } else { let k = 1 + rng.below(3) as usize; (0..k).map(|j| cur_t[(i + j * 5) % cur_t.len()]).collect::<std::collections::BTreeSet<_>>().into_iter().collect() };
            let r = unit_ok(t.c.try_add_trusted_issuer(&t.u.a[i], &t.u32s(&ts)));
            tr.push(out, if i + 1 >= maxi { "cti.add_issuer.limit" } else { "cti.add_issuer" }, &format!("CtAddIssuer {} {}", i, nlist(&ts)), r, t.queries(&[ts[0]], &[i], false));
        }
        let victim = rng.below(maxi as u64) as usize;
        let r = unit_ok(t.c.try_remove_trusted_issuer(&t.u.a[victim]));
        tr.push(out, "cti.remove_issuer", &format!("CtRemoveIssuer {}", victim), r, t.queries(&cur_t, &[victim, 0], false));
        for i in [maxi, maxi + 1] {
            let ts = vec![cur_t[0]];
            let r = unit_ok(t.c.try_add_trusted_issuer(&t.u.a[i], &t.u32s(&ts)));
            tr.push(out, "cti.add_issuer.limit", &format!("CtAddIssuer {} {}", i, nlist(&ts)), r, t.queries(&cur_t, &[i], false));
        }
        let alli0: std::vec::Vec<usize> = (0..maxi + 2).collect();
        advance(&t.e, 4_000_000);
        tr.advance(out, "cti", 4_000_000, "tt", t.queries(&all_t, &alli0, false));
        // dropping a topic that every issuer of it loses; then the last issuer of a topic
        let x = cur_t[0];
        let r = unit_ok(t.c.try_remove_claim_topic(&(x as u32)));
        let alli: std::vec::Vec<usize> = (0..maxi + 2).collect();
        tr.push(out, "cti.remove_topic", &format!("CtRemoveTopic {}", x), r, t.queries(&all_t, &alli, false));
        let n = tr.len();
        out.trace("cti/limits", format!("{} {}", cti_header(), list(&tr.ev)), n);
    }
}

// ------------------------------------------------------------------------------------------
// 4. claim-issuer signing keys
// ------------------------------------------------------------------------------------------
fn pk_bytes(e: &Env, pk: u64) -> Bytes { if pk == 0 { Bytes::new(e) } else { Bytes::from_array(e, &pk.to_be_bytes()) } }
/// the harness sends the empty byte string (0) or 8 bytes (their non-zero big-endian value); any other byte string is printed via `odd`
fn pk_id(bts: &Bytes) -> String {
    let v = bbytes(bts);
    if v.is_empty() { return "0".into(); }
    if v.len() == 8 { let mut a = [0u8; 8]; a.copy_from_slice(&v); let x = u64::from_be_bytes(a); if x != 0 { return format!("{}", x); } }
    odd(&v)
}

struct Ck<'a> { e: Env, c: KeysCClient<'a>, regs: std::vec::Vec<Address>, u: Uni }
impl<'a> Ck<'a> {
    fn new(nreg: usize) -> Ck<'a> {
        let e = new_env();
        let id = e.register(KeysC, ());
        let c = KeysCClient::new(&e, &id);
        let regs: std::vec::Vec<Address> = (0..nreg).map(|_| e.register(RegistryMock, ())).collect();
        let u = Uni::of(regs.clone());
        Ck { e, c, regs, u }
    }
    /// mode: 0 = registry says true, 1 = false, 2 = traps
    fn allow(&self, pk: u64, reg: usize, scheme: u64, t: u64, mode: u32) -> (String, Option<String>) {
        RegistryMockClient::new(&self.e, &self.regs[reg]).set_mode(&mode);
        let r = unit_ok(self.c.try_allow_key(&pk_bytes(&self.e, pk), &self.regs[reg], &(scheme as u32), &(t as u32)));
        let has = match mode { 0 => "(Ok true)", 1 => "(Ok false)", _ => "Fail" };
        (format!("CkAllow {} {} {} {} {}", pk, reg, scheme, t, has), r)
    }
    fn remove(&self, pk: u64, reg: usize, scheme: u64, t: u64) -> (String, Option<String>) {
        let r = unit_ok(self.c.try_remove_key(&pk_bytes(&self.e, pk), &self.regs[reg], &(scheme as u32), &(t as u32)));
        (format!("CkRemove {} {} {} {}", pk, reg, scheme, t), r)
    }
    fn queries(&self, topics: &[u64], keys: &[(u64, u64)], regs: &[usize], cross: bool) -> std::vec::Vec<String> {
        let mut q = vec![];
        for &t in topics {
            let r = match self.c.try_keys_for_topic(&(t as u32)) {
                Ok(Ok(v)) => okv(&list(&v.iter().map(|k| format!("({}, {})", pk_id(&k.public_key), k.scheme)).collect::<std::vec::Vec<_>>())), _ => "Fail".into() };
            q.push(format!("(KqKeysForTopic {}, KaKeys {})", t, r));
        }
        for &(pk, sc) in keys {
            let r = match self.c.try_registries(&pk_bytes(&self.e, pk), &(sc as u32)) { Ok(Ok(v)) => okv(&nlist(&self.u.ids(&v))), _ => "Fail".into() };
            q.push(format!("(KqRegistries ({}, {}), KaRegs {})", pk, sc, r));
            if cross {
                for &t in topics { q.push(match tryv!(self.c.try_allowed_topic(&pk_bytes(&self.e, pk), &(sc as u32), &(t as u32))) {
                    Some(x) => format!("(KqAllowedTopic ({}, {}) {}, KaBool {})", pk, sc, t, b(x)), None => format!("(KqAllowedTopic ({}, {}) {}, KaTrap)", pk, sc, t) }); }
                for &rg in regs { q.push(match tryv!(self.c.try_allowed_registry(&pk_bytes(&self.e, pk), &(sc as u32), &self.regs[rg])) {
                    Some(x) => format!("(KqAllowedRegistry ({}, {}) {}, KaBool {})", pk, sc, rg, b(x)), None => format!("(KqAllowedRegistry ({}, {}) {}, KaTrap)", pk, sc, rg) }); }
            }
        }
        q
    }
}
fn ck_header() -> String { format!("TrKeys {} {}", cil::MAX_KEYS_PER_TOPIC, cil::MAX_REGISTRIES_PER_KEY) }

fn directed_keys(out: &mut Out) {
    let maxr = cil::MAX_REGISTRIES_PER_KEY as u64;
    // 1. situations
    {
        let k = Ck::new(3); let mut tr = Tr::new();
        let topics = [1u64, 2, 3]; let keys = [(0u64, 101u64), (7, 101), (7, 102), (8, 101)]; let regs = [0usize, 1, 2];
        let qs = |k: &Ck| k.queries(&topics, &keys, &regs, true);
        let (c, r) = k.allow(7, 0, 101, 1, 0); tr.sit(out, "ck.allow", "ck.s.allow_first", &c, r, qs(&k));
        let (c, r) = k.allow(7, 0, 101, 1, 0); tr.sit(out, "ck.allow", "ck.s.allow_duplicate", &c, r, qs(&k));
        let (c, r) = k.allow(7, 1, 101, 1, 0); tr.sit(out, "ck.allow", "ck.s.allow_second_registry", &c, r, qs(&k));
        let (c, r) = k.allow(7, 0, 101, 2, 0); tr.sit(out, "ck.allow", "ck.s.allow_second_topic", &c, r, qs(&k));
        let (c, r) = k.allow(7, 0, 102, 1, 0); tr.sit(out, "ck.allow", "ck.s.allow_other_scheme", &c, r, qs(&k));
        let (c, r) = k.allow(8, 0, 101, 1, 1); tr.sit(out, "ck.allow", "ck.s.allow_registry_says_no", &c, r, qs(&k));
        let (c, r) = k.allow(8, 0, 101, 1, 2); tr.sit(out, "ck.allow", "ck.s.allow_registry_traps", &c, r, qs(&k));
        let (c, r) = k.allow(0, 0, 101, 1, 0); tr.sit(out, "ck.allow", "ck.s.allow_empty_key", &c, r, qs(&k));
        let (c, r) = k.allow(8, 2, 101, 1, 0); tr.sit(out, "ck.allow", "ck.s.allow_second_key_of_topic", &c, r, qs(&k));
        advance(&k.e, 100); tr.advance(out, "ck", 100, "tt", qs(&k));
        let (c, r) = k.remove(7, 0, 101, 1); tr.sit(out, "ck.remove", "ck.s.remove_first_pair", &c, r, qs(&k));
        let (c, r) = k.remove(7, 0, 101, 1); tr.sit(out, "ck.remove", "ck.s.remove_absent", &c, r, qs(&k));
        let (c, r) = k.allow(7, 0, 101, 1, 0); tr.sit(out, "ck.allow", "ck.s.readd_after_removal", &c, r, qs(&k));
        let (c, r) = k.remove(7, 0, 101, 1); tr.sit(out, "ck.remove", "ck.s.remove_last_pair", &c, r, qs(&k));
        advance(&k.e, 4_000_000); tr.advance(out, "ck", 4_000_000, "tt", qs(&k));
        let (c, r) = k.remove(8, 2, 101, 1); tr.sit(out, "ck.remove", "ck.s.remove_only_pair_of_key", &c, r, qs(&k));
        let (c, r) = k.remove(7, 1, 101, 1); tr.sit(out, "ck.remove", "ck.s.remove_last_key_of_topic", &c, r, qs(&k));
        let (c, r) = k.remove(7, 1, 101, 2); tr.sit(out, "ck.remove", "ck.s.remove_other_registry_absent", &c, r, qs(&k));
        let (c, r) = k.remove(7, 0, 101, 2); tr.sit(out, "ck.remove", "ck.s.remove", &c, r, qs(&k));
        let (c, r) = k.remove(7, 0, 102, 1); tr.sit(out, "ck.remove", "ck.s.remove_only_pair_of_key", &c, r, qs(&k));
        advance(&k.e, 20); tr.advance(out, "ck", 20, "tt", qs(&k));
        let n = tr.len(); out.trace("keys/directed", format!("{} {}", ck_header(), list(&tr.ev)), n);
    }
    // 2. the interpretation of MAX_REGISTRIES_PER_KEY: ONE registry under MAX topics exhausts the limit - a second
    //    registry is then refused and get_registries lists the one registry MAX times
    {
        let k = Ck::new(2); let mut tr = Tr::new();
        let key = (7u64, 101u64);
        for t in 1..=maxr { let (c, r) = k.allow(7, 0, 101, t, 0); tr.sit(out, "ck.allow", "ck.s.one_registry_many_topics", &c, r, k.queries(&[t], &[key], &[0, 1], true)); }
        let (c, r) = k.allow(7, 1, 101, 1, 0); tr.sit(out, "ck.allow.reg_limit", "ck.s.second_registry_at_pair_limit", &c, r, k.queries(&[1], &[key], &[0, 1], true));
        let (c, r) = k.allow(7, 0, 101, maxr + 1, 0); tr.sit(out, "ck.allow.reg_limit", "ck.s.same_registry_at_pair_limit", &c, r, k.queries(&[maxr + 1], &[key], &[0, 1], true));
        advance(&k.e, 600_000); tr.advance(out, "ck", 600_000, "tt", k.queries(&[1, maxr], &[key], &[0, 1], true));
        let (c, r) = k.remove(7, 0, 101, 3); tr.sit(out, "ck.remove", "ck.s.remove", &c, r, k.queries(&[3], &[key], &[0, 1], true));
        let (c, r) = k.allow(7, 1, 101, 1, 0); tr.sit(out, "ck.allow.reg_limit", "ck.s.second_registry_below_pair_limit", &c, r, k.queries(&[1], &[key], &[0, 1], true));
        let n = tr.len(); out.trace("keys/directed-one-registry-many-topics", format!("{} {}", ck_header(), list(&tr.ev)), n);
    }
}

// ---- CLASS histories of the claim-issuer keys ----
impl<'a> Ck<'a> {
    /// registries: `nreg` RegistryMocks, then (K1 / K4) the claim issuer's OWN address, an address where NO contract lives,
    /// a contract whose has_claim_topic answers a NUMBER, and a contract WITHOUT that function
    fn new_special(nreg: usize) -> Ck<'a> {
        let e = new_env();
        let id = e.register(KeysC, ());
        let c = KeysCClient::new(&e, &id);
        let mut regs: std::vec::Vec<Address> = (0..nreg).map(|_| e.register(RegistryMock, ())).collect();
        regs.push(id.clone()); regs.push(Address::generate(&e)); regs.push(e.register(OddRegistryMock, ())); regs.push(e.register(PolicyMock, ()));
        let u = Uni::of(regs.clone());
        Ck { e, c, regs, u }
    }
    /// raw key bytes; `has` = what the registry at `reg` answers (as the model's input); mode is set on RegistryMocks only
    fn allow_raw(&self, pk: &Bytes, reg: usize, mode: Option<u32>, scheme: u64, t: u64) -> (String, Option<String>) {
        if let Some(m) = mode { RegistryMockClient::new(&self.e, &self.regs[reg]).set_mode(&m); }
        let r = unit_ok(self.c.try_allow_key(pk, &self.regs[reg], &(scheme as u32), &(t as u32)));
        let has = match mode { Some(0) => "(Ok true)", Some(1) => "(Ok false)", _ => "Fail" };
        (format!("CkAllow {} {} {} {} {}", pk_id(pk), reg, scheme, t, has), r)
    }
    fn remove_raw(&self, pk: &Bytes, reg: usize, scheme: u64, t: u64) -> (String, Option<String>) {
        let r = unit_ok(self.c.try_remove_key(pk, &self.regs[reg], &(scheme as u32), &(t as u32)));
        (format!("CkRemove {} {} {} {}", pk_id(pk), reg, scheme, t), r)
    }
    fn queries_raw(&self, topics: &[u64], keys: &[(Bytes, u64)], regs: &[usize]) -> std::vec::Vec<String> {
        let mut q = vec![];
        for &t in topics {
            let r = match self.c.try_keys_for_topic(&(t as u32)) {
                Ok(Ok(v)) => okv(&list(&v.iter().map(|k| format!("({}, {})", pk_id(&k.public_key), k.scheme)).collect::<std::vec::Vec<_>>())), _ => "Fail".into() };
            q.push(format!("(KqKeysForTopic {}, KaKeys {})", t, r));
        }
        for (pk, sc) in keys {
            let kid = pk_id(pk);
            let r = match self.c.try_registries(pk, &(*sc as u32)) { Ok(Ok(v)) => okv(&nlist(&self.u.ids(&v))), _ => "Fail".into() };
            q.push(format!("(KqRegistries ({}, {}), KaRegs {})", kid, sc, r));
            for &t in topics { q.push(match tryv!(self.c.try_allowed_topic(pk, &(*sc as u32), &(t as u32))) {
                Some(x) => format!("(KqAllowedTopic ({}, {}) {}, KaBool {})", kid, sc, t, b(x)), None => format!("(KqAllowedTopic ({}, {}) {}, KaTrap)", kid, sc, t) }); }
            for &rg in regs { q.push(match tryv!(self.c.try_allowed_registry(pk, &(*sc as u32), &self.regs[rg])) {
                Some(x) => format!("(KqAllowedRegistry ({}, {}) {}, KaBool {})", kid, sc, rg, b(x)), None => format!("(KqAllowedRegistry ({}, {}) {}, KaTrap)", kid, sc, rg) }); }
        }
        q
    }
}
fn classes_keys(out: &mut Out) {
    let mx = u32::MAX as u64;
    // K1 / K4: the registry is the claim issuer itself / no contract / answers another type / lacks the function;
    // K2: topic and scheme 0 and u32::MAX, key byte strings of unusual shapes
    {
        let k = Ck::new_special(2); let mut tr = Tr::new();
        let (own, nocontract, odd_t, nofn) = (2usize, 3usize, 4usize, 5usize);
        let k7 = pk_bytes(&k.e, 7);
        let zero8 = Bytes::from_array(&k.e, &[0u8; 8]); let zero1 = Bytes::from_array(&k.e, &[0u8; 1]);
        let zero32 = Bytes::from_array(&k.e, &[0u8; 32]); let ones33 = Bytes::from_array(&k.e, &[0xffu8; 33]);
        let topics = [0u64, 1, mx]; let regs = [0usize, 1, own, nocontract, odd_t, nofn];
        let keys: std::vec::Vec<(Bytes, u64)> = vec![(k7.clone(), 101), (k7.clone(), 0), (k7.clone(), mx), (zero8.clone(), 101), (zero1.clone(), 101), (zero32.clone(), 101), (ones33.clone(), 101), (Bytes::new(&k.e), 101)];
        let qs = |k: &Ck| k.queries_raw(&topics, &keys, &regs);
        let (c, r) = k.allow_raw(&k7, own, None, 101, 1); tr.sit(out, "ck.allow", "ck.s.allow_registry_is_own_address", &c, r, qs(&k));
        let (c, r) = k.allow_raw(&k7, nocontract, None, 101, 1); tr.sit(out, "ck.allow", "ck.s.allow_registry_not_a_contract", &c, r, qs(&k));
        let (c, r) = k.allow_raw(&k7, odd_t, None, 101, 1); tr.sit(out, "ck.allow", "ck.s.allow_registry_answers_other_type", &c, r, qs(&k));
        let (c, r) = k.allow_raw(&k7, nofn, None, 101, 1); tr.sit(out, "ck.allow", "ck.s.allow_registry_without_the_function", &c, r, qs(&k));
        let (c, r) = k.allow_raw(&k7, 0, Some(0), 101, 0); tr.sit(out, "ck.allow", "ck.s.allow_topic_zero", &c, r, qs(&k));
        let (c, r) = k.allow_raw(&k7, 0, Some(0), 101, mx); tr.sit(out, "ck.allow", "ck.s.allow_topic_u32_max", &c, r, qs(&k));
        let (c, r) = k.allow_raw(&k7, 0, Some(0), 0, 1); tr.sit(out, "ck.allow", "ck.s.allow_scheme_zero", &c, r, qs(&k));
        let (c, r) = k.allow_raw(&k7, 0, Some(0), mx, 1); tr.sit(out, "ck.allow", "ck.s.allow_scheme_u32_max", &c, r, qs(&k));
        let (c, r) = k.allow_raw(&zero8, 1, Some(0), 101, 1); tr.sit(out, "ck.allow", "ck.s.allow_key_eight_zero_bytes", &c, r, qs(&k));
        let (c, r) = k.allow_raw(&zero1, 1, Some(0), 101, 1); tr.sit(out, "ck.allow", "ck.s.allow_key_one_zero_byte", &c, r, qs(&k));
        let (c, r) = k.allow_raw(&zero32, 1, Some(0), 101, 1); tr.sit(out, "ck.allow", "ck.s.allow_key_32_zero_bytes", &c, r, qs(&k));
        let (c, r) = k.allow_raw(&ones33, 1, Some(0), 101, 1); tr.sit(out, "ck.allow", "ck.s.allow_key_33_bytes", &c, r, qs(&k));
        let (c, r) = k.allow_raw(&zero1, 1, Some(0), 101, 1); tr.sit(out, "ck.allow", "ck.s.allow_key_one_zero_byte_duplicate", &c, r, qs(&k));
        advance(&k.e, 4_000_000); tr.advance(out, "ck", 4_000_000, "tt", qs(&k));
        let (c, r) = k.remove_raw(&zero32, 1, 101, 1); tr.sit(out, "ck.remove", "ck.s.remove_key_32_zero_bytes", &c, r, qs(&k));
        let (c, r) = k.remove_raw(&zero8, 1, 101, 1); tr.sit(out, "ck.remove", "ck.s.remove_key_eight_zero_bytes", &c, r, qs(&k));
        let (c, r) = k.remove_raw(&k7, 0, 101, 0); tr.sit(out, "ck.remove", "ck.s.remove_topic_zero", &c, r, qs(&k));
        let (c, r) = k.remove_raw(&k7, own, 101, 1); tr.sit(out, "ck.remove", "ck.s.remove_registry_own_address_absent", &c, r, qs(&k));
        advance(&k.e, 20); tr.advance(out, "ck", 20, "tt", qs(&k));
        let n = tr.len(); out.trace("keys/classes-collaborators-and-values", format!("{} {}", ck_header(), list(&tr.ev)), n);
    }
    // K6: five pairs of one key and five keys of one topic; middle / second-to-last / first / last removed, then re-added
    {
        let k = Ck::new(2); let mut tr = Tr::new();
        let topics = [1u64, 2, 3, 5]; let keys = [(7u64, 101u64), (1, 101), (2, 101), (3, 101), (4, 101), (5, 101)]; let regs = [0usize, 1];
        let qs = |k: &Ck| k.queries(&topics, &keys, &regs, true);
        for (t, rg) in [(1u64, 0usize), (1, 1), (2, 0), (2, 1), (3, 0)] { let (c, r) = k.allow(7, rg, 101, t, 0); tr.sit(out, "ck.allow", "ck.s.allow_five_pairs", &c, r, qs(&k)); }
        let (c, r) = k.remove(7, 0, 101, 2); tr.sit(out, "ck.remove", "ck.s.remove_middle_pair_of_five", &c, r, qs(&k));
        let (c, r) = k.remove(7, 1, 101, 2); tr.sit(out, "ck.remove", "ck.s.remove_second_to_last_pair", &c, r, qs(&k));
        let (c, r) = k.remove(7, 0, 101, 1); tr.sit(out, "ck.remove", "ck.s.remove_first_pair", &c, r, qs(&k));
        let (c, r) = k.remove(7, 0, 101, 3); tr.sit(out, "ck.remove", "ck.s.remove_last_pair", &c, r, qs(&k));
        let (c, r) = k.allow(7, 0, 101, 2, 0); tr.sit(out, "ck.allow", "ck.s.readd_after_removal", &c, r, qs(&k));
        advance(&k.e, 600_000); tr.advance(out, "ck", 600_000, "tt", qs(&k));
        for pk in 1..=5u64 { let (c, r) = k.allow(pk, 0, 101, 5, 0); tr.sit(out, "ck.allow", "ck.s.allow_five_keys_of_topic", &c, r, qs(&k)); }
        let (c, r) = k.remove(3, 0, 101, 5); tr.sit(out, "ck.remove", "ck.s.remove_middle_key_of_topic", &c, r, qs(&k));
        let (c, r) = k.remove(4, 0, 101, 5); tr.sit(out, "ck.remove", "ck.s.remove_second_to_last_key_of_topic", &c, r, qs(&k));
        let (c, r) = k.remove(1, 0, 101, 5); tr.sit(out, "ck.remove", "ck.s.remove_first_key_of_topic", &c, r, qs(&k));
        let (c, r) = k.remove(5, 0, 101, 5); tr.sit(out, "ck.remove", "ck.s.remove_last_key_of_topic", &c, r, qs(&k));
        let (c, r) = k.allow(3, 1, 101, 5, 0); tr.sit(out, "ck.allow", "ck.s.readd_after_removal", &c, r, qs(&k));
        let n = tr.len(); out.trace("keys/classes-removal-orders", format!("{} {}", ck_header(), list(&tr.ev)), n);
    }
}

fn run_keys(out: &mut Out, rng: &mut Rng) {
    let maxk = cil::MAX_KEYS_PER_TOPIC as u64;
    let maxr = cil::MAX_REGISTRIES_PER_KEY as u64;
    let thorough = out.cfg.thorough;
    let scale = out.cfg.scale as usize;
    let donly = directed_only();
    directed_keys(out);
    classes_keys(out);
    // A. small universes
    let na = if donly { 0 } else if thorough { 400 } else { 42 } * scale;
    for _ in 0..na {
        let npk = 1 + rng.below(3); let nt = 1 + rng.below(3); let nr = 1 + rng.below(3) as usize;
        let schemes = [101u64, 102];
        let k = Ck::new(nr);
        let mut tr = Tr::new();
        let topics: std::vec::Vec<u64> = (1..=nt).collect();
        let regs: std::vec::Vec<usize> = (0..nr).collect();
        let mut keys: std::vec::Vec<(u64, u64)> = vec![];
        for pk in 0..=npk { for sc in schemes { keys.push((pk, sc)); } }
        let ncalls = if thorough { 50 } else { 28 };
        let mut allowed: std::vec::Vec<(u64, usize, u64, u64)> = vec![];
        for _ in 0..ncalls {
            if rng.chance(1, 10) {
                let n = *rng.pick(&GAPS); advance(&k.e, n);
                tr.advance(out, "ck", n, "tt", k.queries(&topics, &keys, &regs, true));
            }
            let (label, call, r);
            if rng.chance(3, 5) {
                let pk = if rng.chance(1, 12) { 0 } else { 1 + rng.below(npk) };
                let (rg, sc, t) = (rng.below(nr as u64) as usize, *rng.pick(&schemes), 1 + rng.below(nt));
                let mode = match rng.below(10) { 0 => 1, 1 => 2, _ => 0 };
                let (c2, r2) = k.allow(pk, rg, sc, t, mode); label = "ck.allow"; call = c2; r = r2;
                if r.is_some() { allowed.push((pk, rg, sc, t)); }
            } else {
                let (pk, rg, sc, t) = if !allowed.is_empty() && rng.chance(3, 4) {
                    match rng.below(3) { 0 => allowed[0], 1 => allowed[allowed.len() - 1], _ => *rng.pick(&allowed) }
                } else { (rng.below(npk + 1), rng.below(nr as u64) as usize, *rng.pick(&schemes), 1 + rng.below(nt)) };
                let (c2, r2) = k.remove(pk, rg, sc, t); label = "ck.remove"; call = c2; r = r2;
                if r.is_some() { allowed.retain(|x| *x != (pk, rg, sc, t)); }
            }
            tr.push(out, label, &call, r, k.queries(&topics, &keys, &regs, true));
        }
        let n = tr.len();
        out.trace("keys/small", format!("{} {}", ck_header(), list(&tr.ev)), n);
    }
    // B. MAX_REGISTRIES_PER_KEY: the n-th pair of one key is accepted iff n <= limit (history of defect F5)
    let nb = if thorough { 6 } else { 2 } * scale;
    for it in 0..nb {
        let nr = 5usize; let nt = (maxr as usize + nr) / nr + 1;
        let k = Ck::new(nr);
        let mut tr = Tr::new();
        let key = (7u64, 101u64);
        let mut pairs: std::vec::Vec<(usize, u64)> = vec![];
        for t in 1..=nt as u64 { for rg in 0..nr { pairs.push((rg, t)); } }
        if it % 2 == 1 { for i in (1..pairs.len()).rev() { let j = rng.below(i as u64 + 1) as usize; pairs.swap(i, j); } }
        let topics: std::vec::Vec<u64> = (1..=nt as u64).collect();
        let regs: std::vec::Vec<usize> = (0..nr).collect();
        for (n, &(rg, t)) in pairs.iter().enumerate().take(maxr as usize + 2) {
            let (call, r) = k.allow(key.0, rg, key.1, t, 0);
            tr.push(out, if n as u64 + 2 >= maxr { "ck.allow.reg_limit" } else { "ck.allow" }, &call, r, k.queries(&[t], &[key], &regs, n as u64 + 2 >= maxr));
        }
        advance(&k.e, 4_000_000);
        tr.advance(out, "ck", 4_000_000, "tt", k.queries(&topics, &[key], &regs, true));
        let (vr, vt) = pairs[rng.below(maxr) as usize];
        let (call, r) = k.remove(key.0, vr, key.1, vt);
        tr.push(out, "ck.remove", &call, r, k.queries(&topics, &[key], &regs, true));
        for &(rg, t) in pairs.iter().skip(maxr as usize).take(2) {
            let (call, r) = k.allow(key.0, rg, key.1, t, 0);
            tr.push(out, "ck.allow.reg_limit", &call, r, k.queries(&topics, &[key], &regs, true));
        }
        let n = tr.len();
        out.trace("keys/registries-per-key-limit", format!("{} {}", ck_header(), list(&tr.ev)), n);
    }
    // C. MAX_KEYS_PER_TOPIC
    let nc = if thorough { 4 } else { 1 } * scale;
    for _ in 0..nc {
        let k = Ck::new(2);
        let mut tr = Tr::new();
        let t = 3u64;
        for pk in 1..=maxk + 1 {
            let (call, r) = k.allow(pk, 0, 101, t, 0);
            tr.push(out, if pk + 1 >= maxk { "ck.allow.key_limit" } else { "ck.allow" }, &call, r, k.queries(&[t], &[(pk, 101)], &[0], pk + 1 >= maxk));
        }
        // a key already allowed for the topic may still get another registry at the limit
        let (call, r) = k.allow(5, 1, 101, t, 0);
        tr.push(out, "ck.allow.key_limit", &call, r, k.queries(&[t], &[(5, 101)], &[0, 1], true));
        let victim = 1 + rng.below(maxk);
        let (call, r) = k.remove(victim, 0, 101, t);
        tr.push(out, "ck.remove", &call, r, k.queries(&[t], &[(victim, 101)], &[0, 1], true));
        for pk in [maxk + 1, maxk + 2] {
            let (call, r) = k.allow(pk, 0, 101, t, 0);
            tr.push(out, "ck.allow.key_limit", &call, r, k.queries(&[t], &[(pk, 101)], &[0], true));
        }
        let n = tr.len();
        out.trace("keys/keys-per-topic-limit", format!("{} {}", ck_header(), list(&tr.ev)), n);
    }
}

// ------------------------------------------------------------------------------------------
// 5. identity registry storage
// ------------------------------------------------------------------------------------------

/// country data descriptor: (code, None | Some(entries, len)); code = tag * 2^32 + country where the tag selects
/// the relation variant (0..3 individual: residence, citizenship, source of funds, tax residency; 5..8 organization:
/// incorporation, operating jurisdiction, tax jurisdiction, source of funds).  Metadata: `entries` keys k0, k1, ..
/// each with a value of `len` characters (content depends on the key and the position); printed IN FULL as the
/// list of (key, value) in the order of the host map.
type Cd = (u64, Option<(u64, u64)>);
const TAG: u64 = 1 << 32;
fn cd_make(e: &Env, d: &Cd) -> CountryData {
    let metadata = d.1.map(|(n, len)| {
        let mut m: Map<Symbol, SString> = Map::new(e);
        for i in 0..n {
            let v: std::string::String = (0..len).map(|j| char::from(b'a' + ((i * 5 + j * (i + 1) + d.0) % 26) as u8)).collect();
            m.set(Symbol::new(e, &format!("k{}", i)), SString::from_str(e, &v));
        }
        m
    });
    let c = (d.0 % TAG) as u32;
    let country = match d.0 / TAG {
        0 => CountryRelation::Individual(IndividualCountryRelation::Residence(c)),
        1 => CountryRelation::Individual(IndividualCountryRelation::Citizenship(c)),
        2 => CountryRelation::Individual(IndividualCountryRelation::SourceOfFunds(c)),
        3 => CountryRelation::Individual(IndividualCountryRelation::TaxResidency(c)),
        5 => CountryRelation::Organization(OrganizationCountryRelation::Incorporation(c)),
        6 => CountryRelation::Organization(OrganizationCountryRelation::OperatingJurisdiction(c)),
        7 => CountryRelation::Organization(OrganizationCountryRelation::TaxJurisdiction(c)),
        _ => CountryRelation::Organization(OrganizationCountryRelation::SourceOfFunds(c)),
    };
    CountryData { country, metadata }
}
fn sym_bytes(s: &Symbol) -> std::vec::Vec<u8> { s.to_string().into_bytes() }
fn cd_coq(c: &CountryData) -> String {
    let t = |tag: u64, x: &u32| format!("{}", tag * TAG + *x as u64);
    let custom = |tag: u8, s: &Symbol, x: &u32| { let mut v = vec![tag]; v.extend_from_slice(&x.to_be_bytes()); v.extend_from_slice(&sym_bytes(s)); odd(&v) };
    let code = match &c.country {
        CountryRelation::Individual(r) => match r {
            IndividualCountryRelation::Residence(x) => t(0, x), IndividualCountryRelation::Citizenship(x) => t(1, x),
            IndividualCountryRelation::SourceOfFunds(x) => t(2, x), IndividualCountryRelation::TaxResidency(x) => t(3, x),
            IndividualCountryRelation::Custom(s, x) => custom(4, s, x) },
        CountryRelation::Organization(r) => match r {
            OrganizationCountryRelation::Incorporation(x) => t(5, x), OrganizationCountryRelation::OperatingJurisdiction(x) => t(6, x),
            OrganizationCountryRelation::TaxJurisdiction(x) => t(7, x), OrganizationCountryRelation::SourceOfFunds(x) => t(8, x),
            OrganizationCountryRelation::Custom(s, x) => custom(9, s, x) },
    };
    match &c.metadata {
        None => format!("(Build_cdata {} None)", code),
        Some(m) => format!("(Build_cdata {} (Some {}))", code, list(&m.iter().map(|(k, v)| format!("({}, {})", enc(&sym_bytes(&k)), enc(&sbytes(&v)))).collect::<std::vec::Vec<_>>())),
    }
}
/// the call argument as the contract receives it
fn cd_coq_desc(e: &Env, d: &Cd) -> String { cd_coq(&cd_make(e, d)) }

struct Ir<'a> { e: Env, c: IrsCClient<'a>, u: Uni }
impl<'a> Ir<'a> {
    fn new(n: usize) -> Ir<'a> {
        let e = new_env();
        let id = e.register(IrsC, ());
        let c = IrsCClient::new(&e, &id);
        let u = Uni::new(&e, n);
        Ir { e, c, u }
    }
    fn cds(&self, ds: &[Cd]) -> Vec<CountryData> { let mut v = Vec::new(&self.e); for d in ds { v.push_back(cd_make(&self.e, d)); } v }
    fn queries(&self, accts: &[usize]) -> std::vec::Vec<String> {
        let mut q = vec![];
        for &a in accts {
            let ad = &self.u.a[a];
            let r = match self.c.try_stored_identity(ad) { Ok(Ok(x)) => okv(&nn(self.u.id(&x))), _ => "Fail".into() };
            q.push(format!("(IqIdentity {}, IaAddr {})", a, r));
            let mut ncs = 0u32;
            let r = match self.c.try_profile(ad) {
                Ok(Ok(p)) => { ncs = p.countries.len();
                    okv(&format!("({}, {})", if p.identity_type == IdentityType::Organization { 1 } else { 0 }, list(&p.countries.iter().map(|c| cd_coq(&c)).collect::<std::vec::Vec<_>>()))) }
                _ => "Fail".into() };
            q.push(format!("(IqProfile {}, IaProfile {})", a, r));
            for i in [0u32, ncs.saturating_sub(1), ncs, u32::MAX] {
                let r = match self.c.try_country(ad, &i) { Ok(Ok(c)) => okv(&cd_coq(&c)), _ => "Fail".into() };
                q.push(format!("(IqCountry {} {}, IaCountry {})", a, i, r));
            }
            q.push(match tryv!(self.c.try_countries(ad)) { Some(v) => format!("(IqCountries {}, IaCountries {})", a, list(&v.iter().map(|c| cd_coq(&c)).collect::<std::vec::Vec<_>>())), None => format!("(IqCountries {}, IaTrap)", a) });
            q.push(match tryv!(self.c.try_recovered_to(ad)) {
                Some(Some(x)) => format!("(IqRecovered {}, IaOpt (Some {}))", a, self.u.id(&x)),
                Some(None) => format!("(IqRecovered {}, IaOpt None)", a),
                None => format!("(IqRecovered {}, IaTrap)", a) });
        }
        q
    }
}
fn irs_header() -> String { format!("TrIRS {} {} {}", irl::MAX_COUNTRY_ENTRIES, irl::MAX_METADATA_ENTRIES, irl::MAX_METADATA_STRING_LEN) }

fn directed_irs(out: &mut Out) {
    let maxc = irl::MAX_COUNTRY_ENTRIES as u64;
    let maxm = irl::MAX_METADATA_ENTRIES as u64;
    let maxl = irl::MAX_METADATA_STRING_LEN as u64;
    let cl = |t: &Ir, ds: &[Cd]| list(&ds.iter().map(|d| cd_coq_desc(&t.e, d)).collect::<std::vec::Vec<_>>());
    let add = |t: &Ir, a: usize, id: usize, org: bool, ds: &[Cd]| (format!("IrAdd {} {} {} {}", a, id, if org { 1 } else { 0 }, cl(t, ds)), unit_ok(t.c.try_add_identity(&t.u.a[a], &t.u.a[id], &org, &t.cds(ds))));
    let rec = |t: &Ir, a: usize, nw: usize| (format!("IrRecover {} {}", a, nw), unit_ok(t.c.try_recover_identity(&t.u.a[a], &t.u.a[nw])));
    let rem = |t: &Ir, a: usize| (format!("IrRemove {}", a), unit_ok(t.c.try_remove_identity(&t.u.a[a])));
    let addc = |t: &Ir, a: usize, ds: &[Cd]| (format!("IrAddCountries {} {}", a, cl(t, ds)), unit_ok(t.c.try_add_countries(&t.u.a[a], &t.cds(ds))));
    let modc = |t: &Ir, a: usize, i: u64, d: &Cd| (format!("IrModifyCountry {} {} {}", a, i, cd_coq_desc(&t.e, d)), unit_ok(t.c.try_modify_country(&t.u.a[a], &(i as u32), &cd_make(&t.e, d))));
    let delc = |t: &Ir, a: usize, i: u64| (format!("IrDeleteCountry {} {}", a, i), unit_ok(t.c.try_delete_country(&t.u.a[a], &(i as u32))));
    // 1. identities and recovery links
    {
        let t = Ir::new(6); let mut tr = Tr::new(); let accts = [0usize, 1, 2, 3];
        let qs = |t: &Ir| t.queries(&accts);
        let (c, r) = add(&t, 0, 4, false, &[(1, None)]); tr.sit(out, "irs.add", "irs.s.add", &c, r, qs(&t));
        let (c, r) = add(&t, 0, 5, false, &[(2, None)]); tr.sit(out, "irs.add", "irs.s.add_duplicate", &c, r, qs(&t));
        let (c, r) = add(&t, 1, 5, false, &[]); tr.sit(out, "irs.add", "irs.s.add_without_countries", &c, r, qs(&t));
        let (c, r) = add(&t, 1, 5, true, &[(5 * TAG + 2, Some((2, 3))), (8 * TAG + 3, None)]); tr.sit(out, "irs.add", "irs.s.add_organization", &c, r, qs(&t));
        let (c, r) = (format!("IrModify {} {}", 1, 4), unit_ok(t.c.try_modify_identity(&t.u.a[1], &t.u.a[4]))); tr.sit(out, "irs.modify", "irs.s.modify", &c, r, qs(&t));
        let (c, r) = (format!("IrModify {} {}", 2, 4), unit_ok(t.c.try_modify_identity(&t.u.a[2], &t.u.a[4]))); tr.sit(out, "irs.modify", "irs.s.modify_absent", &c, r, qs(&t));
        advance(&t.e, 100); tr.advance(out, "irs", 100, "tt", qs(&t));
        let (c, r) = rec(&t, 0, 2); tr.sit(out, "irs.recover", "irs.s.recover", &c, r, qs(&t));
        let (c, r) = add(&t, 0, 4, false, &[(1, None)]); tr.sit(out, "irs.add", "irs.s.add_on_recovered_account", &c, r, qs(&t));
        let (c, r) = rec(&t, 1, 0); tr.sit(out, "irs.recover", "irs.s.recover_into_recovered_account", &c, r, qs(&t));
        let (c, r) = rec(&t, 0, 3); tr.sit(out, "irs.recover", "irs.s.recover_from_recovered_account", &c, r, qs(&t));
        let (c, r) = rec(&t, 1, 2); tr.sit(out, "irs.recover", "irs.s.recover_into_registered_account", &c, r, qs(&t));
        let (c, r) = rec(&t, 1, 1); tr.sit(out, "irs.recover", "irs.s.recover_into_itself", &c, r, qs(&t));
        let (c, r) = rem(&t, 1); tr.sit(out, "irs.remove", "irs.s.remove", &c, r, qs(&t));
        let (c, r) = rem(&t, 1); tr.sit(out, "irs.remove", "irs.s.remove_absent", &c, r, qs(&t));
        let (c, r) = add(&t, 1, 5, false, &[(3 * TAG + 7, None)]); tr.sit(out, "irs.add", "irs.s.readd_after_removal", &c, r, qs(&t));
        advance(&t.e, 4_000_000); tr.advance(out, "irs", 4_000_000, "tt", qs(&t));
        let (c, r) = rem(&t, 2); tr.sit(out, "irs.remove", "irs.s.remove_recovery_target", &c, r, qs(&t));
        let (c, r) = add(&t, 0, 4, false, &[(1, None)]); tr.sit(out, "irs.add", "irs.s.add_on_recovered_account", &c, r, qs(&t));
        let (c, r) = add(&t, 2, 4, false, &[(1, None)]); tr.sit(out, "irs.add", "irs.s.readd_recovery_target", &c, r, qs(&t));
        let (c, r) = rec(&t, 2, 3); tr.sit(out, "irs.recover", "irs.s.recover_chain", &c, r, qs(&t));
        let (c, r) = add(&t, 2, 4, false, &[(1, None)]); tr.sit(out, "irs.add", "irs.s.add_on_recovered_account", &c, r, qs(&t));
        let (c, r) = add(&t, 5, 5, false, &[(1 * TAG + 1, None)]); tr.sit(out, "irs.add", "irs.s.account_is_its_identity", &c, r, t.queries(&[0, 1, 2, 3, 5]));
        advance(&t.e, 20); tr.advance(out, "irs", 20, "tt", t.queries(&[0, 1, 2, 3, 5]));
        let n = tr.len(); out.trace("irs/directed", format!("{} {}", irs_header(), list(&tr.ev)), n);
    }
    // 2. MAX_COUNTRY_ENTRIES, MAX_METADATA_ENTRIES, MAX_METADATA_STRING_LEN: at the limit and one past it
    {
        let t = Ir::new(5); let mut tr = Tr::new(); let accts = [0usize, 1, 2];
        let qs = |t: &Ir| t.queries(&accts);
        let many = |n: u64| -> std::vec::Vec<Cd> { (0..n).map(|i| ((i % 4) * TAG + 1 + i, None)).collect() };
        let (c, r) = add(&t, 0, 3, false, &many(maxc + 1)); tr.sit(out, "irs.add", "irs.s.add_countries_over_limit", &c, r, qs(&t));
        let (c, r) = add(&t, 0, 3, false, &many(maxc)); tr.sit(out, "irs.add", "irs.s.add_countries_at_limit", &c, r, qs(&t));
        let (c, r) = addc(&t, 0, &[(99, None)]); tr.sit(out, "irs.add_countries", "irs.s.countries_over_limit", &c, r, qs(&t));
        let (c, r) = add(&t, 1, 4, true, &[(5 * TAG + 1, None)]); tr.sit(out, "irs.add", "irs.s.add_organization", &c, r, qs(&t));
        let (c, r) = delc(&t, 1, 0); tr.sit(out, "irs.delete_country", "irs.s.delete_only_country", &c, r, qs(&t));
        let (c, r) = addc(&t, 1, &many(maxc)); tr.sit(out, "irs.add_countries", "irs.s.countries_over_limit", &c, r, qs(&t));
        let (c, r) = addc(&t, 1, &many(maxc - 1)); tr.sit(out, "irs.add_countries", "irs.s.countries_at_limit", &c, r, qs(&t));
        let (c, r) = addc(&t, 1, &[]); tr.sit(out, "irs.add_countries", "irs.s.add_no_countries", &c, r, qs(&t));
        advance(&t.e, 17_281); tr.advance(out, "irs", 17_281, "tt", qs(&t));
        let (c, r) = delc(&t, 1, 0); tr.sit(out, "irs.delete_country", "irs.s.delete_first_country", &c, r, qs(&t));
        let (c, r) = delc(&t, 1, maxc - 2); tr.sit(out, "irs.delete_country", "irs.s.delete_last_country", &c, r, qs(&t));
        let (c, r) = delc(&t, 1, maxc - 2); tr.sit(out, "irs.delete_country", "irs.s.delete_country_out_of_range", &c, r, qs(&t));
        let (c, r) = addc(&t, 1, &[(7, None), (8, None)]); tr.sit(out, "irs.add_countries", "irs.s.countries_at_limit", &c, r, qs(&t));
        let (c, r) = modc(&t, 1, 0, &(3, Some((maxm, maxl)))); tr.sit(out, "irs.modify_country", "irs.s.metadata_at_both_limits", &c, r, qs(&t));
        let (c, r) = modc(&t, 1, 1, &(3, Some((maxm + 1, 1)))); tr.sit(out, "irs.modify_country", "irs.s.metadata_entries_over_limit", &c, r, qs(&t));
        let (c, r) = modc(&t, 1, 1, &(3, Some((1, maxl + 1)))); tr.sit(out, "irs.modify_country", "irs.s.metadata_string_over_limit", &c, r, qs(&t));
        let (c, r) = modc(&t, 1, maxc, &(3, None)); tr.sit(out, "irs.modify_country", "irs.s.modify_country_out_of_range", &c, r, qs(&t));
        let (c, r) = modc(&t, 1, maxc - 1, &(6 * TAG + 3, Some((0, 0)))); tr.sit(out, "irs.modify_country", "irs.s.metadata_empty_map", &c, r, qs(&t));
        let (c, r) = add(&t, 2, 3, false, &[(1, Some((maxm + 1, 1)))]); tr.sit(out, "irs.add", "irs.s.metadata_entries_over_limit", &c, r, qs(&t));
        let (c, r) = add(&t, 2, 3, false, &[(1, Some((2, maxl + 1)))]); tr.sit(out, "irs.add", "irs.s.metadata_string_over_limit", &c, r, qs(&t));
        let (c, r) = add(&t, 2, 3, false, &[(1, Some((maxm, maxl))), (2, Some((1, maxl)))]); tr.sit(out, "irs.add", "irs.s.metadata_at_both_limits", &c, r, qs(&t));
        let (c, r) = addc(&t, 2, &[(4, Some((1, maxl + 1)))]); tr.sit(out, "irs.add_countries", "irs.s.metadata_string_over_limit", &c, r, qs(&t));
        advance(&t.e, 600_000); tr.advance(out, "irs", 600_000, "tt", qs(&t));
        let n = tr.len(); out.trace("irs/directed-limits", format!("{} {}", irs_header(), list(&tr.ev)), n);
    }
}

/// CLASS histories of the identity registry storage: the registry's own address / another registered contract as account,
/// identity and recovery target (K1); country codes 0 and u32::MAX, repeated entries, empty metadata strings, index
/// u32::MAX (K2); old == new (K5); deleting the middle / second-to-last / first / last of five country entries (K6)
fn classes_irs(out: &mut Out) {
    let e = new_env();
    let id = e.register(IrsC, ());
    let c = IrsCClient::new(&e, &id);
    let mut a: std::vec::Vec<Address> = (0..5).map(|_| Address::generate(&e)).collect();
    a.push(id.clone()); a.push(e.register(RegistryMock, ()));
    let t = Ir { e, c, u: Uni::of(a) }; let mut tr = Tr::new();
    let (own, other) = (5usize, 6usize); let mx = u32::MAX as u64;
    let accts = [0usize, 1, 2, 3, own, other];
    let qs = |t: &Ir| t.queries(&accts);
    let cl = |t: &Ir, ds: &[Cd]| list(&ds.iter().map(|d| cd_coq_desc(&t.e, d)).collect::<std::vec::Vec<_>>());
    let add = |t: &Ir, a: usize, id: usize, org: bool, ds: &[Cd]| (format!("IrAdd {} {} {} {}", a, id, if org { 1 } else { 0 }, cl(t, ds)), unit_ok(t.c.try_add_identity(&t.u.a[a], &t.u.a[id], &org, &t.cds(ds))));
    let modi = |t: &Ir, a: usize, id: usize| (format!("IrModify {} {}", a, id), unit_ok(t.c.try_modify_identity(&t.u.a[a], &t.u.a[id])));
    let rec = |t: &Ir, a: usize, nw: usize| (format!("IrRecover {} {}", a, nw), unit_ok(t.c.try_recover_identity(&t.u.a[a], &t.u.a[nw])));
    let modc = |t: &Ir, a: usize, i: u64, d: &Cd| (format!("IrModifyCountry {} {} {}", a, i, cd_coq_desc(&t.e, d)), unit_ok(t.c.try_modify_country(&t.u.a[a], &(i as u32), &cd_make(&t.e, d))));
    let delc = |t: &Ir, a: usize, i: u64| (format!("IrDeleteCountry {} {}", a, i), unit_ok(t.c.try_delete_country(&t.u.a[a], &(i as u32))));
    let (c, r) = add(&t, own, 4, false, &[(1, None)]); tr.sit(out, "irs.add", "irs.s.add_own_address_as_account", &c, r, qs(&t));
    let (c, r) = add(&t, 0, own, true, &[(5 * TAG + 1, None)]); tr.sit(out, "irs.add", "irs.s.add_own_address_as_identity", &c, r, qs(&t));
    let (c, r) = modi(&t, 0, own); tr.sit(out, "irs.modify", "irs.s.modify_same_identity", &c, r, qs(&t));
    let (c, r) = modi(&t, own, own); tr.sit(out, "irs.modify", "irs.s.modify_own_address_to_itself", &c, r, qs(&t));
    let (c, r) = rec(&t, 0, other); tr.sit(out, "irs.recover", "irs.s.recover_into_registered_contract", &c, r, qs(&t));
    let (c, r) = rec(&t, own, own); tr.sit(out, "irs.recover", "irs.s.recover_own_address_into_itself", &c, r, qs(&t));
    let (c, r) = rec(&t, own, 2); tr.sit(out, "irs.recover", "irs.s.recover_own_address", &c, r, qs(&t));
    let (c, r) = add(&t, own, 4, false, &[(1, None)]); tr.sit(out, "irs.add", "irs.s.add_on_recovered_own_address", &c, r, qs(&t));
    let (c, r) = rec(&t, 2, own); tr.sit(out, "irs.recover", "irs.s.recover_into_recovered_own_address", &c, r, qs(&t));
    advance(&t.e, 4_000_000); tr.advance(out, "irs", 4_000_000, "tt", qs(&t));
    let five: [Cd; 5] = [(0, None), (mx, None), (0, None), (3 * TAG + mx, Some((2, 0))), (TAG, None)];
    let (c, r) = add(&t, 3, 3, false, &five); tr.sit(out, "irs.add", "irs.s.add_codes_zero_max_and_repeated_entries", &c, r, qs(&t));
    let (c, r) = modc(&t, 3, 0, &(0, Some((2, 0)))); tr.sit(out, "irs.modify_country", "irs.s.metadata_empty_strings", &c, r, qs(&t));
    let (c, r) = modc(&t, 3, 0, &(0, Some((2, 0)))); tr.sit(out, "irs.modify_country", "irs.s.modify_country_identical", &c, r, qs(&t));
    let (c, r) = delc(&t, 3, mx); tr.sit(out, "irs.delete_country", "irs.s.delete_country_index_u32_max", &c, r, qs(&t));
    let (c, r) = modc(&t, 3, mx, &(1, None)); tr.sit(out, "irs.modify_country", "irs.s.modify_country_index_u32_max", &c, r, qs(&t));
    let (c, r) = delc(&t, 3, 2); tr.sit(out, "irs.delete_country", "irs.s.delete_middle_country_of_five", &c, r, qs(&t));
    let (c, r) = delc(&t, 3, 2); tr.sit(out, "irs.delete_country", "irs.s.delete_second_to_last_country", &c, r, qs(&t));
    let (c, r) = delc(&t, 3, 0); tr.sit(out, "irs.delete_country", "irs.s.delete_first_country", &c, r, qs(&t));
    let (c, r) = delc(&t, 3, 1); tr.sit(out, "irs.delete_country", "irs.s.delete_last_country", &c, r, qs(&t));
    let (c, r) = delc(&t, 3, 0); tr.sit(out, "irs.delete_country", "irs.s.delete_only_country", &c, r, qs(&t));
    advance(&t.e, 100); tr.advance(out, "irs", 100, "tt", qs(&t));
    let n = tr.len(); out.trace("irs/classes", format!("{} {}", irs_header(), list(&tr.ev)), n);
}

fn run_irs(out: &mut Out, rng: &mut Rng) {
    let maxc = irl::MAX_COUNTRY_ENTRIES as u64;
    let maxm = irl::MAX_METADATA_ENTRIES as u64;
    let maxl = irl::MAX_METADATA_STRING_LEN as u64;
    let thorough = out.cfg.thorough;
    let scale = out.cfg.scale as usize;
    directed_irs(out);
    classes_irs(out);
    let na = if directed_only() { 0 } else if thorough { 500 } else { 47 } * scale;
    for it in 0..na {
        let nacct = 2 + rng.below(4) as usize;       // accounts 0..nacct ; identities are the last two addresses
        let t = Ir::new(nacct + 2);
        let mut tr = Tr::new();
        let accts: std::vec::Vec<usize> = (0..nacct).collect();
        let ncalls = if thorough { 50 } else { 28 };
        let limit_heavy = it % 5 == 4;
        let rand_cd = |rng: &mut Rng| -> Cd {
            let code = 1 + rng.below(5) + *rng.pick(&[0u64, 0, 0, 1, 3, 5, 8]) * TAG;
            let meta = match rng.below(12) {
                0 => Some((0, 0)), 1 => Some((maxm, maxl)), 2 => Some((maxm + 1, 1)), 3 => Some((1, maxl + 1)), 4 => Some((2, 3)), _ => None };
            (code, meta)
        };
        for _ in 0..ncalls {
            if rng.chance(1, 10) {
                let n = *rng.pick(&GAPS); advance(&t.e, n);
                tr.advance(out, "irs", n, "tt", t.queries(&accts));
            }
            let have: std::vec::Vec<usize> = (0..nacct).filter(|i| t.c.try_stored_identity(&t.u.a[*i]).map(|r| r.is_ok()).unwrap_or(false)).collect();
            let free: std::vec::Vec<usize> = (0..nacct).filter(|i| !have.contains(i) && matches!(tryv!(t.c.try_recovered_to(&t.u.a[*i])), Some(None))).collect();
            let mut a = rng.below(nacct as u64) as usize;
            let ident = nacct + rng.below(2) as usize;
            let (label, call, r);
            match rng.below(14) {
                0..=3 => {
                    let n = if limit_heavy { match rng.below(4) { 0 => maxc, 1 => maxc + 1, 2 => maxc - 1, _ => 1 + rng.below(3) } } else { match rng.below(10) { 0 => 0, _ => 1 + rng.below(3) } };
                    let ds: std::vec::Vec<Cd> = (0..n).map(|_| if limit_heavy { (1 + rng.below(5), None) } else { rand_cd(rng) }).collect();
                    let org = rng.chance(1, 3);
                    r = unit_ok(t.c.try_add_identity(&t.u.a[a], &t.u.a[ident], &org, &t.cds(&ds)));
                    label = "irs.add"; call = format!("IrAdd {} {} {} {}", a, ident, if org { 1 } else { 0 }, list(&ds.iter().map(|d| cd_coq_desc(&t.e, d)).collect::<std::vec::Vec<_>>()));
                }
                4 => { r = unit_ok(t.c.try_modify_identity(&t.u.a[a], &t.u.a[ident])); label = "irs.modify"; call = format!("IrModify {} {}", a, ident); }
                5..=6 => { r = unit_ok(t.c.try_remove_identity(&t.u.a[a])); label = "irs.remove"; call = format!("IrRemove {}", a); }
                7..=8 => { if !have.is_empty() && rng.chance(3, 4) { a = *rng.pick(&have); }
                           let nw = if !free.is_empty() && rng.chance(3, 4) { *rng.pick(&free) } else { rng.below(nacct as u64) as usize };
                           r = unit_ok(t.c.try_recover_identity(&t.u.a[a], &t.u.a[nw])); label = "irs.recover"; call = format!("IrRecover {} {}", a, nw); }
                9..=10 => {
                    if !have.is_empty() && rng.chance(3, 4) { a = *rng.pick(&have); }
                    let have = tryv!(t.c.try_countries(&t.u.a[a])).map(|v| v.len()).unwrap_or(0) as u64;
                    let n = if limit_heavy && have > 0 && have <= maxc { match rng.below(3) { 0 => maxc - have, 1 => maxc - have + 1, _ => 1 } } else { match rng.below(8) { 0 => 0, _ => 1 + rng.below(2) } };
                    let ds: std::vec::Vec<Cd> = (0..n).map(|_| rand_cd(rng)).collect();
                    r = unit_ok(t.c.try_add_countries(&t.u.a[a], &t.cds(&ds)));
                    label = "irs.add_countries"; call = format!("IrAddCountries {} {}", a, list(&ds.iter().map(|d| cd_coq_desc(&t.e, d)).collect::<std::vec::Vec<_>>()));
                }
                11 => { if !have.is_empty() && rng.chance(3, 4) { a = *rng.pick(&have); }
                        let have = tryv!(t.c.try_countries(&t.u.a[a])).map(|v| v.len()).unwrap_or(0) as u64; let i = match rng.below(4) { 0 => have, 1 => have.saturating_sub(1), _ => rng.below(have + 1) };
                        let d = rand_cd(rng);
                        r = unit_ok(t.c.try_modify_country(&t.u.a[a], &(i as u32), &cd_make(&t.e, &d))); label = "irs.modify_country"; call = format!("IrModifyCountry {} {} {}", a, i, cd_coq_desc(&t.e, &d)); }
                _ => { if !have.is_empty() && rng.chance(3, 4) { a = *rng.pick(&have); }
                       let have = tryv!(t.c.try_countries(&t.u.a[a])).map(|v| v.len()).unwrap_or(0) as u64; let i = match rng.below(4) { 0 => have, 1 => have.saturating_sub(1), _ => rng.below(have + 1) };
                       r = unit_ok(t.c.try_delete_country(&t.u.a[a], &(i as u32))); label = "irs.delete_country"; call = format!("IrDeleteCountry {} {}", a, i); }
            }
            tr.push(out, label, &call, r, t.queries(&accts));
        }
        let n = tr.len();
        out.trace(if limit_heavy { "irs/limits" } else { "irs/small" }, format!("{} {}", irs_header(), list(&tr.ev)), n);
    }
}

// ------------------------------------------------------------------------------------------
// 6. compliance hook modules
// ------------------------------------------------------------------------------------------
fn hook_of(h: u64) -> ComplianceHook {
    match h { 0 => ComplianceHook::Transferred, 1 => ComplianceHook::Created, 2 => ComplianceHook::Destroyed, 3 => ComplianceHook::CanTransfer, _ => ComplianceHook::CanCreate }
}
struct Cm<'a> { e: Env, c: CmCClient<'a>, u: Uni }
impl<'a> Cm<'a> {
    fn new(n: usize) -> Cm<'a> {
        let e = new_env();
        let id = e.register(CmC, ());
        let c = CmCClient::new(&e, &id);
        let u = Uni::new(&e, n);
        Cm { e, c, u }
    }
    fn queries(&self, hooks: &[u64], mods: &[usize]) -> std::vec::Vec<String> {
        let mut q = vec![];
        for &h in hooks {
            q.push(match tryv!(self.c.try_modules(&hook_of(h))) { Some(v) => format!("(MqModules {}, MaList {})", h, nlist(&self.u.ids(&v))), None => format!("(MqModules {}, MaTrap)", h) });
            for &m in mods { q.push(match tryv!(self.c.try_is_registered(&hook_of(h), &self.u.a[m])) { Some(x) => format!("(MqIsRegistered {} {}, MaBool {})", h, m, b(x)), None => format!("(MqIsRegistered {} {}, MaTrap)", h, m) }); }
        }
        q
    }
}
fn directed_compliance(out: &mut Out) {
    let t = Cm::new(4); let mut tr = Tr::new();
    let hooks = [0u64, 1, 2, 3, 4]; let mods = [0usize, 1, 2, 3];
    let qs = |t: &Cm| t.queries(&hooks, &mods);
    let cur = |t: &Cm, h: u64| -> std::vec::Vec<u64> { tryv!(t.c.try_modules(&hook_of(h))).map(|v| t.u.ids(&v)).unwrap_or_default() };
    let add = |t: &Cm, h: u64, m: usize| (format!("CmAdd {} {}", h, m), unit_ok(t.c.try_add_module(&hook_of(h), &t.u.a[m])));
    let rem = |t: &Cm, h: u64, m: usize| (format!("CmRemove {} {}", h, m), unit_ok(t.c.try_remove_module(&hook_of(h), &t.u.a[m])));
    for m in 0..3 { let (c, r) = add(&t, 3, m); tr.sit(out, "cm.add", "cm.s.add", &c, r, qs(&t)); }
    let (c, r) = add(&t, 3, 1); tr.sit(out, "cm.add", "cm.s.add_duplicate", &c, r, qs(&t));
    let (c, r) = add(&t, 0, 1); tr.sit(out, "cm.add", "cm.s.add_same_module_other_hook", &c, r, qs(&t));
    advance(&t.e, 100); tr.advance(out, "cm", 100, "tt", qs(&t));
    let m = cur(&t, 3)[0] as usize; let (c, r) = rem(&t, 3, m); tr.sit(out, "cm.remove", "cm.s.remove_first", &c, r, qs(&t));
    let l = cur(&t, 3); let m = l[l.len() - 1] as usize; let (c, r) = rem(&t, 3, m); tr.sit(out, "cm.remove", "cm.s.remove_last", &c, r, qs(&t));
    advance(&t.e, 4_000_000); tr.advance(out, "cm", 4_000_000, "tt", qs(&t));
    let m = cur(&t, 3)[0] as usize; let (c, r) = rem(&t, 3, m); tr.sit(out, "cm.remove", "cm.s.remove_only", &c, r, qs(&t));
    let (c, r) = rem(&t, 3, m); tr.sit(out, "cm.remove", "cm.s.remove_absent", &c, r, qs(&t));
    let (c, r) = rem(&t, 4, 1); tr.sit(out, "cm.remove", "cm.s.remove_registered_for_other_hook_only", &c, r, qs(&t));
    let (c, r) = add(&t, 3, m); tr.sit(out, "cm.add", "cm.s.readd_after_removal", &c, r, qs(&t));
    advance(&t.e, 20); tr.advance(out, "cm", 20, "tt", qs(&t));
    let n = tr.len(); out.trace("compliance/directed", format!("TrCM {} {}", cmm::MAX_MODULES, list(&tr.ev)), n);
}

/// CLASS histories of the compliance modules: the compliance contract's own address and another registered contract as
/// modules (K1), one module on every hook and removed from one (K5), five modules of one hook removed middle /
/// second-to-last / first / last and in the opposite order on another hook (K6)
fn classes_compliance(out: &mut Out) {
    let e = new_env();
    let id = e.register(CmC, ());
    let c = CmCClient::new(&e, &id);
    let mut a: std::vec::Vec<Address> = (0..3).map(|_| Address::generate(&e)).collect();
    a.push(id.clone()); a.push(e.register(RegistryMock, ()));
    let t = Cm { e, c, u: Uni::of(a) }; let mut tr = Tr::new();
    let (own, other) = (3usize, 4usize);
    let hooks = [0u64, 1, 2, 3, 4]; let mods = [0usize, 1, 2, own, other];
    let qs = |t: &Cm| t.queries(&hooks, &mods);
    let cur = |t: &Cm, h: u64| -> std::vec::Vec<u64> { tryv!(t.c.try_modules(&hook_of(h))).map(|v| t.u.ids(&v)).unwrap_or_default() };
    let add = |t: &Cm, h: u64, m: usize| (format!("CmAdd {} {}", h, m), unit_ok(t.c.try_add_module(&hook_of(h), &t.u.a[m])));
    let rem = |t: &Cm, h: u64, m: usize| (format!("CmRemove {} {}", h, m), unit_ok(t.c.try_remove_module(&hook_of(h), &t.u.a[m])));
    let back = |l: std::vec::Vec<u64>, k: usize| -> usize { if l.len() > k { l[l.len() - 1 - k] as usize } else { 0 } };
    let (c, r) = add(&t, 3, 0); tr.sit(out, "cm.add", "cm.s.add", &c, r, qs(&t));
    let (c, r) = add(&t, 3, 1); tr.sit(out, "cm.add", "cm.s.add", &c, r, qs(&t));
    let (c, r) = add(&t, 3, own); tr.sit(out, "cm.add", "cm.s.add_own_address", &c, r, qs(&t));
    let (c, r) = add(&t, 3, other); tr.sit(out, "cm.add", "cm.s.add_registered_contract", &c, r, qs(&t));
    let (c, r) = add(&t, 3, 2); tr.sit(out, "cm.add", "cm.s.add", &c, r, qs(&t));
    let (c, r) = add(&t, 3, own); tr.sit(out, "cm.add", "cm.s.add_own_address_duplicate", &c, r, qs(&t));
    for h in [0u64, 1, 2, 4] { let (c, r) = add(&t, h, own); tr.sit(out, "cm.add", "cm.s.add_own_address_on_every_hook", &c, r, qs(&t)); }
    advance(&t.e, 4_000_000); tr.advance(out, "cm", 4_000_000, "tt", qs(&t));
    let m = cur(&t, 3).get(2).cloned().unwrap_or(0) as usize; let (c, r) = rem(&t, 3, m); tr.sit(out, "cm.remove", "cm.s.remove_middle_of_five_keeps_other_hooks", &c, r, qs(&t));
    let m = back(cur(&t, 3), 1); let (c, r) = rem(&t, 3, m); tr.sit(out, "cm.remove", "cm.s.remove_second_to_last", &c, r, qs(&t));
    let m = cur(&t, 3).first().cloned().unwrap_or(0) as usize; let (c, r) = rem(&t, 3, m); tr.sit(out, "cm.remove", "cm.s.remove_first", &c, r, qs(&t));
    let m = back(cur(&t, 3), 0); let (c, r) = rem(&t, 3, m); tr.sit(out, "cm.remove", "cm.s.remove_last", &c, r, qs(&t));
    let (c, r) = add(&t, 3, own); tr.sit(out, "cm.add", "cm.s.readd_own_address", &c, r, qs(&t));
    // the opposite order on hook 1 (which already holds the own address)
    for m in [0usize, 1, 2, other] { let (c, r) = add(&t, 1, m); tr.sit(out, "cm.add", "cm.s.add", &c, r, qs(&t)); }
    let m = back(cur(&t, 1), 0); let (c, r) = rem(&t, 1, m); tr.sit(out, "cm.remove", "cm.s.remove_last", &c, r, qs(&t));
    let m = back(cur(&t, 1), 1); let (c, r) = rem(&t, 1, m); tr.sit(out, "cm.remove", "cm.s.remove_second_to_last", &c, r, qs(&t));
    let m = cur(&t, 1).get(1).cloned().unwrap_or(0) as usize; let (c, r) = rem(&t, 1, m); tr.sit(out, "cm.remove", "cm.s.remove_middle_of_three", &c, r, qs(&t));
    let (c, r) = rem(&t, 1, own); tr.sit(out, "cm.remove", "cm.s.remove_own_address", &c, r, qs(&t));
    let (c, r) = rem(&t, 1, own); tr.sit(out, "cm.remove", "cm.s.remove_own_address_absent", &c, r, qs(&t));
    advance(&t.e, 20); tr.advance(out, "cm", 20, "tt", qs(&t));
    let n = tr.len(); out.trace("compliance/classes", format!("TrCM {} {}", cmm::MAX_MODULES, list(&tr.ev)), n);
}

fn run_compliance(out: &mut Out, rng: &mut Rng) {
    let maxm = cmm::MAX_MODULES as usize;
    let thorough = out.cfg.thorough;
    let scale = out.cfg.scale as usize;
    let header = format!("TrCM {}", cmm::MAX_MODULES);
    let donly = directed_only();
    directed_compliance(out);
    classes_compliance(out);
    let na = if donly { 0 } else if thorough { 300 } else { 28 } * scale;
    for _ in 0..na {
        let nm = 2 + rng.below(4) as usize;
        let t = Cm::new(nm);
        let mut tr = Tr::new();
        let hooks: std::vec::Vec<u64> = (0..5).collect();
        let mods: std::vec::Vec<usize> = (0..nm).collect();
        let ncalls = if thorough { 50 } else { 28 };
        for _ in 0..ncalls {
            if rng.chance(1, 10) {
                let n = *rng.pick(&GAPS); advance(&t.e, n);
                tr.advance(out, "cm", n, "tt", t.queries(&hooks, &mods));
            }
            let hn = if rng.chance(1, 2) { 2 } else { 5 }; let h = rng.below(hn);
            let cur = tryv!(t.c.try_modules(&hook_of(h))).map(|v| t.u.ids(&v)).unwrap_or_default();
            let (label, call, r);
            if rng.chance(1, 2) {
                let m = rng.below(nm as u64) as usize;
                r = unit_ok(t.c.try_add_module(&hook_of(h), &t.u.a[m])); label = "cm.add"; call = format!("CmAdd {} {}", h, m);
            } else {
                let m = if !cur.is_empty() && rng.chance(3, 4) { (match rng.below(3) { 0 => cur[0], 1 => cur[cur.len() - 1], _ => *rng.pick(&cur) }) as usize } else { rng.below(nm as u64) as usize };
                r = unit_ok(t.c.try_remove_module(&hook_of(h), &t.u.a[m])); label = "cm.remove"; call = format!("CmRemove {} {}", h, m);
            }
            tr.push(out, label, &call, r, t.queries(&hooks, &mods));
        }
        let n = tr.len();
        out.trace("compliance/small", format!("{} {}", header, list(&tr.ev)), n);
    }
    // thorough tier: EVERY sequence of 4 add / remove operations over 2 hooks x 2 modules
    if thorough && !donly {
        for seq in all_seqs(8, 4) {
            let t = Cm::new(2);
            let mut tr = Tr::new();
            for op in seq {
                let (h, m, add) = ((op % 2) as u64, (op / 2) % 2, op < 4);
                let r = if add { unit_ok(t.c.try_add_module(&hook_of(h), &t.u.a[m])) } else { unit_ok(t.c.try_remove_module(&hook_of(h), &t.u.a[m])) };
                let call = if add { format!("CmAdd {} {}", h, m) } else { format!("CmRemove {} {}", h, m) };
                tr.push(out, if add { "cm.add" } else { "cm.remove" }, &call, r, t.queries(&[0, 1], &[0, 1]));
            }
            let n = tr.len();
            out.trace("compliance/exhaustive", format!("{} {}", header, list(&tr.ev)), n);
        }
    }

    // MAX_MODULES per hook
    let nb = if thorough { 5 } else { 1 } * scale;
    for _ in 0..nb {
        let t = Cm::new(maxm + 2);
        let mut tr = Tr::new();
        let h = rng.below(5); let h2 = (h + 1) % 5;
        for m in 0..maxm + 1 {
            let r = unit_ok(t.c.try_add_module(&hook_of(h), &t.u.a[m]));
            tr.push(out, if m + 2 >= maxm { "cm.add.limit" } else { "cm.add" }, &format!("CmAdd {} {}", h, m), r, t.queries(&[h, h2], &[m]));
        }
        advance(&t.e, 4_000_000);
        tr.advance(out, "cm", 4_000_000, "tt", t.queries(&[h, h2], &[0, maxm - 1, maxm]));
        // the other hook is unaffected by the full one
        let r = unit_ok(t.c.try_add_module(&hook_of(h2), &t.u.a[maxm]));
        tr.push(out, "cm.add.limit", &format!("CmAdd {} {}", h2, maxm), r, t.queries(&[h, h2], &[maxm]));
        let victim = rng.below(maxm as u64) as usize;
        let r = unit_ok(t.c.try_remove_module(&hook_of(h), &t.u.a[victim]));
        tr.push(out, "cm.remove", &format!("CmRemove {} {}", h, victim), r, t.queries(&[h, h2], &[victim]));
        for m in [maxm, maxm + 1] {
            let r = unit_ok(t.c.try_add_module(&hook_of(h), &t.u.a[m]));
            tr.push(out, "cm.add.limit", &format!("CmAdd {} {}", h, m), r, t.queries(&[h, h2], &[m, victim]));
        }
        let n = tr.len();
        out.trace("compliance/limit", format!("{} {}", header, list(&tr.ev)), n);
    }
}

// ------------------------------------------------------------------------------------------
// 7. identity claims index
// ------------------------------------------------------------------------------------------
struct Ic<'a> { e: Env, c: ClaimsCClient<'a>, u: Uni, ids: std::collections::HashMap<[u8; 32], (u64, u64)>, nt: u64 }
impl<'a> Ic<'a> {
    fn new(nissuer: usize, nt: u64) -> Ic<'a> {
        let e = new_env();
        let id = e.register(ClaimsC, ());
        let c = ClaimsCClient::new(&e, &id);
        let issuers: std::vec::Vec<Address> = (0..nissuer).map(|_| e.register(IssuerMock, ())).collect();
        let u = Uni::of(issuers);
        // the claim id of every (issuer, topic) of the universe; the idealisation "id = the pair" needs them distinct
        let mut ids = std::collections::HashMap::new();
        for i in 0..nissuer { for t in 0..=nt + 1 {
            let h = icl::generate_claim_id(&e, &u.a[i], t as u32).to_array();
            if ids.insert(h, (i as u64, t)).is_some() { panic!("claim id collision inside the universe"); }
        } }
        Ic { e, c, u, ids, nt }
    }
    fn cid(&self, i: usize, t: u64) -> BytesN<32> { icl::generate_claim_id(&self.e, &self.u.a[i], t as u32) }
    fn cid_coq(&self, b: &BytesN<32>) -> String { match self.ids.get(&b.to_array()) { Some((i, t)) => format!("({}, {})", i, t), None => format!("(1000000000, {})", bn32_id(b)) } }
    fn bytes(&self, x: u64) -> Bytes { if x == 0 { Bytes::new(&self.e) } else { Bytes::from_array(&self.e, &x.to_be_bytes()) } }
    fn claim_coq(&self, c: &icl::Claim) -> String {
        format!("(Build_claim {} {} {} {} {} {})", c.topic, c.scheme, self.u.id(&c.issuer), pk_id(&c.signature), pk_id(&c.data), num_or_odd(&sbytes(&c.uri)))
    }
    fn queries(&self) -> std::vec::Vec<String> {
        let mut q = vec![];
        for i in 0..self.u.a.len() { for t in 1..=self.nt + 1 {
            let r = match self.c.try_get_claim(&self.cid(i, t)) { Ok(Ok(c)) => okv(&self.claim_coq(&c)), _ => "Fail".into() };
            q.push(format!("(JqClaim ({}, {}), JaClaim {})", i, t, r));
        } }
        for t in 1..=self.nt + 1 {
            q.push(match tryv!(self.c.try_ids_by_topic(&(t as u32))) {
                Some(ids) => { let v: std::vec::Vec<String> = ids.iter().map(|x| self.cid_coq(&x)).collect(); format!("(JqByTopic {}, JaIds {})", t, list(&v)) }
                None => format!("(JqByTopic {}, JaTrap)", t) });
        }
        q
    }
}
fn directed_claims(out: &mut Out) {
    let t = Ic::new(3, 2); let mut tr = Tr::new();
    let add = |t: &Ic, i: usize, tp: u64, scheme: u64, sig: u64, data: u64, uri: u64| {
        let r = match t.c.try_add_claim(&(tp as u32), &(scheme as u32), &t.u.a[i], &t.bytes(sig), &t.bytes(data), &SString::from_str(&t.e, &format!("{}", uri))) {
            Ok(Ok(id)) => Some(format!("(Some {})", t.cid_coq(&id))), _ => None };
        (format!("IcAdd (Build_claim {} {} {} {} {} {}) {}", tp, scheme, i, sig, data, uri, b(sig != 0)), r) };
    let rem = |t: &Ic, i: usize, tp: u64| (format!("IcRemove ({}, {})", i, tp), match t.c.try_remove_claim(&t.cid(i, tp)) { Ok(Ok(())) => Some("None".to_string()), _ => None });
    for i in 0..3 { let (c, r) = add(&t, i, 1, 101, 1 + i as u64, i as u64, 10 + i as u64); tr.sit(out, "ic.add", "ic.s.add", &c, r, t.queries()); }
    let (c, r) = add(&t, 0, 2, 102, 5, 6, 7); tr.sit(out, "ic.add", "ic.s.add_other_topic", &c, r, t.queries());
    let (c, r) = add(&t, 1, 1, 102, 9, 8, 77); tr.sit(out, "ic.add", "ic.s.update_existing_claim", &c, r, t.queries());
    let (c, r) = add(&t, 1, 2, 101, 0, 1, 5); tr.sit(out, "ic.add", "ic.s.add_rejected_by_issuer", &c, r, t.queries());
    advance(&t.e, 100); tr.advance(out, "ic", 100, "None", t.queries());
    let (c, r) = rem(&t, 0, 1); tr.sit(out, "ic.remove", "ic.s.remove_first_of_topic", &c, r, t.queries());
    let l = tryv!(t.c.try_ids_by_topic(&1)).map(|v| v.iter().map(|x| t.ids.get(&x.to_array()).cloned().unwrap_or((0, 1))).collect::<std::vec::Vec<_>>()).unwrap_or_default();
    let (i, tp) = if l.is_empty() { (1, 1) } else { l[l.len() - 1] };
    let (c, r) = rem(&t, i as usize, tp); tr.sit(out, "ic.remove", "ic.s.remove_last_of_topic", &c, r, t.queries());
    advance(&t.e, 4_000_000); tr.advance(out, "ic", 4_000_000, "None", t.queries());
    let (c, r) = rem(&t, 0, 2); tr.sit(out, "ic.remove", "ic.s.remove_only_of_topic", &c, r, t.queries());
    let (c, r) = rem(&t, 0, 2); tr.sit(out, "ic.remove", "ic.s.remove_absent", &c, r, t.queries());
    let (c, r) = add(&t, 0, 1, 101, 2, 2, 2); tr.sit(out, "ic.add", "ic.s.readd_after_removal", &c, r, t.queries());
    let (c, r) = add(&t, 0, 2, 101, 3, 3, 3); tr.sit(out, "ic.add", "ic.s.readd_after_removal", &c, r, t.queries());
    advance(&t.e, 20); tr.advance(out, "ic", 20, "None", t.queries());
    let n = tr.len(); out.trace("claims/directed", format!("TrIC {}", list(&tr.ev)), n);
}

// ---- CLASS histories of the identity-claims index ----
impl<'a> Ic<'a> {
    /// issuers: 5 IssuerMocks, then (K1 / K4) the identity contract's OWN address, an address where NO contract lives,
    /// a contract whose is_claim_valid ANSWERS `true` instead of returning nothing, a contract WITHOUT that function
    fn new_special(topics: &[u64]) -> Ic<'a> {
        let e = new_env();
        let id = e.register(ClaimsC, ());
        let c = ClaimsCClient::new(&e, &id);
        let mut issuers: std::vec::Vec<Address> = (0..5).map(|_| e.register(IssuerMock, ())).collect();
        issuers.push(id.clone()); issuers.push(Address::generate(&e)); issuers.push(e.register(OddIssuerMock, ())); issuers.push(e.register(RegistryMock, ()));
        let u = Uni::of(issuers);
        let mut ids = std::collections::HashMap::new();
        for i in 0..u.a.len() { for &t in topics {
            let h = icl::generate_claim_id(&e, &u.a[i], t as u32).to_array();
            if ids.insert(h, (i as u64, t)).is_some() { panic!("claim id collision inside the universe"); }
        } }
        Ic { e, c, u, ids, nt: 0 }
    }
    fn queries_t(&self, topics: &[u64]) -> std::vec::Vec<String> {
        let mut q = vec![];
        for i in 0..self.u.a.len() { for &t in topics {
            let r = match self.c.try_get_claim(&self.cid(i, t)) { Ok(Ok(c)) => okv(&self.claim_coq(&c)), _ => "Fail".into() };
            q.push(format!("(JqClaim ({}, {}), JaClaim {})", i, t, r));
        } }
        for &t in topics {
            q.push(match tryv!(self.c.try_ids_by_topic(&(t as u32))) {
                Some(ids) => { let v: std::vec::Vec<String> = ids.iter().map(|x| self.cid_coq(&x)).collect(); format!("(JqByTopic {}, JaIds {})", t, list(&v)) }
                None => format!("(JqByTopic {}, JaTrap)", t) });
        }
        q
    }
    /// `valid`: what the issuer answers (the model's input)
    fn add_raw(&self, i: usize, tp: u64, scheme: u64, sig: u64, data: u64, uri: &str, valid: bool) -> (String, Option<String>) {
        let r = match self.c.try_add_claim(&(tp as u32), &(scheme as u32), &self.u.a[i], &self.bytes(sig), &self.bytes(data), &SString::from_str(&self.e, uri)) {
            Ok(Ok(id)) => Some(format!("(Some {})", self.cid_coq(&id))), _ => None };
        (format!("IcAdd (Build_claim {} {} {} {} {} {}) {}", tp, scheme, i, sig, data, num_or_odd(uri.as_bytes()), b(valid)), r)
    }
}
fn classes_claims(out: &mut Out) {
    let mx = u32::MAX as u64;
    let topics = [0u64, 1, mx];
    let t = Ic::new_special(&topics); let mut tr = Tr::new();
    let (own, nocontract, odd_t, nofn) = (5usize, 6usize, 7usize, 8usize);
    let qs = |t: &Ic| t.queries_t(&topics);
    let rem = |t: &Ic, i: usize, tp: u64| (format!("IcRemove ({}, {})", i, tp), match t.c.try_remove_claim(&t.cid(i, tp)) { Ok(Ok(())) => Some("None".to_string()), _ => None });
    let by_topic = |t: &Ic, tp: u64| -> std::vec::Vec<(u64, u64)> { tryv!(t.c.try_ids_by_topic(&(tp as u32))).map(|v| v.iter().map(|x| t.ids.get(&x.to_array()).cloned().unwrap_or((0, tp))).collect()).unwrap_or_default() };
    // K1 / K4: the issuer is the identity contract itself / no contract / answers a value / lacks the function
    let (c, r) = t.add_raw(own, 1, 101, 1, 1, "1", false); tr.sit(out, "ic.add", "ic.s.add_issuer_is_own_address", &c, r, qs(&t));
    let (c, r) = t.add_raw(nocontract, 1, 101, 1, 1, "1", false); tr.sit(out, "ic.add", "ic.s.add_issuer_not_a_contract", &c, r, qs(&t));
    let (c, r) = t.add_raw(odd_t, 1, 101, 1, 1, "1", false); tr.sit(out, "ic.add", "ic.s.add_issuer_answers_a_value", &c, r, qs(&t));
    let (c, r) = t.add_raw(nofn, 1, 101, 1, 1, "1", false); tr.sit(out, "ic.add", "ic.s.add_issuer_without_the_function", &c, r, qs(&t));
    // K2: topic / scheme 0 and u32::MAX, empty and non-numeric uri, empty data; K5: an update with identical content
    let (c, r) = t.add_raw(0, 0, 0, 1, 0, "", true); tr.sit(out, "ic.add", "ic.s.add_topic_zero_scheme_zero_empty_uri", &c, r, qs(&t));
    let (c, r) = t.add_raw(0, mx, mx, 2, 3, "https://x.y/z", true); tr.sit(out, "ic.add", "ic.s.add_topic_u32_max_scheme_u32_max", &c, r, qs(&t));
    let (c, r) = t.add_raw(0, mx, mx, 2, 3, "https://x.y/z", true); tr.sit(out, "ic.add", "ic.s.update_identical", &c, r, qs(&t));
    let (c, r) = t.add_raw(0, 0, 5, 0, 0, "7", false); tr.sit(out, "ic.add", "ic.s.update_rejected_by_issuer", &c, r, qs(&t));
    advance(&t.e, 4_000_000); tr.advance(out, "ic", 4_000_000, "None", qs(&t));
    // K6: five claims of topic 1 (issuers 0..4): middle / second-to-last / first / last removed, re-added
    for i in 0..5usize { let (c, r) = t.add_raw(i, 1, 101, 1 + i as u64, i as u64, &format!("{}", 10 + i), true); tr.sit(out, "ic.add", "ic.s.add", &c, r, qs(&t)); }
    let l = by_topic(&t, 1); let (i, tp) = l.get(2).cloned().unwrap_or((2, 1)); let (c, r) = rem(&t, i as usize, tp); tr.sit(out, "ic.remove", "ic.s.remove_middle_of_five", &c, r, qs(&t));
    let l = by_topic(&t, 1); let (i, tp) = if l.len() >= 2 { l[l.len() - 2] } else { (3, 1) }; let (c, r) = rem(&t, i as usize, tp); tr.sit(out, "ic.remove", "ic.s.remove_second_to_last_of_topic", &c, r, qs(&t));
    let l = by_topic(&t, 1); let (i, tp) = l.first().cloned().unwrap_or((0, 1)); let (c, r) = rem(&t, i as usize, tp); tr.sit(out, "ic.remove", "ic.s.remove_first_of_topic", &c, r, qs(&t));
    let l = by_topic(&t, 1); let (i, tp) = l.last().cloned().unwrap_or((4, 1)); let (c, r) = rem(&t, i as usize, tp); tr.sit(out, "ic.remove", "ic.s.remove_last_of_topic", &c, r, qs(&t));
    let (c, r) = t.add_raw(2, 1, 102, 9, 9, "9", true); tr.sit(out, "ic.add", "ic.s.readd_after_removal", &c, r, qs(&t));
    let (c, r) = rem(&t, 0, 0); tr.sit(out, "ic.remove", "ic.s.remove_topic_zero", &c, r, qs(&t));
    let (c, r) = rem(&t, 0, mx); tr.sit(out, "ic.remove", "ic.s.remove_topic_u32_max", &c, r, qs(&t));
    let (c, r) = rem(&t, own, 1); tr.sit(out, "ic.remove", "ic.s.remove_own_address_claim_absent", &c, r, qs(&t));
    advance(&t.e, 20); tr.advance(out, "ic", 20, "None", qs(&t));
    let n = tr.len(); out.trace("claims/classes", format!("TrIC {}", list(&tr.ev)), n);
}

fn run_claims(out: &mut Out, rng: &mut Rng) {
    let thorough = out.cfg.thorough;
    let scale = out.cfg.scale as usize;
    directed_claims(out);
    classes_claims(out);
    let na = if directed_only() { 0 } else if thorough { 300 } else { 33 } * scale;
    for _ in 0..na {
        let ni = 1 + rng.below(3) as usize; let nt = 1 + rng.below(3);
        let t = Ic::new(ni, nt);
        let mut tr = Tr::new();
        let ncalls = if thorough { 50 } else { 28 };
        let mut present: std::vec::Vec<(usize, u64)> = vec![];
        for _ in 0..ncalls {
            if rng.chance(1, 10) {
                let n = *rng.pick(&GAPS); advance(&t.e, n);
                tr.advance(out, "ic", n, "None", t.queries());
            }
            if rng.chance(3, 5) {
                let (i, tp) = (rng.below(ni as u64) as usize, 1 + rng.below(nt));
                let (scheme, sig, data, uri) = (101 + rng.below(2), if rng.chance(1, 8) { 0 } else { 1 + rng.below(3) }, rng.below(3), rng.below(4));
                let r = match t.c.try_add_claim(&(tp as u32), &(scheme as u32), &t.u.a[i], &t.bytes(sig), &t.bytes(data), &SString::from_str(&t.e, &format!("{}", uri))) {
                    Ok(Ok(id)) => Some(format!("(Some {})", t.cid_coq(&id))), _ => None };
                if r.is_some() && !present.contains(&(i, tp)) { present.push((i, tp)); }
                tr.push(out, "ic.add", &format!("IcAdd (Build_claim {} {} {} {} {} {}) {}", tp, scheme, i, sig, data, uri, b(sig != 0)), r, t.queries());
            } else {
                let (i, tp) = if !present.is_empty() && rng.chance(3, 4) { match rng.below(3) { 0 => present[0], 1 => present[present.len() - 1], _ => *rng.pick(&present) } } else { (rng.below(ni as u64) as usize, 1 + rng.below(nt + 1)) };
                let r = match t.c.try_remove_claim(&t.cid(i, tp)) { Ok(Ok(())) => Some("None".to_string()), _ => None };
                if r.is_some() { present.retain(|x| *x != (i, tp)); }
                tr.push(out, "ic.remove", &format!("IcRemove ({}, {})", i, tp), r, t.queries());
            }
        }
        let n = tr.len();
        out.trace("claims/small", format!("TrIC {}", list(&tr.ev)), n);
    }
}

// ------------------------------------------------------------------------------------------
// 8. smart-account context rules
// ------------------------------------------------------------------------------------------

/// signer descriptor: (kind 0 delegated / 1 external, address index, key id)
type Sg = (u64, usize, u64);
/// context type descriptor: (0 default / 1 call-contract / 2 create-contract, address index or hash id)
type Cx = (u64, u64);
struct Sa<'a> { e: Env, c: SaCClient<'a>, u: Uni, pol: Uni, grumpy: std::vec::Vec<bool> }
impl<'a> Sa<'a> {
    fn new(naddr: usize, npol: usize) -> Sa<'a> {
        let e = new_env();
        let id = e.register(SaC, ());
        let c = SaCClient::new(&e, &id);
        let u = Uni::new(&e, naddr);
        // policies: registered mocks, numbered in the host's order of addresses (= order of Map keys)
        let raw: std::vec::Vec<Address> = (0..npol).map(|i| if i % 3 == 2 { e.register(GrumpyPolicyMock, ()) } else { e.register(PolicyMock, ()) }).collect();
        let mut m: Map<Address, ()> = Map::new(&e);
        for a in raw.iter() { m.set(a.clone(), ()); }
        let sorted: std::vec::Vec<Address> = m.keys().iter().collect();
        let grumpy: std::vec::Vec<bool> = sorted.iter().map(|a| raw.iter().position(|x| x == a).map(|i| i % 3 == 2).unwrap_or(false)).collect();
        let pol = Uni::of(sorted);
        Sa { e, c, u, pol, grumpy }
    }
    fn signer(&self, s: &Sg) -> Signer {
        if s.0 == 0 { Signer::Delegated(self.u.a[s.1].clone()) }
        else if s.0 == 2 { Signer::External(self.u.a[s.1].clone(), Bytes::new(&self.e)) } // (kind 2: external signer with an EMPTY key)
        else { Signer::External(self.u.a[s.1].clone(), Bytes::from_array(&self.e, &s.2.to_be_bytes())) }
    }
    fn signer_coq(&self, s: &Signer) -> String {
        match s { Signer::Delegated(a) => format!("(Delegated {})", self.u.id(a)), Signer::External(a, k) => format!("(External {} {})", self.u.id(a), pk_id(k)) }
    }
    fn ctx(&self, c: &Cx) -> ContextRuleType {
        match c.0 { 0 => ContextRuleType::Default, 1 => ContextRuleType::CallContract(self.u.a[c.1 as usize].clone()),
                    3 => ContextRuleType::CreateContract(BytesN::from_array(&self.e, &[0xffu8; 32])), // (kind 3: the all-ones hash)
                    _ => ContextRuleType::CreateContract(bn32(&self.e, c.1)) }
    }
    fn ctx_coq(&self, c: &ContextRuleType) -> String {
        match c { ContextRuleType::Default => "CDefault".into(), ContextRuleType::CallContract(a) => format!("(CCall {})", self.u.id(a)), ContextRuleType::CreateContract(h) => format!("(CCreate {})", bn32_id(h)) }
    }
    fn rule_coq(&self, r: &ContextRule) -> String {
        format!("(Build_rule {} {} {} {} {} {})", r.id, self.ctx_coq(&r.context_type), num_or_odd(&sbytes(&r.name)),
                list(&r.signers.iter().map(|s| self.signer_coq(&s)).collect::<std::vec::Vec<_>>()), nlist(&self.pol.ids(&r.policies)),
                match r.valid_until { Some(v) => format!("(Some {})", v), None => "None".into() })
    }
    fn name(&self, n: u64) -> SString { SString::from_str(&self.e, &format!("{}", n)) }
    fn queries(&self, max_id: u32, ctxs: &[Cx]) -> std::vec::Vec<String> {
        let mut q = vec![match tryv!(self.c.try_count()) { Some(n) => format!("(SqCount, SaNat {})", n), None => "(SqCount, SaTrap)".into() }];
        for id in 0..=max_id {
            let r = match self.c.try_rule(&id) { Ok(Ok(r)) => okv(&self.rule_coq(&r)), _ => "Fail".into() };
            q.push(format!("(SqRule {}, SaRule {})", id, r));
        }
        for cx in ctxs {
            let ct = self.ctx(cx);
            let r = match self.c.try_rules(&ct) { Ok(Ok(v)) => okv(&list(&v.iter().map(|r| self.rule_coq(&r)).collect::<std::vec::Vec<_>>())), _ => "Fail".into() };
            q.push(format!("(SqRules {}, SaRules {})", self.ctx_coq(&ct), r));
        }
        q
    }
    fn sg_coq(&self, s: &Sg) -> String { if s.0 == 0 { format!("(Delegated {})", s.1) } else if s.0 == 2 { format!("(External {} 0)", s.1) } else { format!("(External {} {})", s.1, s.2) } }
    fn cx_coq(&self, c: &Cx) -> String { match c.0 { 0 => "CDefault".into(), 1 => format!("(CCall {})", c.1), 3 => self.ctx_coq(&self.ctx(c)), _ => format!("(CCreate {})", c.1) } }
    /// policies: (policy index, install succeeds); returns (call, outcome)
    fn add_rule(&self, cx: &Cx, name: u64, until: Option<u32>, sgs: &[Sg], pols: &[(usize, bool)]) -> (String, Option<String>) {
        self.add_rule_s(cx, &format!("{}", name), until, sgs, pols)
    }
    /// (any string as the rule name: decimal numerals print as the number, everything else through `odd`)
    fn add_rule_s(&self, cx: &Cx, name: &str, until: Option<u32>, sgs: &[Sg], pols: &[(usize, bool)]) -> (String, Option<String>) {
        let mut sv: Vec<Signer> = Vec::new(&self.e);
        for s in sgs { sv.push_back(self.signer(s)); }
        let mut pm: Map<Address, Val> = Map::new(&self.e);
        for (p, ok) in pols { pm.set(self.pol.a[*p].clone(), (if *ok { 0u32 } else { 1u32 }).into_val(&self.e)); }
        let r = match self.c.try_add_rule(&self.ctx(cx), &SString::from_str(&self.e, name), &until, &sv, &pm) { Ok(Ok(r)) => Some(format!("(Some {})", self.rule_coq(&r))), _ => None };
        // the Map argument: ascending policy index, last value wins for a repeated key
        let mut keys: std::collections::BTreeMap<usize, bool> = Default::default();
        for (p, ok) in pols { keys.insert(*p, *ok); }
        let ptxt: std::vec::Vec<String> = keys.iter().map(|(p, ok)| format!("({}, {})", p, b(*ok))).collect();
        let call = format!("SaAddRule {} {} {} {} {}", self.cx_coq(cx), num_or_odd(name.as_bytes()), match until { Some(v) => format!("(Some {})", v), None => "None".into() },
                           list(&sgs.iter().map(|s| self.sg_coq(s)).collect::<std::vec::Vec<_>>()), list(&ptxt));
        (call, r)
    }
}

fn directed_sa(out: &mut Out, header: &str) {
    let maxr = sal::MAX_CONTEXT_RULES as u64;
    let maxs = sal::MAX_SIGNERS as usize;
    let maxp = sal::MAX_POLICIES as usize;
    let ctxs: std::vec::Vec<Cx> = vec![(0, 0), (1, 0), (1, 1), (2, 5)];
    let unit = |x: Option<()>| -> Option<String> { x.map(|_| "None".to_string()) };
    let d = |i: usize| -> Sg { (0, i, 0) };
    let add_s = |t: &Sa, id: u32, s: &Sg| (format!("SaAddSigner {} {}", id, t.sg_coq(s)), unit(tryv!(t.c.try_add_signer(&id, &t.signer(s)))));
    let rem_s = |t: &Sa, id: u32, s: &Sg| (format!("SaRemoveSigner {} {}", id, t.sg_coq(s)), unit(tryv!(t.c.try_remove_signer(&id, &t.signer(s)))));
    let add_p = |t: &Sa, id: u32, p: usize, ok: bool| (format!("SaAddPolicy {} {} {}", id, p, b(ok)), unit(tryv!(t.c.try_add_policy(&id, &t.pol.a[p], &(if ok { 0u32 } else { 1u32 }).into_val(&t.e)))));
    let rem_p = |t: &Sa, id: u32, p: usize| (format!("SaRemovePolicy {} {}", id, p), unit(tryv!(t.c.try_remove_policy(&id, &t.pol.a[p]))));
    let rem_r = |t: &Sa, id: u32| (format!("SaRemoveRule {}", id), unit(tryv!(t.c.try_remove_rule(&id))));
    let upd_n = |t: &Sa, id: u32, nm: u64| (format!("SaUpdateName {} {}", id, nm), tryv!(t.c.try_update_name(&id, &t.name(nm))).map(|x| format!("(Some {})", t.rule_coq(&x))));
    let upd_u = |t: &Sa, id: u32, u: Option<u32>| (format!("SaUpdateUntil {} {}", id, match u { Some(v) => format!("(Some {})", v), None => "None".into() }),
                                                   tryv!(t.c.try_update_until(&id, &u)).map(|x| format!("(Some {})", t.rule_coq(&x))));
    // 1. every way a duplicate fingerprint (context type, signer SET, policy SET) can arise - and the near misses
    //    that must be accepted
    {
        let t = Sa::new(4, 4); let mut tr = Tr::new();
        let qs = |t: &Sa| t.queries(12, &ctxs);
        let (c, r) = t.add_rule(&(0, 0), 1, None, &[d(0), d(1)], &[]); tr.sit(out, "sa.add_rule", "sa.s.fp_first", &c, r, qs(&t));                       // id 0
        let (c, r) = t.add_rule(&(0, 0), 2, None, &[d(0), d(1)], &[]); tr.sit(out, "sa.add_rule", "sa.s.fp_same_signers_same_order", &c, r, qs(&t));
        let (c, r) = t.add_rule(&(0, 0), 2, Some(5_000_000), &[d(1), d(0)], &[]); tr.sit(out, "sa.add_rule", "sa.s.fp_same_signers_other_order", &c, r, qs(&t));
        let (c, r) = t.add_rule(&(1, 0), 2, None, &[d(1), d(0)], &[]); tr.sit(out, "sa.add_rule", "sa.s.fp_same_signers_other_context_type", &c, r, qs(&t));    // id 1
        let (c, r) = t.add_rule(&(1, 1), 2, None, &[d(0), d(1)], &[]); tr.sit(out, "sa.add_rule", "sa.s.fp_same_signers_other_contract", &c, r, qs(&t));        // id 2
        let (c, r) = t.add_rule(&(0, 0), 3, None, &[d(0), d(1)], &[(0, true)]); tr.sit(out, "sa.add_rule", "sa.s.fp_same_signers_plus_policy", &c, r, qs(&t));  // id 3
        let (c, r) = t.add_rule(&(0, 0), 3, None, &[d(0), (1, 1, 1)], &[]); tr.sit(out, "sa.add_rule", "sa.s.fp_external_signer", &c, r, qs(&t));            // id 4
        let (c, r) = t.add_rule(&(0, 0), 3, None, &[(1, 1, 2), d(0)], &[]); tr.sit(out, "sa.add_rule", "sa.s.fp_external_signer_other_key", &c, r, qs(&t)); // id 5
        let (c, r) = t.add_rule(&(0, 0), 3, None, &[(1, 1, 1), d(0)], &[]); tr.sit(out, "sa.add_rule", "sa.s.fp_external_signer_other_order", &c, r, qs(&t));
        advance(&t.e, 100); tr.advance(out, "sa", 100, "None", qs(&t));
        // through add_signer / remove_signer
        let (c, r) = t.add_rule(&(0, 0), 4, None, &[d(0)], &[]); tr.sit(out, "sa.add_rule", "sa.s.fp_subset_of_signers", &c, r, qs(&t));                    // id 6
        let (c, r) = add_s(&t, 6, &d(1)); tr.sit(out, "sa.add_signer", "sa.s.fp_duplicate_via_add_signer", &c, r, qs(&t));
        let (c, r) = add_s(&t, 6, &d(2)); tr.sit(out, "sa.add_signer", "sa.s.fp_new_via_add_signer", &c, r, qs(&t));                                       // 6 = {0,2}
        let (c, r) = t.add_rule(&(0, 0), 4, None, &[d(2), d(1), d(0)], &[]); tr.sit(out, "sa.add_rule", "sa.s.fp_superset_of_signers", &c, r, qs(&t));      // id 7
        let (c, r) = rem_s(&t, 7, &d(2)); tr.sit(out, "sa.remove_signer", "sa.s.fp_duplicate_via_remove_signer", &c, r, qs(&t));                          // -> {1,0} = rule 0
        let (c, r) = rem_s(&t, 7, &d(1)); tr.sit(out, "sa.remove_signer", "sa.s.fp_duplicate_via_remove_signer", &c, r, qs(&t));                          // -> {2,0} = rule 6
        let (c, r) = rem_s(&t, 7, &d(0)); tr.sit(out, "sa.remove_signer", "sa.s.fp_new_via_remove_signer", &c, r, qs(&t));                                // 7 = {2,1}
        let (c, r) = t.add_rule(&(0, 0), 4, None, &[d(0), d(1), d(2)], &[]); tr.sit(out, "sa.add_rule", "sa.s.fp_freed_by_remove_signer", &c, r, qs(&t));   // id 8
        // through add_policy / remove_policy
        let (c, r) = add_p(&t, 0, 0, true); tr.sit(out, "sa.add_policy", "sa.s.fp_duplicate_via_add_policy", &c, r, qs(&t));                               // = rule 3
        let (c, r) = add_p(&t, 0, 1, true); tr.sit(out, "sa.add_policy", "sa.s.fp_new_via_add_policy", &c, r, qs(&t));                                     // 0 = {0,1}+{1}
        let (c, r) = add_p(&t, 0, 0, true); tr.sit(out, "sa.add_policy", "sa.s.fp_new_via_add_policy", &c, r, qs(&t));                                     // 0 = {0,1}+[1,0]
        let (c, r) = t.add_rule(&(0, 0), 5, None, &[d(1), d(0)], &[(0, true), (1, true)]); tr.sit(out, "sa.add_rule", "sa.s.fp_same_policies_other_order", &c, r, qs(&t));
        let (c, r) = rem_p(&t, 0, 1); tr.sit(out, "sa.remove_policy", "sa.s.fp_duplicate_via_remove_policy", &c, r, qs(&t));                              // -> +{0} = rule 3
        let (c, r) = rem_p(&t, 3, 0); tr.sit(out, "sa.remove_policy", "sa.s.fp_new_via_remove_policy", &c, r, qs(&t));                                    // 3 = {0,1}
        let (c, r) = t.add_rule(&(0, 0), 5, None, &[d(0), d(1)], &[(0, true)]); tr.sit(out, "sa.add_rule", "sa.s.fp_freed_by_remove_policy", &c, r, qs(&t));  // id 9
        advance(&t.e, 4_000_000); tr.advance(out, "sa", 4_000_000, "None", qs(&t));
        // removal frees the fingerprint
        let (c, r) = rem_r(&t, 3); tr.sit(out, "sa.remove_rule", "sa.s.remove_rule", &c, r, qs(&t));
        let (c, r) = t.add_rule(&(0, 0), 6, None, &[d(1), d(0)], &[]); tr.sit(out, "sa.add_rule", "sa.s.fp_readd_after_rule_removal", &c, r, qs(&t));        // id 10
        let (c, r) = t.add_rule(&(0, 0), 6, None, &[d(0), d(1)], &[]); tr.sit(out, "sa.add_rule", "sa.s.fp_same_signers_other_order", &c, r, qs(&t));
        advance(&t.e, 20); tr.advance(out, "sa", 20, "None", qs(&t));
        let n = tr.len(); out.trace("sa/directed-fingerprints", format!("{} {}", header, list(&tr.ev)), n);
    }
    // 2. rules as a set: ids never reused, removing the first / last / only rule of a context type, absent items
    {
        let t = Sa::new(4, 4); let mut tr = Tr::new();
        let qs = |t: &Sa| t.queries(6, &ctxs);
        let now = 100u32;
        let pg = t.grumpy.iter().position(|g| *g).unwrap_or(2);            // the policy whose uninstall traps
        let oth: std::vec::Vec<usize> = (0..4).filter(|i| *i != pg).collect();
        let (pa, pb, pz) = (oth[0], oth[1], oth[2]);
        for i in 0..3 { let (c, r) = t.add_rule(&(1, 0), i, None, &[d(i as usize)], &[]); tr.sit(out, "sa.add_rule", "sa.s.add_rule", &c, r, qs(&t)); }     // ids 0 1 2
        let (c, r) = t.add_rule(&(0, 0), 0, None, &[], &[]); tr.sit(out, "sa.add_rule", "sa.s.add_rule_without_signers_and_policies", &c, r, qs(&t));
        let (c, r) = t.add_rule(&(0, 0), 0, None, &[d(0), d(0)], &[]); tr.sit(out, "sa.add_rule", "sa.s.add_rule_repeated_signer", &c, r, qs(&t));
        let (c, r) = t.add_rule(&(0, 0), 0, Some(now - 1), &[d(0)], &[]); tr.sit(out, "sa.add_rule", "sa.s.add_rule_valid_until_in_the_past", &c, r, qs(&t));
        let (c, r) = t.add_rule(&(0, 0), 0, Some(now), &[d(0)], &[]); tr.sit(out, "sa.add_rule", "sa.s.add_rule_valid_until_now", &c, r, qs(&t));           // id 3
        let (c, r) = t.add_rule(&(0, 0), 0, None, &[d(1)], &[(pa, false)]); tr.sit(out, "sa.add_rule", "sa.s.add_rule_policy_install_traps", &c, r, qs(&t));
        let (c, r) = t.add_rule(&(2, 5), 0, None, &[], &[(pb, true)]); tr.sit(out, "sa.add_rule", "sa.s.add_rule_policies_only", &c, r, qs(&t));             // id 4
        advance(&t.e, 100); tr.advance(out, "sa", 100, "None", qs(&t));
        let (c, r) = rem_r(&t, 0); tr.sit(out, "sa.remove_rule", "sa.s.remove_first_rule_of_type", &c, r, qs(&t));
        let (c, r) = rem_r(&t, 2); tr.sit(out, "sa.remove_rule", "sa.s.remove_last_rule_of_type", &c, r, qs(&t));
        let (c, r) = rem_r(&t, 1); tr.sit(out, "sa.remove_rule", "sa.s.remove_only_rule_of_type", &c, r, qs(&t));
        let (c, r) = rem_r(&t, 1); tr.sit(out, "sa.remove_rule", "sa.s.remove_absent_rule", &c, r, qs(&t));
        let (c, r) = rem_r(&t, 4); tr.sit(out, "sa.remove_rule", "sa.s.remove_newest_rule", &c, r, qs(&t));
        let (c, r) = t.add_rule(&(1, 0), 9, None, &[d(0)], &[]); tr.sit(out, "sa.add_rule", "sa.s.id_not_reused_after_removal", &c, r, qs(&t));              // id 5
        let (c, r) = upd_n(&t, 5, 7); tr.sit(out, "sa.update_name", "sa.s.update_name", &c, r, qs(&t));
        let (c, r) = upd_n(&t, 1, 7); tr.sit(out, "sa.update_name", "sa.s.update_name_absent_rule", &c, r, qs(&t));
        let (c, r) = upd_u(&t, 5, Some(now + 300)); tr.sit(out, "sa.update_until", "sa.s.update_until", &c, r, qs(&t));
        let (c, r) = upd_u(&t, 5, Some(now + 99)); tr.sit(out, "sa.update_until", "sa.s.update_until_in_the_past", &c, r, qs(&t));
        let (c, r) = upd_u(&t, 2, None); tr.sit(out, "sa.update_until", "sa.s.update_until_absent_rule", &c, r, qs(&t));
        let (c, r) = upd_u(&t, 5, None); tr.sit(out, "sa.update_until", "sa.s.update_until_none", &c, r, qs(&t));
        advance(&t.e, 4_000_000); tr.advance(out, "sa", 4_000_000, "None", qs(&t));
        // signers and policies of one rule as sets
        let (c, r) = add_s(&t, 5, &d(0)); tr.sit(out, "sa.add_signer", "sa.s.add_signer_duplicate", &c, r, qs(&t));
        let (c, r) = add_s(&t, 1, &d(1)); tr.sit(out, "sa.add_signer", "sa.s.add_signer_absent_rule", &c, r, qs(&t));
        let (c, r) = add_s(&t, 5, &d(1)); tr.sit(out, "sa.add_signer", "sa.s.add_signer", &c, r, qs(&t));
        let (c, r) = add_s(&t, 5, &(1, 2, 1)); tr.sit(out, "sa.add_signer", "sa.s.add_signer", &c, r, qs(&t));
        let (c, r) = rem_s(&t, 5, &d(3)); tr.sit(out, "sa.remove_signer", "sa.s.remove_signer_absent", &c, r, qs(&t));
        let (c, r) = rem_s(&t, 5, &(1, 2, 2)); tr.sit(out, "sa.remove_signer", "sa.s.remove_signer_absent", &c, r, qs(&t));
        let (c, r) = rem_s(&t, 5, &d(0)); tr.sit(out, "sa.remove_signer", "sa.s.remove_first_signer", &c, r, qs(&t));
        let (c, r) = rem_s(&t, 5, &(1, 2, 1)); tr.sit(out, "sa.remove_signer", "sa.s.remove_last_signer", &c, r, qs(&t));
        let (c, r) = rem_s(&t, 5, &d(1)); tr.sit(out, "sa.remove_signer", "sa.s.remove_only_signer_no_policies", &c, r, qs(&t));
        let (c, r) = add_p(&t, 5, pb, false); tr.sit(out, "sa.add_policy", "sa.s.add_policy_install_traps", &c, r, qs(&t));
        let (c, r) = add_p(&t, 5, pb, true); tr.sit(out, "sa.add_policy", "sa.s.add_policy", &c, r, qs(&t));
        let (c, r) = add_p(&t, 5, pb, true); tr.sit(out, "sa.add_policy", "sa.s.add_policy_duplicate", &c, r, qs(&t));
        let (c, r) = add_p(&t, 5, pa, true); tr.sit(out, "sa.add_policy", "sa.s.add_policy", &c, r, qs(&t));
        let (c, r) = rem_s(&t, 5, &d(1)); tr.sit(out, "sa.remove_signer", "sa.s.remove_only_signer_with_policies", &c, r, qs(&t));
        let (c, r) = rem_p(&t, 5, pz); tr.sit(out, "sa.remove_policy", "sa.s.remove_policy_absent", &c, r, qs(&t));
        let (c, r) = rem_p(&t, 5, pb); tr.sit(out, "sa.remove_policy", "sa.s.remove_first_policy", &c, r, qs(&t));
        let (c, r) = rem_p(&t, 5, pa); tr.sit(out, "sa.remove_policy", "sa.s.remove_only_policy_no_signers", &c, r, qs(&t));
        let (c, r) = add_p(&t, 5, pg, true); tr.sit(out, "sa.add_policy", "sa.s.add_policy_uninstall_will_trap", &c, r, qs(&t));
        let (c, r) = rem_p(&t, 5, pg); tr.sit(out, "sa.remove_policy", "sa.s.remove_policy_uninstall_traps", &c, r, qs(&t));
        let (c, r) = rem_p(&t, 5, pa); tr.sit(out, "sa.remove_policy", "sa.s.remove_last_policy", &c, r, qs(&t));
        advance(&t.e, 20); tr.advance(out, "sa", 20, "None", qs(&t));
        let n = tr.len(); out.trace("sa/directed-sets", format!("{} {}", header, list(&tr.ev)), n);
    }
    // 3. MAX_CONTEXT_RULES: at the limit and one past it
    {
        let t = Sa::new(3, 4); let mut tr = Tr::new();
        let qs = |t: &Sa| t.queries(maxr as u32 + 2, &ctxs);
        for i in 0..maxr { let (c, r) = t.add_rule(&ctxs[(i % 4) as usize], i, None, &[(1, 0, 1 + i)], &[]);
            tr.sit(out, "sa.add_rule.limit", if i + 1 == maxr { "sa.s.rule_count_reaches_limit" } else { "sa.s.add_rule" }, &c, r, if i + 3 >= maxr { qs(&t) } else { t.queries(i as u32 + 1, &[]) }); }
        let (c, r) = t.add_rule(&(0, 0), 0, None, &[(1, 0, 99)], &[]); tr.sit(out, "sa.add_rule.limit", "sa.s.rule_count_over_limit", &c, r, qs(&t));
        advance(&t.e, 600_000); tr.advance(out, "sa", 600_000, "None", qs(&t));
        let (c, r) = rem_r(&t, 4); tr.sit(out, "sa.remove_rule", "sa.s.remove_rule", &c, r, qs(&t));
        let (c, r) = t.add_rule(&(0, 0), 0, None, &[(1, 0, 99)], &[]); tr.sit(out, "sa.add_rule.limit", "sa.s.rule_count_reaches_limit", &c, r, qs(&t));
        let (c, r) = t.add_rule(&(0, 0), 0, None, &[(1, 0, 98)], &[]); tr.sit(out, "sa.add_rule.limit", "sa.s.rule_count_over_limit", &c, r, qs(&t));
        let n = tr.len(); out.trace("sa/directed-rule-limit", format!("{} {}", header, list(&tr.ev)), n);
    }
    // 4. MAX_SIGNERS and MAX_POLICIES: at the limit and one past it, at add_context_rule and at add_signer / add_policy
    {
        let t = Sa::new(maxs + 3, maxp + 3); let mut tr = Tr::new();
        let qs = |t: &Sa| t.queries(1, &ctxs);
        let sg_over: std::vec::Vec<Sg> = (0..maxs + 1).map(d).collect();
        let p_over: std::vec::Vec<(usize, bool)> = (0..maxp + 1).map(|i| (i, true)).collect();
        let (c, r) = t.add_rule(&(0, 0), 1, None, &sg_over, &[]); tr.sit(out, "sa.signer_limit", "sa.s.add_rule_signers_over_limit", &c, r, qs(&t));
        let (c, r) = t.add_rule(&(0, 0), 1, None, &sg_over[..2], &p_over); tr.sit(out, "sa.policy_limit", "sa.s.add_rule_policies_over_limit", &c, r, qs(&t));
        let (c, r) = t.add_rule(&(0, 0), 1, None, &sg_over[..maxs], &p_over[..maxp]); tr.sit(out, "sa.signer_limit", "sa.s.add_rule_signers_and_policies_at_limit", &c, r, qs(&t));
        let (c, r) = add_s(&t, 0, &d(maxs)); tr.sit(out, "sa.signer_limit", "sa.s.add_signer_over_limit", &c, r, qs(&t));
        let (c, r) = add_p(&t, 0, maxp, true); tr.sit(out, "sa.policy_limit", "sa.s.add_policy_over_limit", &c, r, qs(&t));
        advance(&t.e, 4_000_000); tr.advance(out, "sa", 4_000_000, "None", qs(&t));
        let (c, r) = rem_s(&t, 0, &d(3)); tr.sit(out, "sa.remove_signer", "sa.s.remove_signer", &c, r, qs(&t));
        let (c, r) = add_s(&t, 0, &d(maxs)); tr.sit(out, "sa.signer_limit", "sa.s.add_signer_reaches_limit", &c, r, qs(&t));
        let (c, r) = add_s(&t, 0, &d(maxs + 1)); tr.sit(out, "sa.signer_limit", "sa.s.add_signer_over_limit", &c, r, qs(&t));
        let (c, r) = rem_p(&t, 0, 1); tr.sit(out, "sa.remove_policy", "sa.s.remove_policy", &c, r, qs(&t));
        let (c, r) = add_p(&t, 0, maxp, true); tr.sit(out, "sa.policy_limit", "sa.s.add_policy_reaches_limit", &c, r, qs(&t));
        let (c, r) = add_p(&t, 0, maxp + 1, true); tr.sit(out, "sa.policy_limit", "sa.s.add_policy_over_limit", &c, r, qs(&t));
        let n = tr.len(); out.trace("sa/directed-signer-policy-limits", format!("{} {}", header, list(&tr.ev)), n);
    }
}

// ---- CLASS histories of the smart-account context rules ----
/// policy kinds of `sa_special`: 0 plain mock, 1 uninstall traps, 2 the smart account's OWN address, 3 NO contract lives there,
/// 4 install ANSWERS a number
fn sa_special<'a>(naddr: usize) -> (Sa<'a>, std::vec::Vec<u8>) {
    let e = new_env();
    let id = e.register(SaC, ());
    let c = SaCClient::new(&e, &id);
    let raw: std::vec::Vec<(Address, u8)> = vec![(e.register(PolicyMock, ()), 0), (e.register(PolicyMock, ()), 0), (e.register(GrumpyPolicyMock, ()), 1), (e.register(PolicyMock, ()), 0),
                                                  (id.clone(), 2), (Address::generate(&e), 3), (e.register(OddPolicyMock, ()), 4)];
    let mut m: Map<Address, ()> = Map::new(&e);
    for (a, _) in raw.iter() { m.set(a.clone(), ()); }
    let sorted: std::vec::Vec<Address> = m.keys().iter().collect();
    let kind: std::vec::Vec<u8> = sorted.iter().map(|a| raw.iter().find(|x| x.0 == *a).map(|x| x.1).unwrap_or(0)).collect();
    let grumpy: std::vec::Vec<bool> = kind.iter().map(|k| *k == 1).collect();
    // addresses: naddr plain ones, then the smart account's OWN address (index naddr), then the address of a plain policy (naddr + 1)
    let mut a: std::vec::Vec<Address> = (0..naddr).map(|_| Address::generate(&e)).collect();
    a.push(id.clone());
    a.push(sorted[kind.iter().position(|k| *k == 0).unwrap_or(0)].clone());
    (Sa { e, c, u: Uni::of(a), pol: Uni::of(sorted), grumpy }, kind)
}
fn classes_sa(out: &mut Out, header: &str) {
    let unit = |x: Option<()>| -> Option<String> { x.map(|_| "None".to_string()) };
    let d = |i: usize| -> Sg { (0, i, 0) };
    let add_s = |t: &Sa, id: u32, s: &Sg| (format!("SaAddSigner {} {}", id, t.sg_coq(s)), unit(tryv!(t.c.try_add_signer(&id, &t.signer(s)))));
    let rem_s = |t: &Sa, id: u32, s: &Sg| (format!("SaRemoveSigner {} {}", id, t.sg_coq(s)), unit(tryv!(t.c.try_remove_signer(&id, &t.signer(s)))));
    let add_p = |t: &Sa, id: u32, p: usize, ok: bool| (format!("SaAddPolicy {} {} {}", id, p, b(ok)), unit(tryv!(t.c.try_add_policy(&id, &t.pol.a[p], &(if ok { 0u32 } else { 1u32 }).into_val(&t.e)))));
    let rem_p = |t: &Sa, id: u32, p: usize| (format!("SaRemovePolicy {} {}", id, p), unit(tryv!(t.c.try_remove_policy(&id, &t.pol.a[p]))));
    let rem_r = |t: &Sa, id: u32| (format!("SaRemoveRule {}", id), unit(tryv!(t.c.try_remove_rule(&id))));
    let upd_n = |t: &Sa, id: u32, nm: &str| (format!("SaUpdateName {} {}", id, num_or_odd(nm.as_bytes())), tryv!(t.c.try_update_name(&id, &SString::from_str(&t.e, nm))).map(|x| format!("(Some {})", t.rule_coq(&x))));
    let upd_u = |t: &Sa, id: u32, u: Option<u32>| (format!("SaUpdateUntil {} {}", id, match u { Some(v) => format!("(Some {})", v), None => "None".into() }),
                                                   tryv!(t.c.try_update_until(&id, &u)).map(|x| format!("(Some {})", t.rule_coq(&x))));
    let with_extra = |t: &Sa, mut q: std::vec::Vec<String>| -> std::vec::Vec<String> {
        let r = match t.c.try_rule(&u32::MAX) { Ok(Ok(r)) => okv(&t.rule_coq(&r)), _ => "Fail".into() };
        q.push(format!("(SqRule {}, SaRule {})", u32::MAX, r)); q };
    // 1. special parties (K1), collaborators (K4), unusual values (K2), aliasing (K5)
    {
        let (t, kind) = sa_special(3); let mut tr = Tr::new();
        let (own, pa_addr) = (3usize, 4usize);
        let pk = |k: u8| kind.iter().position(|x| *x == k).unwrap_or(0);
        let (pa, p_own, p_none, p_odd) = (pk(0), pk(2), pk(3), pk(4));
        let ctxs: std::vec::Vec<Cx> = vec![(0, 0), (1, own as u64), (1, 1), (1, pa_addr as u64), (2, 0), (3, 0)];
        let qs = |t: &Sa| with_extra(t, t.queries(13, &ctxs));
        let (c, r) = t.add_rule_s(&(0, 0), "", None, &[d(own)], &[]); tr.sit(out, "sa.add_rule", "sa.s.add_rule_signer_is_own_address_empty_name", &c, r, qs(&t));                  // id 0
        let (c, r) = t.add_rule_s(&(1, own as u64), "multisig", None, &[d(0)], &[]); tr.sit(out, "sa.add_rule", "sa.s.add_rule_context_is_own_address_text_name", &c, r, qs(&t));    // id 1
        let (c, r) = t.add_rule(&(0, 0), 1, None, &[(1, own, 1)], &[]); tr.sit(out, "sa.add_rule", "sa.s.add_rule_verifier_is_own_address", &c, r, qs(&t));                          // id 2
        let (c, r) = t.add_rule(&(0, 0), 1, None, &[d(1)], &[(p_own, false)]); tr.sit(out, "sa.add_rule", "sa.s.add_rule_policy_is_own_address", &c, r, qs(&t));
        let (c, r) = t.add_rule(&(0, 0), 1, None, &[d(1)], &[(p_none, false)]); tr.sit(out, "sa.add_rule", "sa.s.add_rule_policy_not_a_contract", &c, r, qs(&t));
        let (c, r) = t.add_rule(&(0, 0), 1, None, &[d(1)], &[(pa, true), (p_odd, false)]); tr.sit(out, "sa.add_rule", "sa.s.add_rule_policy_install_answers_a_value", &c, r, qs(&t));
        let (c, r) = add_p(&t, 0, p_own, false); tr.sit(out, "sa.add_policy", "sa.s.add_policy_is_own_address", &c, r, qs(&t));
        let (c, r) = add_p(&t, 0, p_none, false); tr.sit(out, "sa.add_policy", "sa.s.add_policy_not_a_contract", &c, r, qs(&t));
        let (c, r) = add_p(&t, 0, p_odd, false); tr.sit(out, "sa.add_policy", "sa.s.add_policy_install_answers_a_value", &c, r, qs(&t));
        let (c, r) = t.add_rule(&(1, pa_addr as u64), 2, None, &[], &[(pa, false)]); tr.sit(out, "sa.add_rule", "sa.s.add_rule_context_contract_is_its_failing_policy", &c, r, qs(&t));
        let (c, r) = t.add_rule(&(1, pa_addr as u64), 2, None, &[], &[(pa, true)]); tr.sit(out, "sa.add_rule", "sa.s.add_rule_context_contract_is_its_policy", &c, r, qs(&t));        // id 3
        let (c, r) = t.add_rule(&(1, 1), 2, None, &[d(1), (1, 1, 5)], &[]); tr.sit(out, "sa.add_rule", "sa.s.add_rule_context_contract_is_signer_delegated_and_external", &c, r, qs(&t)); // id 4
        advance(&t.e, 100); tr.advance(out, "sa", 100, "None", qs(&t));                                                                                                        // ledger 200
        let (c, r) = t.add_rule(&(0, 0), 3, Some(0), &[d(2)], &[]); tr.sit(out, "sa.add_rule", "sa.s.add_rule_valid_until_zero", &c, r, qs(&t));
        let (c, r) = t.add_rule(&(0, 0), 3, Some(u32::MAX), &[d(2)], &[]); tr.sit(out, "sa.add_rule", "sa.s.add_rule_valid_until_u32_max", &c, r, qs(&t));                          // id 5
        let (c, r) = t.add_rule(&(0, 0), 3, None, &[(2, 1, 0)], &[]); tr.sit(out, "sa.add_rule", "sa.s.add_rule_external_signer_empty_key", &c, r, qs(&t));                        // id 6
        let (c, r) = t.add_rule(&(2, 0), 3, None, &[d(0)], &[]); tr.sit(out, "sa.add_rule", "sa.s.add_rule_create_hash_all_zero", &c, r, qs(&t));                                 // id 7
        let (c, r) = t.add_rule(&(3, 0), 3, None, &[d(0)], &[]); tr.sit(out, "sa.add_rule", "sa.s.add_rule_create_hash_all_ones", &c, r, qs(&t));                                 // id 8
        let (c, r) = upd_n(&t, 1, "multisig"); tr.sit(out, "sa.update_name", "sa.s.update_name_same", &c, r, qs(&t));
        let (c, r) = upd_n(&t, 1, ""); tr.sit(out, "sa.update_name", "sa.s.update_name_empty", &c, r, qs(&t));
        let (c, r) = upd_n(&t, u32::MAX, "1"); tr.sit(out, "sa.update_name", "sa.s.update_name_id_u32_max", &c, r, qs(&t));
        let (c, r) = upd_u(&t, 5, Some(u32::MAX)); tr.sit(out, "sa.update_until", "sa.s.update_until_same_u32_max", &c, r, qs(&t));
        let (c, r) = upd_u(&t, 5, Some(0)); tr.sit(out, "sa.update_until", "sa.s.update_until_zero", &c, r, qs(&t));
        let (c, r) = upd_u(&t, 0, Some(200)); tr.sit(out, "sa.update_until", "sa.s.update_until_now", &c, r, qs(&t));
        let (c, r) = rem_r(&t, u32::MAX); tr.sit(out, "sa.remove_rule", "sa.s.remove_rule_id_u32_max", &c, r, qs(&t));
        let (c, r) = rem_s(&t, 0, &d(own)); tr.sit(out, "sa.remove_signer", "sa.s.remove_only_signer_own_address", &c, r, qs(&t));
        let (c, r) = add_s(&t, 0, &(1, own, 1)); tr.sit(out, "sa.add_signer", "sa.s.add_signer_same_address_other_kind", &c, r, qs(&t));
        let (c, r) = rem_r(&t, 0); tr.sit(out, "sa.remove_rule", "sa.s.remove_rule_of_own_address", &c, r, qs(&t));
        advance(&t.e, 4_000_000); tr.advance(out, "sa", 4_000_000, "None", qs(&t));
        let n = tr.len(); out.trace("sa/classes-parties-and-values", format!("{} {}", header, list(&tr.ev)), n);
    }
    // 2. histories (K6): five rules of one type, five signers and four policies of one rule - middle / second-to-last /
    //    first / last removed; a rule that expires and is re-created
    {
        let t = Sa::new(5, 5); let mut tr = Tr::new();
        let ctxs: std::vec::Vec<Cx> = vec![(0, 0), (1, 0), (1, 1), (2, 5)];
        let qs = |t: &Sa| t.queries(11, &ctxs);
        let plain: std::vec::Vec<usize> = (0..5).filter(|i| !t.grumpy[*i]).collect();
        for i in 0..5u64 { let (c, r) = t.add_rule(&(1, 0), i, None, &[(1, 0, 1 + i)], &[]); tr.sit(out, "sa.add_rule", "sa.s.add_rule", &c, r, qs(&t)); }               // ids 0..4
        let (c, r) = rem_r(&t, 2); tr.sit(out, "sa.remove_rule", "sa.s.remove_middle_rule_of_five", &c, r, qs(&t));
        let (c, r) = rem_r(&t, 3); tr.sit(out, "sa.remove_rule", "sa.s.remove_second_to_last_rule", &c, r, qs(&t));
        let (c, r) = rem_r(&t, 0); tr.sit(out, "sa.remove_rule", "sa.s.remove_first_rule_of_type", &c, r, qs(&t));
        let (c, r) = rem_r(&t, 4); tr.sit(out, "sa.remove_rule", "sa.s.remove_last_rule_of_type", &c, r, qs(&t));
        let (c, r) = t.add_rule(&(1, 0), 9, None, &[(1, 0, 3)], &[]); tr.sit(out, "sa.add_rule", "sa.s.id_not_reused_after_removal", &c, r, qs(&t));                       // id 5
        let (c, r) = t.add_rule(&(0, 0), 1, None, &[d(0), d(1), d(2), d(3), (1, 4, 1)], &plain[..4].iter().map(|p| (*p, true)).collect::<std::vec::Vec<_>>());
        tr.sit(out, "sa.add_rule", "sa.s.add_rule_five_signers_four_policies", &c, r, qs(&t));                                                                          // id 6
        let (c, r) = rem_s(&t, 6, &d(2)); tr.sit(out, "sa.remove_signer", "sa.s.remove_middle_signer_of_five", &c, r, qs(&t));
        let (c, r) = rem_s(&t, 6, &d(3)); tr.sit(out, "sa.remove_signer", "sa.s.remove_second_to_last_signer", &c, r, qs(&t));
        let (c, r) = rem_s(&t, 6, &d(0)); tr.sit(out, "sa.remove_signer", "sa.s.remove_first_signer", &c, r, qs(&t));
        let (c, r) = rem_s(&t, 6, &(1, 4, 1)); tr.sit(out, "sa.remove_signer", "sa.s.remove_last_signer", &c, r, qs(&t));
        let (c, r) = add_s(&t, 6, &d(2)); tr.sit(out, "sa.add_signer", "sa.s.readd_signer_after_removal", &c, r, qs(&t));
        let (c, r) = rem_p(&t, 6, plain[1]); tr.sit(out, "sa.remove_policy", "sa.s.remove_second_policy_of_four", &c, r, qs(&t));
        let (c, r) = rem_p(&t, 6, plain[2]); tr.sit(out, "sa.remove_policy", "sa.s.remove_second_to_last_policy", &c, r, qs(&t));
        let (c, r) = rem_p(&t, 6, plain[0]); tr.sit(out, "sa.remove_policy", "sa.s.remove_first_policy", &c, r, qs(&t));
        let (c, r) = add_p(&t, 6, plain[1], true); tr.sit(out, "sa.add_policy", "sa.s.readd_policy_after_removal", &c, r, qs(&t));
        // expiry: the rule stays registered (and keeps its fingerprint) after valid_until has passed
        let (c, r) = t.add_rule(&(2, 5), 4, Some(110), &[d(4)], &[]); tr.sit(out, "sa.add_rule", "sa.s.add_rule_expiring_soon", &c, r, qs(&t));                          // id 7
        advance(&t.e, 20); tr.advance(out, "sa", 20, "None", qs(&t));                                                                                                  // ledger 120
        let (c, r) = t.add_rule(&(2, 5), 4, None, &[d(4)], &[]); tr.sit(out, "sa.add_rule", "sa.s.fp_same_as_expired_rule", &c, r, qs(&t));
        let (c, r) = add_s(&t, 7, &d(3)); tr.sit(out, "sa.add_signer", "sa.s.add_signer_to_expired_rule", &c, r, qs(&t));
        let (c, r) = upd_u(&t, 7, Some(119)); tr.sit(out, "sa.update_until", "sa.s.update_until_expired_rule_still_in_the_past", &c, r, qs(&t));
        let (c, r) = upd_u(&t, 7, Some(130)); tr.sit(out, "sa.update_until", "sa.s.update_until_revives_expired_rule", &c, r, qs(&t));
        advance(&t.e, 600_000); tr.advance(out, "sa", 600_000, "None", qs(&t));
        let (c, r) = rem_r(&t, 7); tr.sit(out, "sa.remove_rule", "sa.s.remove_expired_rule", &c, r, qs(&t));
        let (c, r) = t.add_rule(&(2, 5), 4, None, &[d(3), d(4)], &[]); tr.sit(out, "sa.add_rule", "sa.s.fp_readd_after_expired_rule_removed", &c, r, qs(&t));             // id 8
        let n = tr.len(); out.trace("sa/classes-histories", format!("{} {}", header, list(&tr.ev)), n);
    }
    // 3. sibling entry path (K3): the REAL example contract examples/multisig-smart-account/account - its constructor
    //    (rule 0 through add_context_rule without any authorisation) and its SmartAccount trait methods (authorisation
    //    mocked wholesale: C20 does not quantify over it) - same model, same monitor
    {
        let t = Sa::new(4, 4); let mut tr = Tr::new();
        let ctxs: std::vec::Vec<Cx> = vec![(0, 0), (1, 0), (1, 1), (2, 5)];
        let pa = (0..4).find(|i| !t.grumpy[*i]).unwrap_or(0);
        let mut sv: Vec<Signer> = Vec::new(&t.e); sv.push_back(t.signer(&d(0))); sv.push_back(t.signer(&d(1)));
        let mut pm: Map<Address, Val> = Map::new(&t.e); pm.set(t.pol.a[pa].clone(), 0u32.into_val(&t.e));
        let ex = MultisigContractClient::new(&t.e, &t.e.register(MultisigContract, (sv.clone(), pm.clone())));
        t.e.mock_all_auths();
        let qs = |t: &Sa| -> std::vec::Vec<String> {
            let mut q = vec![match tryv!(ex.try_get_context_rules_count()) { Some(n) => format!("(SqCount, SaNat {})", n), None => "(SqCount, SaTrap)".into() }];
            for id in 0..=5u32 { let r = match ex.try_get_context_rule(&id) { Ok(Ok(r)) => okv(&t.rule_coq(&r)), _ => "Fail".into() }; q.push(format!("(SqRule {}, SaRule {})", id, r)); }
            for cx in ctxs.iter() { let ct = t.ctx(cx);
                let r = match ex.try_get_context_rules(&ct) { Ok(Ok(v)) => okv(&list(&v.iter().map(|r| t.rule_coq(&r)).collect::<std::vec::Vec<_>>())), _ => "Fail".into() };
                q.push(format!("(SqRules {}, SaRules {})", t.ctx_coq(&ct), r)); }
            q };
        let unit2 = |x: Option<()>| -> Option<String> { x.map(|_| "None".to_string()) };
        let ex_add = |cx: &Cx, name: &str, sgs: &[Sg], pols: &[(usize, bool)]| -> (String, Option<String>) {
            let mut sv: Vec<Signer> = Vec::new(&t.e); for s in sgs { sv.push_back(t.signer(s)); }
            let mut pm: Map<Address, Val> = Map::new(&t.e); for (p, ok) in pols { pm.set(t.pol.a[*p].clone(), (if *ok { 0u32 } else { 1u32 }).into_val(&t.e)); }
            let r = match ex.try_add_context_rule(&t.ctx(cx), &SString::from_str(&t.e, name), &None, &sv, &pm) { Ok(Ok(r)) => Some(format!("(Some {})", t.rule_coq(&r))), _ => None };
            let ptxt: std::vec::Vec<String> = pols.iter().map(|(p, ok)| format!("({}, {})", p, b(*ok))).collect();
            (format!("SaAddRule {} {} None {} {}", t.cx_coq(cx), num_or_odd(name.as_bytes()), list(&sgs.iter().map(|s| t.sg_coq(s)).collect::<std::vec::Vec<_>>()), list(&ptxt)), r) };
        // the constructor's rule: observed through get_context_rule(0)
        let r0 = tryv!(ex.try_get_context_rule(&0)).map(|r| format!("(Some {})", t.rule_coq(&r)));
        let c0 = format!("SaAddRule CDefault {} None {} {}", num_or_odd(b"multisig"), list(&[t.sg_coq(&d(0)), t.sg_coq(&d(1))]), list(&[format!("({}, true)", pa)]));
        tr.sit(out, "sa.add_rule", "sa.s.example_constructor_rule", &c0, r0, qs(&t));
        let (c, r) = ex_add(&(0, 0), "2", &[d(1), d(0)], &[(pa, true)]); tr.sit(out, "sa.add_rule", "sa.s.example_duplicate_of_constructor_rule", &c, r, qs(&t));
        let (c, r) = ex_add(&(1, 0), "3", &[d(1), d(0)], &[]); tr.sit(out, "sa.add_rule", "sa.s.example_add_rule", &c, r, qs(&t));                                       // id 1
        let (c, r) = (format!("SaRemovePolicy 0 {}", pa), unit2(tryv!(ex.try_remove_policy(&0, &t.pol.a[pa])))); tr.sit(out, "sa.remove_policy", "sa.s.example_remove_policy", &c, r, qs(&t));
        let (c, r) = (format!("SaAddSigner 1 {}", t.sg_coq(&d(2))), unit2(tryv!(ex.try_add_signer(&1, &t.signer(&d(2)))))); tr.sit(out, "sa.add_signer", "sa.s.example_add_signer", &c, r, qs(&t));
        let (c, r) = (format!("SaRemoveSigner 1 {}", t.sg_coq(&d(2))), unit2(tryv!(ex.try_remove_signer(&1, &t.signer(&d(2)))))); tr.sit(out, "sa.remove_signer", "sa.s.example_remove_signer", &c, r, qs(&t));
        let (c, r) = (format!("SaAddPolicy 1 {} true", pa), unit2(tryv!(ex.try_add_policy(&1, &t.pol.a[pa], &0u32.into_val(&t.e))))); tr.sit(out, "sa.add_policy", "sa.s.example_add_policy", &c, r, qs(&t));
        advance(&t.e, 4_000_000); tr.advance(out, "sa", 4_000_000, "None", qs(&t));
        let (c, r) = ("SaUpdateName 1 8".to_string(), tryv!(ex.try_update_context_rule_name(&1, &SString::from_str(&t.e, "8"))).map(|x| format!("(Some {})", t.rule_coq(&x)))); tr.sit(out, "sa.update_name", "sa.s.example_update_name", &c, r, qs(&t));
        let (c, r) = ("SaUpdateUntil 1 (Some 4000100)".to_string(), tryv!(ex.try_update_context_rule_valid_until(&1, &Some(4_000_100))).map(|x| format!("(Some {})", t.rule_coq(&x)))); tr.sit(out, "sa.update_until", "sa.s.example_update_until", &c, r, qs(&t));
        let (c, r) = ("SaRemoveRule 0".to_string(), unit2(tryv!(ex.try_remove_context_rule(&0)))); tr.sit(out, "sa.remove_rule", "sa.s.example_remove_constructor_rule", &c, r, qs(&t));
        let (c, r) = ex_add(&(0, 0), "4", &[d(0), d(1)], &[]); tr.sit(out, "sa.add_rule", "sa.s.example_readd_after_removal_new_id", &c, r, qs(&t));                        // id 2
        let n = tr.len(); out.trace("sa/classes-example-contract", format!("{} {}", header, list(&tr.ev)), n);
    }
}

fn run_sa(out: &mut Out, rng: &mut Rng) {
    let maxr = sal::MAX_CONTEXT_RULES as u64;
    let maxs = sal::MAX_SIGNERS as u64;
    let maxp = sal::MAX_POLICIES as u64;
    let thorough = out.cfg.thorough;
    let scale = out.cfg.scale as usize;
    let now0 = 100u32;
    let header = format!("TrSA {} {} {} {}", maxr, maxs, maxp, now0);
    directed_sa(out, &header);
    classes_sa(out, &header);
    let na = if directed_only() { 0 } else if thorough { 600 } else { 66 } * scale;
    for it in 0..na {
        let mode = it % 4; // 0,1: general; 2: rule-count limit; 3: signer / policy limits
        let naddr = if mode == 3 { (maxs + 3) as usize } else { 3 };
        let npol = if mode == 3 { (maxp + 3) as usize } else { 4 };
        let t = Sa::new(naddr, npol);
        let mut tr = Tr::new();
        let ctxs: std::vec::Vec<Cx> = vec![(0, 0), (1, 0), (1, 1), (2, 5)];
        let ncalls = if thorough { 50 } else { 30 };
        let mut next_id_guess = 0u32;
        let mut now = now0;
        let rand_sg = |rng: &mut Rng| -> Sg { if rng.chance(1, 2) { (0, rng.below(naddr.min(3) as u64) as usize, 0) } else { (1, rng.below(2) as usize, 1 + rng.below(2)) } };
        if mode == 3 {
            // directed: MAX_SIGNERS and MAX_POLICIES at the limit and one past it
            let ms = maxs as usize; let mp = maxp as usize;
            let unit = |x: Result<Result<(), _>, _>| -> Option<String> { match x { Ok(Ok(())) => Some("None".into()), _ => None } };
            let sgs_over: std::vec::Vec<Sg> = (0..ms + 1).map(|i| (0u64, i, 0u64)).collect();
            let (c2, r2) = t.add_rule(&(0, 0), 1, None, &sgs_over, &[]);
            tr.push(out, "sa.signer_limit", &c2, r2, t.queries(1, &ctxs));
            let pols_over: std::vec::Vec<(usize, bool)> = (0..mp + 1).map(|i| (i, true)).collect();
            let (c2, r2) = t.add_rule(&(0, 0), 1, None, &sgs_over[..2], &pols_over);
            tr.push(out, "sa.policy_limit", &c2, r2, t.queries(1, &ctxs));
            let pols_full: std::vec::Vec<(usize, bool)> = (0..mp).map(|i| (i, true)).collect();
            let (c2, r2) = t.add_rule(&(0, 0), 1, None, &sgs_over[..ms], &pols_full);
            if r2.is_some() { next_id_guess += 1; }
            tr.push(out, "sa.signer_limit", &c2, r2, t.queries(1, &ctxs));
            let extra: Sg = (0, ms, 0); let extra2: Sg = (0, ms + 1, 0);
            let r = unit(t.c.try_add_signer(&0, &t.signer(&extra)));
            tr.push(out, "sa.signer_limit", &format!("SaAddSigner 0 {}", t.sg_coq(&extra)), r, t.queries(1, &ctxs));
            let victim: Sg = (0, rng.below(ms as u64) as usize, 0);
            let r = unit(t.c.try_remove_signer(&0, &t.signer(&victim)));
            tr.push(out, "sa.remove_signer", &format!("SaRemoveSigner 0 {}", t.sg_coq(&victim)), r, t.queries(1, &ctxs));
            let r = unit(t.c.try_add_signer(&0, &t.signer(&extra)));
            tr.push(out, "sa.signer_limit", &format!("SaAddSigner 0 {}", t.sg_coq(&extra)), r, t.queries(1, &ctxs));
            let r = unit(t.c.try_add_signer(&0, &t.signer(&extra2)));
            tr.push(out, "sa.signer_limit", &format!("SaAddSigner 0 {}", t.sg_coq(&extra2)), r, t.queries(1, &ctxs));
            let r = unit(t.c.try_add_policy(&0, &t.pol.a[mp], &0u32.into_val(&t.e)));
            tr.push(out, "sa.policy_limit", &format!("SaAddPolicy 0 {} true", mp), r, t.queries(1, &ctxs));
            let pv = rng.below(mp as u64) as usize;
            let r = unit(t.c.try_remove_policy(&0, &t.pol.a[pv]));
            tr.push(out, "sa.remove_policy", &format!("SaRemovePolicy 0 {}", pv), r, t.queries(1, &ctxs));
            let r = unit(t.c.try_add_policy(&0, &t.pol.a[mp], &0u32.into_val(&t.e)));
            tr.push(out, "sa.policy_limit", &format!("SaAddPolicy 0 {} true", mp), r, t.queries(1, &ctxs));
            let r = unit(t.c.try_add_policy(&0, &t.pol.a[mp + 1], &0u32.into_val(&t.e)));
            tr.push(out, "sa.policy_limit", &format!("SaAddPolicy 0 {} true", mp + 1), r, t.queries(1, &ctxs));
        }
        for step in 0..ncalls {
            if (mode == 3 && step == 0) || rng.chance(1, 10) {
                let n = if mode == 3 && step == 0 { 4_000_000 } else { *rng.pick(&GAPS) }; advance(&t.e, n); now += n as u32;
                tr.advance(out, "sa", n, "None", t.queries(next_id_guess + 1, &ctxs));
            }
            let live: std::vec::Vec<u32> = (0..next_id_guess + 1).filter(|i| t.c.try_rule(i).map(|r| r.is_ok()).unwrap_or(false)).collect();
            let pick_id = |rng: &mut Rng| -> u32 { if !live.is_empty() && rng.chance(5, 6) { *rng.pick(&live) } else { rng.below(next_id_guess as u64 + 2) as u32 } };
            let (label, call, r): (&str, String, Option<String>);
            let choice = if mode == 2 && step < (maxr as usize + 3) { 0 } else { rng.below(16) };
            match choice {
                0..=4 => {
                    let cx = *rng.pick(&ctxs);
                    let ns = match rng.below(8) { 0 => 0, _ => 1 + rng.below(3) };
                    let mut sgs: std::vec::Vec<Sg> = vec![];
                    if mode == 2 { sgs.push((1, 0, 1 + step as u64)); } // distinct fingerprints so that only the count limits
                    else { for _ in 0..ns { let s = rand_sg(rng); if rng.chance(1, 12) || !sgs.contains(&s) { sgs.push(s); } } }
                    let np = match rng.below(6) { 0 => 2, 1 | 2 => 1, _ => 0 };
                    let mut pols: std::vec::Vec<(usize, bool)> = vec![];
                    for _ in 0..np { let p = rng.below(npol.min(4) as u64) as usize; if !pols.iter().any(|x| x.0 == p) { pols.push((p, !rng.chance(1, 10))); } }
                    let until = match rng.below(8) { 0 => Some(now - 1), 1 => Some(now), 2 => Some(now + 50), _ => None };
                    let (c2, r2) = t.add_rule(&cx, rng.below(3), until, &sgs, &pols);
                    if r2.is_some() { next_id_guess += 1; }
                    label = if mode == 2 { "sa.add_rule.limit" } else { "sa.add_rule" }; call = c2; r = r2;
                }
                5 => { let id = pick_id(rng); let nm = rng.below(4);
                       r = match t.c.try_update_name(&id, &t.name(nm)) { Ok(Ok(x)) => Some(format!("(Some {})", t.rule_coq(&x))), _ => None };
                       label = "sa.update_name"; call = format!("SaUpdateName {} {}", id, nm); }
                6 => { let id = pick_id(rng); let until = match rng.below(4) { 0 => Some(now - 1), 1 => Some(now), 2 => Some(now + 7), _ => None };
                       r = match t.c.try_update_until(&id, &until) { Ok(Ok(x)) => Some(format!("(Some {})", t.rule_coq(&x))), _ => None };
                       label = "sa.update_until"; call = format!("SaUpdateUntil {} {}", id, match until { Some(v) => format!("(Some {})", v), None => "None".into() }); }
                7..=8 => { let id = pick_id(rng);
                           r = match t.c.try_remove_rule(&id) { Ok(Ok(())) => Some("None".into()), _ => None };
                           label = "sa.remove_rule"; call = format!("SaRemoveRule {}", id); }
                9..=10 => { let id = pick_id(rng);
                            let s: Sg = if mode == 3 { (0, rng.below(naddr as u64) as usize, 0) } else { rand_sg(rng) };
                            r = match t.c.try_add_signer(&id, &t.signer(&s)) { Ok(Ok(())) => Some("None".into()), _ => None };
                            label = "sa.add_signer"; call = format!("SaAddSigner {} {}", id, t.sg_coq(&s)); }
                11..=12 => { let id = pick_id(rng);
                             let cur: std::vec::Vec<Signer> = t.c.try_rule(&id).ok().and_then(|x| x.ok()).map(|r| r.signers.iter().collect()).unwrap_or_default();
                             let (s_val, s_txt) = if !cur.is_empty() && rng.chance(4, 5) { let s = match rng.below(3) { 0 => cur[0].clone(), 1 => cur[cur.len() - 1].clone(), _ => rng.pick(&cur).clone() }; let tx = t.signer_coq(&s); (s, tx) }
                                                  else { let s = rand_sg(rng); (t.signer(&s), t.sg_coq(&s)) };
                             r = match t.c.try_remove_signer(&id, &s_val) { Ok(Ok(())) => Some("None".into()), _ => None };
                             label = "sa.remove_signer"; call = format!("SaRemoveSigner {} {}", id, s_txt); }
                13..=14 => { let id = pick_id(rng); let p = rng.below(npol as u64) as usize; let ok = !rng.chance(1, 8);
                             r = match t.c.try_add_policy(&id, &t.pol.a[p], &(if ok { 0u32 } else { 1u32 }).into_val(&t.e)) { Ok(Ok(())) => Some("None".into()), _ => None };
                             label = "sa.add_policy"; call = format!("SaAddPolicy {} {} {}", id, p, b(ok)); }
                _ => { let id = pick_id(rng);
                       let cur: std::vec::Vec<u64> = t.c.try_rule(&id).ok().and_then(|x| x.ok()).map(|r| t.pol.ids(&r.policies)).unwrap_or_default();
                       let p = if !cur.is_empty() && rng.chance(4, 5) { *rng.pick(&cur) as usize } else { rng.below(npol as u64) as usize };
                       r = match t.c.try_remove_policy(&id, &t.pol.a[p]) { Ok(Ok(())) => Some("None".into()), _ => None };
                       label = "sa.remove_policy"; call = format!("SaRemovePolicy {} {}", id, p); }
            }
            tr.push(out, label, &call, r, t.queries(next_id_guess + 1, &ctxs));
        }
        let n = tr.len();
        out.trace(match mode { 2 => "sa/rule-limit", 3 => "sa/signer-policy-limits", _ => "sa/general" }, format!("{} {}", header, list(&tr.ev)), n);
    }
}
fn main() {
    let mut out = Out::new(
        "From SC Require Import Lib.Prelude Model.SwapPop Model.RegCommon Model.RegBinder Model.RegDocs Model.RegCTI Model.RegKeys Model.RegIRS Model.RegSmall Model.RegSA Run.C20.\nOpen Scope N_scope.",
        "check_all",
    );
    out.per_shard(400);
    let mut rng = Rng::new(out.cfg.seed);
    let sections: std::vec::Vec<(&str, fn(&mut Out, &mut Rng))> = vec![
        ("binder", run_binder), ("docs", run_docs), ("cti", run_cti), ("keys", run_keys),
        ("irs", run_irs), ("compliance", run_compliance), ("claims", run_claims), ("sa", run_sa),
    ];
    // the documented values of the limits (pinned tree; the same table as `limits_as_documented` in Run/C20.v): a
    // changed constant is not a property violation - the traces are evaluated with the printed values - but it is
    // made visible: label `limits.changed.<NAME>` instead of `limits.as_documented` (and class 9 in the verdicts)
    let documented: std::vec::Vec<(&str, u64, u64)> = vec![
        ("token_binder.BUCKET_SIZE", tbl::BUCKET_SIZE as u64, 100), ("token_binder.MAX_TOKENS", tbl::MAX_TOKENS as u64, 10_000),
        ("doc_manager.BUCKET_SIZE", dml::BUCKET_SIZE as u64, 50), ("doc_manager.MAX_DOCUMENTS", dml::MAX_DOCUMENTS as u64, 5_000), ("doc_manager.MAX_URI_LEN", dml::MAX_URI_LEN as u64, 200),
        ("MAX_CLAIM_TOPICS", ctim::MAX_CLAIM_TOPICS as u64, 15), ("MAX_ISSUERS", ctim::MAX_ISSUERS as u64, 50),
        ("MAX_KEYS_PER_TOPIC", cil::MAX_KEYS_PER_TOPIC as u64, 50), ("MAX_REGISTRIES_PER_KEY", cil::MAX_REGISTRIES_PER_KEY as u64, 20),
        ("MAX_COUNTRY_ENTRIES", irl::MAX_COUNTRY_ENTRIES as u64, 15), ("MAX_METADATA_ENTRIES", irl::MAX_METADATA_ENTRIES as u64, 10), ("MAX_METADATA_STRING_LEN", irl::MAX_METADATA_STRING_LEN as u64, 100),
        ("MAX_MODULES", cmm::MAX_MODULES as u64, 20),
        ("MAX_CONTEXT_RULES", sal::MAX_CONTEXT_RULES as u64, 15), ("MAX_SIGNERS", sal::MAX_SIGNERS as u64, 15), ("MAX_POLICIES", sal::MAX_POLICIES as u64, 5),
    ];
    let mut as_doc = true;
    for (name, v, dv) in &documented { if v != dv { as_doc = false; out.label(&format!("limits.changed.{}={}", name, v)); eprintln!("c20: limit {} = {} (documented: {})", name, v, dv); } }
    if as_doc { out.label("limits.as_documented"); }
    let only = std::env::var("C20_ONLY").ok();
    for (i, (name, f)) in sections.iter().enumerate() {
        let mut r = rng.fork(i as u64 + 1);
        if let Some(o) = &only { if o != name { continue; } }
        let t0 = std::time::Instant::now();
        let c0 = out.calls;
        // last resort: should the harness itself trip over an answer of the code under test, the section is
        // cut short and a sentinel trace is emitted that both the diff and the monitor flag (never on the unchanged tree)
        let res = std::panic::catch_unwind(std::panic::AssertUnwindSafe(|| f(&mut out, &mut r)));
        if res.is_err() {
            out.label(&format!("{}.harness_sentinel", name));
            out.trace(&format!("{}/harness-sentinel", name), "TrCM 0 [(Advance 0, Fail, [])]".to_string(), 1);
        }
        eprintln!("c20 {}: {:?}, calls {}", name, t0.elapsed(), out.calls - c0);
    }
    out.finish();
}
