//! C20 correspondence harness: every indexed registry of the library driven through systematic
//! edit histories inside the Soroban host; after every call (also failing ones) the public
//! getters are queried and printed.  One section per registry; each trace starts from a fresh
//! contract instance.  All limits are read from the library's `pub const`s and printed into
//! the trace header, so a changed constant is not an alarm.
#![allow(clippy::too_many_arguments)]
use soroban_sdk::{
    contract, contractimpl, contracttype, panic_with_error, symbol_short,
    testutils::{Address as _, Ledger as _},
    Address, Bytes, BytesN, Env, IntoVal, Map, String as SString, Symbol, Val, Vec,
};
use stellar_accounts::smart_account::{self as sal, ContextRule, ContextRuleType, Signer};
use stellar_tokens::rwa::claim_issuer as cil;
use stellar_tokens::rwa::claim_topics_and_issuers::{self as ctim, storage as ctil};
use stellar_tokens::rwa::compliance::{self as cmm, storage as cml, ComplianceHook};
use stellar_tokens::rwa::extensions::doc_manager as dml;
use stellar_tokens::rwa::identity_claims as icl;
use stellar_tokens::rwa::identity_registry_storage::{
    self as irl, CountryData, CountryRelation, IdentityType, IndividualCountryRelation,
};
use stellar_tokens::rwa::utils::token_binder as tbl;
use vh::*;

// ------------------------------------------------------------------------------------------
// harness contracts: thin wrappers around the library functions, and mocks of the external
// collaborators (in a module of their own because `String` must be soroban's there)
// ------------------------------------------------------------------------------------------
mod k {
    use super::*;
    use soroban_sdk::String;

    #[contract]
    pub struct BinderC;
    #[contractimpl]
    impl BinderC {
        /// fixture for the capacity-limit trace of the quick tier: writes the storage that binding
        /// `ts` one after the other into the empty registry produces (full buckets in order + count).
        /// The thorough tier reaches the limit through genuine calls instead.
        pub fn preload(e: Env, ts: Vec<Address>) {
            let bs = tbl::BUCKET_SIZE;
            let n = ts.len();
            let mut k = 0u32;
            while k * bs < n {
                let hi = core::cmp::min((k + 1) * bs, n);
                e.storage().persistent().set(&TokenBinderStorageKey::TokenBucket(k), &ts.slice(k * bs..hi));
                k += 1;
            }
            e.storage().persistent().set(&TokenBinderStorageKey::TotalCount, &n);
        }
        pub fn bind(e: Env, t: Address) { tbl::bind_token(&e, &t) }
        pub fn bind_many(e: Env, ts: Vec<Address>) { tbl::bind_tokens(&e, &ts) }
        pub fn unbind(e: Env, t: Address) { tbl::unbind_token(&e, &t) }
        pub fn linked(e: Env) -> Vec<Address> { tbl::linked_tokens(&e) }
        pub fn is_bound(e: Env, t: Address) -> bool { tbl::is_token_bound(&e, &t) }
        pub fn index_of(e: Env, t: Address) -> u32 { tbl::get_token_index(&e, &t) }
        pub fn by_index(e: Env, i: u32) -> Address { tbl::get_token_by_index(&e, i) }
    }

    #[contract]
    pub struct DocsC;
    #[contractimpl]
    impl DocsC {
        pub fn set_doc(e: Env, name: BytesN<32>, uri: String, hash: BytesN<32>) { dml::set_document(&e, &name, &uri, &hash) }
        pub fn remove_doc(e: Env, name: BytesN<32>) { dml::remove_document(&e, &name) }
        /// fixture for the capacity-limit trace of the quick tier: writes the storage that setting
        /// documents `base .. base+n` one after the other in the empty registry produces; the
        /// thorough tier reaches the limit through genuine calls instead.
        pub fn preload(e: Env, n: u32, ts: u64) {
            let bs = dml::BUCKET_SIZE;
            let mut k = 0u32;
            while k * bs < n {
                let hi = core::cmp::min((k + 1) * bs, n);
                let mut bucket: Vec<(BytesN<32>, dml::Document)> = Vec::new(&e);
                for i in k * bs..hi {
                    let name = bn32(&e, i as u64);
                    let d = dml::Document { uri: uri_of(&e, 1 + (i as u64) % 9, 1 + (i as u64) % 3), document_hash: bn32(&e, (i as u64) % 7), timestamp: ts };
                    bucket.push_back((name.clone(), d));
                    e.storage().persistent().set(&dml::DocumentStorageKey::Index(name), &i);
                }
                e.storage().persistent().set(&dml::DocumentStorageKey::Bucket(k), &bucket);
                k += 1;
            }
            e.storage().persistent().set(&dml::DocumentStorageKey::Count, &n);
        }
        pub fn count(e: Env) -> u32 { dml::get_document_count(&e) }
        pub fn get(e: Env, name: BytesN<32>) -> dml::Document { dml::get_document(&e, &name) }
        pub fn by_index(e: Env, i: u32) -> (BytesN<32>, dml::Document) { dml::get_document_by_index(&e, i) }
        pub fn bucket(e: Env, k: u32) -> Vec<(BytesN<32>, dml::Document)> { dml::get_documents(&e, k) }
    }

    #[contract]
    pub struct CtiC;
    #[contractimpl]
    impl CtiC {
        pub fn add_claim_topic(e: Env, t: u32) { ctil::add_claim_topic(&e, t) }
        pub fn remove_claim_topic(e: Env, t: u32) { ctil::remove_claim_topic(&e, t) }
        pub fn add_trusted_issuer(e: Env, i: Address, ts: Vec<u32>) { ctil::add_trusted_issuer(&e, &i, &ts) }
        pub fn remove_trusted_issuer(e: Env, i: Address) { ctil::remove_trusted_issuer(&e, &i) }
        pub fn update_issuer_topics(e: Env, i: Address, ts: Vec<u32>) { ctil::update_issuer_claim_topics(&e, &i, &ts) }
        pub fn get_claim_topics(e: Env) -> Vec<u32> { ctil::get_claim_topics(&e) }
        pub fn get_trusted_issuers(e: Env) -> Vec<Address> { ctil::get_trusted_issuers(&e) }
        pub fn get_topic_issuers(e: Env, t: u32) -> Vec<Address> { ctil::get_claim_topic_issuers(&e, t) }
        pub fn get_issuer_topics(e: Env, i: Address) -> Vec<u32> { ctil::get_trusted_issuer_claim_topics(&e, &i) }
        pub fn get_all(e: Env) -> Map<u32, Vec<Address>> { ctil::get_claim_topics_and_issuers(&e) }
        pub fn is_trusted_issuer(e: Env, i: Address) -> bool { ctil::is_trusted_issuer(&e, &i) }
        pub fn has_claim_topic(e: Env, i: Address, t: u32) -> bool { ctil::has_claim_topic(&e, &i, t) }
    }

    /// the registry consulted by allow_key: answers has_claim_topic as configured by the harness
    #[contract]
    pub struct RegistryMock;
    #[contractimpl]
    impl RegistryMock {
        pub fn set_mode(e: Env, m: u32) { e.storage().instance().set(&symbol_short!("mode"), &m) }
        pub fn has_claim_topic(e: Env, _issuer: Address, _t: u32) -> bool {
            let m: u32 = e.storage().instance().get(&symbol_short!("mode")).unwrap_or(0);
            if m == 2 { panic_with_error!(&e, ctim::ClaimTopicsAndIssuersError::IssuerDoesNotExist) }
            m == 0
        }
    }

    #[contract]
    pub struct KeysC;
    #[contractimpl]
    impl KeysC {
        pub fn allow_key(e: Env, pk: Bytes, registry: Address, scheme: u32, t: u32) { cil::allow_key(&e, &pk, &registry, scheme, t) }
        pub fn remove_key(e: Env, pk: Bytes, registry: Address, scheme: u32, t: u32) { cil::remove_key(&e, &pk, &registry, scheme, t) }
        pub fn keys_for_topic(e: Env, t: u32) -> Vec<cil::SigningKey> { cil::get_keys_for_topic(&e, t) }
        pub fn registries(e: Env, pk: Bytes, scheme: u32) -> Vec<Address> { cil::get_registries(&e, &cil::SigningKey { public_key: pk, scheme }) }
        pub fn allowed_topic(e: Env, pk: Bytes, scheme: u32, t: u32) -> bool { cil::is_key_allowed_for_topic(&e, &pk, scheme, t) }
        pub fn allowed_registry(e: Env, pk: Bytes, scheme: u32, r: Address) -> bool { cil::is_key_allowed_for_registry(&e, &pk, scheme, &r) }
    }

    #[contract]
    pub struct IrsC;
    #[contractimpl]
    impl IrsC {
        pub fn add_identity(e: Env, account: Address, identity: Address, org: bool, cs: Vec<CountryData>) {
            irl::add_identity(&e, &account, &identity, if org { IdentityType::Organization } else { IdentityType::Individual }, &cs)
        }
        pub fn modify_identity(e: Env, account: Address, identity: Address) { irl::modify_identity(&e, &account, &identity) }
        pub fn remove_identity(e: Env, account: Address) { irl::remove_identity(&e, &account) }
        pub fn recover_identity(e: Env, old: Address, new: Address) { irl::recover_identity(&e, &old, &new) }
        pub fn add_countries(e: Env, account: Address, cs: Vec<CountryData>) { irl::add_country_data_entries(&e, &account, &cs) }
        pub fn modify_country(e: Env, account: Address, i: u32, c: CountryData) { irl::modify_country_data(&e, &account, i, &c) }
        pub fn delete_country(e: Env, account: Address, i: u32) { irl::delete_country_data(&e, &account, i) }
        pub fn stored_identity(e: Env, account: Address) -> Address { irl::stored_identity(&e, &account) }
        pub fn profile(e: Env, account: Address) -> irl::IdentityProfile { irl::get_identity_profile(&e, &account) }
        pub fn country(e: Env, account: Address, i: u32) -> CountryData { irl::get_country_data(&e, &account, i) }
        pub fn countries(e: Env, account: Address) -> Vec<CountryData> { irl::get_country_data_entries(&e, &account) }
        pub fn recovered_to(e: Env, old: Address) -> Option<Address> { irl::get_recovered_to(&e, &old) }
    }

    #[contract]
    pub struct CmC;
    #[contractimpl]
    impl CmC {
        pub fn add_module(e: Env, hook: ComplianceHook, m: Address) { cml::add_module_to(&e, hook, m) }
        pub fn remove_module(e: Env, hook: ComplianceHook, m: Address) { cml::remove_module_from(&e, hook, m) }
        pub fn modules(e: Env, hook: ComplianceHook) -> Vec<Address> { cml::get_modules_for_hook(&e, hook) }
        pub fn is_registered(e: Env, hook: ComplianceHook, m: Address) -> bool { cml::is_module_registered(&e, hook, m) }
    }

    /// claim issuer consulted by add_claim: rejects (traps on) an empty signature
    #[contract]
    pub struct IssuerMock;
    #[contractimpl]
    impl IssuerMock {
        pub fn is_claim_valid(e: Env, _identity: Address, _topic: u32, _scheme: u32, sig_data: Bytes, _claim_data: Bytes) {
            if sig_data.is_empty() { panic_with_error!(&e, cil::ClaimIssuerError::SigDataMismatch) }
        }
    }

    #[contract]
    pub struct ClaimsC;
    #[contractimpl]
    impl ClaimsC {
        pub fn add_claim(e: Env, topic: u32, scheme: u32, issuer: Address, signature: Bytes, data: Bytes, uri: String) -> BytesN<32> {
            icl::add_claim(&e, topic, scheme, &issuer, &signature, &data, &uri)
        }
        pub fn remove_claim(e: Env, id: BytesN<32>) { icl::remove_claim(&e, &id) }
        pub fn get_claim(e: Env, id: BytesN<32>) -> icl::Claim { icl::get_claim(&e, &id) }
        pub fn ids_by_topic(e: Env, t: u32) -> Vec<BytesN<32>> { icl::get_claim_ids_by_topic(&e, t) }
    }

    /// policy mocks: `install` traps iff its parameter is 1; the second kind also traps on uninstall
    #[contract]
    pub struct PolicyMock;
    #[contractimpl]
    impl PolicyMock {
        pub fn install(e: Env, p: Val, _rule: ContextRule, _sa: Address) {
            let v: u32 = soroban_sdk::FromVal::from_val(&e, &p);
            if v == 1 { panic_with_error!(&e, sal::SmartAccountError::UnvalidatedContext) }
        }
        pub fn uninstall(_e: Env, _rule: ContextRule, _sa: Address) {}
    }

    #[contract]
    pub struct GrumpyPolicyMock;
    #[contractimpl]
    impl GrumpyPolicyMock {
        pub fn install(e: Env, p: Val, _rule: ContextRule, _sa: Address) {
            let v: u32 = soroban_sdk::FromVal::from_val(&e, &p);
            if v == 1 { panic_with_error!(&e, sal::SmartAccountError::UnvalidatedContext) }
        }
        pub fn uninstall(e: Env, _rule: ContextRule, _sa: Address) { panic_with_error!(&e, sal::SmartAccountError::UnvalidatedContext) }
    }

    #[contract]
    pub struct SaC;
    #[contractimpl]
    impl SaC {
        pub fn add_rule(e: Env, ct: ContextRuleType, name: String, until: Option<u32>, signers: Vec<Signer>, policies: Map<Address, Val>) -> ContextRule {
            sal::add_context_rule(&e, &ct, &name, until, &signers, &policies)
        }
        pub fn update_name(e: Env, id: u32, name: String) -> ContextRule { sal::update_context_rule_name(&e, id, &name) }
        pub fn update_until(e: Env, id: u32, until: Option<u32>) -> ContextRule { sal::update_context_rule_valid_until(&e, id, until) }
        pub fn remove_rule(e: Env, id: u32) { sal::remove_context_rule(&e, id) }
        pub fn add_signer(e: Env, id: u32, s: Signer) { sal::add_signer(&e, id, &s) }
        pub fn remove_signer(e: Env, id: u32, s: Signer) { sal::remove_signer(&e, id, &s) }
        pub fn add_policy(e: Env, id: u32, p: Address, param: Val) { sal::add_policy(&e, id, &p, param) }
        pub fn remove_policy(e: Env, id: u32, p: Address) { sal::remove_policy(&e, id, &p) }
        pub fn rule(e: Env, id: u32) -> ContextRule { sal::get_context_rule(&e, id) }
        pub fn rules(e: Env, ct: ContextRuleType) -> Vec<ContextRule> { sal::get_context_rules(&e, &ct) }
        pub fn count(e: Env) -> u32 { sal::get_context_rules_count(&e) }
    }

    /// same variant names and payloads as the (not re-exported) key enum of token_binder/storage.rs;
    /// used only by the `preload` fixture
    #[contracttype]
    pub enum TokenBinderStorageKey {
        TokenBucket(u32),
        TotalCount,
    }
}
use k::*;

// ------------------------------------------------------------------------------------------
// common helpers
// ------------------------------------------------------------------------------------------
/// Two host configurations (alternating per trace): persistent entries and the contract instance
/// outlive every ledger gap of a trace (so that only genuinely persistent state survives and the
/// library's own extend_ttl calls never trap); they differ in the temporary-entry minimum and sizes.
static ENV_COUNTER: std::sync::atomic::AtomicU64 = std::sync::atomic::AtomicU64::new(0);
fn new_env() -> Env {
    let k = ENV_COUNTER.fetch_add(1, std::sync::atomic::Ordering::Relaxed);
    let e = Env::default();
    e.cost_estimate().budget().reset_unlimited();
    e.cost_estimate().disable_resource_limits();
    e.ledger().with_mut(|l| {
        l.sequence_number = 100;
        l.timestamp = 1_000;
        if k % 2 == 0 { l.min_temp_entry_ttl = 1; l.min_persistent_entry_ttl = 60_000_000; l.max_entry_ttl = 120_000_000; }
        else { l.min_temp_entry_ttl = 16; l.min_persistent_entry_ttl = 40_000_000; l.max_entry_ttl = 50_000_000; }
    });
    e
}
/// n ledgers pass, nothing is called
fn advance(e: &Env, n: u64) { e.ledger().with_mut(|l| { l.sequence_number += n as u32; l.timestamp += 5 * n; }); }
/// the ledger gaps used everywhere: short, one day (+1), beyond the library's 30-day extension, months
const GAPS: [u64; 6] = [20, 100, 17_281, 20_000, 600_000, 4_000_000];
macro_rules! tryv { ($e:expr) => { match $e { Ok(Ok(v)) => Some(v), _ => None } } }

/// plain numerals: the Coq header opens N_scope
fn nn(v: u64) -> String { format!("{}", v) }
fn nlist(xs: &[u64]) -> String { list(&xs.iter().map(|x| nn(*x)).collect::<std::vec::Vec<_>>()) }
fn okv(s: &str) -> String { format!("(Ok {})", s) }

/// small universe of addresses; the model sees an address as its index
struct Uni { a: std::vec::Vec<Address>, m: std::collections::HashMap<soroban_sdk::xdr::ScAddress, u64> }
impl Uni {
    fn new(e: &Env, n: usize) -> Uni {
        let a: std::vec::Vec<Address> = (0..n).map(|_| Address::generate(e)).collect();
        let mut m = std::collections::HashMap::new();
        for (i, x) in a.iter().enumerate() { m.insert(soroban_sdk::xdr::ScAddress::from(x), i as u64); }
        Uni { a, m }
    }
    fn id(&self, x: &Address) -> u64 {
        *self.m.get(&soroban_sdk::xdr::ScAddress::from(x)).unwrap_or(&999_999_999)
    }
    fn ids(&self, xs: &Vec<Address>) -> std::vec::Vec<u64> { xs.iter().map(|x| self.id(&x)).collect() }
    fn vec(&self, e: &Env, idx: &[usize]) -> Vec<Address> {
        let mut v = Vec::new(e);
        for &i in idx { v.push_back(self.a[i].clone()); }
        v
    }
}

/// every sequence of `len` operation indexes below `nops` (exhaustive small-scope enumeration)
fn all_seqs(nops: usize, len: usize) -> std::vec::Vec<std::vec::Vec<usize>> {
    let mut out = vec![];
    let total = nops.pow(len as u32);
    for mut k in 0..total {
        let mut v = vec![];
        for _ in 0..len { v.push(k % nops); k /= nops; }
        out.push(v);
    }
    out
}

/// events of one trace
struct Tr { ev: std::vec::Vec<String> }
impl Tr {
    fn new() -> Tr { Tr { ev: vec![] } }
    fn push(&mut self, out: &mut Out, label: &str, call: &str, ok: Option<String>, queries: std::vec::Vec<String>) {
        let o = match &ok { Some(v) => format!("(Ok {})", v), None => "Fail".to_string() };
        out.case(&format!("{}/{}", label, if ok.is_some() { "ok" } else { "fail" }), call);
        self.ev.push(format!("(Call ({}), {}, {})", call, o, list(&queries)));
    }
    /// a ledger gap: `dflt` is the outcome term recorded for it ("tt" or "None")
    fn advance(&mut self, out: &mut Out, reg: &str, n: u64, dflt: &str, queries: std::vec::Vec<String>) {
        out.case(&format!("{}.advance.{}/ok", reg, if n >= 500_000 { "long" } else { "short" }), &format!("Advance {}", n));
        self.ev.push(format!("(Advance {}, (Ok {}), {})", n, dflt, list(&queries)));
    }
    fn len(&self) -> usize { self.ev.len() }
}

// ------------------------------------------------------------------------------------------
// 1. token binder
// ------------------------------------------------------------------------------------------


struct Tb<'a> { e: Env, c: BinderCClient<'a>, u: Uni }
impl<'a> Tb<'a> {
    fn new(n: usize) -> Tb<'a> {
        let e = new_env();
        let id = e.register(BinderC, ());
        let c = BinderCClient::new(&e, &id);
        let u = Uni::new(&e, n);
        Tb { e, c, u }
    }
    fn linked(&self) -> std::vec::Vec<u64> { tryv!(self.c.try_linked()).map(|v| self.u.ids(&v)).unwrap_or_default() }
    /// queries: `full` = list + count; token probes; index probes
    fn queries(&self, full: bool, toks: &[usize], idxs: &[u32]) -> std::vec::Vec<String> {
        let mut q = vec![];
        match tryv!(self.c.try_linked()) {
            Some(lv) => { if full { q.push(format!("(TqLinked, TaList {})", nlist(&self.u.ids(&lv)))); }
                          q.push(format!("(TqCount, TaNat {})", lv.len())); }
            None => { q.push("(TqLinked, TaTrap)".into()); }
        }
        for &t in toks {
            let a = &self.u.a[t];
            q.push(match tryv!(self.c.try_is_bound(a)) { Some(x) => format!("(TqIsBound {}, TaBool {})", t, b(x)), None => format!("(TqIsBound {}, TaTrap)", t) });
            let r = match self.c.try_index_of(a) { Ok(Ok(i)) => okv(&nn(i as u64)), _ => "Fail".into() };
            q.push(format!("(TqIndexOf {}, TaIdx {})", t, r));
        }
        for &i in idxs {
            let r = match self.c.try_by_index(&i) { Ok(Ok(a)) => okv(&nn(self.u.id(&a))), _ => "Fail".into() };
            q.push(format!("(TqByIndex {}, TaAddr {})", i, r));
        }
        q
    }
    fn bind(&self, t: usize) -> Option<String> { match self.c.try_bind(&self.u.a[t]) { Ok(Ok(())) => Some("tt".into()), _ => None } }
    fn unbind(&self, t: usize) -> Option<String> { match self.c.try_unbind(&self.u.a[t]) { Ok(Ok(())) => Some("tt".into()), _ => None } }
    fn preload(&self, ts: &[usize]) -> Option<String> {
        match self.c.try_preload(&self.u.vec(&self.e, ts)) { Ok(Ok(())) => Some("tt".into()), _ => None }
    }
    fn bind_many(&self, ts: &[usize]) -> Option<String> {
        match self.c.try_bind_many(&self.u.vec(&self.e, ts)) { Ok(Ok(())) => Some("tt".into()), _ => None }
    }
}

fn tb_header() -> String { format!("TrBinder {} {} []", tbl::BUCKET_SIZE, tbl::MAX_TOKENS) }
fn tb_many_call(ts: &[usize]) -> String { format!("TbBindMany {}", nlist(&ts.iter().map(|x| *x as u64).collect::<std::vec::Vec<_>>())) }

fn run_binder(out: &mut Out, rng: &mut Rng) {
    let bs = tbl::BUCKET_SIZE as usize;
    let maxt = tbl::MAX_TOKENS as usize;
    let thorough = out.cfg.thorough;
    let scale = out.cfg.scale as usize;

    // A. small universe, every query after every call
    let na = if thorough { 400 } else { 40 } * scale;
    for _ in 0..na {
        let nu = 3 + rng.below(6) as usize;
        let t = Tb::new(nu);
        let mut tr = Tr::new();
        let all: std::vec::Vec<usize> = (0..nu).collect();
        let ncalls = if thorough { 60 } else { 30 };
        let mut last_touched = 0usize;
        for _ in 0..ncalls {
            if rng.chance(1, 10) {
                let n = *rng.pick(&GAPS); advance(&t.e, n);
                let idx: std::vec::Vec<u32> = (0..(t.linked().len() as u32 + 2)).collect();
                tr.advance(out, "tb", n, "tt", t.queries(true, &all, &idx));
            }
            let cur = t.linked();
            let pick_bound = |rng: &mut Rng| -> usize {
                if cur.is_empty() { rng.below(nu as u64) as usize } else {
                    match rng.below(4) { 0 => cur[0] as usize, 1 => cur[cur.len() - 1] as usize, _ => cur[rng.below(cur.len() as u64) as usize] as usize }
                }
            };
            match rng.below(10) {
                0..=3 => { let x = rng.below(nu as u64) as usize; last_touched = x; let r = t.bind(x);
                           let idx: std::vec::Vec<u32> = (0..(t.linked().len() as u32 + 2)).collect();
                           tr.push(out, "tb.bind", &format!("TbBind {}", x), r, t.queries(true, &all, &idx)); }
                4..=6 => { let x = if rng.chance(3, 4) { pick_bound(rng) } else { rng.below(nu as u64) as usize }; let r = t.unbind(x);
                           let idx: std::vec::Vec<u32> = (0..(t.linked().len() as u32 + 2)).collect();
                           tr.push(out, "tb.unbind", &format!("TbUnbind {}", x), r, t.queries(true, &all, &idx)); }
                7 => { // remove the element that the previous removal swapped in / re-add after removal
                       let x = last_touched; let r = if cur.contains(&(x as u64)) { t.unbind(x) } else { t.bind(x) };
                       let call = if cur.contains(&(x as u64)) { format!("TbUnbind {}", x) } else { format!("TbBind {}", x) };
                       let idx: std::vec::Vec<u32> = (0..(t.linked().len() as u32 + 2)).collect();
                       tr.push(out, if cur.contains(&(x as u64)) { "tb.unbind" } else { "tb.bind" }, &call, r, t.queries(true, &all, &idx)); }
                _ => { let k = rng.below(5) as usize;
                       let mut ts: std::vec::Vec<usize> = vec![];
                       for _ in 0..k {
                           let x = rng.below(nu as u64) as usize;
                           if rng.chance(1, 5) || !ts.contains(&x) { ts.push(x); }
                       }
                       let r = t.bind_many(&ts);
                       let idx: std::vec::Vec<u32> = (0..(t.linked().len() as u32 + 2)).collect();
                       tr.push(out, "tb.bind_many", &tb_many_call(&ts), r, t.queries(true, &all, &idx)); }
            }
        }
        let n = tr.len();
        out.trace("binder/small", format!("{} {}", tb_header(), list(&tr.ev)), n);
    }

    // A'. thorough tier: EVERY sequence of 5 bind / unbind operations over 3 tokens
    if thorough {
        for seq in all_seqs(6, 5) {
            let t = Tb::new(3);
            let mut tr = Tr::new();
            for op in seq {
                let x = op % 3;
                let (label, call, r) = if op < 3 { ("tb.bind", format!("TbBind {}", x), t.bind(x)) } else { ("tb.unbind", format!("TbUnbind {}", x), t.unbind(x)) };
                let idx: std::vec::Vec<u32> = (0..(t.linked().len() as u32 + 1)).collect();
                tr.push(out, label, &call, r, t.queries(true, &[0, 1, 2], &idx));
            }
            let n = tr.len();
            out.trace("binder/exhaustive", format!("{} {}", tb_header(), list(&tr.ev)), n);
        }
    }

    // B. histories around the bucket boundaries (BUCKET_SIZE, 2*BUCKET_SIZE)
    let nb = if thorough { 120 } else { 14 } * scale;
    for it in 0..nb {
        let nu = 2 * bs + 40;
        let t = Tb::new(nu);
        let mut tr = Tr::new();
        let mut next = 0usize; // next never-bound token
        let base = if it % 3 == 2 { 2 * bs } else { bs };
        let start = base - 3 + rng.below(7) as usize;
        // fill in batches of at most 2*BUCKET_SIZE
        let mut left = start;
        while left > 0 {
            let k = left.min(2 * bs);
            let ts: std::vec::Vec<usize> = (next..next + k).collect(); next += k; left -= k;
            let r = t.bind_many(&ts);
            tr.push(out, "tb.bind_many", &tb_many_call(&ts), r, t.queries(true, &[0, ts[ts.len() - 1]], &[0, (bs - 1) as u32, bs as u32]));
        }
        let ncalls = if thorough { 40 } else { 22 };
        let mut hole: Option<u32> = None; // index where the last swap landed
        for step in 0..ncalls {
            if step == 0 || rng.chance(1, 8) {
                let n = if step == 0 { 4_000_000 } else { *rng.pick(&GAPS) }; advance(&t.e, n);
                let c0 = t.linked().len() as u32;
                tr.advance(out, "tb", n, "tt", t.queries(true, &[0, (bs - 1).min(nu - 1), bs.min(nu - 1)], &[0, (bs - 1) as u32, bs as u32, c0.saturating_sub(1), c0]));
            }
            let cur = t.linked();
            let cnt = cur.len();
            let mut probes_t: std::vec::Vec<usize> = vec![];
            let (label, call, r);
            match rng.below(10) {
                0..=2 if next < nu => { let x = next; next += 1; probes_t.push(x); r = t.bind(x); label = "tb.bind"; call = format!("TbBind {}", x); }
                3 if cnt > 0 => { let x = cur[rng.below(cnt as u64) as usize] as usize; probes_t.push(x); r = t.bind(x); label = "tb.bind"; call = format!("TbBind {}", x); }
                4..=7 if cnt > 0 => {
                    let cand: std::vec::Vec<usize> = vec![0, bs - 1, bs, bs + 1, 2 * bs - 1, 2 * bs, cnt - 1, cnt.saturating_sub(2), hole.unwrap_or(0) as usize, rng.below(cnt as u64) as usize];
                    let i = *rng.pick(&cand); let i = if i < cnt { i } else { cnt - 1 };
                    let x = cur[i] as usize; probes_t.push(x); probes_t.push(cur[cnt - 1] as usize);
                    hole = Some(i as u32);
                    r = t.unbind(x); label = "tb.unbind"; call = format!("TbUnbind {}", x);
                }
                8 => { let x = if next < nu { next } else { 0 }; probes_t.push(x); r = t.unbind(x); label = "tb.unbind"; call = format!("TbUnbind {}", x); }
                _ => {
                    let k = 1 + rng.below(9) as usize;
                    let mut ts: std::vec::Vec<usize> = vec![];
                    for _ in 0..k { if next < nu { ts.push(next); next += 1; } }
                    if rng.chance(1, 6) && cnt > 0 { ts.push(cur[rng.below(cnt as u64) as usize] as usize); }
                    if rng.chance(1, 8) && !ts.is_empty() { let d = ts[0]; ts.push(d); }
                    if let Some(x) = ts.last() { probes_t.push(*x); }
                    r = t.bind_many(&ts); label = "tb.bind_many"; call = tb_many_call(&ts);
                }
            }
            let cnt2 = t.linked().len() as u32;
            let mut idx: std::vec::Vec<u32> = vec![0, (bs - 1) as u32, bs as u32, (bs + 1) as u32, (2 * bs - 1) as u32, (2 * bs) as u32,
                                                  cnt2.saturating_sub(1), cnt2, cnt2 + 1, u32::MAX, rng.below(cnt2 as u64 + 1) as u32];
            if let Some(h) = hole { idx.push(h); }
            idx.sort(); idx.dedup();
            probes_t.push(0); probes_t.sort(); probes_t.dedup();
            tr.push(out, label, &call, r, t.queries(true, &probes_t, &idx));
        }
        let n = tr.len();
        out.trace("binder/bucket-boundary", format!("{} {}", tb_header(), list(&tr.ev)), n);
    }

    // C. batch-size limit: exactly 2*BUCKET_SIZE is accepted, one more is refused
    {
        let nu = 4 * bs + 2;
        let t = Tb::new(nu);
        let mut tr = Tr::new();
        let ts: std::vec::Vec<usize> = (0..2 * bs + 1).collect();
        let r = t.bind_many(&ts);
        tr.push(out, "tb.bind_many.batch_limit", &tb_many_call(&ts), r, t.queries(true, &[0], &[0]));
        let ts: std::vec::Vec<usize> = (0..2 * bs).collect();
        let r = t.bind_many(&ts);
        tr.push(out, "tb.bind_many.batch_limit", &tb_many_call(&ts), r, t.queries(true, &[0, 2 * bs - 1, 2 * bs], &[0, (2 * bs - 1) as u32, (2 * bs) as u32]));
        let ts: std::vec::Vec<usize> = (2 * bs..4 * bs + 1).collect();
        let r = t.bind_many(&ts);
        tr.push(out, "tb.bind_many.batch_limit", &tb_many_call(&ts), r, t.queries(true, &[2 * bs], &[(2 * bs) as u32]));
        let n = tr.len();
        out.trace("binder/batch-limit", format!("{} {}", tb_header(), list(&tr.ev)), n);
    }

    // D. the capacity limit MAX_TOKENS: at the limit and one past it (light queries)
    {
        let nu = maxt + 3;
        let t = Tb::new(nu);
        let mut tr = Tr::new();
        let mut next = 0usize;
        let mut header = tb_header();
        let light = |t: &Tb, toks: &[usize], cnt: usize| -> std::vec::Vec<String> {
            t.queries(false, toks, &[0, (cnt as u32).saturating_sub(1), cnt as u32, (maxt - 1) as u32, maxt as u32])
        };
        // fill up to MAX - BUCKET_SIZE: thorough tier through genuine batches, quick tier by the fixture
        if thorough {
            while next < maxt - bs {
                let k = (maxt - bs - next).min(2 * bs);
                let ts: std::vec::Vec<usize> = (next..next + k).collect(); next += k;
                let r = t.bind_many(&ts);
                tr.push(out, "tb.bind_many", &tb_many_call(&ts), r, light(&t, &[ts[0]], next));
            }
        } else {
            let ts: std::vec::Vec<usize> = (0..maxt - bs).collect(); next = maxt - bs;
            if t.preload(&ts).is_none() { panic!("binder preload fixture failed"); }
            header = format!("TrBinder {} {} {}", tbl::BUCKET_SIZE, tbl::MAX_TOKENS, nlist(&ts.iter().map(|x| *x as u64).collect::<std::vec::Vec<_>>()));
        }
        advance(&t.e, 4_000_000);
        tr.advance(out, "tb", 4_000_000, "tt", light(&t, &[0, next - 1], next));
        // a batch that would end one past the limit is refused, the one ending at the limit accepted
        let ts: std::vec::Vec<usize> = (next..next + bs + 1).collect();
        let r = t.bind_many(&ts);
        tr.push(out, "tb.bind_many.limit", &tb_many_call(&ts), r, light(&t, &[next], next));
        let ts: std::vec::Vec<usize> = (next..next + bs).collect(); next += bs;
        let r = t.bind_many(&ts);
        tr.push(out, "tb.bind_many.limit", &tb_many_call(&ts), r, light(&t, &[next - 1], next));
        // at the limit
        let r = t.bind(next);
        tr.push(out, "tb.bind.limit", &format!("TbBind {}", next), r, light(&t, &[next], maxt));
        let r = t.bind_many(&[next]);
        tr.push(out, "tb.bind_many.limit", &tb_many_call(&[next]), r, light(&t, &[next], maxt));
        if thorough { // (each batch call that passes the size checks costs seconds at this size)
            let r = t.bind_many(&[]);
            tr.push(out, "tb.bind_many.limit", &tb_many_call(&[]), r, light(&t, &[next], maxt));
        }
        advance(&t.e, 600_000);
        tr.advance(out, "tb", 600_000, "tt", light(&t, &[0, maxt - 1, maxt], maxt));
        let victim = rng.below(maxt as u64) as usize;
        let r = t.unbind(victim);
        tr.push(out, "tb.unbind", &format!("TbUnbind {}", victim), r, light(&t, &[victim, maxt - 1], maxt - 1));
        let r = t.bind(next);
        tr.push(out, "tb.bind.limit", &format!("TbBind {}", next), r, light(&t, &[next, victim], maxt));
        let r = t.bind(next + 1);
        tr.push(out, "tb.bind.limit", &format!("TbBind {}", next + 1), r, light(&t, &[next + 1], maxt));
        let r = t.unbind(next);
        tr.push(out, "tb.unbind", &format!("TbUnbind {}", next), r, light(&t, &[next], maxt - 1));
        let r = t.bind_many(&[victim, next + 1]);
        tr.push(out, "tb.bind_many.limit", &tb_many_call(&[victim, next + 1]), r, light(&t, &[victim], maxt - 1));
        if thorough {
            let r = t.bind_many(&[victim]);
            tr.push(out, "tb.bind_many.limit", &tb_many_call(&[victim]), r, light(&t, &[victim], maxt));
        }
        let r = t.bind(victim);
        tr.push(out, "tb.bind.limit", &format!("TbBind {}", victim), r, t.queries(true, &[victim, next, next + 1], &[0, (maxt - 1) as u32, maxt as u32]));
        let n = tr.len();
        out.trace("binder/capacity-limit", format!("{} {}", header, list(&tr.ev)), n);
    }
}


fn unit_ok<E, F>(r: Result<Result<(), E>, F>) -> Option<String> { match r { Ok(Ok(())) => Some("tt".into()), _ => None } }
fn bn32(e: &Env, id: u64) -> BytesN<32> { let mut a = [0u8; 32]; a[24..32].copy_from_slice(&id.to_be_bytes()); BytesN::from_array(e, &a) }
fn bn32_id(b: &BytesN<32>) -> u64 { let a = b.to_array(); let mut x = [0u8; 8]; x.copy_from_slice(&a[24..32]); u64::from_be_bytes(x) }
fn sstr(s: &SString) -> std::string::String { let n = s.len() as usize; let mut buf = vec![0u8; n]; s.copy_into_slice(&mut buf); std::string::String::from_utf8(buf).unwrap() }

// ------------------------------------------------------------------------------------------
// 2. document manager
// ------------------------------------------------------------------------------------------

/// uri (k, len): the digit k repeated len times (k in 1..=9; len 0 is printed as (0, 0))
fn uri_of(e: &Env, k: u64, len: u64) -> SString {
    let t: std::string::String = std::iter::repeat(char::from(b'0' + k as u8)).take(len as usize).collect();
    SString::from_str(e, &t)
}
fn doc_coq(d: &dml::Document) -> String {
    let u = sstr(&d.uri);
    let k = u.bytes().next().map(|c| (c - b'0') as u64).unwrap_or(0);
    format!("(Build_doc {} {} {} {})", k, u.len(), bn32_id(&d.document_hash), d.timestamp)
}
fn entry_coq(x: &(BytesN<32>, dml::Document)) -> String { format!("({}, {})", bn32_id(&x.0), doc_coq(&x.1)) }

struct Dm<'a> { e: Env, c: DocsCClient<'a>, ts: u64 }
impl<'a> Dm<'a> {
    fn new() -> Dm<'a> {
        let e = new_env();
        let id = e.register(DocsC, ());
        let c = DocsCClient::new(&e, &id);
        Dm { e, c, ts: 1000 }
    }
    fn count(&self) -> u32 { tryv!(self.c.try_count()).unwrap_or(0) }
    /// returns (call text, outcome)
    fn set(&mut self, name: u64, k: u64, len: u64, hash: u64, rng: &mut Rng) -> (String, Option<String>) {
        self.ts += rng.below(3);
        let ts = self.ts;
        self.e.ledger().with_mut(|l| l.timestamp = ts);
        let (k, len) = if len == 0 { (0, 0) } else { (k, len) };
        let r = unit_ok(self.c.try_set_doc(&bn32(&self.e, name), &uri_of(&self.e, k, len), &bn32(&self.e, hash)));
        (format!("DmSet {} (Build_doc {} {} {} {})", name, k, len, hash, ts), r)
    }
    fn remove(&self, name: u64) -> (String, Option<String>) {
        (format!("DmRemove {}", name), unit_ok(self.c.try_remove_doc(&bn32(&self.e, name))))
    }
    fn queries(&self, names: &[u64], idxs: &[u32], bks: &[u32]) -> std::vec::Vec<String> {
        let mut q = vec![match tryv!(self.c.try_count()) { Some(n) => format!("(DqCount, DaNat {})", n), None => "(DqCount, DaTrap)".into() }];
        for &n in names {
            let r = match self.c.try_get(&bn32(&self.e, n)) { Ok(Ok(d)) => okv(&doc_coq(&d)), _ => "Fail".into() };
            q.push(format!("(DqGet {}, DaDoc {})", n, r));
        }
        for &i in idxs {
            let r = match self.c.try_by_index(&i) { Ok(Ok(x)) => okv(&entry_coq(&x)), _ => "Fail".into() };
            q.push(format!("(DqByIndex {}, DaEntry {})", i, r));
        }
        for &k in bks {
            q.push(match tryv!(self.c.try_bucket(&k)) {
                Some(bk) => { let v: std::vec::Vec<String> = bk.iter().map(|x| entry_coq(&x)).collect(); format!("(DqBucket {}, DaList {})", k, list(&v)) }
                None => format!("(DqBucket {}, DaTrap)", k) });
        }
        q
    }
}
fn dm_header() -> String { format!("TrDocs {} {} {} []", dml::BUCKET_SIZE, dml::MAX_DOCUMENTS, dml::MAX_URI_LEN) }

fn run_docs(out: &mut Out, rng: &mut Rng) {
    let bs = dml::BUCKET_SIZE as u64;
    let maxd = dml::MAX_DOCUMENTS as u64;
    let maxu = dml::MAX_URI_LEN as u64;
    let thorough = out.cfg.thorough;
    let scale = out.cfg.scale as usize;

    // A. small universe, every query after every call
    let na = if thorough { 300 } else { 30 } * scale;
    for _ in 0..na {
        let nu = 2 + rng.below(5);
        let mut d = Dm::new();
        let mut tr = Tr::new();
        let names: std::vec::Vec<u64> = (0..nu).collect();
        let ncalls = if thorough { 60 } else { 30 };
        let mut present: std::vec::Vec<u64> = vec![];
        for _ in 0..ncalls {
            if rng.chance(1, 10) {
                let n = *rng.pick(&GAPS); advance(&d.e, n);
                let idx: std::vec::Vec<u32> = (0..d.count() + 2).collect();
                tr.advance(out, "dm", n, "tt", d.queries(&names, &idx, &[0, 1]));
            }
            let (label, call, r);
            match rng.below(10) {
                0..=4 => { let n = rng.below(nu);
                           let len = match rng.below(12) { 0 => 0, 1 => maxu, 2 => maxu + 1, 3 => maxu - 1, _ => 1 + rng.below(6) };
                           let (c2, r2) = d.set(n, 1 + rng.below(9), len, rng.below(4), rng); label = if len >= maxu { "dm.set.uri_limit" } else { "dm.set" }; call = c2; r = r2;
                           if r.is_some() && !present.contains(&n) { present.push(n); } }
                _ => { let n = if !present.is_empty() && rng.chance(3, 4) {
                                   match rng.below(3) { 0 => present[0], 1 => present[present.len() - 1], _ => *rng.pick(&present) } } else { rng.below(nu) };
                       let (c2, r2) = d.remove(n); label = "dm.remove"; call = c2; r = r2;
                       if r.is_some() { present.retain(|x| *x != n); } }
            }
            let idx: std::vec::Vec<u32> = (0..d.count() + 2).collect();
            tr.push(out, label, &call, r, d.queries(&names, &idx, &[0, 1]));
        }
        let n = tr.len();
        out.trace("docs/small", format!("{} {}", dm_header(), list(&tr.ev)), n);
    }

    // A'. thorough tier: EVERY sequence of 5 set / remove operations over 3 names
    if thorough {
        for seq in all_seqs(6, 5) {
            let mut d = Dm::new();
            let mut tr = Tr::new();
            for (j, op) in seq.iter().enumerate() {
                let n = (*op % 3) as u64;
                let (label, (call, r)) = if *op < 3 { ("dm.set", d.set(n, 1 + j as u64, 2, j as u64, rng)) } else { ("dm.remove", d.remove(n)) };
                let idx: std::vec::Vec<u32> = (0..d.count() + 1).collect();
                tr.push(out, label, &call, r, d.queries(&[0, 1, 2], &idx, &[0, 1]));
            }
            let n = tr.len();
            out.trace("docs/exhaustive", format!("{} {}", dm_header(), list(&tr.ev)), n);
        }
    }

    // B. around the bucket boundaries
    let nb = if thorough { 100 } else { 12 } * scale;
    for it in 0..nb {
        let mut d = Dm::new();
        let mut tr = Tr::new();
        let base = if it % 3 == 2 { 2 * bs } else { bs };
        let start = base - 3 + rng.below(7);
        let mut next = 0u64;
        let mut order: std::vec::Vec<u64> = vec![]; // harness-side mirror of by_index, for choosing victims only
        for _ in 0..start {
            let (call, r) = d.set(next, 1 + rng.below(9), 1 + rng.below(3), next % 7, rng);
            order.push(next); next += 1;
            tr.push(out, "dm.set", &call, r, d.queries(&[], &[], &[]));
        }
        let ncalls = if thorough { 40 } else { 22 };
        for step in 0..ncalls {
            if step == 0 || rng.chance(1, 8) {
                let n = if step == 0 { 4_000_000 } else { *rng.pick(&GAPS) }; advance(&d.e, n);
                let c0 = d.count();
                tr.advance(out, "dm", n, "tt", d.queries(&[0, (bs - 1), bs], &[0, (bs - 1) as u32, bs as u32, c0.saturating_sub(1), c0], &[0, 1, 2, 3]));
            }
            let cnt = d.count() as u64;
            let mut probes: std::vec::Vec<u64> = vec![0];
            let (label, call, r);
            match rng.below(10) {
                0..=2 => { let n = next; next += 1; probes.push(n); let (c2, r2) = d.set(n, 1 + rng.below(9), 1 + rng.below(3), n % 7, rng);
                           if r2.is_some() { order.push(n); } label = "dm.set"; call = c2; r = r2; }
                3 if cnt > 0 && !order.is_empty() => { let n = *rng.pick(&order); probes.push(n); let (c2, r2) = d.set(n, 1 + rng.below(9), 1 + rng.below(3), rng.below(9), rng); label = "dm.set"; call = c2; r = r2; }
                4..=8 if cnt > 0 && !order.is_empty() => {
                    let cnt = cnt.min(order.len() as u64); // (the mirror is only a guide for choosing victims)
                    let cand = [0u64, bs - 1, bs, bs + 1, 2 * bs - 1, 2 * bs, cnt - 1, cnt.saturating_sub(2), rng.below(cnt)];
                    let i = *rng.pick(&cand); let i = if i < cnt { i } else { cnt - 1 };
                    let n = order[i as usize]; probes.push(n); probes.push(order[(cnt - 1) as usize]);
                    let (c2, r2) = d.remove(n);
                    if r2.is_some() { if let Some(last) = order.pop() { if (i as usize) < order.len() { order[i as usize] = last; } } }
                    label = "dm.remove"; call = c2; r = r2;
                }
                _ => { let n = next + 5; probes.push(n); let (c2, r2) = d.remove(n); label = "dm.remove"; call = c2; r = r2; }
            }
            let cnt2 = d.count();
            let mut idx: std::vec::Vec<u32> = vec![0, (bs - 1) as u32, bs as u32, (bs + 1) as u32, (2 * bs - 1) as u32, (2 * bs) as u32,
                                                  cnt2.saturating_sub(1), cnt2, cnt2 + 1, u32::MAX, rng.below(cnt2 as u64 + 1) as u32];
            idx.sort(); idx.dedup(); probes.sort(); probes.dedup();
            tr.push(out, label, &call, r, d.queries(&probes, &idx, &[0, 1, 2, 3]));
        }
        let n = tr.len();
        out.trace("docs/bucket-boundary", format!("{} {}", dm_header(), list(&tr.ev)), n);
    }

    // C. the capacity limit MAX_DOCUMENTS
    {
        let mut header = dm_header();
        let mut d = Dm::new();
        let mut tr = Tr::new();
        if thorough {
            for n in 0..maxd {
                let (call, r) = d.set(n, 1 + n % 9, 1 + n % 3, n % 7, rng);
                let q = if n % 500 == 499 || n + 2 >= maxd { d.queries(&[0, n], &[0, n as u32, (n + 1) as u32], &[]) } else { d.queries(&[], &[], &[]) };
                tr.push(out, "dm.set", &call, r, q);
            }
        } else {
            let n0 = maxd - 2;
            if unit_ok(d.c.try_preload(&(n0 as u32), &d.ts)).is_none() { panic!("docs preload fixture failed"); }
            let ents: std::vec::Vec<String> = (0..n0).map(|i| format!("({}, Build_doc {} {} {} {})", i, 1 + i % 9, 1 + i % 3, i % 7, d.ts)).collect();
            header = format!("TrDocs {} {} {} {}", dml::BUCKET_SIZE, dml::MAX_DOCUMENTS, dml::MAX_URI_LEN, list(&ents));
            for n in n0..maxd {
                let (call, r) = d.set(n, 1 + n % 9, 1 + n % 3, n % 7, rng);
                tr.push(out, "dm.set", &call, r, d.queries(&[0, n], &[0, n as u32, (n + 1) as u32], &[]));
            }
        }
        let lim = |d: &Dm, names: &[u64]| d.queries(names, &[0, (maxd - 1) as u32, maxd as u32], &[(maxd / bs - 1) as u32, (maxd / bs) as u32]);
        advance(&d.e, 4_000_000);
        tr.advance(out, "dm", 4_000_000, "tt", lim(&d, &[0, maxd - 1]));
        let (call, r) = d.set(maxd, 3, 2, 1, rng); tr.push(out, "dm.set.limit", &call, r, lim(&d, &[maxd]));
        let (call, r) = d.set(7, 4, 2, 5, rng); tr.push(out, "dm.set.limit", &call, r, lim(&d, &[7]));   // update at the limit
        let victim = rng.below(maxd);
        let (call, r) = d.remove(victim); tr.push(out, "dm.remove", &call, r, lim(&d, &[victim, maxd - 1]));
        let (call, r) = d.set(maxd, 3, 2, 1, rng); tr.push(out, "dm.set.limit", &call, r, lim(&d, &[maxd, victim]));
        let (call, r) = d.set(maxd + 1, 3, 2, 1, rng); tr.push(out, "dm.set.limit", &call, r, lim(&d, &[maxd + 1]));
        let n = tr.len();
        out.trace("docs/capacity-limit", format!("{} {}", header, list(&tr.ev)), n);
    }
}

// ------------------------------------------------------------------------------------------
// 3. claim topics and trusted issuers
// ------------------------------------------------------------------------------------------

struct Ct<'a> { e: Env, c: CtiCClient<'a>, u: Uni }
impl<'a> Ct<'a> {
    fn new(n: usize) -> Ct<'a> {
        let e = new_env();
        let id = e.register(CtiC, ());
        let c = CtiCClient::new(&e, &id);
        let u = Uni::new(&e, n);
        Ct { e, c, u }
    }
    fn u32s(&self, ts: &[u64]) -> Vec<u32> { let mut v = Vec::new(&self.e); for t in ts { v.push_back(*t as u32); } v }
    fn queries(&self, topics: &[u64], issuers: &[usize], pairs: bool) -> std::vec::Vec<String> {
        let mut q = vec![];
        q.push(match tryv!(self.c.try_get_claim_topics()) { Some(v) => format!("(CqTopics, CaList {})", nlist(&v.iter().map(|x| x as u64).collect::<std::vec::Vec<_>>())), None => "(CqTopics, CaTrap)".into() });
        q.push(match tryv!(self.c.try_get_trusted_issuers()) { Some(v) => format!("(CqIssuers, CaList {})", nlist(&self.u.ids(&v))), None => "(CqIssuers, CaTrap)".into() });
        for &t in topics {
            let r = match self.c.try_get_topic_issuers(&(t as u32)) { Ok(Ok(v)) => okv(&nlist(&self.u.ids(&v))), _ => "Fail".into() };
            q.push(format!("(CqTopicIssuers {}, CaRList {})", t, r));
        }
        for &i in issuers {
            let a = &self.u.a[i];
            let r = match self.c.try_get_issuer_topics(a) { Ok(Ok(v)) => okv(&nlist(&v.iter().map(|x| x as u64).collect::<std::vec::Vec<_>>())), _ => "Fail".into() };
            q.push(format!("(CqIssuerTopics {}, CaRList {})", i, r));
            q.push(match tryv!(self.c.try_is_trusted_issuer(a)) { Some(x) => format!("(CqIsTrusted {}, CaBool {})", i, b(x)), None => format!("(CqIsTrusted {}, CaTrap)", i) });
            if pairs { for &t in topics {
                let r = match self.c.try_has_claim_topic(a, &(t as u32)) { Ok(Ok(x)) => okv(&b(x)), _ => "Fail".into() };
                q.push(format!("(CqHasTopic {} {}, CaRBool {})", i, t, r));
            } }
        }
        let r = match self.c.try_get_all() {
            Ok(Ok(m)) => { let v: std::vec::Vec<String> = m.iter().map(|(k, is)| format!("({}, {})", k, nlist(&self.u.ids(&is)))).collect(); okv(&list(&v)) }
            _ => "Fail".into() };
        q.push(format!("(CqAll, CaMap {})", r));
        q
    }
}
fn cti_header() -> String { format!("TrCTI {} {}", ctim::MAX_CLAIM_TOPICS, ctim::MAX_ISSUERS) }

fn run_cti(out: &mut Out, rng: &mut Rng) {
    let maxt = ctim::MAX_CLAIM_TOPICS as u64;
    let maxi = ctim::MAX_ISSUERS as usize;
    let thorough = out.cfg.thorough;
    let scale = out.cfg.scale as usize;
    // A. small universes
    let na = if thorough { 400 } else { 45 } * scale;
    for _ in 0..na {
        let nt = 2 + rng.below(5); let ni = 2 + rng.below(3) as usize;
        let t = Ct::new(ni);
        let mut tr = Tr::new();
        let topics: std::vec::Vec<u64> = (1..=nt).collect();
        let issuers: std::vec::Vec<usize> = (0..ni).collect();
        let ncalls = if thorough { 50 } else { 28 };
        for step in 0..ncalls {
            if step > 2 && rng.chance(1, 10) {
                let n = *rng.pick(&GAPS); advance(&t.e, n);
                tr.advance(out, "cti", n, "tt", t.queries(&topics, &issuers, true));
            }
            let cur_t: std::vec::Vec<u64> = tryv!(t.c.try_get_claim_topics()).map(|v| v.iter().map(|x| x as u64).collect()).unwrap_or_default();
            let cur_i: std::vec::Vec<u64> = tryv!(t.c.try_get_trusted_issuers()).map(|v| t.u.ids(&v)).unwrap_or_default();
            let subset = |rng: &mut Rng| -> std::vec::Vec<u64> {
                // mostly a non-empty duplicate-free subset of the existing topics, in random order;
                // sometimes empty / with a duplicate / with an unknown or removed topic
                let mut pool: std::vec::Vec<u64> = if cur_t.is_empty() { topics.clone() } else { cur_t.clone() };
                for i in (1..pool.len()).rev() { let j = rng.below(i as u64 + 1) as usize; pool.swap(i, j); }
                let k = 1 + rng.below(pool.len().min(4) as u64) as usize;
                let mut v: std::vec::Vec<u64> = pool[..k].to_vec();
                match rng.below(14) {
                    0 => v.clear(),
                    1 => { let x = v[0]; v.push(x); }
                    2 => v.push(*rng.pick(&topics)),
                    _ => {}
                }
                v
            };
            let (label, call, r);
            let choice = if step < 2 { 0 } else { rng.below(14) };
            match choice {
                0..=2 => { let x = 1 + rng.below(nt); r = unit_ok(t.c.try_add_claim_topic(&(x as u32))); label = "cti.add_topic"; call = format!("CtAddTopic {}", x); }
                3..=4 => { let x = if !cur_t.is_empty() && rng.chance(3, 4) { match rng.below(3) { 0 => cur_t[0], 1 => cur_t[cur_t.len() - 1], _ => *rng.pick(&cur_t) } } else { 1 + rng.below(nt) };
                           r = unit_ok(t.c.try_remove_claim_topic(&(x as u32))); label = "cti.remove_topic"; call = format!("CtRemoveTopic {}", x); }
                5..=7 => { let i = rng.below(ni as u64) as usize; let ts = subset(rng);
                           r = unit_ok(t.c.try_add_trusted_issuer(&t.u.a[i], &t.u32s(&ts))); label = "cti.add_issuer"; call = format!("CtAddIssuer {} {}", i, nlist(&ts)); }
                8..=9 => { let i = if !cur_i.is_empty() && rng.chance(3, 4) { *rng.pick(&cur_i) as usize } else { rng.below(ni as u64) as usize };
                           r = unit_ok(t.c.try_remove_trusted_issuer(&t.u.a[i])); label = "cti.remove_issuer"; call = format!("CtRemoveIssuer {}", i); }
                _ => { let i = if !cur_i.is_empty() && rng.chance(4, 5) { *rng.pick(&cur_i) as usize } else { rng.below(ni as u64) as usize }; let ts = subset(rng);
                       r = unit_ok(t.c.try_update_issuer_topics(&t.u.a[i], &t.u32s(&ts))); label = "cti.update_issuer"; call = format!("CtUpdateIssuer {} {}", i, nlist(&ts)); }
            }
            tr.push(out, label, &call, r, t.queries(&topics, &issuers, true));
        }
        let n = tr.len();
        out.trace("cti/small", format!("{} {}", cti_header(), list(&tr.ev)), n);
    }
    // B. limits: MAX_CLAIM_TOPICS and MAX_ISSUERS, at the limit and one past it
    let nbl = if thorough { 6 } else { 1 } * scale;
    for _ in 0..nbl {
        let t = Ct::new(maxi + 2);
        let mut tr = Tr::new();
        let all_t: std::vec::Vec<u64> = (1..=maxt + 1).collect();
        for x in 1..=maxt + 1 {
            let r = unit_ok(t.c.try_add_claim_topic(&(x as u32)));
            tr.push(out, if x >= maxt { "cti.add_topic.limit" } else { "cti.add_topic" }, &format!("CtAddTopic {}", x), r, t.queries(&[x], &[], false));
        }
        let victim = 1 + rng.below(maxt);
        let r = unit_ok(t.c.try_remove_claim_topic(&(victim as u32)));
        tr.push(out, "cti.remove_topic", &format!("CtRemoveTopic {}", victim), r, t.queries(&all_t, &[], false));
        for x in [maxt + 1, maxt + 2] {
            let r = unit_ok(t.c.try_add_claim_topic(&(x as u32)));
            tr.push(out, "cti.add_topic.limit", &format!("CtAddTopic {}", x), r, t.queries(&[x], &[], false));
        }
        // issuers: every one with a few topics; the first with ALL topics (a full-size topic list)
        let mut cur_t: std::vec::Vec<u64> = tryv!(t.c.try_get_claim_topics()).map(|v| v.iter().map(|x| x as u64).collect()).unwrap_or_default();
        if cur_t.is_empty() { cur_t.push(1); } // (only when the code under test lost the topics)
        for i in 0..maxi + 1 {
            let ts: std::vec::Vec<u64> = if i == 0 { cur_t.clone() } else { let k = 1 + rng.below(3) as usize; (0..k).map(|j| cur_t[(i + j * 5) % cur_t.len()]).collect::<std::collections::BTreeSet<_>>().into_iter().collect() };
            let r = unit_ok(t.c.try_add_trusted_issuer(&t.u.a[i], &t.u32s(&ts)));
            tr.push(out, if i + 1 >= maxi { "cti.add_issuer.limit" } else { "cti.add_issuer" }, &format!("CtAddIssuer {} {}", i, nlist(&ts)), r, t.queries(&[ts[0]], &[i], false));
        }
        let victim = rng.below(maxi as u64) as usize;
        let r = unit_ok(t.c.try_remove_trusted_issuer(&t.u.a[victim]));
        tr.push(out, "cti.remove_issuer", &format!("CtRemoveIssuer {}", victim), r, t.queries(&cur_t, &[victim, 0], false));
        for i in [maxi, maxi + 1] {
            let ts = vec![cur_t[0]];
            let r = unit_ok(t.c.try_add_trusted_issuer(&t.u.a[i], &t.u32s(&ts)));
            tr.push(out, "cti.add_issuer.limit", &format!("CtAddIssuer {} {}", i, nlist(&ts)), r, t.queries(&cur_t, &[i], false));
        }
        let alli0: std::vec::Vec<usize> = (0..maxi + 2).collect();
        advance(&t.e, 4_000_000);
        tr.advance(out, "cti", 4_000_000, "tt", t.queries(&all_t, &alli0, false));
        // dropping a topic that every issuer of it loses; then the last issuer of a topic
        let x = cur_t[0];
        let r = unit_ok(t.c.try_remove_claim_topic(&(x as u32)));
        let alli: std::vec::Vec<usize> = (0..maxi + 2).collect();
        tr.push(out, "cti.remove_topic", &format!("CtRemoveTopic {}", x), r, t.queries(&all_t, &alli, false));
        let n = tr.len();
        out.trace("cti/limits", format!("{} {}", cti_header(), list(&tr.ev)), n);
    }
}

// ------------------------------------------------------------------------------------------
// 4. claim-issuer signing keys
// ------------------------------------------------------------------------------------------
fn pk_bytes(e: &Env, pk: u64) -> Bytes { if pk == 0 { Bytes::new(e) } else { Bytes::from_array(e, &pk.to_be_bytes()) } }
fn pk_id(bts: &Bytes) -> u64 { if bts.is_empty() { 0 } else { let mut a = [0u8; 8]; bts.copy_into_slice(&mut a); u64::from_be_bytes(a) } }

struct Ck<'a> { e: Env, c: KeysCClient<'a>, regs: std::vec::Vec<Address>, u: Uni }
impl<'a> Ck<'a> {
    fn new(nreg: usize) -> Ck<'a> {
        let e = new_env();
        let id = e.register(KeysC, ());
        let c = KeysCClient::new(&e, &id);
        let regs: std::vec::Vec<Address> = (0..nreg).map(|_| e.register(RegistryMock, ())).collect();
        let mut m = std::collections::HashMap::new();
        for (i, x) in regs.iter().enumerate() { m.insert(soroban_sdk::xdr::ScAddress::from(x), i as u64); }
        let u = Uni { a: regs.clone(), m };
        Ck { e, c, regs, u }
    }
    /// mode: 0 = registry says true, 1 = false, 2 = traps
    fn allow(&self, pk: u64, reg: usize, scheme: u64, t: u64, mode: u32) -> (String, Option<String>) {
        RegistryMockClient::new(&self.e, &self.regs[reg]).set_mode(&mode);
        let r = unit_ok(self.c.try_allow_key(&pk_bytes(&self.e, pk), &self.regs[reg], &(scheme as u32), &(t as u32)));
        let has = match mode { 0 => "(Ok true)", 1 => "(Ok false)", _ => "Fail" };
        (format!("CkAllow {} {} {} {} {}", pk, reg, scheme, t, has), r)
    }
    fn remove(&self, pk: u64, reg: usize, scheme: u64, t: u64) -> (String, Option<String>) {
        let r = unit_ok(self.c.try_remove_key(&pk_bytes(&self.e, pk), &self.regs[reg], &(scheme as u32), &(t as u32)));
        (format!("CkRemove {} {} {} {}", pk, reg, scheme, t), r)
    }
    fn queries(&self, topics: &[u64], keys: &[(u64, u64)], regs: &[usize], cross: bool) -> std::vec::Vec<String> {
        let mut q = vec![];
        for &t in topics {
            let r = match self.c.try_keys_for_topic(&(t as u32)) {
                Ok(Ok(v)) => okv(&list(&v.iter().map(|k| format!("({}, {})", pk_id(&k.public_key), k.scheme)).collect::<std::vec::Vec<_>>())), _ => "Fail".into() };
            q.push(format!("(KqKeysForTopic {}, KaKeys {})", t, r));
        }
        for &(pk, sc) in keys {
            let r = match self.c.try_registries(&pk_bytes(&self.e, pk), &(sc as u32)) { Ok(Ok(v)) => okv(&nlist(&self.u.ids(&v))), _ => "Fail".into() };
            q.push(format!("(KqRegistries ({}, {}), KaRegs {})", pk, sc, r));
            if cross {
                for &t in topics { q.push(match tryv!(self.c.try_allowed_topic(&pk_bytes(&self.e, pk), &(sc as u32), &(t as u32))) {
                    Some(x) => format!("(KqAllowedTopic ({}, {}) {}, KaBool {})", pk, sc, t, b(x)), None => format!("(KqAllowedTopic ({}, {}) {}, KaTrap)", pk, sc, t) }); }
                for &rg in regs { q.push(match tryv!(self.c.try_allowed_registry(&pk_bytes(&self.e, pk), &(sc as u32), &self.regs[rg])) {
                    Some(x) => format!("(KqAllowedRegistry ({}, {}) {}, KaBool {})", pk, sc, rg, b(x)), None => format!("(KqAllowedRegistry ({}, {}) {}, KaTrap)", pk, sc, rg) }); }
            }
        }
        q
    }
}
fn ck_header() -> String { format!("TrKeys {} {}", cil::MAX_KEYS_PER_TOPIC, cil::MAX_REGISTRIES_PER_KEY) }

fn run_keys(out: &mut Out, rng: &mut Rng) {
    let maxk = cil::MAX_KEYS_PER_TOPIC as u64;
    let maxr = cil::MAX_REGISTRIES_PER_KEY as u64;
    let thorough = out.cfg.thorough;
    let scale = out.cfg.scale as usize;
    // A. small universes
    let na = if thorough { 400 } else { 45 } * scale;
    for _ in 0..na {
        let npk = 1 + rng.below(3); let nt = 1 + rng.below(3); let nr = 1 + rng.below(3) as usize;
        let schemes = [101u64, 102];
        let k = Ck::new(nr);
        let mut tr = Tr::new();
        let topics: std::vec::Vec<u64> = (1..=nt).collect();
        let regs: std::vec::Vec<usize> = (0..nr).collect();
        let mut keys: std::vec::Vec<(u64, u64)> = vec![];
        for pk in 0..=npk { for sc in schemes { keys.push((pk, sc)); } }
        let ncalls = if thorough { 50 } else { 28 };
        let mut allowed: std::vec::Vec<(u64, usize, u64, u64)> = vec![];
        for _ in 0..ncalls {
            if rng.chance(1, 10) {
                let n = *rng.pick(&GAPS); advance(&k.e, n);
                tr.advance(out, "ck", n, "tt", k.queries(&topics, &keys, &regs, true));
            }
            let (label, call, r);
            if rng.chance(3, 5) {
                let pk = if rng.chance(1, 12) { 0 } else { 1 + rng.below(npk) };
                let (rg, sc, t) = (rng.below(nr as u64) as usize, *rng.pick(&schemes), 1 + rng.below(nt));
                let mode = match rng.below(10) { 0 => 1, 1 => 2, _ => 0 };
                let (c2, r2) = k.allow(pk, rg, sc, t, mode); label = "ck.allow"; call = c2; r = r2;
                if r.is_some() { allowed.push((pk, rg, sc, t)); }
            } else {
                let (pk, rg, sc, t) = if !allowed.is_empty() && rng.chance(3, 4) {
                    match rng.below(3) { 0 => allowed[0], 1 => allowed[allowed.len() - 1], _ => *rng.pick(&allowed) }
                } else { (rng.below(npk + 1), rng.below(nr as u64) as usize, *rng.pick(&schemes), 1 + rng.below(nt)) };
                let (c2, r2) = k.remove(pk, rg, sc, t); label = "ck.remove"; call = c2; r = r2;
                if r.is_some() { allowed.retain(|x| *x != (pk, rg, sc, t)); }
            }
            tr.push(out, label, &call, r, k.queries(&topics, &keys, &regs, true));
        }
        let n = tr.len();
        out.trace("keys/small", format!("{} {}", ck_header(), list(&tr.ev)), n);
    }
    // B. MAX_REGISTRIES_PER_KEY: the n-th pair of one key is accepted iff n <= limit (history of defect F5)
    let nb = if thorough { 6 } else { 2 } * scale;
    for it in 0..nb {
        let nr = 5usize; let nt = (maxr as usize + nr) / nr + 1;
        let k = Ck::new(nr);
        let mut tr = Tr::new();
        let key = (7u64, 101u64);
        let mut pairs: std::vec::Vec<(usize, u64)> = vec![];
        for t in 1..=nt as u64 { for rg in 0..nr { pairs.push((rg, t)); } }
        if it % 2 == 1 { for i in (1..pairs.len()).rev() { let j = rng.below(i as u64 + 1) as usize; pairs.swap(i, j); } }
        let topics: std::vec::Vec<u64> = (1..=nt as u64).collect();
        let regs: std::vec::Vec<usize> = (0..nr).collect();
        for (n, &(rg, t)) in pairs.iter().enumerate().take(maxr as usize + 2) {
            let (call, r) = k.allow(key.0, rg, key.1, t, 0);
            tr.push(out, if n as u64 + 2 >= maxr { "ck.allow.reg_limit" } else { "ck.allow" }, &call, r, k.queries(&[t], &[key], &regs, n as u64 + 2 >= maxr));
        }
        advance(&k.e, 4_000_000);
        tr.advance(out, "ck", 4_000_000, "tt", k.queries(&topics, &[key], &regs, true));
        let (vr, vt) = pairs[rng.below(maxr) as usize];
        let (call, r) = k.remove(key.0, vr, key.1, vt);
        tr.push(out, "ck.remove", &call, r, k.queries(&topics, &[key], &regs, true));
        for &(rg, t) in pairs.iter().skip(maxr as usize).take(2) {
            let (call, r) = k.allow(key.0, rg, key.1, t, 0);
            tr.push(out, "ck.allow.reg_limit", &call, r, k.queries(&topics, &[key], &regs, true));
        }
        let n = tr.len();
        out.trace("keys/registries-per-key-limit", format!("{} {}", ck_header(), list(&tr.ev)), n);
    }
    // C. MAX_KEYS_PER_TOPIC
    let nc = if thorough { 4 } else { 1 } * scale;
    for _ in 0..nc {
        let k = Ck::new(2);
        let mut tr = Tr::new();
        let t = 3u64;
        for pk in 1..=maxk + 1 {
            let (call, r) = k.allow(pk, 0, 101, t, 0);
            tr.push(out, if pk + 1 >= maxk { "ck.allow.key_limit" } else { "ck.allow" }, &call, r, k.queries(&[t], &[(pk, 101)], &[0], pk + 1 >= maxk));
        }
        // a key already allowed for the topic may still get another registry at the limit
        let (call, r) = k.allow(5, 1, 101, t, 0);
        tr.push(out, "ck.allow.key_limit", &call, r, k.queries(&[t], &[(5, 101)], &[0, 1], true));
        let victim = 1 + rng.below(maxk);
        let (call, r) = k.remove(victim, 0, 101, t);
        tr.push(out, "ck.remove", &call, r, k.queries(&[t], &[(victim, 101)], &[0, 1], true));
        for pk in [maxk + 1, maxk + 2] {
            let (call, r) = k.allow(pk, 0, 101, t, 0);
            tr.push(out, "ck.allow.key_limit", &call, r, k.queries(&[t], &[(pk, 101)], &[0], true));
        }
        let n = tr.len();
        out.trace("keys/keys-per-topic-limit", format!("{} {}", ck_header(), list(&tr.ev)), n);
    }
}

// ------------------------------------------------------------------------------------------
// 5. identity registry storage
// ------------------------------------------------------------------------------------------

/// country data descriptor: (code, None | Some(entries, len))
type Cd = (u64, Option<(u64, u64)>);
fn cd_make(e: &Env, d: &Cd) -> CountryData {
    let metadata = d.1.map(|(n, len)| {
        let mut m: Map<Symbol, SString> = Map::new(e);
        let v: std::string::String = std::iter::repeat('x').take(len as usize).collect();
        for i in 0..n { m.set(Symbol::new(e, &format!("k{}", i)), SString::from_str(e, &v)); }
        m
    });
    CountryData { country: CountryRelation::Individual(IndividualCountryRelation::Residence(d.0 as u32)), metadata }
}
fn cd_coq_desc(d: &Cd) -> String {
    match d.1 { None => format!("(Build_cdata {} None)", d.0), Some((n, l)) => format!("(Build_cdata {} (Some ({}, {})))", d.0, n, if n == 0 { 0 } else { l }) }
}
fn cd_coq(c: &CountryData) -> String {
    let code = match &c.country { CountryRelation::Individual(IndividualCountryRelation::Residence(x)) => *x as u64, _ => 999_999 };
    let meta = c.metadata.as_ref().map(|m| (m.len() as u64, m.values().first().map(|v| v.len() as u64).unwrap_or(0)));
    cd_coq_desc(&(code, meta))
}

struct Ir<'a> { e: Env, c: IrsCClient<'a>, u: Uni }
impl<'a> Ir<'a> {
    fn new(n: usize) -> Ir<'a> {
        let e = new_env();
        let id = e.register(IrsC, ());
        let c = IrsCClient::new(&e, &id);
        let u = Uni::new(&e, n);
        Ir { e, c, u }
    }
    fn cds(&self, ds: &[Cd]) -> Vec<CountryData> { let mut v = Vec::new(&self.e); for d in ds { v.push_back(cd_make(&self.e, d)); } v }
    fn queries(&self, accts: &[usize]) -> std::vec::Vec<String> {
        let mut q = vec![];
        for &a in accts {
            let ad = &self.u.a[a];
            let r = match self.c.try_stored_identity(ad) { Ok(Ok(x)) => okv(&nn(self.u.id(&x))), _ => "Fail".into() };
            q.push(format!("(IqIdentity {}, IaAddr {})", a, r));
            let mut ncs = 0u32;
            let r = match self.c.try_profile(ad) {
                Ok(Ok(p)) => { ncs = p.countries.len();
                    okv(&format!("({}, {})", if p.identity_type == IdentityType::Organization { 1 } else { 0 }, list(&p.countries.iter().map(|c| cd_coq(&c)).collect::<std::vec::Vec<_>>()))) }
                _ => "Fail".into() };
            q.push(format!("(IqProfile {}, IaProfile {})", a, r));
            for i in [0u32, ncs.saturating_sub(1), ncs, u32::MAX] {
                let r = match self.c.try_country(ad, &i) { Ok(Ok(c)) => okv(&cd_coq(&c)), _ => "Fail".into() };
                q.push(format!("(IqCountry {} {}, IaCountry {})", a, i, r));
            }
            q.push(match tryv!(self.c.try_countries(ad)) { Some(v) => format!("(IqCountries {}, IaCountries {})", a, list(&v.iter().map(|c| cd_coq(&c)).collect::<std::vec::Vec<_>>())), None => format!("(IqCountries {}, IaTrap)", a) });
            q.push(match tryv!(self.c.try_recovered_to(ad)) {
                Some(Some(x)) => format!("(IqRecovered {}, IaOpt (Some {}))", a, self.u.id(&x)),
                Some(None) => format!("(IqRecovered {}, IaOpt None)", a),
                None => format!("(IqRecovered {}, IaTrap)", a) });
        }
        q
    }
}
fn irs_header() -> String { format!("TrIRS {} {} {}", irl::MAX_COUNTRY_ENTRIES, irl::MAX_METADATA_ENTRIES, irl::MAX_METADATA_STRING_LEN) }

fn run_irs(out: &mut Out, rng: &mut Rng) {
    let maxc = irl::MAX_COUNTRY_ENTRIES as u64;
    let maxm = irl::MAX_METADATA_ENTRIES as u64;
    let maxl = irl::MAX_METADATA_STRING_LEN as u64;
    let thorough = out.cfg.thorough;
    let scale = out.cfg.scale as usize;
    let na = if thorough { 500 } else { 50 } * scale;
    for it in 0..na {
        let nacct = 2 + rng.below(4) as usize;       // accounts 0..nacct ; identities are the last two addresses
        let t = Ir::new(nacct + 2);
        let mut tr = Tr::new();
        let accts: std::vec::Vec<usize> = (0..nacct).collect();
        let ncalls = if thorough { 50 } else { 28 };
        let limit_heavy = it % 5 == 4;
        let rand_cd = |rng: &mut Rng| -> Cd {
            let code = 1 + rng.below(5);
            let meta = match rng.below(12) {
                0 => Some((0, 0)), 1 => Some((maxm, maxl)), 2 => Some((maxm + 1, 1)), 3 => Some((1, maxl + 1)), 4 => Some((2, 3)), _ => None };
            (code, meta)
        };
        for _ in 0..ncalls {
            if rng.chance(1, 10) {
                let n = *rng.pick(&GAPS); advance(&t.e, n);
                tr.advance(out, "irs", n, "tt", t.queries(&accts));
            }
            let have: std::vec::Vec<usize> = (0..nacct).filter(|i| t.c.try_stored_identity(&t.u.a[*i]).map(|r| r.is_ok()).unwrap_or(false)).collect();
            let free: std::vec::Vec<usize> = (0..nacct).filter(|i| !have.contains(i) && matches!(tryv!(t.c.try_recovered_to(&t.u.a[*i])), Some(None))).collect();
            let mut a = rng.below(nacct as u64) as usize;
            let ident = nacct + rng.below(2) as usize;
            let (label, call, r);
            match rng.below(14) {
                0..=3 => {
                    let n = if limit_heavy { match rng.below(4) { 0 => maxc, 1 => maxc + 1, 2 => maxc - 1, _ => 1 + rng.below(3) } } else { match rng.below(10) { 0 => 0, _ => 1 + rng.below(3) } };
                    let ds: std::vec::Vec<Cd> = (0..n).map(|_| if limit_heavy { (1 + rng.below(5), None) } else { rand_cd(rng) }).collect();
                    let org = rng.chance(1, 3);
                    r = unit_ok(t.c.try_add_identity(&t.u.a[a], &t.u.a[ident], &org, &t.cds(&ds)));
                    label = "irs.add"; call = format!("IrAdd {} {} {} {}", a, ident, if org { 1 } else { 0 }, list(&ds.iter().map(cd_coq_desc).collect::<std::vec::Vec<_>>()));
                }
                4 => { r = unit_ok(t.c.try_modify_identity(&t.u.a[a], &t.u.a[ident])); label = "irs.modify"; call = format!("IrModify {} {}", a, ident); }
                5..=6 => { r = unit_ok(t.c.try_remove_identity(&t.u.a[a])); label = "irs.remove"; call = format!("IrRemove {}", a); }
                7..=8 => { if !have.is_empty() && rng.chance(3, 4) { a = *rng.pick(&have); }
                           let nw = if !free.is_empty() && rng.chance(3, 4) { *rng.pick(&free) } else { rng.below(nacct as u64) as usize };
                           r = unit_ok(t.c.try_recover_identity(&t.u.a[a], &t.u.a[nw])); label = "irs.recover"; call = format!("IrRecover {} {}", a, nw); }
                9..=10 => {
                    if !have.is_empty() && rng.chance(3, 4) { a = *rng.pick(&have); }
                    let have = tryv!(t.c.try_countries(&t.u.a[a])).map(|v| v.len()).unwrap_or(0) as u64;
                    let n = if limit_heavy && have > 0 && have <= maxc { match rng.below(3) { 0 => maxc - have, 1 => maxc - have + 1, _ => 1 } } else { match rng.below(8) { 0 => 0, _ => 1 + rng.below(2) } };
                    let ds: std::vec::Vec<Cd> = (0..n).map(|_| rand_cd(rng)).collect();
                    r = unit_ok(t.c.try_add_countries(&t.u.a[a], &t.cds(&ds)));
                    label = "irs.add_countries"; call = format!("IrAddCountries {} {}", a, list(&ds.iter().map(cd_coq_desc).collect::<std::vec::Vec<_>>()));
                }
                11 => { if !have.is_empty() && rng.chance(3, 4) { a = *rng.pick(&have); }
                        let have = tryv!(t.c.try_countries(&t.u.a[a])).map(|v| v.len()).unwrap_or(0) as u64; let i = match rng.below(4) { 0 => have, 1 => have.saturating_sub(1), _ => rng.below(have + 1) };
                        let d = rand_cd(rng);
                        r = unit_ok(t.c.try_modify_country(&t.u.a[a], &(i as u32), &cd_make(&t.e, &d))); label = "irs.modify_country"; call = format!("IrModifyCountry {} {} {}", a, i, cd_coq_desc(&d)); }
                _ => { if !have.is_empty() && rng.chance(3, 4) { a = *rng.pick(&have); }
                       let have = tryv!(t.c.try_countries(&t.u.a[a])).map(|v| v.len()).unwrap_or(0) as u64; let i = match rng.below(4) { 0 => have, 1 => have.saturating_sub(1), _ => rng.below(have + 1) };
                       r = unit_ok(t.c.try_delete_country(&t.u.a[a], &(i as u32))); label = "irs.delete_country"; call = format!("IrDeleteCountry {} {}", a, i); }
            }
            tr.push(out, label, &call, r, t.queries(&accts));
        }
        let n = tr.len();
        out.trace(if limit_heavy { "irs/limits" } else { "irs/small" }, format!("{} {}", irs_header(), list(&tr.ev)), n);
    }
}

// ------------------------------------------------------------------------------------------
// 6. compliance hook modules
// ------------------------------------------------------------------------------------------
fn hook_of(h: u64) -> ComplianceHook {
    match h { 0 => ComplianceHook::Transferred, 1 => ComplianceHook::Created, 2 => ComplianceHook::Destroyed, 3 => ComplianceHook::CanTransfer, _ => ComplianceHook::CanCreate }
}
struct Cm<'a> { e: Env, c: CmCClient<'a>, u: Uni }
impl<'a> Cm<'a> {
    fn new(n: usize) -> Cm<'a> {
        let e = new_env();
        let id = e.register(CmC, ());
        let c = CmCClient::new(&e, &id);
        let u = Uni::new(&e, n);
        Cm { e, c, u }
    }
    fn queries(&self, hooks: &[u64], mods: &[usize]) -> std::vec::Vec<String> {
        let mut q = vec![];
        for &h in hooks {
            q.push(match tryv!(self.c.try_modules(&hook_of(h))) { Some(v) => format!("(MqModules {}, MaList {})", h, nlist(&self.u.ids(&v))), None => format!("(MqModules {}, MaTrap)", h) });
            for &m in mods { q.push(match tryv!(self.c.try_is_registered(&hook_of(h), &self.u.a[m])) { Some(x) => format!("(MqIsRegistered {} {}, MaBool {})", h, m, b(x)), None => format!("(MqIsRegistered {} {}, MaTrap)", h, m) }); }
        }
        q
    }
}
fn run_compliance(out: &mut Out, rng: &mut Rng) {
    let maxm = cmm::MAX_MODULES as usize;
    let thorough = out.cfg.thorough;
    let scale = out.cfg.scale as usize;
    let header = format!("TrCM {}", cmm::MAX_MODULES);
    let na = if thorough { 300 } else { 30 } * scale;
    for _ in 0..na {
        let nm = 2 + rng.below(4) as usize;
        let t = Cm::new(nm);
        let mut tr = Tr::new();
        let hooks: std::vec::Vec<u64> = (0..5).collect();
        let mods: std::vec::Vec<usize> = (0..nm).collect();
        let ncalls = if thorough { 50 } else { 28 };
        for _ in 0..ncalls {
            if rng.chance(1, 10) {
                let n = *rng.pick(&GAPS); advance(&t.e, n);
                tr.advance(out, "cm", n, "tt", t.queries(&hooks, &mods));
            }
            let hn = if rng.chance(1, 2) { 2 } else { 5 }; let h = rng.below(hn);
            let cur = tryv!(t.c.try_modules(&hook_of(h))).map(|v| t.u.ids(&v)).unwrap_or_default();
            let (label, call, r);
            if rng.chance(1, 2) {
                let m = rng.below(nm as u64) as usize;
                r = unit_ok(t.c.try_add_module(&hook_of(h), &t.u.a[m])); label = "cm.add"; call = format!("CmAdd {} {}", h, m);
            } else {
                let m = if !cur.is_empty() && rng.chance(3, 4) { (match rng.below(3) { 0 => cur[0], 1 => cur[cur.len() - 1], _ => *rng.pick(&cur) }) as usize } else { rng.below(nm as u64) as usize };
                r = unit_ok(t.c.try_remove_module(&hook_of(h), &t.u.a[m])); label = "cm.remove"; call = format!("CmRemove {} {}", h, m);
            }
            tr.push(out, label, &call, r, t.queries(&hooks, &mods));
        }
        let n = tr.len();
        out.trace("compliance/small", format!("{} {}", header, list(&tr.ev)), n);
    }
    // thorough tier: EVERY sequence of 4 add / remove operations over 2 hooks x 2 modules
    if thorough {
        for seq in all_seqs(8, 4) {
            let t = Cm::new(2);
            let mut tr = Tr::new();
            for op in seq {
                let (h, m, add) = ((op % 2) as u64, (op / 2) % 2, op < 4);
                let r = if add { unit_ok(t.c.try_add_module(&hook_of(h), &t.u.a[m])) } else { unit_ok(t.c.try_remove_module(&hook_of(h), &t.u.a[m])) };
                let call = if add { format!("CmAdd {} {}", h, m) } else { format!("CmRemove {} {}", h, m) };
                tr.push(out, if add { "cm.add" } else { "cm.remove" }, &call, r, t.queries(&[0, 1], &[0, 1]));
            }
            let n = tr.len();
            out.trace("compliance/exhaustive", format!("{} {}", header, list(&tr.ev)), n);
        }
    }

    // MAX_MODULES per hook
    let nb = if thorough { 5 } else { 1 } * scale;
    for _ in 0..nb {
        let t = Cm::new(maxm + 2);
        let mut tr = Tr::new();
        let h = rng.below(5); let h2 = (h + 1) % 5;
        for m in 0..maxm + 1 {
            let r = unit_ok(t.c.try_add_module(&hook_of(h), &t.u.a[m]));
            tr.push(out, if m + 2 >= maxm { "cm.add.limit" } else { "cm.add" }, &format!("CmAdd {} {}", h, m), r, t.queries(&[h, h2], &[m]));
        }
        advance(&t.e, 4_000_000);
        tr.advance(out, "cm", 4_000_000, "tt", t.queries(&[h, h2], &[0, maxm - 1, maxm]));
        // the other hook is unaffected by the full one
        let r = unit_ok(t.c.try_add_module(&hook_of(h2), &t.u.a[maxm]));
        tr.push(out, "cm.add.limit", &format!("CmAdd {} {}", h2, maxm), r, t.queries(&[h, h2], &[maxm]));
        let victim = rng.below(maxm as u64) as usize;
        let r = unit_ok(t.c.try_remove_module(&hook_of(h), &t.u.a[victim]));
        tr.push(out, "cm.remove", &format!("CmRemove {} {}", h, victim), r, t.queries(&[h, h2], &[victim]));
        for m in [maxm, maxm + 1] {
            let r = unit_ok(t.c.try_add_module(&hook_of(h), &t.u.a[m]));
            tr.push(out, "cm.add.limit", &format!("CmAdd {} {}", h, m), r, t.queries(&[h, h2], &[m, victim]));
        }
        let n = tr.len();
        out.trace("compliance/limit", format!("{} {}", header, list(&tr.ev)), n);
    }
}

// ------------------------------------------------------------------------------------------
// 7. identity claims index
// ------------------------------------------------------------------------------------------
struct Ic<'a> { e: Env, c: ClaimsCClient<'a>, u: Uni, ids: std::collections::HashMap<[u8; 32], (u64, u64)>, nt: u64 }
impl<'a> Ic<'a> {
    fn new(nissuer: usize, nt: u64) -> Ic<'a> {
        let e = new_env();
        let id = e.register(ClaimsC, ());
        let c = ClaimsCClient::new(&e, &id);
        let issuers: std::vec::Vec<Address> = (0..nissuer).map(|_| e.register(IssuerMock, ())).collect();
        let mut m = std::collections::HashMap::new();
        for (i, x) in issuers.iter().enumerate() { m.insert(soroban_sdk::xdr::ScAddress::from(x), i as u64); }
        let u = Uni { a: issuers, m };
        // the claim id of every (issuer, topic) of the universe; the idealisation "id = the pair" needs them distinct
        let mut ids = std::collections::HashMap::new();
        for i in 0..nissuer { for t in 0..=nt + 1 {
            let h = icl::generate_claim_id(&e, &u.a[i], t as u32).to_array();
            if ids.insert(h, (i as u64, t)).is_some() { panic!("claim id collision inside the universe"); }
        } }
        Ic { e, c, u, ids, nt }
    }
    fn cid(&self, i: usize, t: u64) -> BytesN<32> { icl::generate_claim_id(&self.e, &self.u.a[i], t as u32) }
    fn cid_coq(&self, b: &BytesN<32>) -> String { let (i, t) = self.ids.get(&b.to_array()).cloned().unwrap_or((999_999_999, 999_999_999)); format!("({}, {})", i, t) }
    fn bytes(&self, x: u64) -> Bytes { if x == 0 { Bytes::new(&self.e) } else { Bytes::from_array(&self.e, &x.to_be_bytes()) } }
    fn claim_coq(&self, c: &icl::Claim) -> String {
        format!("(Build_claim {} {} {} {} {} {})", c.topic, c.scheme, self.u.id(&c.issuer), pk_id(&c.signature), pk_id(&c.data), sstr(&c.uri).parse::<u64>().unwrap_or(0))
    }
    fn queries(&self) -> std::vec::Vec<String> {
        let mut q = vec![];
        for i in 0..self.u.a.len() { for t in 1..=self.nt + 1 {
            let r = match self.c.try_get_claim(&self.cid(i, t)) { Ok(Ok(c)) => okv(&self.claim_coq(&c)), _ => "Fail".into() };
            q.push(format!("(JqClaim ({}, {}), JaClaim {})", i, t, r));
        } }
        for t in 1..=self.nt + 1 {
            q.push(match tryv!(self.c.try_ids_by_topic(&(t as u32))) {
                Some(ids) => { let v: std::vec::Vec<String> = ids.iter().map(|x| self.cid_coq(&x)).collect(); format!("(JqByTopic {}, JaIds {})", t, list(&v)) }
                None => format!("(JqByTopic {}, JaTrap)", t) });
        }
        q
    }
}
fn run_claims(out: &mut Out, rng: &mut Rng) {
    let thorough = out.cfg.thorough;
    let scale = out.cfg.scale as usize;
    let na = if thorough { 300 } else { 35 } * scale;
    for _ in 0..na {
        let ni = 1 + rng.below(3) as usize; let nt = 1 + rng.below(3);
        let t = Ic::new(ni, nt);
        let mut tr = Tr::new();
        let ncalls = if thorough { 50 } else { 28 };
        let mut present: std::vec::Vec<(usize, u64)> = vec![];
        for _ in 0..ncalls {
            if rng.chance(1, 10) {
                let n = *rng.pick(&GAPS); advance(&t.e, n);
                tr.advance(out, "ic", n, "None", t.queries());
            }
            if rng.chance(3, 5) {
                let (i, tp) = (rng.below(ni as u64) as usize, 1 + rng.below(nt));
                let (scheme, sig, data, uri) = (101 + rng.below(2), if rng.chance(1, 8) { 0 } else { 1 + rng.below(3) }, rng.below(3), rng.below(4));
                let r = match t.c.try_add_claim(&(tp as u32), &(scheme as u32), &t.u.a[i], &t.bytes(sig), &t.bytes(data), &SString::from_str(&t.e, &format!("{}", uri))) {
                    Ok(Ok(id)) => Some(format!("(Some {})", t.cid_coq(&id))), _ => None };
                if r.is_some() && !present.contains(&(i, tp)) { present.push((i, tp)); }
                tr.push(out, "ic.add", &format!("IcAdd (Build_claim {} {} {} {} {} {}) {}", tp, scheme, i, sig, data, uri, b(sig != 0)), r, t.queries());
            } else {
                let (i, tp) = if !present.is_empty() && rng.chance(3, 4) { match rng.below(3) { 0 => present[0], 1 => present[present.len() - 1], _ => *rng.pick(&present) } } else { (rng.below(ni as u64) as usize, 1 + rng.below(nt + 1)) };
                let r = match t.c.try_remove_claim(&t.cid(i, tp)) { Ok(Ok(())) => Some("None".to_string()), _ => None };
                if r.is_some() { present.retain(|x| *x != (i, tp)); }
                tr.push(out, "ic.remove", &format!("IcRemove ({}, {})", i, tp), r, t.queries());
            }
        }
        let n = tr.len();
        out.trace("claims/small", format!("TrIC {}", list(&tr.ev)), n);
    }
}

// ------------------------------------------------------------------------------------------
// 8. smart-account context rules
// ------------------------------------------------------------------------------------------

/// signer descriptor: (kind 0 delegated / 1 external, address index, key id)
type Sg = (u64, usize, u64);
/// context type descriptor: (0 default / 1 call-contract / 2 create-contract, address index or hash id)
type Cx = (u64, u64);
struct Sa<'a> { e: Env, c: SaCClient<'a>, u: Uni, pol: Uni }
impl<'a> Sa<'a> {
    fn new(naddr: usize, npol: usize) -> Sa<'a> {
        let e = new_env();
        let id = e.register(SaC, ());
        let c = SaCClient::new(&e, &id);
        let u = Uni::new(&e, naddr);
        // policies: registered mocks, numbered in the host's order of addresses (= order of Map keys)
        let raw: std::vec::Vec<Address> = (0..npol).map(|i| if i % 3 == 2 { e.register(GrumpyPolicyMock, ()) } else { e.register(PolicyMock, ()) }).collect();
        let mut m: Map<Address, ()> = Map::new(&e);
        for a in raw.iter() { m.set(a.clone(), ()); }
        let sorted: std::vec::Vec<Address> = m.keys().iter().collect();
        let mut hm = std::collections::HashMap::new();
        for (i, x) in sorted.iter().enumerate() { hm.insert(soroban_sdk::xdr::ScAddress::from(x), i as u64); }
        let pol = Uni { a: sorted, m: hm };
        Sa { e, c, u, pol }
    }
    fn signer(&self, s: &Sg) -> Signer {
        if s.0 == 0 { Signer::Delegated(self.u.a[s.1].clone()) } else { Signer::External(self.u.a[s.1].clone(), Bytes::from_array(&self.e, &s.2.to_be_bytes())) }
    }
    fn signer_coq(&self, s: &Signer) -> String {
        match s { Signer::Delegated(a) => format!("(Delegated {})", self.u.id(a)), Signer::External(a, k) => format!("(External {} {})", self.u.id(a), pk_id(k)) }
    }
    fn ctx(&self, c: &Cx) -> ContextRuleType {
        match c.0 { 0 => ContextRuleType::Default, 1 => ContextRuleType::CallContract(self.u.a[c.1 as usize].clone()), _ => ContextRuleType::CreateContract(bn32(&self.e, c.1)) }
    }
    fn ctx_coq(&self, c: &ContextRuleType) -> String {
        match c { ContextRuleType::Default => "CDefault".into(), ContextRuleType::CallContract(a) => format!("(CCall {})", self.u.id(a)), ContextRuleType::CreateContract(h) => format!("(CCreate {})", bn32_id(h)) }
    }
    fn rule_coq(&self, r: &ContextRule) -> String {
        format!("(Build_rule {} {} {} {} {} {})", r.id, self.ctx_coq(&r.context_type), sstr(&r.name).parse::<u64>().unwrap_or(0),
                list(&r.signers.iter().map(|s| self.signer_coq(&s)).collect::<std::vec::Vec<_>>()), nlist(&self.pol.ids(&r.policies)),
                match r.valid_until { Some(v) => format!("(Some {})", v), None => "None".into() })
    }
    fn name(&self, n: u64) -> SString { SString::from_str(&self.e, &format!("{}", n)) }
    fn queries(&self, max_id: u32, ctxs: &[Cx]) -> std::vec::Vec<String> {
        let mut q = vec![match tryv!(self.c.try_count()) { Some(n) => format!("(SqCount, SaNat {})", n), None => "(SqCount, SaTrap)".into() }];
        for id in 0..=max_id {
            let r = match self.c.try_rule(&id) { Ok(Ok(r)) => okv(&self.rule_coq(&r)), _ => "Fail".into() };
            q.push(format!("(SqRule {}, SaRule {})", id, r));
        }
        for cx in ctxs {
            let ct = self.ctx(cx);
            let r = match self.c.try_rules(&ct) { Ok(Ok(v)) => okv(&list(&v.iter().map(|r| self.rule_coq(&r)).collect::<std::vec::Vec<_>>())), _ => "Fail".into() };
            q.push(format!("(SqRules {}, SaRules {})", self.ctx_coq(&ct), r));
        }
        q
    }
    fn sg_coq(&self, s: &Sg) -> String { if s.0 == 0 { format!("(Delegated {})", s.1) } else { format!("(External {} {})", s.1, s.2) } }
    fn cx_coq(&self, c: &Cx) -> String { match c.0 { 0 => "CDefault".into(), 1 => format!("(CCall {})", c.1), _ => format!("(CCreate {})", c.1) } }
    /// policies: (policy index, install succeeds); returns (call, outcome)
    fn add_rule(&self, cx: &Cx, name: u64, until: Option<u32>, sgs: &[Sg], pols: &[(usize, bool)]) -> (String, Option<String>) {
        let mut sv: Vec<Signer> = Vec::new(&self.e);
        for s in sgs { sv.push_back(self.signer(s)); }
        let mut pm: Map<Address, Val> = Map::new(&self.e);
        for (p, ok) in pols { pm.set(self.pol.a[*p].clone(), (if *ok { 0u32 } else { 1u32 }).into_val(&self.e)); }
        let r = match self.c.try_add_rule(&self.ctx(cx), &self.name(name), &until, &sv, &pm) { Ok(Ok(r)) => Some(format!("(Some {})", self.rule_coq(&r))), _ => None };
        // the Map argument: ascending policy index, last value wins for a repeated key
        let mut keys: std::collections::BTreeMap<usize, bool> = Default::default();
        for (p, ok) in pols { keys.insert(*p, *ok); }
        let ptxt: std::vec::Vec<String> = keys.iter().map(|(p, ok)| format!("({}, {})", p, b(*ok))).collect();
        let call = format!("SaAddRule {} {} {} {} {}", self.cx_coq(cx), name, match until { Some(v) => format!("(Some {})", v), None => "None".into() },
                           list(&sgs.iter().map(|s| self.sg_coq(s)).collect::<std::vec::Vec<_>>()), list(&ptxt));
        (call, r)
    }
}

fn run_sa(out: &mut Out, rng: &mut Rng) {
    let maxr = sal::MAX_CONTEXT_RULES as u64;
    let maxs = sal::MAX_SIGNERS as u64;
    let maxp = sal::MAX_POLICIES as u64;
    let thorough = out.cfg.thorough;
    let scale = out.cfg.scale as usize;
    let now0 = 100u32;
    let header = format!("TrSA {} {} {} {}", maxr, maxs, maxp, now0);
    let na = if thorough { 600 } else { 70 } * scale;
    for it in 0..na {
        let mode = it % 4; // 0,1: general; 2: rule-count limit; 3: signer / policy limits
        let naddr = if mode == 3 { (maxs + 3) as usize } else { 3 };
        let npol = if mode == 3 { (maxp + 3) as usize } else { 4 };
        let t = Sa::new(naddr, npol);
        let mut tr = Tr::new();
        let ctxs: std::vec::Vec<Cx> = vec![(0, 0), (1, 0), (1, 1), (2, 5)];
        let ncalls = if thorough { 50 } else { 30 };
        let mut next_id_guess = 0u32;
        let mut now = now0;
        let rand_sg = |rng: &mut Rng| -> Sg { if rng.chance(1, 2) { (0, rng.below(naddr.min(3) as u64) as usize, 0) } else { (1, rng.below(2) as usize, 1 + rng.below(2)) } };
        if mode == 3 {
            // directed: MAX_SIGNERS and MAX_POLICIES at the limit and one past it
            let ms = maxs as usize; let mp = maxp as usize;
            let unit = |x: Result<Result<(), _>, _>| -> Option<String> { match x { Ok(Ok(())) => Some("None".into()), _ => None } };
            let sgs_over: std::vec::Vec<Sg> = (0..ms + 1).map(|i| (0u64, i, 0u64)).collect();
            let (c2, r2) = t.add_rule(&(0, 0), 1, None, &sgs_over, &[]);
            tr.push(out, "sa.signer_limit", &c2, r2, t.queries(1, &ctxs));
            let pols_over: std::vec::Vec<(usize, bool)> = (0..mp + 1).map(|i| (i, true)).collect();
            let (c2, r2) = t.add_rule(&(0, 0), 1, None, &sgs_over[..2], &pols_over);
            tr.push(out, "sa.policy_limit", &c2, r2, t.queries(1, &ctxs));
            let pols_full: std::vec::Vec<(usize, bool)> = (0..mp).map(|i| (i, true)).collect();
            let (c2, r2) = t.add_rule(&(0, 0), 1, None, &sgs_over[..ms], &pols_full);
            if r2.is_some() { next_id_guess += 1; }
            tr.push(out, "sa.signer_limit", &c2, r2, t.queries(1, &ctxs));
            let extra: Sg = (0, ms, 0); let extra2: Sg = (0, ms + 1, 0);
            let r = unit(t.c.try_add_signer(&0, &t.signer(&extra)));
            tr.push(out, "sa.signer_limit", &format!("SaAddSigner 0 {}", t.sg_coq(&extra)), r, t.queries(1, &ctxs));
            let victim: Sg = (0, rng.below(ms as u64) as usize, 0);
            let r = unit(t.c.try_remove_signer(&0, &t.signer(&victim)));
            tr.push(out, "sa.remove_signer", &format!("SaRemoveSigner 0 {}", t.sg_coq(&victim)), r, t.queries(1, &ctxs));
            let r = unit(t.c.try_add_signer(&0, &t.signer(&extra)));
            tr.push(out, "sa.signer_limit", &format!("SaAddSigner 0 {}", t.sg_coq(&extra)), r, t.queries(1, &ctxs));
            let r = unit(t.c.try_add_signer(&0, &t.signer(&extra2)));
            tr.push(out, "sa.signer_limit", &format!("SaAddSigner 0 {}", t.sg_coq(&extra2)), r, t.queries(1, &ctxs));
            let r = unit(t.c.try_add_policy(&0, &t.pol.a[mp], &0u32.into_val(&t.e)));
            tr.push(out, "sa.policy_limit", &format!("SaAddPolicy 0 {} true", mp), r, t.queries(1, &ctxs));
            let pv = rng.below(mp as u64) as usize;
            let r = unit(t.c.try_remove_policy(&0, &t.pol.a[pv]));
            tr.push(out, "sa.remove_policy", &format!("SaRemovePolicy 0 {}", pv), r, t.queries(1, &ctxs));
            let r = unit(t.c.try_add_policy(&0, &t.pol.a[mp], &0u32.into_val(&t.e)));
            tr.push(out, "sa.policy_limit", &format!("SaAddPolicy 0 {} true", mp), r, t.queries(1, &ctxs));
            let r = unit(t.c.try_add_policy(&0, &t.pol.a[mp + 1], &0u32.into_val(&t.e)));
            tr.push(out, "sa.policy_limit", &format!("SaAddPolicy 0 {} true", mp + 1), r, t.queries(1, &ctxs));
        }
        for step in 0..ncalls {
            if (mode == 3 && step == 0) || rng.chance(1, 10) {
                let n = if mode == 3 && step == 0 { 4_000_000 } else { *rng.pick(&GAPS) }; advance(&t.e, n); now += n as u32;
                tr.advance(out, "sa", n, "None", t.queries(next_id_guess + 1, &ctxs));
            }
            let live: std::vec::Vec<u32> = (0..next_id_guess + 1).filter(|i| t.c.try_rule(i).map(|r| r.is_ok()).unwrap_or(false)).collect();
            let pick_id = |rng: &mut Rng| -> u32 { if !live.is_empty() && rng.chance(5, 6) { *rng.pick(&live) } else { rng.below(next_id_guess as u64 + 2) as u32 } };
            let (label, call, r): (&str, String, Option<String>);
            let choice = if mode == 2 && step < (maxr as usize + 3) { 0 } else { rng.below(16) };
            match choice {
                0..=4 => {
                    let cx = *rng.pick(&ctxs);
                    let ns = match rng.below(8) { 0 => 0, _ => 1 + rng.below(3) };
                    let mut sgs: std::vec::Vec<Sg> = vec![];
                    if mode == 2 { sgs.push((1, 0, 1 + step as u64)); } // distinct fingerprints so that only the count limits
                    else { for _ in 0..ns { let s = rand_sg(rng); if rng.chance(1, 12) || !sgs.contains(&s) { sgs.push(s); } } }
                    let np = match rng.below(6) { 0 => 2, 1 | 2 => 1, _ => 0 };
                    let mut pols: std::vec::Vec<(usize, bool)> = vec![];
                    for _ in 0..np { let p = rng.below(npol.min(4) as u64) as usize; if !pols.iter().any(|x| x.0 == p) { pols.push((p, !rng.chance(1, 10))); } }
                    let until = match rng.below(8) { 0 => Some(now - 1), 1 => Some(now), 2 => Some(now + 50), _ => None };
                    let (c2, r2) = t.add_rule(&cx, rng.below(3), until, &sgs, &pols);
                    if r2.is_some() { next_id_guess += 1; }
                    label = if mode == 2 { "sa.add_rule.limit" } else { "sa.add_rule" }; call = c2; r = r2;
                }
                5 => { let id = pick_id(rng); let nm = rng.below(4);
                       r = match t.c.try_update_name(&id, &t.name(nm)) { Ok(Ok(x)) => Some(format!("(Some {})", t.rule_coq(&x))), _ => None };
                       label = "sa.update_name"; call = format!("SaUpdateName {} {}", id, nm); }
                6 => { let id = pick_id(rng); let until = match rng.below(4) { 0 => Some(now - 1), 1 => Some(now), 2 => Some(now + 7), _ => None };
                       r = match t.c.try_update_until(&id, &until) { Ok(Ok(x)) => Some(format!("(Some {})", t.rule_coq(&x))), _ => None };
                       label = "sa.update_until"; call = format!("SaUpdateUntil {} {}", id, match until { Some(v) => format!("(Some {})", v), None => "None".into() }); }
                7..=8 => { let id = pick_id(rng);
                           r = match t.c.try_remove_rule(&id) { Ok(Ok(())) => Some("None".into()), _ => None };
                           label = "sa.remove_rule"; call = format!("SaRemoveRule {}", id); }
                9..=10 => { let id = pick_id(rng);
                            let s: Sg = if mode == 3 { (0, rng.below(naddr as u64) as usize, 0) } else { rand_sg(rng) };
                            r = match t.c.try_add_signer(&id, &t.signer(&s)) { Ok(Ok(())) => Some("None".into()), _ => None };
                            label = "sa.add_signer"; call = format!("SaAddSigner {} {}", id, t.sg_coq(&s)); }
                11..=12 => { let id = pick_id(rng);
                             let cur: std::vec::Vec<Signer> = t.c.try_rule(&id).ok().and_then(|x| x.ok()).map(|r| r.signers.iter().collect()).unwrap_or_default();
                             let (s_val, s_txt) = if !cur.is_empty() && rng.chance(4, 5) { let s = match rng.below(3) { 0 => cur[0].clone(), 1 => cur[cur.len() - 1].clone(), _ => rng.pick(&cur).clone() }; let tx = t.signer_coq(&s); (s, tx) }
                                                  else { let s = rand_sg(rng); (t.signer(&s), t.sg_coq(&s)) };
                             r = match t.c.try_remove_signer(&id, &s_val) { Ok(Ok(())) => Some("None".into()), _ => None };
                             label = "sa.remove_signer"; call = format!("SaRemoveSigner {} {}", id, s_txt); }
                13..=14 => { let id = pick_id(rng); let p = rng.below(npol as u64) as usize; let ok = !rng.chance(1, 8);
                             r = match t.c.try_add_policy(&id, &t.pol.a[p], &(if ok { 0u32 } else { 1u32 }).into_val(&t.e)) { Ok(Ok(())) => Some("None".into()), _ => None };
                             label = "sa.add_policy"; call = format!("SaAddPolicy {} {} {}", id, p, b(ok)); }
                _ => { let id = pick_id(rng);
                       let cur: std::vec::Vec<u64> = t.c.try_rule(&id).ok().and_then(|x| x.ok()).map(|r| t.pol.ids(&r.policies)).unwrap_or_default();
                       let p = if !cur.is_empty() && rng.chance(4, 5) { *rng.pick(&cur) as usize } else { rng.below(npol as u64) as usize };
                       r = match t.c.try_remove_policy(&id, &t.pol.a[p]) { Ok(Ok(())) => Some("None".into()), _ => None };
                       label = "sa.remove_policy"; call = format!("SaRemovePolicy {} {}", id, p); }
            }
            tr.push(out, label, &call, r, t.queries(next_id_guess + 1, &ctxs));
        }
        let n = tr.len();
        out.trace(match mode { 2 => "sa/rule-limit", 3 => "sa/signer-policy-limits", _ => "sa/general" }, format!("{} {}", header, list(&tr.ev)), n);
    }
}
fn main() {
    let mut out = Out::new(
        "From SC Require Import Lib.Prelude Model.SwapPop Model.RegCommon Model.RegBinder Model.RegDocs Model.RegCTI Model.RegKeys Model.RegIRS Model.RegSmall Model.RegSA Run.C20.\nOpen Scope N_scope.",
        "check_all",
    );
    out.per_shard(400);
    let mut rng = Rng::new(out.cfg.seed);
    let sections: std::vec::Vec<(&str, fn(&mut Out, &mut Rng))> = vec![
        ("binder", run_binder), ("docs", run_docs), ("cti", run_cti), ("keys", run_keys),
        ("irs", run_irs), ("compliance", run_compliance), ("claims", run_claims), ("sa", run_sa),
    ];
    let only = std::env::var("C20_ONLY").ok();
    for (i, (name, f)) in sections.iter().enumerate() {
        let mut r = rng.fork(i as u64 + 1);
        if let Some(o) = &only { if o != name { continue; } }
        let t0 = std::time::Instant::now();
        let c0 = out.calls;
        // last resort: should the harness itself trip over an answer of the code under test, the section is
        // cut short and a sentinel trace is emitted that both the diff and the monitor flag (never on the unchanged tree)
        let res = std::panic::catch_unwind(std::panic::AssertUnwindSafe(|| f(&mut out, &mut r)));
        if res.is_err() {
            out.label(&format!("{}.harness_sentinel", name));
            out.trace(&format!("{}/harness-sentinel", name), "TrCM 0 [(Advance 0, Fail, [])]".to_string(), 1);
        }
        eprintln!("c20 {}: {:?}, calls {}", name, t0.elapsed(), out.calls - c0);
    }
    out.finish();
}
