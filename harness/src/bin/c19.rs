//! C19 correspondence harness: drives the REAL fee-forwarder example contracts
//! (examples/fee-forwarder-permissioned: Lazy approval + roles + allow-list,
//!  examples/fee-forwarder-permissionless: Eager approval) and through them
//! packages/fee-abstraction (collect_fee_and_invoke, collect_fee, set_allowed_fee_token,
//! is_allowed_fee_token, sweep_token) inside the Soroban host, with real stellar-tokens fungible
//! `Base` fee tokens and a logging / failing / auth-requiring target contract.
//! Every call carries an EXACT set of authorisation entries (never mock_all_auths); after every
//! call (also failing ones) all balances, allowances (amount + live_until), the allow-list storage
//! (Count, Token(i), TokenIndex(t), is_allowed_fee_token) and the targets' logs are read back.
#![allow(clippy::too_many_arguments)]
use soroban_sdk::{
    testutils::{Address as _, Ledger as _, MockAuth, MockAuthInvoke},
    Address, Env, IntoVal, Symbol, TryFromVal, Val, Vec as SVec,
};
use stellar_fee_abstraction::{is_allowed_fee_token, FeeAbstractionStorageKey};
use stellar_tokens::fungible::Base;
use vh::*;

mod pd {
    #[path = "/repo/examples/fee-forwarder-permissioned/src/contract.rs"]
    pub mod contract;
}
mod pl {
    #[path = "/repo/examples/fee-forwarder-permissionless/src/contract.rs"]
    pub mod contract;
}

// ---------------------------------------------------------------- harness fee token (real Base)
mod tok {
    use soroban_sdk::{contract, contractimpl, Address, Env, MuxedAddress, String};
    use stellar_tokens::fungible::{Base, FungibleToken};
    #[contract]
    pub struct FeeToken;
    #[contractimpl]
    impl FeeToken {
        pub fn mint(e: &Env, to: Address, amount: i128) { Base::mint(e, &to, amount); }
    }
    #[contractimpl(contracttrait)]
    impl FungibleToken for FeeToken {
        type ContractType = Base;
    }
}

// ---------------------------------------------------------------- harness target
mod target {
    use soroban_sdk::{contract, contractimpl, contracttype, symbol_short, Address, Env, Error, IntoVal, Symbol, Val, Vec};
    /// one received call: function number and the arguments as received (re-entering functions append the
    /// result of the call they made from inside: 1 = went through, 0 = refused and rolled back)
    #[contracttype]
    #[derive(Clone)]
    pub struct Ent { pub f: u32, pub a: Vec<Val> }
    #[contract]
    pub struct Target;
    fn push(e: &Env, f: u32, a: Vec<Val>) -> i128 {
        let mut l: Vec<Ent> = e.storage().instance().get(&symbol_short!("log")).unwrap_or(Vec::new(e));
        l.push_back(Ent { f, a });
        e.storage().instance().set(&symbol_short!("log"), &l);
        l.len() as i128
    }
    /// the inner call of a re-entering function: swallowed (try) or propagated
    fn inner(e: &Env, c: &Address, f: &str, args: Vec<Val>, sw: i128) -> i128 {
        let r = e.try_invoke_contract::<Val, Error>(c, &Symbol::new(e, f), args);
        let ok = matches!(r, Ok(Ok(_)));
        if !ok && sw == 0 { panic!("inner call refused") }
        ok as i128
    }
    #[contractimpl]
    impl Target {
        pub fn hit(e: &Env, v: i128) -> i128 { push(e, 1, (v,).into_val(e)) }
        /// writes its log entry and then fails: the write must not persist
        pub fn boom(e: &Env, v: i128) -> i128 { push(e, 2, (v,).into_val(e)); panic!("boom") }
        pub fn auth_hit(e: &Env, who: Address, v: i128) -> i128 { who.require_auth(); push(e, 3, (who, v).into_val(e)) }
        /// malicious: from inside the forwarded call, pull `amt` of `from`'s tokens through `spender`'s allowance
        pub fn pull(e: &Env, tk: Address, spender: Address, from: Address, to: Address, amt: i128, sw: i128) -> i128 {
            let r = inner(e, &tk, "transfer_from", (spender.clone(), from.clone(), to.clone(), amt).into_val(e), sw);
            push(e, 5, (tk, spender, from, to, amt, sw, r).into_val(e))
        }
        /// malicious: approve on behalf of `owner`
        pub fn approve_for(e: &Env, tk: Address, owner: Address, spender: Address, amt: i128, exp: i128, sw: i128) -> i128 {
            let r = inner(e, &tk, "approve", (owner.clone(), spender.clone(), amt, exp as u32).into_val(e), sw);
            push(e, 6, (tk, owner, spender, amt, exp, sw, r).into_val(e))
        }
        /// malicious: call forward() of `fwd` from inside (contract re-entry when `fwd` is the calling forwarder)
        pub fn reenter(e: &Env, fwd: Address, sw: i128) -> i128 {
            let me = e.current_contract_address();
            let none: Vec<Val> = Vec::new(e);
            let args: Vec<Val> = (fwd.clone(), 0i128, 0i128, 0u32, me.clone(), Symbol::new(e, "hit"), none, me.clone(), me).into_val(e);
            let r = inner(e, &fwd, "forward", args, sw);
            push(e, 7, (fwd, sw, r).into_val(e))
        }
    }
}

// ---------------------------------------------------------------- universe
const FP: usize = 0; const FL: usize = 1;
const T1: usize = 2; const T2: usize = 3; const T3: usize = 4;
const TA: usize = 5; const TB: usize = 6;
const U1: usize = 7; const U2: usize = 8; const R1: usize = 9; const R2: usize = 10;
const M: usize = 11; const X: usize = 12; const ADM: usize = 13;
const NADDR: usize = 14;
const TOKENS: [usize; 3] = [T1, T2, T3];
const TARGETS: [usize; 2] = [TA, TB];
const HOLDERS: [usize; 11] = [U1, U2, R1, R2, M, X, FP, FL, ADM, TA, TB];
const OWNERS: [usize; 7] = [U1, U2, R1, R2, M, X, ADM];
const SPENDERS: [usize; 3] = [FP, FL, X];
const CANDS: [usize; 4] = [T1, T2, T3, X];
const EXECUTORS: [usize; 2] = [R1, U2];
const MANAGERS: [usize; 1] = [M];
/// The observed tables of a world (printed into the trace header, so they may differ per trace).
/// `std`: the tables of the random traces.  `wide`: the K1 worlds - the CONTRACTS themselves (both forwarders,
/// a target, the fee tokens) also as allowance owners / balance holders / allow-list candidates, so that a
/// forward / sweep / enable naming such an address as user, relayer, recipient or token is well-formed.
#[derive(Clone, Default, Debug)]
struct Tables { holders: Vec<usize>, owners: Vec<usize>, spenders: Vec<usize>, cands: Vec<usize> }
fn std_tables() -> Tables { Tables { holders: HOLDERS.to_vec(), owners: OWNERS.to_vec(), spenders: SPENDERS.to_vec(), cands: CANDS.to_vec() } }
fn wide_tables() -> Tables {
    let mut t = std_tables();
    t.holders.extend([T1, T2, T3]);
    t.owners.extend([FP, FL, TA, T1]);
    t.cands.extend([FP, FL, TA, M]);
    t
}
/// addresses that may sign (accounts only: mock_auths re-registers the signer's address)
const SIGNERS: [usize; 7] = [U1, U2, R1, R2, M, X, ADM];
const START: u32 = 1000;
/// host configurations: (min_temp_entry_ttl, min_persistent_entry_ttl, max_entry_ttl).
/// A: temporary entries as short-lived as possible, persistent entries / instances outlive every gap;
/// B: the SDK's default ledger (persistent entries lapse after 4096 ledgers and are auto-restored by the test host)
const HOST_A: (u32, u32, u32) = (1, 8_000_000, 9_000_000);
const HOST_B: (u32, u32, u32) = (16, 4096, 6_312_000);
const LONG_GAPS: [u32; 6] = [20, 100, 17_281, 20_000, 600_000, 4_000_000];

const F_HIT: u32 = 1; const F_BOOM: u32 = 2; const F_AUTH: u32 = 3; const F_NOPE: u32 = 4;
/// the EMPTY symbol as function name (no contract exports it)
const F_EMPTY: u32 = 9;
const F_PULL: u32 = 5; const F_APPROVE_FOR: u32 = 6; const F_REENTER: u32 = 7; const F_TRANSFER_FROM: u32 = 15; const F_TRANSFER: u32 = 16;
const F_FORWARD: u32 = 10; const F_APPROVE: u32 = 11; const F_ENABLE: u32 = 12; const F_DISABLE: u32 = 13; const F_SWEEP: u32 = 14;
fn fname(f: u32) -> &'static str {
    match f { 1 => "hit", 2 => "boom", 3 => "auth_hit", 4 => "nope", 5 => "pull", 6 => "approve_for", 7 => "reenter", 9 => "", 15 => "transfer_from", 16 => "transfer", 10 => "forward", 11 => "approve",
              12 => "enable_fee_token", 13 => "disable_fee_token", 14 => "sweep_tokens", _ => "zzz" }
}

#[derive(Clone, PartialEq, Debug)] enum At { A(usize), I(i128) }
#[derive(Clone, PartialEq, Debug)] enum V { A(usize), I(i128), U(u32), S(u32), L(Vec<At>) }
#[derive(Clone, PartialEq, Debug)] struct Func { c: usize, f: u32, args: Vec<V> }
#[derive(Clone, PartialEq, Debug)] struct Entry { who: usize, root: Func, subs: Vec<Func> }

fn at_coq(a: &At) -> String { match a { At::A(i) => format!("AA {}", n(*i as u64)), At::I(v) => format!("AI {}", z(*v)) } }
fn ats_coq(a: &[At]) -> String { list(&a.iter().map(at_coq).collect::<Vec<_>>()) }
fn v_coq(v: &V) -> String {
    match v { V::A(i) => format!("VA {}", n(*i as u64)), V::I(x) => format!("VI {}", z(*x)), V::U(x) => format!("VI {}", x),
              V::S(s) => format!("VS {}", n(*s as u64)), V::L(l) => format!("VL {}", ats_coq(l)) }
}
fn func_coq(f: &Func) -> String { format!("Fn {} {} {}", n(f.c as u64), n(f.f as u64), list(&f.args.iter().map(v_coq).collect::<Vec<_>>())) }
fn entry_coq(en: &Entry) -> String {
    format!("En {} ({}) {}", n(en.who as u64), func_coq(&en.root), list(&en.subs.iter().map(|s| format!("{}", func_coq(s))).collect::<Vec<_>>()))
}
fn au_coq(au: &[Entry]) -> String { list(&au.iter().map(entry_coq).collect::<Vec<_>>()) }

#[derive(Clone, Debug)]
enum Call {
    Advance(u32),
    Mint { tok: usize, to: usize, amt: i128 },
    Approve { tok: usize, owner: usize, spender: usize, amt: i128, exp: u32, au: Vec<Entry> },
    Forward { pd: bool, tok: usize, fee: i128, max: i128, exp: u32, target: usize, f: u32, args: Vec<At>, user: usize, relayer: usize, au: Vec<Entry> },
    SetTok { allowed: bool, tok: usize, operator: usize, au: Vec<Entry> },
    Sweep { tok: usize, recipient: usize, operator: usize, au: Vec<Entry> },
}
fn call_coq(c: &Call) -> String {
    match c {
        Call::Advance(k) => format!("Advance {}", k),
        Call::Mint { tok, to, amt } => format!("Mint {} {} {}", n(*tok as u64), n(*to as u64), z(*amt)),
        Call::Approve { tok, owner, spender, amt, exp, au } =>
            format!("Approve {} {} {} {} {} {}", n(*tok as u64), n(*owner as u64), n(*spender as u64), z(*amt), exp, au_coq(au)),
        Call::Forward { pd, tok, fee, max, exp, target, f, args, user, relayer, au } =>
            format!("Forward {} {} {} {} {} {} {} {} {} {} {}", if *pd { "Permissioned" } else { "Permissionless" }, n(*tok as u64), z(*fee), z(*max), exp,
                    n(*target as u64), n(*f as u64), ats_coq(args), n(*user as u64), n(*relayer as u64), au_coq(au)),
        Call::SetTok { allowed, tok, operator, au } => format!("SetTok {} {} {} {}", b(*allowed), n(*tok as u64), n(*operator as u64), au_coq(au)),
        Call::Sweep { tok, recipient, operator, au } => format!("Sweep {} {} {} {}", n(*tok as u64), n(*recipient as u64), n(*operator as u64), au_coq(au)),
    }
}

// ---------------------------------------------------------------- observation mirror
#[derive(Clone, Default)]
struct TokObs { total: i128, bal: Vec<i128>, alw: Vec<Vec<(i128, u32)>> }
#[derive(Clone, Default)]
struct Obs { tb: std::rc::Rc<Tables>, now: u32, toks: Vec<TokObs>, count: u32, en: Vec<Option<usize>>, past: Option<usize>, idx: Vec<Option<u32>>, allowed: Vec<bool>,
             flcount: u32, logs: Vec<Vec<(u32, Vec<At>)>>, exec: Vec<bool>, mgr: Vec<bool> }
impl Obs {
    fn coq(&self) -> String {
        let toks: Vec<String> = self.toks.iter().map(|t| {
            let bal: Vec<String> = t.bal.iter().map(|v| z(*v)).collect();
            let alw: Vec<String> = t.alw.iter().map(|row| list(&row.iter().map(|(a, l)| pair(&z(*a), &format!("{}", l))).collect::<Vec<_>>())).collect();
            format!("TO {} {} {}", z(t.total), list(&bal), list(&alw))
        }).collect();
        let oa = |o: &Option<usize>| opt(o.map(|i| n(i as u64)));
        let en: Vec<String> = self.en.iter().map(oa).collect();
        let idx: Vec<String> = self.idx.iter().map(|o| opt(o.map(|i| n(i as u64)))).collect();
        let al: Vec<String> = self.allowed.iter().map(|x| b(*x)).collect();
        let logs: Vec<String> = self.logs.iter().map(|l| list(&l.iter().map(|(f, a)| pair(&n(*f as u64), &ats_coq(a))).collect::<Vec<_>>())).collect();
        let ex: Vec<String> = self.exec.iter().map(|x| b(*x)).collect();
        let mg: Vec<String> = self.mgr.iter().map(|x| b(*x)).collect();
        format!("Ob {} {} {} {} {} {} {} {} {} {} {}", self.now, list(&toks), n(self.count as u64), list(&en), oa(&self.past), list(&idx), list(&al),
                n(self.flcount as u64), list(&logs), list(&ex), list(&mg))
    }
    fn bal(&self, tok: usize, h: usize) -> i128 {
        let ti = TOKENS.iter().position(|&t| t == tok); let hi = self.tb.holders.iter().position(|&x| x == h);
        match (ti, hi) { (Some(t), Some(h)) => self.toks[t].bal[h], _ => 0 }
    }
    fn alw(&self, tok: usize, o: usize, s: usize) -> (i128, u32) {
        let ti = TOKENS.iter().position(|&t| t == tok); let oi = self.tb.owners.iter().position(|&x| x == o); let si = self.tb.spenders.iter().position(|&x| x == s);
        match (ti, oi, si) { (Some(t), Some(o), Some(s)) => self.toks[t].alw[o][s], _ => (0, 0) }
    }
    fn enumerated(&self) -> Vec<usize> { self.en.iter().filter_map(|x| *x).collect() }
}

/// reads a contract-data key from persistent, temporary or instance storage, whichever holds it
fn get_any<V: soroban_sdk::TryFromVal<Env, Val>>(e: &Env, k: &FeeAbstractionStorageKey) -> Option<V> {
    if let Some(v) = e.storage().persistent().get::<_, V>(k) { return Some(v); }
    if let Some(v) = e.storage().temporary().get::<_, V>(k) { return Some(v); }
    e.storage().instance().get::<_, V>(k)
}

struct World { e: Env, addr: Vec<Address>, obs: Obs, items: Vec<String>, obs0: String, min_temp: u32, max_ttl: u32, dead: bool, start: u32, tb: std::rc::Rc<Tables> }

impl World {
    fn new() -> World { World::with_min_temp(1) }
    /// `min_temp` = the host's min_temp_entry_ttl (1 as C07 prescribes; 16 = second configuration)
    fn with_min_temp(min_temp: u32) -> World { World::build(min_temp, START, std_tables()) }
    /// the K1 world: contracts as parties are inside the observed tables
    fn wide() -> World { World::build(1, START, wide_tables()) }
    fn build(min_temp: u32, start: u32, tb: Tables) -> World {
        let (min_temp, min_pers, max_ttl) = if min_temp == 1 { HOST_A } else { HOST_B };
        let e = Env::default();
        e.cost_estimate().budget().reset_unlimited();
        e.cost_estimate().disable_resource_limits();
        e.ledger().with_mut(|l| { l.sequence_number = start; l.min_temp_entry_ttl = min_temp; l.min_persistent_entry_ttl = min_pers; l.max_entry_ttl = max_ttl; });
        let mut addr: Vec<Address> = (0..NADDR).map(|_| Address::generate(&e)).collect();
        let execs: SVec<Address> = SVec::from_array(&e, [addr[R1].clone(), addr[U2].clone()]);
        addr[FP] = e.register(pd::contract::FeeForwarder, (addr[ADM].clone(), addr[M].clone(), execs));
        addr[FL] = e.register(pl::contract::FeeForwarder, ());
        for t in TOKENS { addr[t] = e.register(tok::FeeToken, ()); }
        for t in TARGETS { addr[t] = e.register(target::Target, ()); }
        e.set_auths(&[]);
        let mut w = World { e, addr, obs: Obs::default(), items: vec![], obs0: String::new(), min_temp, max_ttl, dead: false, start, tb: std::rc::Rc::new(tb) };
        w.obs = w.observe();
        w.obs0 = w.obs.coq();
        w
    }
    fn idx_of(&self, a: &Address) -> Option<usize> { self.addr.iter().position(|x| x == a) }

    /// reads everything back; if a getter of the REAL code traps (possible only when the code under
    /// test has corrupted its own storage) the observation is the poison value `count = u32::MAX`,
    /// which the monitor rejects, and the trace ends there (the Env is no longer usable)
    fn observe(&mut self) -> Obs {
        if self.dead { return self.obs.clone(); }
        let r = std::panic::catch_unwind(std::panic::AssertUnwindSafe(|| self.observe_inner()));
        match r {
            Ok(o) => o,
            Err(_) => {
                self.dead = true;
                let mut o = self.obs.clone();
                o.count = u32::MAX; o.en = vec![]; o.past = None;
                o
            }
        }
    }
    fn observe_inner(&self) -> Obs {
        let e = &self.e;
        let mut o = Obs { tb: self.tb.clone(), now: e.ledger().sequence(), ..Default::default() };
        let tb = &*self.tb;
        for t in TOKENS {
            let to = e.as_contract(&self.addr[t], || {
                let bal: Vec<i128> = tb.holders.iter().map(|&h| Base::balance(e, &self.addr[h])).collect();
                let alw: Vec<Vec<(i128, u32)>> = tb.owners.iter().map(|&ow| tb.spenders.iter().map(|&s| {
                    let d = Base::allowance_data(e, &self.addr[ow], &self.addr[s]);
                    // cross-check the plain getter against allowance_data
                    assert_eq!(Base::allowance(e, &self.addr[ow], &self.addr[s]), d.amount);
                    (d.amount, d.live_until_ledger)
                }).collect()).collect();
                TokObs { total: Base::total_supply(e), bal, alw }
            });
            o.toks.push(to);
        }
        e.as_contract(&self.addr[FP], || {
            // raw reads of the registry keys, in whichever storage class the code keeps them (there is no public
            // getter for them): a change of storage class alone is not reported, a lapsed entry is
            o.count = get_any::<u32>(e, &FeeAbstractionStorageKey::Count).unwrap_or(0u32);
            for i in 0..o.count.min(64) {
                let a: Option<Address> = get_any(e, &FeeAbstractionStorageKey::Token(i));
                o.en.push(a.map(|a| self.idx_of(&a).unwrap_or(99)));
            }
            let a: Option<Address> = get_any(e, &FeeAbstractionStorageKey::Token(o.count));
            o.past = a.map(|a| self.idx_of(&a).unwrap_or(99));
            // the sibling getter of Count (K3): it must say "enabled" exactly when Count > 0
            assert_eq!(stellar_fee_abstraction::is_fee_token_allowlist_enabled(e), o.count > 0);
            for &c in &tb.cands {
                o.idx.push(get_any::<u32>(e, &FeeAbstractionStorageKey::TokenIndex(self.addr[c].clone())));
                o.allowed.push(is_allowed_fee_token(e, &self.addr[c]));
            }
            // roles of the permissioned forwarder, through the real access-control getter
            for &h in &tb.holders {
                o.exec.push(stellar_access::access_control::has_role(e, &self.addr[h], &Symbol::new(e, "executor")).is_some());
                o.mgr.push(stellar_access::access_control::has_role(e, &self.addr[h], &Symbol::new(e, "manager")).is_some());
            }
        });
        o.flcount = e.as_contract(&self.addr[FL], || get_any::<u32>(e, &FeeAbstractionStorageKey::Count).unwrap_or(0u32));
        for t in TARGETS {
            let l: SVec<target::Ent> = e.as_contract(&self.addr[t], || e.storage().instance().get(&soroban_sdk::symbol_short!("log")).unwrap_or(SVec::new(e)));
            o.logs.push(l.iter().map(|en| {
                let args: Vec<At> = en.a.iter().map(|v| match Address::try_from_val(e, &v) {
                    Ok(a) => At::A(self.idx_of(&a).unwrap_or(99)),
                    Err(_) => At::I(i128::try_from_val(e, &v).unwrap_or(-999)),
                }).collect();
                (en.f, args)
            }).collect());
        }
        o
    }

    fn at_val(&self, a: &At) -> Val { match a { At::A(i) => self.addr[*i].clone().into_val(&self.e), At::I(v) => (*v).into_val(&self.e) } }
    fn ats_val(&self, a: &[At]) -> SVec<Val> { let mut v: SVec<Val> = SVec::new(&self.e); for x in a { v.push_back(self.at_val(x)); } v }
    fn v_val(&self, v: &V) -> Val {
        let e = &self.e;
        match v { V::A(i) => self.addr[*i].clone().into_val(e), V::I(x) => (*x).into_val(e), V::U(x) => (*x).into_val(e),
                  V::S(s) => Symbol::new(e, fname(*s)).into_val(e), V::L(l) => self.ats_val(l).into_val(e) }
    }
    fn args_val(&self, a: &[V]) -> SVec<Val> { let mut v: SVec<Val> = SVec::new(&self.e); for x in a { v.push_back(self.v_val(x)); } v }

    fn set_auths(&self, au: &[Entry]) {
        for en in au { assert!(SIGNERS.contains(&en.who), "only accounts may sign in the harness"); }
        let subs: Vec<Vec<MockAuthInvoke>> = au.iter().map(|en| en.subs.iter().map(|s| MockAuthInvoke {
            contract: &self.addr[s.c], fn_name: fname(s.f), args: self.args_val(&s.args), sub_invokes: &[] }).collect()).collect();
        let roots: Vec<MockAuthInvoke> = au.iter().enumerate().map(|(i, en)| MockAuthInvoke {
            contract: &self.addr[en.root.c], fn_name: fname(en.root.f), args: self.args_val(&en.root.args), sub_invokes: &subs[i] }).collect();
        let mas: Vec<MockAuth> = au.iter().enumerate().map(|(i, en)| MockAuth { address: &self.addr[en.who], invoke: &roots[i] }).collect();
        self.e.mock_auths(&mas);
    }

    /// executes the call on the real contracts; returns Some(ret) on success
    fn exec(&mut self, c: &Call) -> Option<i128> {
        let e = self.e.clone();
        let r = match c {
            Call::Advance(k) => { e.ledger().with_mut(|l| l.sequence_number += *k); Some(0) }
            Call::Mint { tok, to, amt } => {
                e.set_auths(&[]);
                match tok::FeeTokenClient::new(&e, &self.addr[*tok]).try_mint(&self.addr[*to], amt) { Ok(Ok(())) => Some(0), _ => None }
            }
            Call::Approve { tok, owner, spender, amt, exp, au } => {
                self.set_auths(au);
                match tok::FeeTokenClient::new(&e, &self.addr[*tok]).try_approve(&self.addr[*owner], &self.addr[*spender], amt, exp) { Ok(Ok(())) => Some(0), _ => None }
            }
            Call::Forward { pd, tok, fee, max, exp, target, f, args, user, relayer, au } => {
                self.set_auths(au);
                let fnm = Symbol::new(&e, fname(*f));
                let av = self.ats_val(args);
                let r = if *pd {
                    pd::contract::FeeForwarderClient::new(&e, &self.addr[FP]).try_forward(&self.addr[*tok], fee, max, exp, &self.addr[*target], &fnm, &av, &self.addr[*user], &self.addr[*relayer])
                } else {
                    pl::contract::FeeForwarderClient::new(&e, &self.addr[FL]).try_forward(&self.addr[*tok], fee, max, exp, &self.addr[*target], &fnm, &av, &self.addr[*user], &self.addr[*relayer])
                };
                match r { Ok(Ok(v)) => Some(if v.is_void() { 0 } else { i128::try_from_val(&e, &v).unwrap_or(-999) }), _ => None }
            }
            Call::SetTok { allowed, tok, operator, au } => {
                self.set_auths(au);
                let cl = pd::contract::FeeForwarderClient::new(&e, &self.addr[FP]);
                let r = if *allowed { cl.try_enable_fee_token(&self.addr[*tok], &self.addr[*operator]) } else { cl.try_disable_fee_token(&self.addr[*tok], &self.addr[*operator]) };
                match r { Ok(Ok(())) => Some(0), _ => None }
            }
            Call::Sweep { tok, recipient, operator, au } => {
                self.set_auths(au);
                match pd::contract::FeeForwarderClient::new(&e, &self.addr[FP]).try_sweep_tokens(&self.addr[*tok], &self.addr[*recipient], &self.addr[*operator]) { Ok(Ok(v)) => Some(v), _ => None }
            }
        };
        e.set_auths(&[]);
        r
    }

    /// run + observe + record; label = histogram label prefix
    fn run(&mut self, out: &mut Out, c: &Call, tags: &[String]) -> Option<i128> {
        if self.dead { return None; }
        let r = self.exec(c);
        self.obs = self.observe();
        let text = call_coq(c);
        let oc = if r.is_some() { "ok" } else { "fail" };
        let kind = match c { Call::Advance(_) => "advance", Call::Mint { .. } => "mint", Call::Approve { .. } => "approve",
            Call::Forward { pd: true, .. } => "forward_pd", Call::Forward { pd: false, .. } => "forward_pl",
            Call::SetTok { allowed: true, .. } => "enable", Call::SetTok { allowed: false, .. } => "disable", Call::Sweep { .. } => "sweep" };
        out.case(&format!("{}/{}", kind, oc), &text);
        // every scenario label of a forward carries the forwarder kind (= approval strategy): pd = permissioned / lazy, pl = permissionless / eager
        let pfx = match c { Call::Forward { pd: true, .. } => "pd:", Call::Forward { pd: false, .. } => "pl:", _ => "" };
        for t in tags { out.label(&format!("{}{}/{}", pfx, t, oc)); }
        let res = match r { Some(v) => format!("Ok {}", z(v)), None => "(@Fail Z)".into() };
        self.items.push(format!("({}, {}, {})", text, res, self.obs.coq()));
        r
    }
    fn finish(self, out: &mut Out, desc: &str) {
        let cfg = format!("Cf {} {} {} {} {} {} {} {} {} {} {} {} {}", self.min_temp, self.max_ttl, self.start, n(FP as u64), n(FL as u64), nl(&EXECUTORS), nl(&MANAGERS), nl(&TOKENS), nl(&TARGETS),
                          nl(&self.tb.holders), nl(&self.tb.owners), nl(&self.tb.spenders), nl(&self.tb.cands));
        let k = self.items.len();
        out.trace(desc, format!("({}, {}, {})", cfg, self.obs0, list(&self.items)), k);
    }
}
fn nl(xs: &[usize]) -> String { list(&xs.iter().map(|&i| n(i as u64)).collect::<Vec<_>>()) }

// ---------------------------------------------------------------- building calls
fn fwd_addr(pd: bool) -> usize { if pd { FP } else { FL } }
fn user_tuple(tok: usize, max: i128, exp: u32, target: usize, f: u32, args: &[At]) -> Vec<V> {
    vec![V::A(tok), V::I(max), V::U(exp), V::A(target), V::S(f), V::L(args.to_vec())]
}
fn full_args(tok: usize, fee: i128, max: i128, exp: u32, target: usize, f: u32, args: &[At], user: usize, relayer: usize) -> Vec<V> {
    vec![V::A(tok), V::I(fee), V::I(max), V::U(exp), V::A(target), V::S(f), V::L(args.to_vec()), V::A(user), V::A(relayer)]
}
fn approve_fn(tok: usize, owner: usize, spender: usize, amt: i128, exp: u32) -> Func {
    Func { c: tok, f: F_APPROVE, args: vec![V::A(owner), V::A(spender), V::I(amt), V::U(exp)] }
}
fn at_to_v(a: &At) -> V { match a { At::A(i) => V::A(*i), At::I(v) => V::I(*v) } }

#[derive(Clone, Debug)]
struct Fwd { pd: bool, tok: usize, fee: i128, max: i128, exp: u32, target: usize, f: u32, args: Vec<At>, user: usize, relayer: usize }
impl Fwd {
    /// the authorisation entries a well-behaved user and relayer attach
    fn good_auths(&self) -> Vec<Entry> {
        let fw = fwd_addr(self.pd);
        let mut rel = Entry { who: self.relayer, root: Func { c: fw, f: F_FORWARD, args: full_args(self.tok, self.fee, self.max, self.exp, self.target, self.f, &self.args, self.user, self.relayer) }, subs: vec![] };
        let mut usr = Entry { who: self.user, root: Func { c: fw, f: F_FORWARD, args: user_tuple(self.tok, self.max, self.exp, self.target, self.f, &self.args) },
                              subs: vec![approve_fn(self.tok, self.user, fw, self.max, self.exp)] };
        let mut extra: Vec<Entry> = vec![];
        if self.f == F_AUTH {
            if let Some(At::A(who)) = self.args.first() {
                let tf = Func { c: self.target, f: F_AUTH, args: self.args.iter().map(at_to_v).collect() };
                if *who == self.user { usr.subs.push(tf); }
                else if *who == self.relayer { rel.subs.push(tf); }
                else if SIGNERS.contains(who) { extra.push(Entry { who: *who, root: tf, subs: vec![] }); }
            }
        }
        if self.f == F_TRANSFER && TOKENS.contains(&self.target) {
            if let Some(At::A(from)) = self.args.first() {
                let tf = Func { c: self.target, f: F_TRANSFER, args: self.args.iter().map(at_to_v).collect() };
                if *from == self.user { usr.subs.push(tf); }
                else if *from == self.relayer { rel.subs.push(tf); }
                else if SIGNERS.contains(from) { extra.push(Entry { who: *from, root: tf, subs: vec![] }); }
            }
        }
        let mut v = vec![];
        if SIGNERS.contains(&self.relayer) { v.push(rel); }
        if SIGNERS.contains(&self.user) { v.push(usr); }
        v.extend(extra);
        v
    }
    fn call(&self, au: Vec<Entry>) -> Call {
        Call::Forward { pd: self.pd, tok: self.tok, fee: self.fee, max: self.max, exp: self.exp, target: self.target, f: self.f, args: self.args.clone(),
                        user: self.user, relayer: self.relayer, au }
    }
}

fn other_of(rng: &mut Rng, xs: &[usize], not: usize) -> usize { loop { let x = *rng.pick(xs); if x != not { return x; } } }

/// alter exactly one component of a value list (position chosen by `pos`)
fn alter_v(rng: &mut Rng, v: &V) -> V {
    match v {
        V::A(a) => V::A(other_of(rng, &[T1, T2, T3, TA, TB, U1, U2, R1, R2, X, FP, FL], *a)),
        V::I(x) => V::I(if rng.chance(1, 2) { x.wrapping_add(1) } else { x.wrapping_sub(1) }),
        V::U(x) => V::U(if rng.chance(1, 2) { x.wrapping_add(1) } else { x.wrapping_sub(1) }),
        V::S(s) => V::S(other_of(rng, &[1, 2, 3, 4], *s as usize) as u32),
        V::L(l) => {
            let mut l = l.clone();
            match rng.below(3) {
                0 => { l.push(At::I(0)); }
                1 => { if l.is_empty() { l.push(At::I(1)) } else { l.pop(); } }
                _ => { if l.is_empty() { l.push(At::I(1)) } else { let i = rng.below(l.len() as u64) as usize;
                        l[i] = match &l[i] { At::I(x) => At::I(x.wrapping_add(1)), At::A(a) => At::A(other_of(rng, &[U1, U2, R1, X], *a)) }; } }
            }
            V::L(l)
        }
    }
}

const USER_FIELDS: [&str; 6] = ["token", "max", "exp", "target", "fn", "args"];
const FULL_FIELDS: [&str; 9] = ["token", "fee", "max", "exp", "target", "fn", "args", "user", "relayer"];
const APPROVE_FIELDS: [&str; 4] = ["owner", "spender", "amount", "exp"];

/// perturb the authorisation set; returns (tag, new auths)
fn perturb_auth(rng: &mut Rng, f: &Fwd, mut au: Vec<Entry>, which: u64) -> (String, Vec<Entry>) {
    let fw = fwd_addr(f.pd);
    let ui = au.iter().position(|e| e.who == f.user && e.root.args.len() == 6);
    let ri = au.iter().position(|e| e.who == f.relayer && e.root.args.len() == 9);
    match which {
        0 => { if let Some(i) = ui { au.remove(i); } ("auth:no-user-entry".into(), au) }
        1 => { if let Some(i) = ri { au.remove(i); } ("auth:no-relayer-entry".into(), au) }
        2 => { // one field of the user's authorised tuple altered
            let k = rng.below(6) as usize;
            if let Some(i) = ui { au[i].root.args[k] = alter_v(rng, &au[i].root.args[k].clone()); }
            (format!("auth:user-{}-altered", USER_FIELDS[k]), au) }
        3 => { let k = rng.below(9) as usize;
            if let Some(i) = ri { au[i].root.args[k] = alter_v(rng, &au[i].root.args[k].clone()); }
            (format!("auth:relayer-{}-altered", FULL_FIELDS[k]), au) }
        4 => { let k = rng.below(4) as usize;
            if let Some(i) = ui { if let Some(j) = au[i].subs.iter().position(|s| s.f == F_APPROVE) { au[i].subs[j].args[k] = alter_v(rng, &au[i].subs[j].args[k].clone()); } }
            (format!("auth:approve-{}-altered", APPROVE_FIELDS[k]), au) }
        5 => { if let Some(i) = ui { au[i].subs.retain(|s| s.f != F_APPROVE); } ("auth:no-approve-sub".into(), au) }
        6 => { // the approval as a separate root entry instead of a sub-invocation
            if let Some(i) = ui { if let Some(j) = au[i].subs.iter().position(|s| s.f == F_APPROVE) { let s = au[i].subs.remove(j); au.push(Entry { who: f.user, root: s, subs: vec![] }); } }
            ("auth:approve-as-separate-root".into(), au) }
        7 => { if let Some(i) = ui { au[i].root.c = if fw == FP { FL } else { FP }; } ("auth:user-root-other-forwarder".into(), au) }
        8 => { if let Some(i) = ui { au[i].root.f = F_SWEEP; } ("auth:user-root-other-fn".into(), au) }
        9 => { if let Some(i) = ui { au[i].who = other_of(rng, &[U1, U2, R2, X], f.user); } ("auth:user-entry-signed-by-other".into(), au) }
        10 => { // the user signs the relayer's argument list / the relayer signs the user's tuple
            if let Some(i) = ui { au[i].root.args = full_args(f.tok, f.fee, f.max, f.exp, f.target, f.f, &f.args, f.user, f.relayer); }
            ("auth:user-signs-full-args".into(), au) }
        11 => { if let Some(i) = ri { au[i].root.args = user_tuple(f.tok, f.max, f.exp, f.target, f.f, &f.args); } ("auth:relayer-signs-user-tuple".into(), au) }
        12 => { au.reverse(); ("auth:order-reversed".into(), au) }
        13 => { // superfluous material: must not matter
            au.push(Entry { who: X, root: Func { c: fw, f: F_FORWARD, args: vec![V::I(1)] }, subs: vec![] });
            if let Some(i) = ui { au[i].subs.push(approve_fn(f.tok, f.user, fw, f.max.saturating_add(1), f.exp)); }
            ("auth:superfluous".into(), au) }
        14 => { if let Some(i) = ui { let d = au[i].clone(); au.push(d); } ("auth:user-entry-duplicated".into(), au) }
        15 => { // the approval sub-invocation hangs under the RELAYER's entry instead of the user's
            if let (Some(i), Some(j)) = (ui, ri) { if i != j { if let Some(q) = au[i].subs.iter().position(|s| s.f == F_APPROVE) { let s = au[i].subs.remove(q); au[j].subs.push(s); } } }
            ("auth:approve-under-relayer".into(), au) }
        16 => { // target authorisation missing (only meaningful for auth_hit)
            for en in au.iter_mut() { en.subs.retain(|s| s.f != F_AUTH); }
            au.retain(|en| en.root.f != F_AUTH);
            ("auth:no-target-auth".into(), au) }
        18 => { // the user signed the actual fee where the maximum belongs
            if let Some(i) = ui { au[i].root.args[1] = V::I(f.fee); } ("auth:user-max-is-fee".into(), au) }
        19 => { if let Some(i) = ui { if let Some(j) = au[i].subs.iter().position(|s| s.f == F_APPROVE) { au[i].subs[j].args[2] = V::I(f.fee); } } ("auth:approve-amount-is-fee".into(), au) }
        20 => { if let Some(i) = ui { au[i].root.args[5] = V::L(vec![]); } ("auth:user-args-empty".into(), au) }
        21 => { if let Some(i) = ui { au[i].root.args[2] = V::U(0); } ("auth:user-exp-zero".into(), au) }
        _ => { au.clear(); ("auth:none".into(), au) }
    }
}

struct Gen { rng: Rng }
impl Gen {
    fn base_fwd(&mut self, w: &World) -> Fwd {
        let rng = &mut self.rng;
        let pd = rng.chance(1, 2);
        let en = w.obs.enumerated();
        // tokens this forwarder accepts now
        let ok_toks: Vec<usize> = TOKENS.iter().cloned().filter(|t| !pd || en.is_empty() || en.contains(t)).collect();
        // (token, user) pairs with a balance
        let mut funded: Vec<(usize, usize)> = vec![];
        for &t in &ok_toks { for &u in &[U1, U2, R1, R2] { if w.obs.bal(t, u) > 0 { funded.push((t, u)); } } }
        let (tok, user) = if !funded.is_empty() && rng.chance(9, 10) { *rng.pick(&funded) }
                          else { (*rng.pick(&TOKENS), *rng.pick(&[U1, U2, R1])) };
        // (user = relayer is a perturbation of its own: it makes the permissionless debit / credit degenerate)
        let relayer = if pd { if user != R1 && rng.chance(4, 5) { R1 } else if user != U2 { U2 } else { R1 } } else { other_of(rng, &[R1, R2, U2, X], user) };
        let bal = w.obs.bal(tok, user);
        let cap = if bal > 0 { bal.min(1 << 60) } else { 400 };
        let fee = if rng.chance(1, 6) { 1 + rng.below(cap as u64) as i128 } else { 1 + rng.below(cap.min(60) as u64) as i128 };
        let max = fee.saturating_add(match rng.below(4) { 0 => 0, 1 => 1, _ => rng.below(100) as i128 });
        let exp = w.obs.now + rng.below(50) as u32;
        let target = *rng.pick(&TARGETS);
        let (f, args) = match rng.below(10) { 0 | 1 => (F_AUTH, vec![At::A(*rng.pick(&[user, user, relayer, X])), At::I(rng.range(-5, 50) as i128)]), _ => (F_HIT, vec![At::I(rng.range(-5, 50) as i128)]) };
        Fwd { pd, tok, fee, max, exp, target, f, args, user, relayer }
    }

    /// one forward call: valid, or with exactly one perturbation from the catalogue
    fn forward(&mut self, w: &World) -> (Call, Vec<String>) {
        let mut f = self.base_fwd(w);
        let mut tags: Vec<String> = vec![];
        let now = w.obs.now;
        let maxlive = now + w.max_ttl - 1;
        let p = self.rng.below(100);
        let mut auth_pert: Option<u64> = None;
        if p < 38 { tags.push("fwd:plain".into()); }
        else if p < 62 { auth_pert = Some(self.rng.below(23)); }
        else {
            let rng = &mut self.rng;
            let fw = fwd_addr(f.pd);
            let (a0, _l0) = w.obs.alw(f.tok, f.user, fw);
            let bal = w.obs.bal(f.tok, f.user);
            match rng.below(53) {
                0 => { f.fee = 0; tags.push("fee:zero".into()); }
                1 => { f.fee = -(1 + rng.below(5) as i128); tags.push("fee:negative".into()); }
                2 => { f.fee = f.max.saturating_add(1); tags.push("fee:max+1".into()); }
                3 => { f.fee = f.max; tags.push("fee:eq-max".into()); }
                4 => { f.fee = f.max - 1; if f.fee <= 0 { f.max = 2; f.fee = 1; } tags.push("fee:max-1".into()); }
                5 => { f.max = 0; f.fee = 0; tags.push("fee:max-zero".into()); }
                6 => { f.max = -3; f.fee = -3; tags.push("fee:max-negative".into()); }
                7 => { let v = *rng.pick(&lattice128()); f.fee = v; f.max = if rng.chance(1, 2) { v } else { i128::MAX }; tags.push("fee:lattice".into()); }
                8 => { f.fee = bal; f.max = bal.max(1).saturating_add(rng.below(3) as i128); tags.push("fee:eq-balance".into()); }
                9 => { f.fee = bal.saturating_add(1); f.max = bal.saturating_add(1 + rng.below(3) as i128); tags.push("fee:balance+1".into()); }
                10 => { f.exp = now.wrapping_sub(1); tags.push("exp:before".into()); }
                11 => { f.exp = now; tags.push("exp:at".into()); }
                12 => { f.exp = now + 1; tags.push("exp:after".into()); }
                13 => { f.exp = 0; tags.push("exp:zero".into()); }
                14 => { f.exp = maxlive; tags.push("exp:max-live".into()); }
                15 => { f.exp = maxlive + 1; tags.push("exp:max-live+1".into()); }
                16 => { f.exp = u32::MAX; tags.push("exp:u32max".into()); }
                // pre-existing allowance below / at / above the maximum (both strategies)
                17 => { if a0 > 1 { f.max = a0.saturating_add(1); f.fee = 1 + rng.below(f.max.min(1 << 60) as u64) as i128; } tags.push("allow:below-max".into()); }
                18 => { if a0 > 0 { f.max = a0; f.fee = 1 + rng.below(f.max.min(1 << 60) as u64) as i128; } tags.push("allow:eq-max".into()); }
                19 => { if a0 > 1 { f.max = a0 - 1; f.fee = 1 + rng.below(f.max.min(1 << 60) as u64) as i128; } tags.push("allow:above-max".into()); }
                20 => { if a0 > 0 { f.max = a0; f.fee = a0; f.exp = now.wrapping_sub(1); } tags.push("allow:eq-max-exp-before".into()); }
                21 => { f.f = F_BOOM; f.args = vec![At::I(7)]; tags.push("target:boom".into()); }
                22 => { f.f = F_NOPE; tags.push("target:no-such-fn".into()); }
                23 => { f.args = match rng.below(3) { 0 => vec![], 1 => vec![At::I(1), At::I(2)], _ => vec![At::A(X)] }; f.f = F_HIT; tags.push("target:bad-args".into()); }
                24 => { f.target = *rng.pick(&[FP, FL, T1, X, U1]); tags.push("target:not-a-target".into()); }
                25 => { f.user = fwd_addr(f.pd); tags.push("user:is-forwarder".into()); }
                26 => { f.user = f.relayer; tags.push("user:is-relayer".into()); }
                27 => { if f.pd { f.relayer = *rng.pick(&[R2, X, M]); } tags.push("relayer:not-executor".into()); }
                28 => { f.tok = X; tags.push("token:not-a-contract".into()); }
                29 => { if f.pd { let en = w.obs.enumerated(); let cands: Vec<usize> = TOKENS.iter().cloned().filter(|t| !en.contains(t)).collect(); if !cands.is_empty() { f.tok = *rng.pick(&cands); } } tags.push("token:not-in-list".into()); }
                30 => { f.f = F_AUTH; f.args = vec![At::A(f.user), At::I(3)]; tags.push("target:auth-user".into()); }
                31 => { f.f = F_AUTH; f.args = vec![At::A(X), At::I(4)]; tags.push("target:auth-third".into()); }
                32 => { f.f = F_AUTH; f.args = vec![At::A(fwd_addr(f.pd)), At::I(5)]; tags.push("target:auth-forwarder".into()); }
                33 => { f.f = F_AUTH; f.args = vec![At::A(f.relayer), At::I(6)]; tags.push("target:auth-relayer".into()); }
                // re-entering targets: pull the remaining allowance through the forwarder, approve for the user, re-enter
                34 | 35 => { let sw = rng.below(2) as i128; let amt = if rng.chance(2, 3) { (f.max - f.fee).max(0) } else { 1 };
                        let sp = if rng.chance(4, 5) { fw } else { fwd_addr(!f.pd) };
                        f.f = F_PULL; f.args = vec![At::A(f.tok), At::A(sp), At::A(f.user), At::A(*rng.pick(&[X, R2, TA])), At::I(amt), At::I(sw)];
                        tags.push(if sw == 0 { "target:pull-remaining-propagate".into() } else { "target:pull-remaining-swallow".into() }); }
                36 | 37 => { let sw = rng.below(2) as i128;
                        f.f = F_APPROVE_FOR; f.args = vec![At::A(f.tok), At::A(f.user), At::A(X), At::I(1 + rng.below(1000) as i128), At::I((now + 100) as i128), At::I(sw)];
                        tags.push(if sw == 0 { "target:approve-nobody-propagate".into() } else { "target:approve-nobody-swallow".into() }); }
                38 | 39 => { let sw = rng.below(2) as i128; let fwd = if rng.chance(2, 3) { fw } else { fwd_addr(!f.pd) };
                        f.f = F_REENTER; f.args = vec![At::A(fwd), At::I(sw)];
                        tags.push(if sw == 0 { "target:reenter-propagate".into() } else { "target:reenter-swallow".into() }); }
                // the target is the fee token itself: the forwarder is made to spend the user's residual allowance / its own funds
                42 | 43 => { let left = if f.pd && a0 >= f.max { a0 - f.fee } else { f.max - f.fee };
                        let amt = match rng.below(4) { 0 => left.saturating_add(1), 1 => 1.min(left), 2 => 0, _ => left };
                        f.target = f.tok; f.f = F_TRANSFER_FROM; f.args = vec![At::A(fw), At::A(f.user), At::A(*rng.pick(&[X, R2, TA])), At::I(amt)];
                        tags.push("target:token-transfer-from-residual".into()); }
                44 => { let fb = w.obs.bal(f.tok, fw) + if f.pd { f.fee } else { 0 };
                        f.target = f.tok; f.f = F_TRANSFER; f.args = vec![At::A(fw), At::A(X), At::I(if rng.chance(1, 3) { fb.saturating_add(1) } else { fb })];
                        tags.push("target:token-transfer-forwarder-funds".into()); }
                45 => { f.target = f.tok; f.f = F_TRANSFER; f.args = vec![At::A(f.user), At::A(X), At::I(1 + rng.below(20) as i128)];
                        tags.push("target:token-transfer-user-signed".into()); }
                46 => { let other = other_of(rng, &TOKENS, f.tok);
                        f.target = other; f.f = F_TRANSFER_FROM; f.args = vec![At::A(fw), At::A(f.user), At::A(X), At::I(1)];
                        tags.push("target:other-token-transfer-from".into()); }
                // K1: a contract (which cannot sign) as relayer / as fee token; K4: a target / token that does not exist
                48 => { f.relayer = *rng.pick(&[FP, FL, TA, TB]); tags.push("relayer:is-contract".into()); }
                49 => { f.tok = *rng.pick(&[FP, FL, TA]); tags.push("token:is-other-contract".into()); }
                50 => { f.target = *rng.pick(&[X, R2, M]); tags.push("target:is-account".into()); }
                // K2: a fee around a machine-word edge, maximum = fee / fee + 1 / fee - 1
                51 | 52 => { let k = *rng.pick(&[31u32, 32, 63, 64, 96]); let m = (1i128 << k) + rng.range(-1, 2) as i128;
                        f.fee = m; f.max = m + rng.range(-1, 2) as i128; tags.push("fee:word-edge".into()); }
                // the fee exceeds the authorised maximum although the existing allowance would cover it
                _ => { if a0 > 2 { f.max = a0 - 2; f.fee = a0 - rng.below(2) as i128; } else { f.fee = f.max.saturating_add(1); }
                       tags.push("fee:gt-max-within-allowance".into()); }
            }
        }
        let mut au = f.good_auths();
        // in the permissioned (lazy) flow the approve sub-invocation is often left out when the
        // allowance is already sufficient
        let fw = fwd_addr(f.pd);
        if f.pd && self.rng.chance(1, 2) {
            let (a0, _) = w.obs.alw(f.tok, f.user, fw);
            if a0 >= f.max { for en in au.iter_mut() { en.subs.retain(|s| s.f != F_APPROVE); } tags.push("lazy:no-approve-needed".into()); }
        }
        if f.user == f.relayer && self.rng.chance(1, 4) {
            // aliasing with a single combined entry only: one tracker cannot match the frame twice
            au.truncate(1); tags.push("alias:one-entry".into());
        }
        if let Some(k) = auth_pert { let (t, a2) = perturb_auth(&mut self.rng, &f, au, k); tags.push(t); au = a2; }
        (f.call(au), tags)
    }

    fn approve(&mut self, w: &World) -> (Call, Vec<String>) {
        let rng = &mut self.rng;
        let now = w.obs.now;
        let tok = if rng.chance(1, 25) { X } else { *rng.pick(&TOKENS) };
        let owner = *rng.pick(&OWNERS);
        let spender = *rng.pick(&SPENDERS);
        let amt = match rng.below(8) { 0 => 0, 1 => -1, 2 => i128::MAX, _ => rng.range(1, 500) as i128 };
        let exp = match rng.below(10) { 0 => now.wrapping_sub(1), 1 => now, 2 => now + w.max_ttl - 1, 3 => now + w.max_ttl, 4 => 0, 5 => now + *rng.pick(&[20_000u32, 700_000, 4_500_000]), _ => now + rng.below(60) as u32 };
        let mut au = vec![Entry { who: owner, root: approve_fn(tok, owner, spender, amt, exp), subs: vec![] }];
        let mut tags = vec![];
        match rng.below(12) {
            0 => { au.clear(); tags.push("approve:no-auth".into()); }
            1 => { let k = rng.below(4) as usize; au[0].root.args[k] = alter_v(rng, &au[0].root.args[k].clone()); tags.push("approve:auth-altered".into()); }
            2 => { au[0].who = other_of(rng, &[U1, U2, R1, R2, X], owner); tags.push("approve:signed-by-other".into()); }
            _ => {}
        }
        (Call::Approve { tok, owner, spender, amt, exp, au }, tags)
    }

    fn settok(&mut self, w: &World) -> (Call, Vec<String>) {
        let rng = &mut self.rng;
        let en = w.obs.enumerated();
        let allowed = if en.len() >= 3 { rng.chance(1, 3) } else { rng.chance(3, 5) };
        let tok = if !allowed && !en.is_empty() && rng.chance(4, 5) { *rng.pick(&en) } else { *rng.pick(&CANDS) };
        let operator = if rng.chance(9, 10) { M } else { *rng.pick(&[R1, X, ADM]) };
        let fid = if allowed { F_ENABLE } else { F_DISABLE };
        let mut au = vec![Entry { who: operator, root: Func { c: FP, f: fid, args: vec![V::A(tok), V::A(operator)] }, subs: vec![] }];
        let mut tags = vec![];
        if operator != M { tags.push("settok:not-manager".into()); }
        match rng.below(14) {
            0 => { au.clear(); tags.push("settok:no-auth".into()); }
            1 => { let k = rng.below(2) as usize; au[0].root.args[k] = alter_v(rng, &au[0].root.args[k].clone()); tags.push("settok:auth-altered".into()); }
            2 => { au[0].root.f = if allowed { F_DISABLE } else { F_ENABLE }; tags.push("settok:auth-for-opposite".into()); }
            _ => {}
        }
        (Call::SetTok { allowed, tok, operator, au }, tags)
    }

    fn sweep(&mut self, _w: &World) -> (Call, Vec<String>) {
        let rng = &mut self.rng;
        let tok = if rng.chance(1, 15) { X } else { *rng.pick(&TOKENS) };
        let recipient = *rng.pick(&HOLDERS);
        let operator = if rng.chance(9, 10) { M } else { *rng.pick(&[R1, X]) };
        let mut au = vec![Entry { who: operator, root: Func { c: FP, f: F_SWEEP, args: vec![V::A(tok), V::A(recipient), V::A(operator)] }, subs: vec![] }];
        let mut tags = vec![];
        match rng.below(10) {
            0 => { au.clear(); tags.push("sweep:no-auth".into()); }
            1 => { let k = rng.below(3) as usize; au[0].root.args[k] = alter_v(rng, &au[0].root.args[k].clone()); tags.push("sweep:auth-altered".into()); }
            _ => {}
        }
        (Call::Sweep { tok, recipient, operator, au }, tags)
    }

    fn mint(&mut self, _w: &World) -> Call {
        let rng = &mut self.rng;
        let tok = if rng.chance(1, 30) { X } else { *rng.pick(&TOKENS) };
        let to = if rng.chance(3, 4) { *rng.pick(&[U1, U2]) } else { *rng.pick(&HOLDERS) };
        let amt = match rng.below(12) { 0 => 0, 1 => -1, 2 => i128::MAX, 3 => i128::MAX / 2, _ => rng.range(1, 2000) as i128 };
        Call::Mint { tok, to, amt }
    }

    fn advance(&mut self, w: &World) -> Call {
        let rng = &mut self.rng;
        // sometimes land exactly on / just after a live_until of an existing allowance
        if rng.chance(1, 3) {
            let mut ls: Vec<u32> = vec![];
            for t in &w.obs.toks { for r in &t.alw { for &(a, l) in r { if a > 0 && l >= w.obs.now && l - w.obs.now < 5000 { ls.push(l); } } } }
            if !ls.is_empty() { let l = *rng.pick(&ls); let d = l - w.obs.now + rng.below(2) as u32; return Call::Advance(d); }
        }
        if rng.chance(1, 5) && w.obs.now < 40_000_000 { return Call::Advance(*rng.pick(&LONG_GAPS)); }
        Call::Advance(match rng.below(8) { 0 => 0, 1 => 1, 2 => 2, 3 => rng.below(60) as u32, 4 => rng.below(3000) as u32, _ => rng.below(10) as u32 })
    }
}

fn manager_auth(allowed: bool, tok: usize) -> Vec<Entry> {
    vec![Entry { who: M, root: Func { c: FP, f: if allowed { F_ENABLE } else { F_DISABLE }, args: vec![V::A(tok), V::A(M)] }, subs: vec![] }]
}
fn owner_auth(tok: usize, owner: usize, spender: usize, amt: i128, exp: u32) -> Vec<Entry> {
    vec![Entry { who: owner, root: approve_fn(tok, owner, spender, amt, exp), subs: vec![] }]
}

/// directed scenarios, executed first on every run
fn corpus(out: &mut Out) {
    let t = |s: &str| vec![s.to_string()];
    // 1. both strategies, pre-existing allowance below / at / above the maximum
    for pd in [true, false] {
        for (pre, tag) in [(0i128, "corpus:no-prev"), (50, "corpus:prev-below"), (100, "corpus:prev-eq"), (150, "corpus:prev-above")] {
            let mut w = World::new();
            w.run(out, &Call::Mint { tok: T1, to: U1, amt: 1000 }, &[]);
            let fw = fwd_addr(pd);
            if pre > 0 { w.run(out, &Call::Approve { tok: T1, owner: U1, spender: fw, amt: pre, exp: START + 500, au: owner_auth(T1, U1, fw, pre, START + 500) }, &[]); }
            let f = Fwd { pd, tok: T1, fee: 60, max: 100, exp: START + 20, target: TA, f: F_HIT, args: vec![At::I(11)], user: U1, relayer: R1 };
            // without the approve sub-invocation first (succeeds only when no approval is needed)
            let mut au = f.good_auths(); for en in au.iter_mut() { en.subs.clear(); }
            w.run(out, &f.call(au), &t(&format!("{}-nosub", tag)));
            w.run(out, &f.call(f.good_auths()), &t(tag));
            // the fee may not exceed the authorised maximum, whatever allowance exists
            let g = Fwd { fee: 101, ..f.clone() };
            w.run(out, &g.call(g.good_auths()), &t("corpus:fee-gt-max"));
            w.run(out, &Call::Advance(21), &[]);
            w.run(out, &f.call(f.good_auths()), &t("corpus:after-expiry"));
            w.finish(out, "corpus-strategies");
        }
    }
    // 2. each field of the user's authorised tuple altered in turn (and of the relayer's, and of the approval)
    for pd in [true, false] {
        let mut w = World::new();
        w.run(out, &Call::Mint { tok: T1, to: U1, amt: 5000 }, &[]);
        w.run(out, &Call::Mint { tok: T2, to: U1, amt: 5000 }, &[]);
        let f = Fwd { pd, tok: T1, fee: 7, max: 9, exp: START + 5, target: TA, f: F_HIT, args: vec![At::I(3)], user: U1, relayer: R1 };
        let mut rng = Rng::new(77);
        for k in 0..6 { for _ in 0..2 {
            let mut au = f.good_auths(); let i = au.iter().position(|e| e.who == U1).unwrap();
            au[i].root.args[k] = alter_v(&mut rng, &au[i].root.args[k].clone());
            w.run(out, &f.call(au), &t(&format!("corpus:user-{}-altered", USER_FIELDS[k])));
        } }
        for k in 0..9 {
            let mut au = f.good_auths(); let i = au.iter().position(|e| e.who == R1).unwrap();
            au[i].root.args[k] = alter_v(&mut rng, &au[i].root.args[k].clone());
            w.run(out, &f.call(au), &t(&format!("corpus:relayer-{}-altered", FULL_FIELDS[k])));
        }
        for k in 0..4 {
            let mut au = f.good_auths(); let i = au.iter().position(|e| e.who == U1).unwrap();
            au[i].subs[0].args[k] = alter_v(&mut rng, &au[i].subs[0].args[k].clone());
            w.run(out, &f.call(au), &t(&format!("corpus:approve-{}-altered", APPROVE_FIELDS[k])));
        }
        for k in [0u64, 1, 5, 6, 7, 8, 9, 10, 11, 15, 18, 19, 20, 21, 22] { let (tag, au) = perturb_auth(&mut rng, &f, f.good_auths(), k); w.run(out, &f.call(au), &t(&format!("corpus:{}", tag))); }
        for k in [12u64, 13, 14] { let (tag, au) = perturb_auth(&mut rng, &f, f.good_auths(), k); w.run(out, &f.call(au), &t(&format!("corpus:{}", tag))); }
        // the authorisation of one forwarder is no authorisation for the other
        let g = Fwd { pd: !pd, ..f.clone() };
        w.run(out, &g.call(f.good_auths()), &t("corpus:auth-for-other-forwarder"));
        w.run(out, &f.call(f.good_auths()), &t("corpus:good"));
        w.finish(out, "corpus-auth-fields");
    }
    // 3. failing targets, atomicity; user = forwarder; user = relayer
    for pd in [true, false] {
        let mut w = World::new();
        w.run(out, &Call::Mint { tok: T1, to: U1, amt: 300 }, &[]);
        w.run(out, &Call::Mint { tok: T1, to: U2, amt: 300 }, &[]);
        w.run(out, &Call::Mint { tok: T1, to: fwd_addr(pd), amt: 300 }, &[]);
        let f = Fwd { pd, tok: T1, fee: 10, max: 20, exp: START + 9, target: TB, f: F_BOOM, args: vec![At::I(1)], user: U1, relayer: R1 };
        w.run(out, &f.call(f.good_auths()), &t("corpus:boom"));
        let g = Fwd { f: F_NOPE, ..f.clone() }; w.run(out, &g.call(g.good_auths()), &t("corpus:nope"));
        let g = Fwd { f: F_HIT, target: T1, ..f.clone() }; w.run(out, &g.call(g.good_auths()), &t("corpus:target-is-token"));
        let g = Fwd { f: F_HIT, target: fwd_addr(pd), ..f.clone() }; w.run(out, &g.call(g.good_auths()), &t("corpus:target-is-forwarder"));
        let g = Fwd { f: F_AUTH, args: vec![At::A(U1), At::I(5)], ..f.clone() }; w.run(out, &g.call(g.good_auths()), &t("corpus:auth-hit-user"));
        let (_, au) = perturb_auth(&mut Rng::new(1), &g, g.good_auths(), 16); w.run(out, &g.call(au), &t("corpus:auth-hit-user-unauth"));
        let g = Fwd { f: F_AUTH, args: vec![At::A(X), At::I(5)], ..f.clone() }; w.run(out, &g.call(g.good_auths()), &t("corpus:auth-hit-third"));
        let g = Fwd { f: F_AUTH, args: vec![At::A(R1), At::I(5)], ..f.clone() }; w.run(out, &g.call(g.good_auths()), &t("corpus:auth-hit-relayer"));
        let g = Fwd { f: F_AUTH, args: vec![At::A(fwd_addr(pd)), At::I(5)], ..f.clone() }; w.run(out, &g.call(g.good_auths()), &t("corpus:auth-hit-forwarder"));
        let g = Fwd { f: F_HIT, user: fwd_addr(pd), ..f.clone() }; w.run(out, &g.call(g.good_auths()), &t("corpus:user-is-forwarder"));
        // user = relayer (U2 is an executor): two entries work, one entry cannot serve both
        let g = Fwd { f: F_HIT, user: U2, relayer: U2, ..f.clone() };
        let mut au = g.good_auths(); au.truncate(1); w.run(out, &g.call(au), &t("corpus:alias-one-entry"));
        w.run(out, &g.call(g.good_auths()), &t("corpus:alias-two-entries"));
        let g = Fwd { f: F_HIT, fee: 301, max: 400, ..f.clone() }; w.run(out, &g.call(g.good_auths()), &t("corpus:fee-gt-balance"));
        for (fee, max) in [(0i128, 5i128), (-1, 5), (6, 5), (5, 5), (1, 1), (0, 0), (-2, -2), (i128::MAX, i128::MAX), (i128::MIN, 5)] {
            let g = Fwd { f: F_HIT, fee, max, ..f.clone() }; w.run(out, &g.call(g.good_auths()), &t("corpus:fee-bounds"));
        }
        for exp in [START - 1, START, START + 1, 0, START + w.max_ttl - 1, START + w.max_ttl, u32::MAX] {
            let g = Fwd { f: F_HIT, exp, ..f.clone() }; w.run(out, &g.call(g.good_auths()), &t("corpus:exp-bounds"));
        }
        w.finish(out, "corpus-targets-alias-bounds");
    }
    // 3b. lazy flow with a sufficient allowance: the expiration ledger is still validated (at / before now)
    for pd in [true, false] {
        let mut w = World::new();
        w.run(out, &Call::Mint { tok: T1, to: U1, amt: 1000 }, &[]);
        let fw = fwd_addr(pd);
        w.run(out, &Call::Approve { tok: T1, owner: U1, spender: fw, amt: 500, exp: START + 900, au: owner_auth(T1, U1, fw, 500, START + 900) }, &[]);
        w.run(out, &Call::Advance(10), &[]);
        for (exp, tag) in [(START + 10, "corpus:sufficient-exp-at"), (START + 9, "corpus:sufficient-exp-before"), (START + 11, "corpus:sufficient-exp-after"), (0, "corpus:sufficient-exp-zero")] {
            let f = Fwd { pd, tok: T1, fee: 5, max: 50, exp, target: TA, f: F_HIT, args: vec![At::I(1)], user: U1, relayer: R1 };
            let mut au = f.good_auths(); for en in au.iter_mut() { en.subs.clear(); }
            w.run(out, &f.call(au), &t(&format!("{}-nosub", tag)));
            w.run(out, &f.call(f.good_auths()), &t(tag));
        }
        // allowance exactly max, then exactly spent
        let f = Fwd { pd, tok: T1, fee: 7, max: 7, exp: START + 10, target: TA, f: F_HIT, args: vec![At::I(1)], user: U1, relayer: R1 };
        w.run(out, &Call::Approve { tok: T1, owner: U1, spender: fw, amt: 7, exp: START + 30, au: owner_auth(T1, U1, fw, 7, START + 30) }, &[]);
        let mut au = f.good_auths(); for en in au.iter_mut() { en.subs.clear(); }
        w.run(out, &f.call(au.clone()), &t("corpus:allowance-eq-max-eq-fee-nosub"));
        w.run(out, &f.call(au), &t("corpus:allowance-spent-nosub"));
        w.run(out, &f.call(f.good_auths()), &t("corpus:allowance-spent"));
        w.finish(out, "corpus-lazy-sufficient");
    }
    // 3c. zero approvals and expiry of temporary entries, host configurations min_temp_entry_ttl = 1 and 16
    for mt in [1u32, 16] {
        let mut w = World::with_min_temp(mt);
        w.run(out, &Call::Mint { tok: T1, to: U1, amt: 1000 }, &[]);
        w.run(out, &Call::Approve { tok: T1, owner: U1, spender: FL, amt: 0, exp: START + 40, au: owner_auth(T1, U1, FL, 0, START + 40) }, &t("corpus:approve-zero-fresh"));
        w.run(out, &Call::Approve { tok: T1, owner: U1, spender: FP, amt: 9, exp: START + 3, au: owner_auth(T1, U1, FP, 9, START + 3) }, &[]);
        w.run(out, &Call::Approve { tok: T1, owner: U1, spender: FP, amt: 0, exp: START + 40, au: owner_auth(T1, U1, FP, 0, START + 40) }, &t("corpus:approve-zero-over-live"));
        for _ in 0..4 { w.run(out, &Call::Advance(1), &[]); }
        w.run(out, &Call::Approve { tok: T1, owner: U2, spender: FP, amt: 5, exp: START + 6, au: owner_auth(T1, U2, FP, 5, START + 6) }, &[]);
        w.run(out, &Call::Approve { tok: T1, owner: U2, spender: FP, amt: 5, exp: START + 5, au: owner_auth(T1, U2, FP, 5, START + 5) }, &t("corpus:approve-shorter"));
        w.run(out, &Call::Advance(1), &[]);
        w.run(out, &Call::Advance(1), &[]);
        w.run(out, &Call::Advance(1), &[]);
        w.run(out, &Call::Advance(14), &[]);
        w.run(out, &Call::Advance(30), &[]);
        w.finish(out, &format!("corpus-temp-ttl-{}", mt));
    }
    // 3e. re-entering targets: while forwarded, the target calls back into the fee token (pulling the user's remaining
    //     allowance through the forwarder to an attacker, approving for the user) or into forward(); swallowed / propagated
    for pd in [true, false] {
        let mut w = World::new();
        let fw = fwd_addr(pd);
        w.run(out, &Call::Mint { tok: T1, to: U1, amt: 1000 }, &[]);
        if pd { w.run(out, &Call::Approve { tok: T1, owner: U1, spender: fw, amt: 400, exp: START + 500, au: owner_auth(T1, U1, fw, 400, START + 500) }, &[]); }
        let base = Fwd { pd, tok: T1, fee: 10, max: 60, exp: START + 30, target: TA, f: F_HIT, args: vec![At::I(1)], user: U1, relayer: R1 };
        for sw in [1i128, 0] {
            let sfx = if sw == 0 { "propagate" } else { "swallow" };
            // what is in place during the call: eager max - fee = 50, lazy 400 - 10 (then -10 per successful forward)
            for amt in [50i128, 1, 390, 0] {
                for sp in [fw, fwd_addr(!pd)] {
                    let g = Fwd { f: F_PULL, args: vec![At::A(T1), At::A(sp), At::A(U1), At::A(X), At::I(amt), At::I(sw)], ..base.clone() };
                    w.run(out, &g.call(g.good_auths()), &t(&format!("corpus:reentrant-pull-{}", sfx)));
                }
            }
            let g = Fwd { f: F_APPROVE_FOR, args: vec![At::A(T1), At::A(U1), At::A(X), At::I(500), At::I((START + 100) as i128), At::I(sw)], ..base.clone() };
            w.run(out, &g.call(g.good_auths()), &t(&format!("corpus:reentrant-approve-{}", sfx)));
            let g = Fwd { f: F_APPROVE_FOR, args: vec![At::A(T1), At::A(fw), At::A(X), At::I(500), At::I((START + 100) as i128), At::I(sw)], ..base.clone() };
            w.run(out, &g.call(g.good_auths()), &t(&format!("corpus:reentrant-approve-as-forwarder-{}", sfx)));
            for fwd in [fw, fwd_addr(!pd)] {
                let g = Fwd { f: F_REENTER, args: vec![At::A(fwd), At::I(sw)], ..base.clone() };
                w.run(out, &g.call(g.good_auths()), &t(&format!("corpus:reentrant-forward-{}", sfx)));
            }
        }
        w.run(out, &base.call(base.good_auths()), &t("corpus:good"));
        w.finish(out, "corpus-reentrant-targets");
    }
    // 3f. the TARGET IS A FEE TOKEN: the user signs forward(.., target = token, fn, args) and the forwarder - the direct
    //     invoker of the token - spends the residual allowance the fee collection has just left in place (eager: max - fee,
    //     lazy: old - fee), or its own funds
    for pd in [true, false] {
        let mut w = World::new();
        let fw = fwd_addr(pd);
        w.run(out, &Call::Mint { tok: T1, to: U1, amt: 1000 }, &[]);
        w.run(out, &Call::Mint { tok: T1, to: fw, amt: 40 }, &[]);
        w.run(out, &Call::Mint { tok: T2, to: U1, amt: 1000 }, &[]);
        if pd { w.run(out, &Call::Approve { tok: T1, owner: U1, spender: fw, amt: 400, exp: START + 500, au: owner_auth(T1, U1, fw, 400, START + 500) }, &[]); }
        let base = Fwd { pd, tok: T1, fee: 10, max: 60, exp: START + 30, target: T1, f: F_TRANSFER_FROM, args: vec![], user: U1, relayer: R1 };
        // what is left for the forwarder to spend during the call: eager 60 - 10 = 50; lazy 400 - 10 = 390 (then 390 - 390 - 10 ...)
        let left = if pd { 390 } else { 50 };
        let g = Fwd { args: vec![At::A(fw), At::A(U1), At::A(X), At::I(left + 1)], ..base.clone() };
        w.run(out, &g.call(g.good_auths()), &t("corpus:token-target-drain-more-than-residual"));
        let g = Fwd { args: vec![At::A(fw), At::A(U1), At::A(X), At::I(0)], ..base.clone() };
        w.run(out, &g.call(g.good_auths()), &t("corpus:token-target-drain-zero"));
        let left = if pd { 380 } else { 50 };
        let g = Fwd { args: vec![At::A(fw), At::A(U1), At::A(X), At::I(left)], ..base.clone() };
        // the relayer cannot substitute its own drain: the user signed other args
        let h = Fwd { args: vec![At::A(fw), At::A(U1), At::A(R1), At::I(left)], ..base.clone() };
        let mut au = h.good_auths(); let ui = au.iter().position(|e| e.who == U1).unwrap(); au[ui] = g.good_auths().into_iter().find(|e| e.who == U1).unwrap();
        w.run(out, &h.call(au), &t("corpus:token-target-drain-args-not-signed"));
        w.run(out, &g.call(g.good_auths()), &t("corpus:token-target-drain-residual"));
        // another fee token as target: the forwarder has no allowance there
        let g = Fwd { target: T2, args: vec![At::A(fw), At::A(U1), At::A(X), At::I(1)], ..base.clone() };
        w.run(out, &g.call(g.good_auths()), &t("corpus:token-target-other-token"));
        // spender other than the forwarder: needs that spender's own authorisation
        let g = Fwd { args: vec![At::A(X), At::A(U1), At::A(X), At::I(1)], ..base.clone() };
        w.run(out, &g.call(g.good_auths()), &t("corpus:token-target-other-spender-unauth"));
        // the forwarder's own funds (collected fees): transfer(forwarder, X, all)
        let fb = w.obs.bal(T1, fw) + if pd { 10 } else { 0 };
        let g = Fwd { f: F_TRANSFER, args: vec![At::A(fw), At::A(X), At::I(fb + 1)], ..base.clone() };
        w.run(out, &g.call(g.good_auths()), &t("corpus:token-target-forwarder-funds-too-much"));
        let g = Fwd { f: F_TRANSFER, args: vec![At::A(fw), At::A(X), At::I(fb)], ..base.clone() };
        w.run(out, &g.call(g.good_auths()), &t("corpus:token-target-forwarder-funds"));
        // a plain transfer of the user's tokens: with / without the user's sub-invocation for it
        let g = Fwd { f: F_TRANSFER, args: vec![At::A(U1), At::A(X), At::I(7)], ..base.clone() };
        let mut au = g.good_auths(); for en in au.iter_mut() { en.subs.retain(|s| s.f != F_TRANSFER); }
        w.run(out, &g.call(au), &t("corpus:token-target-user-transfer-unauth"));
        w.run(out, &g.call(g.good_auths()), &t("corpus:token-target-user-transfer"));
        w.finish(out, "corpus-token-as-target");
    }
    // 3g. lazy flow after a previously SUFFICIENT allowance has expired: falls back to a fresh, authorised approval
    for pd in [true, false] {
        let mut w = World::new();
        let fw = fwd_addr(pd);
        w.run(out, &Call::Mint { tok: T1, to: U1, amt: 1000 }, &[]);
        w.run(out, &Call::Approve { tok: T1, owner: U1, spender: fw, amt: 500, exp: START + 10, au: owner_auth(T1, U1, fw, 500, START + 10) }, &[]);
        let f = Fwd { pd, tok: T1, fee: 5, max: 50, exp: START + 100, target: TA, f: F_HIT, args: vec![At::I(1)], user: U1, relayer: R1 };
        let mut nosub = f.good_auths(); for en in nosub.iter_mut() { en.subs.clear(); }
        w.run(out, &f.call(nosub.clone()), &t("corpus:sufficient-allowance-live-nosub"));
        w.run(out, &Call::Advance(11), &[]);
        w.run(out, &f.call(nosub.clone()), &t("corpus:sufficient-allowance-expired-nosub"));
        w.run(out, &f.call(f.good_auths()), &t("corpus:sufficient-allowance-expired"));
        w.run(out, &f.call(nosub), &t("corpus:fresh-allowance-then-nosub"));
        w.finish(out, "corpus-lazy-allowance-expired");
    }
    // 3h. three listed tokens, remove the first / the middle / the last (swap-and-pop at every position)
    for k in 0..3usize {
        let mut w = World::new();
        for tk in TOKENS { w.run(out, &Call::SetTok { allowed: true, tok: tk, operator: M, au: manager_auth(true, tk) }, &[]); }
        w.run(out, &Call::SetTok { allowed: false, tok: TOKENS[k], operator: M, au: manager_auth(false, TOKENS[k]) }, &t(&format!("corpus:three-listed-remove-{}", k)));
        for tk in TOKENS { w.run(out, &Call::SetTok { allowed: false, tok: tk, operator: M, au: manager_auth(false, tk) }, &[]); }
        w.finish(out, "corpus-three-listed");
    }
    // 3d. persistence: every kind of stored item must survive ONE long ledger advance during which nobody reads it
    //     (balances, supply, allow-list count / entries / indices, roles, target logs; allowances up to live_until)
    for mt in [1u32, 16] {
        for gap in LONG_GAPS {
            let mut w = World::with_min_temp(mt);
            w.run(out, &Call::Mint { tok: T1, to: U1, amt: 1000 }, &[]);
            w.run(out, &Call::Mint { tok: T2, to: U2, amt: 500 }, &[]);
            for (al, tk) in [(true, T1), (true, T2), (true, T3), (false, T2)] { w.run(out, &Call::SetTok { allowed: al, tok: tk, operator: M, au: manager_auth(al, tk) }, &[]); }
            let long = START + 5_000_000;
            w.run(out, &Call::Approve { tok: T1, owner: U1, spender: FP, amt: 300, exp: long, au: owner_auth(T1, U1, FP, 300, long) }, &[]);
            w.run(out, &Call::Approve { tok: T1, owner: U1, spender: FL, amt: 200, exp: START + gap, au: owner_auth(T1, U1, FL, 200, START + gap) }, &[]);
            w.run(out, &Call::Approve { tok: T2, owner: U2, spender: FL, amt: 77, exp: START + gap - 1, au: owner_auth(T2, U2, FL, 77, START + gap - 1) }, &[]);
            let f = Fwd { pd: true, tok: T1, fee: 10, max: 20, exp: long, target: TA, f: F_HIT, args: vec![At::I(1)], user: U1, relayer: R1 };
            let mut nosub = f.good_auths(); for en in nosub.iter_mut() { en.subs.clear(); }
            w.run(out, &f.call(nosub.clone()), &t("persist:before"));
            w.run(out, &Call::Advance(gap), &t(&format!("persist:gap-{}", gap)));
            // everything is still there: roles (executor R1, manager M), list = {T1, T3}, allowance, balances
            w.run(out, &f.call(nosub.clone()), &t("persist:forward-pd-after"));
            let g = Fwd { pd: true, tok: T2, ..f.clone() }; w.run(out, &g.call(g.good_auths()), &t("persist:removed-token-after"));
            let g = Fwd { pd: false, exp: START + gap + 50, user: U1, ..f.clone() }; w.run(out, &g.call(g.good_auths()), &t("persist:forward-pl-after"));
            w.run(out, &Call::SetTok { allowed: false, tok: T1, operator: M, au: manager_auth(false, T1) }, &t("persist:disable-after"));
            w.run(out, &Call::SetTok { allowed: true, tok: T2, operator: M, au: manager_auth(true, T2) }, &t("persist:enable-after"));
            w.run(out, &Call::Sweep { tok: T1, recipient: X, operator: M, au: vec![Entry { who: M, root: Func { c: FP, f: F_SWEEP, args: vec![V::A(T1), V::A(X), V::A(M)] }, subs: vec![] }] }, &t("persist:sweep-after"));
            w.run(out, &Call::Advance(gap), &t(&format!("persist:gap-{}", gap)));
            let g = Fwd { pd: true, tok: T2, user: U2, fee: 3, max: 5, exp: START + 2 * gap + 10, ..f.clone() }; w.run(out, &g.call(g.good_auths()), &t("persist:forward-pd-after2"));
            w.finish(out, &format!("corpus-persistence-{}-{}", mt, gap));
        }
    }
    // 4. allow-list histories (swap-and-pop) and token acceptance
    {
        let mut w = World::new();
        w.run(out, &Call::Mint { tok: T2, to: U1, amt: 500 }, &[]);
        w.run(out, &Call::Mint { tok: T1, to: U1, amt: 500 }, &[]);
        let f = Fwd { pd: true, tok: T2, fee: 3, max: 4, exp: START + 50, target: TA, f: F_HIT, args: vec![At::I(0)], user: U1, relayer: R1 };
        w.run(out, &f.call(f.good_auths()), &t("corpus:list-empty-accepts"));
        for (al, tk) in [(true, T1), (true, T1), (false, T2), (true, X), (true, T3)] { w.run(out, &Call::SetTok { allowed: al, tok: tk, operator: M, au: manager_auth(al, tk) }, &[]); }
        w.run(out, &f.call(f.good_auths()), &t("corpus:not-in-list"));
        w.run(out, &Call::SetTok { allowed: true, tok: T2, operator: M, au: manager_auth(true, T2) }, &[]);
        w.run(out, &f.call(f.good_auths()), &t("corpus:in-list"));
        // remove the first (swap), the middle, the last; re-add
        for (al, tk) in [(false, T1), (false, T2), (true, T1), (false, T1), (false, X), (false, T3), (false, T3)] {
            w.run(out, &Call::SetTok { allowed: al, tok: tk, operator: M, au: manager_auth(al, tk) }, &[]);
            w.run(out, &f.call(f.good_auths()), &t("corpus:list-history"));
        }
        // the permissionless forwarder has no list
        let g = Fwd { pd: false, ..f.clone() }; w.run(out, &g.call(g.good_auths()), &t("corpus:pl-no-list"));
        // sweeping
        w.run(out, &Call::Sweep { tok: T2, recipient: X, operator: M, au: vec![Entry { who: M, root: Func { c: FP, f: F_SWEEP, args: vec![V::A(T2), V::A(X), V::A(M)] }, subs: vec![] }] }, &[]);
        w.run(out, &Call::Sweep { tok: T2, recipient: X, operator: M, au: vec![Entry { who: M, root: Func { c: FP, f: F_SWEEP, args: vec![V::A(T2), V::A(X), V::A(M)] }, subs: vec![] }] }, &[]);
        w.finish(out, "corpus-allowlist");
    }
}


fn sweep_call(tok: usize, recipient: usize, operator: usize) -> Call {
    let au = if SIGNERS.contains(&operator) { vec![Entry { who: operator, root: Func { c: FP, f: F_SWEEP, args: vec![V::A(tok), V::A(recipient), V::A(operator)] }, subs: vec![] }] } else { vec![] };
    Call::Sweep { tok, recipient, operator, au }
}
fn settok_call(allowed: bool, tok: usize, operator: usize) -> Call {
    let au = if SIGNERS.contains(&operator) { vec![Entry { who: operator, root: Func { c: FP, f: if allowed { F_ENABLE } else { F_DISABLE }, args: vec![V::A(tok), V::A(operator)] }, subs: vec![] }] } else { vec![] };
    Call::SetTok { allowed, tok, operator, au }
}
fn nosub(f: &Fwd) -> Vec<Entry> { let mut au = f.good_auths(); for en in au.iter_mut() { en.subs.clear(); } au }

/// directed scenarios of the situation classes K1-K6 (records/prompts/followup-classes.txt): executed on every run,
/// independent of VERIF_SEED; one label per situation
fn corpus_classes(out: &mut Out) {
    let t = |s: &str| vec![s.to_string()];
    // ---- K1 / K4 / K5: SPECIAL ADDRESSES AS PARTIES of a forward.  A contract cannot sign (it has no __check_auth and
    //      mock_auths on it would replace it): every forward naming one as user or relayer carries no entry for it and
    //      must be refused; a fee token / target that is an account, a forwarder or a contract of another type likewise.
    for pd in [true, false] {
        let mut w = World::wide();
        let fw = fwd_addr(pd); let ofw = fwd_addr(!pd);
        w.run(out, &Call::Mint { tok: T1, to: U1, amt: 1000 }, &[]);
        w.run(out, &Call::Mint { tok: T1, to: fw, amt: 40 }, &[]);
        w.run(out, &Call::Mint { tok: T1, to: ofw, amt: 40 }, &[]);
        w.run(out, &Call::Mint { tok: T1, to: TA, amt: 40 }, &[]);
        w.run(out, &Call::Mint { tok: T1, to: T1, amt: 40 }, &[]);
        let f = Fwd { pd, tok: T1, fee: 10, max: 20, exp: START + 30, target: TA, f: F_HIT, args: vec![At::I(1)], user: U1, relayer: R1 };
        for (r, tag) in [(fw, "k1:relayer-is-forwarder"), (ofw, "k1:relayer-is-other-forwarder"), (T1, "k1:relayer-is-token"), (TA, "k1:relayer-is-target")] {
            let g = Fwd { relayer: r, ..f.clone() }; w.run(out, &g.call(g.good_auths()), &t(tag));
        }
        for (u, tag) in [(ofw, "k1:user-is-other-forwarder"), (T1, "k1:user-is-token"), (TA, "k1:user-is-target")] {
            let g = Fwd { user: u, ..f.clone() }; w.run(out, &g.call(g.good_auths()), &t(tag));
        }
        // user = relayer = a contract: nobody signs anything
        let g = Fwd { user: ofw, relayer: ofw, ..f.clone() }; w.run(out, &g.call(g.good_auths()), &t("k1:user-and-relayer-is-other-forwarder"));
        let g = Fwd { user: fw, relayer: fw, ..f.clone() }; w.run(out, &g.call(g.good_auths()), &t("k1:user-and-relayer-is-forwarder"));
        for (tk, tag) in [(X, "k4:fee-token-is-account"), (fw, "k1:fee-token-is-forwarder"), (ofw, "k1:fee-token-is-other-forwarder"), (TA, "k4:fee-token-is-target-contract")] {
            let g = Fwd { tok: tk, ..f.clone() }; w.run(out, &g.call(g.good_auths()), &t(tag));
        }
        for (tg, tag) in [(X, "k4:target-is-account"), (ofw, "k1:target-is-other-forwarder"), (U1, "k4:target-is-user")] {
            let g = Fwd { target: tg, ..f.clone() }; w.run(out, &g.call(g.good_auths()), &t(tag));
        }
        // the target demands the authorisation of a contract: itself, the other target, the fee token
        for (who, tag) in [(TA, "k1:auth-hit-target-itself"), (TB, "k1:auth-hit-other-target"), (T1, "k1:auth-hit-token")] {
            let g = Fwd { f: F_AUTH, args: vec![At::A(who), At::I(5)], ..f.clone() }; w.run(out, &g.call(g.good_auths()), &t(tag));
        }
        w.run(out, &f.call(f.good_auths()), &t("k1:control-good"));
        // the signed target call is a token function whose parties alias / are contracts (K5): from = to = the user,
        // to = the forwarder, to = the token contract itself, the forwarder's own funds to itself
        let tf = Fwd { target: T1, f: F_TRANSFER_FROM, ..f.clone() };
        for (to, tag) in [(U1, "k5:token-target-from-eq-to"), (fw, "k5:token-target-to-forwarder"), (T1, "k1:token-target-to-token-itself"), (ofw, "k1:token-target-to-other-forwarder")] {
            let g = Fwd { args: vec![At::A(fw), At::A(U1), At::A(to), At::I(5)], ..tf.clone() }; w.run(out, &g.call(g.good_auths()), &t(tag));
        }
        let g = Fwd { target: T1, f: F_TRANSFER, args: vec![At::A(fw), At::A(fw), At::I(7)], ..f.clone() }; w.run(out, &g.call(g.good_auths()), &t("k5:token-target-forwarder-to-itself"));
        // the forwarder is made to move funds of ANOTHER contract: not its own, no allowance -> refused
        let g = Fwd { target: T1, f: F_TRANSFER, args: vec![At::A(ofw), At::A(X), At::I(7)], ..f.clone() }; w.run(out, &g.call(g.good_auths()), &t("k1:token-target-other-forwarder-funds"));
        let g = Fwd { target: T1, f: F_TRANSFER, args: vec![At::A(T1), At::A(X), At::I(7)], ..f.clone() }; w.run(out, &g.call(g.good_auths()), &t("k1:token-target-token-own-funds"));
        let g = Fwd { args: vec![At::A(fw), At::A(ofw), At::A(X), At::I(1)], ..tf.clone() }; w.run(out, &g.call(g.good_auths()), &t("k1:token-target-from-other-forwarder"));
        w.finish(out, "classes-special-parties");
    }
    // ---- K1 / K5 / K3: the manager paths (allow-list and sweep) with special addresses, and every refusal reason
    {
        let mut w = World::wide();
        for who in [R1, ADM, X] { w.run(out, &settok_call(true, T1, who), &t("k3:settok-not-manager")); }
        w.run(out, &settok_call(true, T1, FP), &t("k1:settok-operator-is-forwarder"));
        w.run(out, &Call::SetTok { allowed: true, tok: T1, operator: M, au: vec![] }, &t("k3:settok-no-auth"));
        w.run(out, &Call::SetTok { allowed: true, tok: T1, operator: M, au: manager_auth(false, T1) }, &t("k3:settok-auth-for-disable"));
        w.run(out, &Call::SetTok { allowed: true, tok: T1, operator: M, au: manager_auth(true, T2) }, &t("k3:settok-auth-other-token"));
        // the manager's own entry, but the operator argument names somebody else (and vice versa)
        w.run(out, &Call::SetTok { allowed: true, tok: T1, operator: R1, au: manager_auth(true, T1) }, &t("k3:settok-operator-arg-other"));
        w.run(out, &Call::SetTok { allowed: true, tok: T1, operator: M, au: vec![Entry { who: R1, root: Func { c: FP, f: F_ENABLE, args: vec![V::A(T1), V::A(M)] }, subs: vec![] }] }, &t("k3:settok-signed-by-other"));
        // the forwarder's own address, the other forwarder, a target, the operator itself as listed "token"
        w.run(out, &settok_call(true, FP, M), &t("k1:enable-own-address"));
        let f = Fwd { pd: true, tok: T1, fee: 3, max: 4, exp: START + 50, target: TA, f: F_HIT, args: vec![At::I(0)], user: U1, relayer: R1 };
        w.run(out, &Call::Mint { tok: T1, to: U1, amt: 500 }, &[]);
        w.run(out, &f.call(f.good_auths()), &t("k1:list-holds-own-address-only"));
        let g = Fwd { tok: FP, ..f.clone() }; w.run(out, &g.call(g.good_auths()), &t("k1:listed-own-address-as-fee-token"));
        w.run(out, &settok_call(true, FL, M), &t("k1:enable-other-forwarder"));
        w.run(out, &settok_call(true, TA, M), &t("k1:enable-target"));
        w.run(out, &settok_call(true, M, M), &t("k5:enable-operator-itself"));
        w.run(out, &settok_call(true, X, M), &[]);
        let g = Fwd { tok: X, ..f.clone() }; w.run(out, &g.call(g.good_auths()), &t("k4:listed-account-as-fee-token"));
        let g = Fwd { tok: TA, ..f.clone() }; w.run(out, &g.call(g.good_auths()), &t("k4:listed-target-as-fee-token"));
        w.run(out, &settok_call(false, FP, M), &t("k1:disable-own-address"));
        w.run(out, &settok_call(false, FP, M), &t("k6:disable-own-address-again"));
        w.run(out, &settok_call(true, T1, M), &[]);
        w.run(out, &f.call(f.good_auths()), &t("k1:list-with-contracts-and-token"));
        for tk in [M, TA, X, FL] { w.run(out, &settok_call(false, tk, M), &[]); }
        // sweep: 3 collected so far
        for who in [R1, ADM, X] { w.run(out, &sweep_call(T1, X, who), &t("k3:sweep-not-manager")); }
        w.run(out, &sweep_call(T1, X, FP), &t("k1:sweep-operator-is-forwarder"));
        w.run(out, &Call::Sweep { tok: T1, recipient: X, operator: M, au: vec![] }, &t("k3:sweep-no-auth"));
        w.run(out, &Call::Sweep { tok: T1, recipient: X, operator: M, au: match sweep_call(T1, R2, M) { Call::Sweep { au, .. } => au, _ => vec![] } }, &t("k3:sweep-auth-other-recipient"));
        w.run(out, &sweep_call(X, X, M), &t("k4:sweep-token-is-account"));
        w.run(out, &sweep_call(FP, X, M), &t("k1:sweep-token-is-forwarder"));
        w.run(out, &sweep_call(TA, X, M), &t("k4:sweep-token-is-target-contract"));
        w.run(out, &sweep_call(T2, X, M), &t("k2:sweep-nothing"));
        w.run(out, &sweep_call(T1, FP, M), &t("k1:sweep-to-itself"));
        w.run(out, &sweep_call(T1, T1, M), &t("k1:sweep-to-token-contract"));
        w.run(out, &f.call(f.good_auths()), &[]);
        w.run(out, &sweep_call(T1, M, M), &t("k5:sweep-to-operator"));
        w.run(out, &f.call(f.good_auths()), &[]);
        w.run(out, &sweep_call(T1, FL, M), &t("k1:sweep-to-other-forwarder"));
        w.run(out, &Call::Mint { tok: T2, to: FP, amt: 1 }, &[]);
        w.run(out, &sweep_call(T2, U1, M), &t("k2:sweep-exactly-one"));
        w.run(out, &sweep_call(T2, U1, M), &t("k2:sweep-nothing"));
        w.finish(out, "classes-manager-paths");
    }
    // ---- K2: UNUSUAL BUT LEGAL VALUES
    for pd in [true, false] {
        let fw = fwd_addr(pd);
        // (a) magnitudes around every machine-word edge and around powers of ten: the fee is debited / credited exactly
        let mut w = World::new();
        let big: i128 = i128::MAX / 2;
        w.run(out, &Call::Mint { tok: T1, to: U1, amt: big }, &[]);
        let f = Fwd { pd, tok: T1, fee: 1, max: 1, exp: START + 40, target: TA, f: F_HIT, args: vec![At::I(1)], user: U1, relayer: R1 };
        let p2 = |k: u32| 1i128 << k; let p10 = |k: u32| 10i128.pow(k);
        let magic: Vec<i128> = vec![p2(8), p2(16) - 1, p2(31) - 1, p2(31), p2(32) - 1, p2(32), p2(32) + 1, p2(53) + 1, p2(63) - 1, p2(63), p2(63) + 1, p2(64) - 1, p2(64), p2(64) + 1,
                                    p10(6), p10(7) - 1, p10(9) - 1, p10(9), p10(9) + 1, p10(18), p10(18) + 1, p10(19) - 1, p2(96) + 1, p2(100) - 1];
        for (i, &m) in magic.iter().enumerate() {
            let max = match i % 3 { 0 => m, 1 => m + 1, _ => i128::MAX };
            let g = Fwd { fee: m, max, ..f.clone() }; w.run(out, &g.call(g.good_auths()), &t("k2:fee-magnitude"));
        }
        // (b) a fee ABOVE the maximum whose low machine words are within it (a comparison in a narrower type would accept
        //     it); the standing allowance and the balance cover the fee, so only the bound check stands in the way
        w.run(out, &Call::Approve { tok: T1, owner: U1, spender: fw, amt: i128::MAX, exp: START + 500, au: owner_auth(T1, U1, fw, i128::MAX, START + 500) }, &[]);
        for (fee, max) in [(p2(32) + 1, 2i128), (p2(64) + 1, 2), (p2(64) + 1, p2(64)), (p2(63) + 5, p2(63) - 1), (p2(64) + 2, p2(32) + 7), (p2(96) + 1, p2(64) + 9), (p10(9) + 1, p10(9))] {
            let g = Fwd { fee, max, ..f.clone() };
            w.run(out, &g.call(nosub(&g)), &t("k2:fee-gt-max-low-words-within-nosub"));
            w.run(out, &g.call(g.good_auths()), &t("k2:fee-gt-max-low-words-within"));
        }
        // ... and a fee within the maximum whose low words exceed the maximum's
        for (fee, max) in [(p2(32) - 1, p2(32)), (p2(64) - 1, p2(64) + 1), (7, p2(64))] {
            let g = Fwd { fee, max, ..f.clone() }; w.run(out, &g.call(g.good_auths()), &t("k2:fee-le-max-low-words-above"));
        }
        let g = Fwd { fee: 1, max: i128::MAX, ..f.clone() }; w.run(out, &g.call(g.good_auths()), &t("k2:max-is-i128-max"));
        w.finish(out, "classes-values-magnitudes");

        // (c) thresholds relative to the state: fee = balance, fee = balance + 1, balance 0; a pre-existing allowance
        //     BETWEEN the fee and the maximum; fee = max = 1
        let mut w = World::new();
        w.run(out, &Call::Mint { tok: T1, to: U1, amt: 5000 }, &[]);
        w.run(out, &Call::Mint { tok: T1, to: U2, amt: 77 }, &[]);
        let f = Fwd { pd, tok: T1, fee: 60, max: 100, exp: START + 40, target: TA, f: F_HIT, args: vec![At::I(1)], user: U1, relayer: R1 };
        w.run(out, &Call::Approve { tok: T1, owner: U1, spender: fw, amt: 80, exp: START + 500, au: owner_auth(T1, U1, fw, 80, START + 500) }, &[]);
        w.run(out, &f.call(nosub(&f)), &t("k2:prev-between-fee-and-max-nosub"));
        w.run(out, &f.call(f.good_auths()), &t("k2:prev-between-fee-and-max"));
        // ... and a pre-existing allowance exactly AT and one off each threshold the lazy strategy could compare it with
        for (pre, tag) in [(59i128, "k2:prev-is-fee-minus-one"), (60, "k2:prev-is-fee"), (61, "k2:prev-is-fee-plus-one"), (99, "k2:prev-is-max-minus-one"), (101, "k2:prev-is-max-plus-one")] {
            w.run(out, &Call::Approve { tok: T1, owner: U1, spender: fw, amt: pre, exp: START + 500, au: owner_auth(T1, U1, fw, pre, START + 500) }, &[]);
            w.run(out, &f.call(nosub(&f)), &t(&format!("{}-nosub", tag)));
            w.run(out, &f.call(f.good_auths()), &t(tag));
        }
        let g = Fwd { user: U2, fee: 78, max: 78, ..f.clone() }; w.run(out, &g.call(g.good_auths()), &t("k2:fee-is-balance-plus-one"));
        let g = Fwd { user: U2, fee: 77, max: 77, ..f.clone() }; w.run(out, &g.call(g.good_auths()), &t("k2:fee-is-balance"));
        let g = Fwd { user: U2, fee: 1, max: 1, ..f.clone() }; w.run(out, &g.call(g.good_auths()), &t("k2:balance-zero"));
        let g = Fwd { fee: 1, max: 1, ..f.clone() }; w.run(out, &g.call(g.good_auths()), &t("k2:fee-one-max-one"));
        // (d) expiration ledgers 1 and u32::MAX / one past the longest live entry, with and without a sufficient allowance
        let g = Fwd { exp: 1, ..f.clone() }; w.run(out, &g.call(g.good_auths()), &t("k2:exp-one"));
        w.run(out, &Call::Approve { tok: T1, owner: U1, spender: fw, amt: 500, exp: START + 900, au: owner_auth(T1, U1, fw, 500, START + 900) }, &[]);
        for (exp, tag) in [(1u32, "k2:sufficient-exp-one"), (u32::MAX, "k2:sufficient-exp-u32max"), (START + w.max_ttl, "k2:sufficient-exp-past-max-live"), (START + w.max_ttl - 1, "k2:sufficient-exp-max-live")] {
            let g = Fwd { exp, fee: 5, max: 50, ..f.clone() };
            w.run(out, &g.call(nosub(&g)), &t(&format!("{}-nosub", tag)));
            w.run(out, &g.call(g.good_auths()), &t(tag));
        }
        // (e) empty / repeated pieces of the forwarded call: the empty symbol, no arguments, the same argument twice,
        //     the same address in every position of a re-entering call
        let g = Fwd { f: F_EMPTY, ..f.clone() }; w.run(out, &g.call(g.good_auths()), &t("k2:fn-empty-symbol"));
        let g = Fwd { args: vec![], ..f.clone() }; w.run(out, &g.call(g.good_auths()), &t("k2:args-empty"));
        let g = Fwd { args: vec![At::I(1), At::I(1)], ..f.clone() }; w.run(out, &g.call(g.good_auths()), &t("k2:args-repeated"));
        let g = Fwd { fee: 5, max: 50, f: F_PULL, args: vec![At::A(T1), At::A(fw), At::A(U1), At::A(U1), At::I(0), At::I(1)], ..f.clone() }; w.run(out, &g.call(g.good_auths()), &t("k5:pull-from-eq-to-zero"));
        let g = Fwd { fee: 5, max: 50, f: F_PULL, args: vec![At::A(T1), At::A(U1), At::A(U1), At::A(U1), At::I(3), At::I(1)], ..f.clone() }; w.run(out, &g.call(g.good_auths()), &t("k5:pull-spender-eq-from-eq-to"));
        w.finish(out, "classes-values-thresholds");

        // (f) the very first ledgers: sequence 0 and 1 (expiration 0 is "now" at ledger 0 and "past" afterwards)
        let mut w = World::build(1, 0, std_tables());
        w.run(out, &Call::Mint { tok: T1, to: U1, amt: 1000 }, &[]);
        let f = Fwd { pd, tok: T1, fee: 5, max: 9, exp: 0, target: TA, f: F_HIT, args: vec![At::I(1)], user: U1, relayer: R1 };
        w.run(out, &f.call(f.good_auths()), &t("k2:ledger0-exp0"));
        w.run(out, &f.call(f.good_auths()), &t("k2:ledger0-exp0-again"));
        w.run(out, &Call::Advance(1), &[]);
        w.run(out, &f.call(f.good_auths()), &t("k2:ledger1-exp0"));
        let g = Fwd { exp: 1, ..f.clone() }; w.run(out, &g.call(g.good_auths()), &t("k2:ledger1-exp1"));
        w.run(out, &Call::Advance(1), &[]);
        w.run(out, &g.call(g.good_auths()), &t("k2:ledger2-exp1"));
        w.finish(out, "classes-values-ledger0");
    }
    // ---- K5: the fee token IS the target and is not in a non-empty list: the list is still consulted
    {
        let mut w = World::new();
        w.run(out, &Call::Mint { tok: T1, to: U1, amt: 500 }, &[]);
        w.run(out, &Call::Mint { tok: T2, to: U1, amt: 500 }, &[]);
        w.run(out, &settok_call(true, T1, M), &[]);
        let f = Fwd { pd: true, tok: T2, fee: 3, max: 9, exp: START + 50, target: T2, f: F_TRANSFER_FROM, args: vec![At::A(FP), At::A(U1), At::A(X), At::I(2)], user: U1, relayer: R1 };
        w.run(out, &f.call(f.good_auths()), &t("k5:token-is-target-not-in-list"));
        let g = Fwd { target: T1, args: vec![At::A(FP), At::A(U1), At::A(X), At::I(0)], ..f.clone() }; w.run(out, &g.call(g.good_auths()), &t("k5:target-in-list-token-not"));
        let g = Fwd { tok: T1, target: T1, ..f.clone() }; w.run(out, &g.call(g.good_auths()), &t("k5:token-is-target-in-list"));
        let g = Fwd { pd: false, ..f.clone() }; let mut g = g; g.args = vec![At::A(FL), At::A(U1), At::A(X), At::I(2)];
        w.run(out, &g.call(g.good_auths()), &t("k5:token-is-target-no-list"));
        w.finish(out, "classes-token-is-target-list");
    }
    // ---- K6: MULTI-STEP allow-list histories.  Four listed entries, removed in EVERY order (first / middle /
    //      second-to-last / last at every length); TokenIndex(t) is read back numerically after every call.
    {
        let four = [T1, T2, T3, X];
        let mut perm: Vec<Vec<usize>> = vec![];
        fn rec(cur: &mut Vec<usize>, left: &mut Vec<usize>, acc: &mut Vec<Vec<usize>>) {
            if left.is_empty() { acc.push(cur.clone()); return; }
            for i in 0..left.len() { let x = left.remove(i); cur.push(x); rec(cur, left, acc); cur.pop(); left.insert(i, x); }
        }
        rec(&mut vec![], &mut four.to_vec(), &mut perm);
        for (pi, order) in perm.iter().enumerate() {
            let mut w = World::new();
            for tk in four { w.run(out, &settok_call(true, tk, M), &[]); }
            for (j, &tk) in order.iter().enumerate() {
                let en = w.obs.enumerated();
                let pos = en.iter().position(|&x| x == tk).map(|p| p as i64).unwrap_or(-1);
                w.run(out, &settok_call(false, tk, M), &t(&format!("k6:swap-pop-{}-of-{}", pos, en.len())));
                // every sixth order: a removed token is refused, a remaining one accepted, the first removed one re-added
                if pi % 6 == 0 && j == 1 {
                    w.run(out, &Call::Mint { tok: T1, to: U1, amt: 100 }, &[]);
                    w.run(out, &Call::Mint { tok: T2, to: U1, amt: 100 }, &[]);
                    for tk2 in [T1, T2] {
                        let f = Fwd { pd: true, tok: tk2, fee: 1, max: 2, exp: START + 9, target: TA, f: F_HIT, args: vec![At::I(2)], user: U1, relayer: R1 };
                        w.run(out, &f.call(f.good_auths()), &t("k6:forward-after-two-removals"));
                    }
                    w.run(out, &settok_call(true, order[0], M), &t("k6:re-add-first-removed"));
                    w.run(out, &settok_call(false, order[0], M), &t("k6:remove-re-added"));
                }
            }
            w.finish(out, "classes-four-listed");
        }
        // eight candidates (tokens, an account, both forwarders, a target, the manager as listed addresses): three fixed walks of
        // 36 enable / disable steps each, removals aimed at every position
        for walk in 0..3u64 {
            let mut rng = Rng::new(190_700 + walk);
            let mut w = World::wide();
            w.run(out, &Call::Mint { tok: T1, to: U1, amt: 100 }, &[]);
            let cands = w.tb.cands.clone();
            for step in 0..36 {
                let en = w.obs.enumerated();
                let remove = !en.is_empty() && (en.len() >= 6 || rng.chance(en.len() as u64, 8));
                if remove {
                    let pos = match rng.below(4) { 0 => 0, 1 => en.len() - 1, 2 => en.len().saturating_sub(2), _ => rng.below(en.len() as u64) as usize };
                    w.run(out, &settok_call(false, en[pos], M), &t(&format!("k6:walk-swap-pop-{}-of-{}", pos, en.len())));
                } else {
                    let free: Vec<usize> = cands.iter().cloned().filter(|c| !en.contains(c)).collect();
                    let tk = if rng.chance(1, 8) && !en.is_empty() { *rng.pick(&en) } else { *rng.pick(&free) };
                    w.run(out, &settok_call(true, tk, M), &t("k6:walk-enable"));
                }
                if step % 6 == 5 {
                    let f = Fwd { pd: true, tok: T1, fee: 1, max: 2, exp: START + 9, target: TA, f: F_HIT, args: vec![At::I(3)], user: U1, relayer: R1 };
                    w.run(out, &f.call(f.good_auths()), &t("k6:walk-forward"));
                }
            }
            w.finish(out, "classes-list-walk");
        }
    }
}

fn main() {
    let mut out = Out::new("From SC Require Import Lib.Prelude Lib.Int Lib.Host Model.FeeForwarder Run.C19.\nOpen Scope Z_scope.", "check_all");
    out.per_shard(700);
    let seed = out.cfg.seed;
    let thorough = out.cfg.thorough;
    corpus(&mut out);
    corpus_classes(&mut out);
    // exhaustive small scope: every enable / disable history of the given depth over three tokens
    {
        let depth = if thorough { 5u32 } else { 3u32 };
        let ops: Vec<(bool, usize)> = TOKENS.iter().flat_map(|&t| [(true, t), (false, t)]).collect();
        for code in 0..ops.len().pow(depth) {
            let mut w = World::new();
            let mut c = code;
            for _ in 0..depth {
                let (al, tk) = ops[c % ops.len()]; c /= ops.len();
                w.run(&mut out, &Call::SetTok { allowed: al, tok: tk, operator: M, au: manager_auth(al, tk) }, &["exhaustive:settok".to_string()]);
            }
            w.finish(&mut out, "exhaustive-allowlist");
        }
    }
    let mut g = Gen { rng: Rng::new(seed) };
    let ntraces = (if thorough { 1600 } else { 110 }) * out.cfg.scale;
    for ti in 0..ntraces {
        let mut w = if g.rng.chance(1, 7) { World::with_min_temp(16) } else { World::new() };
        let len = if thorough { 40 + g.rng.below(80) } else { 40 + g.rng.below(40) };
        // fixtures: some balances
        for _ in 0..(2 + g.rng.below(4)) {
            let c = Call::Mint { tok: *g.rng.pick(&TOKENS), to: *g.rng.pick(&[U1, U2, U1, U2, R1]), amt: g.rng.range(100, 5000) as i128 };
            w.run(&mut out, &c, &[]);
        }
        // profile of the trace: allow-list heavy / forward heavy
        let listy = g.rng.chance(1, 3);
        for _ in 0..len {
            let p = g.rng.below(100);
            let (c, tags) = if listy {
                if p < 45 { g.settok(&w) } else if p < 75 { g.forward(&w) } else if p < 82 { g.approve(&w) } else if p < 88 { (g.advance(&w), vec![]) } else if p < 94 { g.sweep(&w) } else { (g.mint(&w), vec![]) }
            } else if p < 56 { g.forward(&w) } else if p < 70 { g.approve(&w) } else if p < 80 { (g.advance(&w), vec![]) } else if p < 88 { g.settok(&w) } else if p < 94 { g.sweep(&w) } else { (g.mint(&w), vec![]) };
            w.run(&mut out, &c, &tags);
        }
        w.finish(&mut out, &format!("random-{}{}", if listy { "list-" } else { "" }, ti));
    }
    out.finish();
}
