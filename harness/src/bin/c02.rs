//! C02 correspondence harness: balances move only with authorisation or a live allowance.
#[path = "../common/fungible.rs"]
mod fungible;
fn main() { fungible::run("C02"); }
