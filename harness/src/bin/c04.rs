//! C04 correspondence harness: drives the real RWA token code (stellar_tokens::rwa::RWA behind a
//! FungibleToken<ContractType = RWA> + RWAToken + Pausable contract) inside the Soroban host, with a
//! mock compliance contract and a mock identity verifier whose answers are inputs of every call and
//! which log every call they receive.  One Gallina trace term per scenario.
#![allow(clippy::too_many_arguments)]
use soroban_sdk::{
    contract, contractimpl, panic_with_error, symbol_short,
    testutils::{Address as _, Ledger as _, MockAuth, MockAuthInvoke, MuxedAddress as _},
    xdr, Address, Env, IntoVal, Map, MuxedAddress, String, Symbol, TryFromVal, Val, Vec,
};
use stellar_contract_utils::pausable::{self, Pausable};
use stellar_tokens::{
    fungible::FungibleToken,
    rwa::{RWAError, RWAToken, RWA},
};
use vh::*;

// ---------------------------------------------------------------- mock identity verifier
#[contract]
pub struct MockIdv;

#[contractimpl]
impl MockIdv {
    pub fn verify_identity(e: &Env, account: Address) {
        let mut log: Vec<(u32, Address)> = e.storage().instance().get(&symbol_short!("log")).unwrap_or(Vec::new(e));
        log.push_back((0, account.clone()));
        e.storage().instance().set(&symbol_short!("log"), &log);
        let ver: Vec<Address> = e.storage().instance().get(&symbol_short!("ver")).unwrap_or(Vec::new(e));
        if !ver.contains(&account) {
            // HOW a verifier signals "not verified" is its own business: a contract error or a plain trap
            let fl: u32 = e.storage().instance().get(&symbol_short!("fl")).unwrap_or(0);
            if fl % 2 == 1 { panic!("identity not verified") }
            panic_with_error!(e, RWAError::IdentityVerificationFailed)
        }
    }

    pub fn recovery_target(e: &Env, old_account: Address) -> Option<Address> {
        let mut log: Vec<(u32, Address)> = e.storage().instance().get(&symbol_short!("log")).unwrap_or(Vec::new(e));
        log.push_back((1, old_account.clone()));
        e.storage().instance().set(&symbol_short!("log"), &log);
        let rec: Map<Address, Address> = e.storage().instance().get(&symbol_short!("rec")).unwrap_or(Map::new(e));
        let fl: u32 = e.storage().instance().get(&symbol_short!("fl")).unwrap_or(0);
        let r = rec.get(old_account);
        // "no recovery target" reported by trapping instead of returning None
        if r.is_none() && fl >= 2 { panic_with_error!(e, RWAError::IdentityVerificationFailed) }
        r
    }
}

// ---------------------------------------------------------------- mock compliance
#[contract]
pub struct MockCmp;

fn cmp_log(e: &Env, kind: u32, a: &Address, b: &Address, amount: i128, token: &Address) {
    let mut log: Vec<(u32, Address, Address, i128, bool)> =
        e.storage().instance().get(&symbol_short!("log")).unwrap_or(Vec::new(e));
    let tok: Option<Address> = e.storage().instance().get(&symbol_short!("tok"));
    log.push_back((kind, a.clone(), b.clone(), amount, tok.as_ref() == Some(token)));
    e.storage().instance().set(&symbol_short!("log"), &log);
}

/// an approval is `true`; anything else is no approval - and HOW a compliance contract says no is its
/// own business (flavour "fl"): it returns false, raises a contract error, traps, or answers something
/// that is not a bool.  The token may move only on `true`.
fn verdict(e: &Env, approve: bool) -> Val {
    if approve { return true.into_val(e); }
    let fl: u32 = e.storage().instance().get(&symbol_short!("fl")).unwrap_or(0);
    match fl {
        0 => false.into_val(e),
        1 => panic_with_error!(e, RWAError::IdentityVerificationFailed),
        2 => panic!("not compliant"),
        _ => 7u32.into_val(e),
    }
}

#[contractimpl]
impl MockCmp {
    pub fn can_transfer(e: &Env, from: Address, to: Address, amount: i128, token: Address) -> Val {
        cmp_log(e, 0, &from, &to, amount, &token);
        verdict(e, e.storage().instance().get(&symbol_short!("ct")).unwrap_or(false))
    }

    pub fn can_create(e: &Env, to: Address, amount: i128, token: Address) -> Val {
        cmp_log(e, 1, &to, &to, amount, &token);
        verdict(e, e.storage().instance().get(&symbol_short!("cc")).unwrap_or(false))
    }

    // like the real compliance contract, the hooks accept calls from the token only
    pub fn transferred(e: &Env, from: Address, to: Address, amount: i128, token: Address) {
        token.require_auth();
        cmp_log(e, 2, &from, &to, amount, &token);
    }

    pub fn created(e: &Env, to: Address, amount: i128, token: Address) {
        token.require_auth();
        cmp_log(e, 3, &to, &to, amount, &token);
    }

    pub fn destroyed(e: &Env, from: Address, amount: i128, token: Address) {
        token.require_auth();
        cmp_log(e, 4, &from, &from, amount, &token);
    }
}

// ---------------------------------------------------------------- the token under test
#[contract]
pub struct Tok;

#[contractimpl(contracttrait)]
impl FungibleToken for Tok {
    type ContractType = RWA;
}

#[contractimpl]
impl Pausable for Tok {
    fn paused(e: &Env) -> bool {
        pausable::paused(e)
    }

    fn pause(e: &Env, caller: Address) {
        caller.require_auth();
        pausable::pause(e);
    }

    fn unpause(e: &Env, caller: Address) {
        caller.require_auth();
        pausable::unpause(e);
    }
}

#[contractimpl]
impl RWAToken for Tok {
    fn forced_transfer(e: &Env, from: Address, to: Address, amount: i128, operator: Address) {
        operator.require_auth();
        RWA::forced_transfer(e, &from, &to, amount);
    }

    fn mint(e: &Env, to: Address, amount: i128, operator: Address) {
        operator.require_auth();
        RWA::mint(e, &to, amount);
    }

    fn burn(e: &Env, user_address: Address, amount: i128, operator: Address) {
        operator.require_auth();
        RWA::burn(e, &user_address, amount);
    }

    fn recover_balance(e: &Env, old_account: Address, new_account: Address, operator: Address) -> bool {
        operator.require_auth();
        RWA::recover_balance(e, &old_account, &new_account)
    }

    fn set_address_frozen(e: &Env, user_address: Address, freeze: bool, operator: Address) {
        operator.require_auth();
        RWA::set_address_frozen(e, &user_address, freeze);
    }

    fn freeze_partial_tokens(e: &Env, user_address: Address, amount: i128, operator: Address) {
        operator.require_auth();
        RWA::freeze_partial_tokens(e, &user_address, amount);
    }

    fn unfreeze_partial_tokens(e: &Env, user_address: Address, amount: i128, operator: Address) {
        operator.require_auth();
        RWA::unfreeze_partial_tokens(e, &user_address, amount);
    }

    fn is_frozen(e: &Env, user_address: Address) -> bool {
        RWA::is_frozen(e, &user_address)
    }

    fn get_frozen_tokens(e: &Env, user_address: Address) -> i128 {
        RWA::get_frozen_tokens(e, &user_address)
    }

    fn version(e: &Env) -> String {
        RWA::version(e)
    }

    fn onchain_id(e: &Env) -> Address {
        RWA::onchain_id(e)
    }

    fn set_compliance(e: &Env, compliance: Address, operator: Address) {
        operator.require_auth();
        RWA::set_compliance(e, &compliance);
    }

    fn compliance(e: &Env) -> Address {
        RWA::compliance(e)
    }

    fn set_identity_verifier(e: &Env, identity_verifier: Address, operator: Address) {
        operator.require_auth();
        RWA::set_identity_verifier(e, &identity_verifier);
    }

    fn identity_verifier(e: &Env) -> Address {
        RWA::identity_verifier(e)
    }
}

/// one read-only entry point that reads the whole public state through the library getters
/// (a trap in any of them makes the harness fall back to one try-call per getter)
#[contractimpl]
impl Tok {
    pub fn obs(e: &Env, addrs: Vec<Address>) -> (bool, i128, Vec<(i128, i128, bool)>, Vec<i128>) {
        let mut accts: Vec<(i128, i128, bool)> = Vec::new(e);
        let mut allow: Vec<i128> = Vec::new(e);
        for a in addrs.iter() {
            // the PUBLIC getters of the contract: the FungibleToken / RWAToken / Pausable trait methods
            accts.push_back((
                <Tok as FungibleToken>::balance(e, a.clone()),
                <Tok as RWAToken>::get_frozen_tokens(e, a.clone()),
                <Tok as RWAToken>::is_frozen(e, a.clone()),
            ));
            for s in addrs.iter() { allow.push_back(<Tok as FungibleToken>::allowance(e, a.clone(), s.clone())); }
        }
        (<Tok as Pausable>::paused(e), <Tok as FungibleToken>::total_supply(e), accts, allow)
    }
}

const CMP0: u64 = 50; // the compliance contracts are numbered 50, 51
const IDV0: u64 = 60; // the identity verifiers 60, 61

// ---------------------------------------------------------------- calls
#[derive(Clone, Debug)]
enum Op {
    Transfer(usize, usize, i128),
    TransferMux(usize, usize, u64, i128), // from, to (an account-type address), mux id, amount: the destination is sent as a MuxedAddress with an id
    TransferFrom(usize, usize, usize, i128), // spender, from, to
    Approve(usize, usize, i128, u32),
    Mint(usize, i128, usize),
    Burn(usize, i128, usize),
    Forced(usize, usize, i128, usize),
    Recover(usize, usize, usize),
    SetFrozen(usize, bool, usize),
    Freeze(usize, i128, usize),
    Unfreeze(usize, i128, usize),
    Pause(usize),
    Unpause(usize),
    SetCompliance(usize, usize), // which instance, operator
    SetIdv(usize, usize),
    Advance(u32),
}

#[derive(Clone, Debug)]
struct Orc {
    verified: std::vec::Vec<usize>,
    ct: bool,
    cc: bool,
    rec: std::vec::Vec<(usize, usize)>,
    /// HOW the collaborators deliver a negative answer (not part of the model: every flavour is "no"):
    /// compliance 0 returns false / 1 contract error / 2 trap / 3 non-bool value;
    /// verifier: odd = plain trap instead of a contract error, >= 2 = recovery_target traps instead of None
    flav: u32,
}

impl Op {
    fn kind(&self) -> &'static str {
        match self {
            Op::Transfer(..) | Op::TransferMux(..) => "transfer",
            Op::TransferFrom(..) => "transfer_from",
            Op::Approve(..) => "approve",
            Op::Mint(..) => "mint",
            Op::Burn(..) => "burn",
            Op::Forced(..) => "forced_transfer",
            Op::Recover(..) => "recover_balance",
            Op::SetFrozen(..) => "set_address_frozen",
            Op::Freeze(..) => "freeze",
            Op::Unfreeze(..) => "unfreeze",
            Op::Pause(..) => "pause",
            Op::Unpause(..) => "unpause",
            Op::SetCompliance(..) => "set_compliance",
            Op::SetIdv(..) => "set_identity_verifier",
            Op::Advance(..) => "advance",
        }
    }
    /// the address whose authorisation the entry point requires
    fn signer(&self) -> Option<usize> {
        match *self {
            Op::Transfer(f, _, _) | Op::TransferMux(f, _, _, _) => Some(f),
            Op::TransferFrom(s, _, _, _) => Some(s),
            Op::Approve(o, _, _, _) => Some(o),
            Op::Mint(_, _, o) | Op::Burn(_, _, o) | Op::Forced(_, _, _, o) | Op::Recover(_, _, o) | Op::SetFrozen(_, _, o)
            | Op::Freeze(_, _, o) | Op::Unfreeze(_, _, o) | Op::Pause(o) | Op::Unpause(o) | Op::SetCompliance(_, o) | Op::SetIdv(_, o) => Some(o),
            Op::Advance(_) => None,
        }
    }
    fn coq(&self) -> std::string::String {
        let a = |i: usize| n(i as u64);
        match *self {
            // the mux id is printed with the item (IMux / SIMux): the model's entry point drops it
            Op::Transfer(f, t, m) | Op::TransferMux(f, t, _, m) => format!("Transfer {} {} {}", a(f), a(t), z(m)),
            Op::TransferFrom(s, f, t, m) => format!("TransferFrom {} {} {} {}", a(s), a(f), a(t), z(m)),
            Op::Approve(o, s, m, l) => format!("Approve {} {} {} {}", a(o), a(s), z(m), l),
            Op::Mint(t, m, o) => format!("Mint {} {} {}", a(t), z(m), a(o)),
            Op::Burn(t, m, o) => format!("Burn {} {} {}", a(t), z(m), a(o)),
            Op::Forced(f, t, m, o) => format!("ForcedTransfer {} {} {} {}", a(f), a(t), z(m), a(o)),
            Op::Recover(x, y, o) => format!("RecoverBalance {} {} {}", a(x), a(y), a(o)),
            Op::SetFrozen(x, v, o) => format!("SetAddressFrozen {} {} {}", a(x), b(v), a(o)),
            Op::Freeze(x, m, o) => format!("Freeze {} {} {}", a(x), z(m), a(o)),
            Op::Unfreeze(x, m, o) => format!("Unfreeze {} {} {}", a(x), z(m), a(o)),
            Op::Pause(o) => format!("Pause {}", a(o)),
            Op::Unpause(o) => format!("Unpause {}", a(o)),
            Op::SetCompliance(k, o) => format!("SetCompliance {} {}", n(CMP0 + k as u64), a(o)),
            Op::SetIdv(k, o) => format!("SetIdentityVerifier {} {}", n(IDV0 + k as u64), a(o)),
            Op::Advance(k) => format!("Advance {}", k),
        }
    }
}

impl Op {
    fn mux(&self) -> Option<u64> { if let Op::TransferMux(_, _, id, _) = *self { Some(id) } else { None } }
}

impl Orc {
    fn open(nu: usize) -> Orc { Orc { verified: (0..nu).collect(), ct: true, cc: true, rec: vec![], flav: 0 } }
    fn flav(mut self, f: u32) -> Orc { self.flav = f; self }
    fn coq(&self) -> std::string::String {
        let v: std::vec::Vec<_> = self.verified.iter().map(|&i| n(i as u64)).collect();
        let r: std::vec::Vec<_> = self.rec.iter().map(|&(x, y)| pair(&n(x as u64), &n(y as u64))).collect();
        format!("(mkOracle {} {} {} {})", list(&v), b(self.ct), b(self.cc), list(&r))
    }
}

// ---------------------------------------------------------------- the world: one Env per trace
#[derive(Clone, Default)]
struct Mirror {
    now: u32,
    paused: bool,
    supply: i128,
    bal: std::vec::Vec<i128>,
    frz: std::vec::Vec<i128>,
    flag: std::vec::Vec<bool>,
    allow: std::vec::Vec<i128>, // row-major owner x spender
    cmp_set: bool,
    idv_set: bool,
}

struct World {
    e: Env,
    tok: Address,
    idvs: std::vec::Vec<Address>, // two identity verifiers (60, 61): the token must ask the one it currently points at
    cmps: std::vec::Vec<Address>, // two compliance contracts (50, 51)
    addrs: std::vec::Vec<Address>,
    m: Mirror,
    min_temp: u32,
    max_ttl: u32,
    items: std::vec::Vec<std::string::String>,
    trapped_reads: u64,
    real: bool, // the collaborators are real contracts (stack family): no mock tables, no mock logs
    nsign: usize, // addresses 0..nsign can sign; later ones (the token itself, the account-type address) never do
}

/// an account-type (G...) address: the only kind a MuxedAddress with an id can be built on
fn account_address(e: &Env, seed: u8) -> Address {
    let sc = xdr::ScAddress::Account(xdr::AccountId(xdr::PublicKey::PublicKeyTypeEd25519(xdr::Uint256([seed; 32]))));
    Address::try_from_val(e, &xdr::ScVal::Address(sc)).unwrap()
}

impl World {
    fn new(nu: usize, min_temp: u32, max_ttl: u32) -> World {
        let e = Env::default();
        e.cost_estimate().budget().reset_unlimited();
        e.cost_estimate().disable_resource_limits();
        e.ledger().with_mut(|l| {
            l.sequence_number = 0;
            l.min_temp_entry_ttl = min_temp;
            l.min_persistent_entry_ttl = 4096.min(max_ttl);
            l.max_entry_ttl = max_ttl;
        });
        let tok = e.register(Tok, ());
        let idvs: std::vec::Vec<Address> = (0..2).map(|_| e.register(MockIdv, ())).collect();
        let cmps: std::vec::Vec<Address> = (0..2).map(|_| e.register(MockCmp, ())).collect();
        for c in &cmps { e.as_contract(c, || e.storage().instance().set(&symbol_short!("tok"), &tok)); }
        let addrs: std::vec::Vec<Address> = (0..nu).map(|_| Address::generate(&e)).collect();
        let m = Mirror { bal: vec![0; nu], frz: vec![0; nu], flag: vec![false; nu], allow: vec![0; nu * nu], ..Default::default() };
        World { e, tok, idvs, cmps, addrs, m, min_temp, max_ttl, items: vec![], trapped_reads: 0, real: false, nsign: nu }
    }
    /// one more party that never signs (before the first call): returns its index
    fn push_party(&mut self, a: Address) -> usize {
        assert!(self.items.is_empty());
        self.addrs.push(a);
        let n = self.addrs.len();
        self.m.bal.push(0); self.m.frz.push(0); self.m.flag.push(false); self.m.allow = vec![0; n * n];
        n - 1
    }
    /// the account-type address (possible destination of muxed transfers) joins the universe
    fn push_account(&mut self) -> usize { let a = account_address(&self.e, 7); self.push_party(a) }
    fn nu(&self) -> usize { self.addrs.len() }
    fn idx(&self, a: &Address) -> u64 {
        match self.addrs.iter().position(|x| x == a) { Some(i) => i as u64, None => 999 }
    }
    fn free(&self, i: usize) -> i128 { self.m.bal[i].saturating_sub(self.m.frz[i]) }
    fn allowance(&self, o: usize, s: usize) -> i128 { self.m.allow[o * self.nu() + s] }

    /// the answer tables of the two instances of each collaborator (instance k answers by `os[k]`) + empty logs
    fn set_oracle(&self, os: [&Orc; 2]) {
        let e = &self.e;
        for k in 0..2 {
            let o = os[k];
            e.as_contract(&self.idvs[k], || {
                let mut v: Vec<Address> = Vec::new(e);
                for &i in &o.verified { v.push_back(self.addrs[i].clone()); }
                let mut r: Map<Address, Address> = Map::new(e);
                for &(x, y) in &o.rec { r.set(self.addrs[x].clone(), self.addrs[y].clone()); }
                e.storage().instance().set(&symbol_short!("ver"), &v);
                e.storage().instance().set(&symbol_short!("rec"), &r);
                e.storage().instance().set(&symbol_short!("fl"), &o.flav);
                e.storage().instance().set(&symbol_short!("log"), &Vec::<(u32, Address)>::new(e));
            });
            e.as_contract(&self.cmps[k], || {
                e.storage().instance().set(&symbol_short!("ct"), &o.ct);
                e.storage().instance().set(&symbol_short!("cc"), &o.cc);
                e.storage().instance().set(&symbol_short!("fl"), &o.flav);
                e.storage().instance().set(&symbol_short!("log"), &Vec::<(u32, Address, Address, i128, bool)>::new(e));
            });
        }
    }

    fn invocation(&self, op: &Op) -> Option<(&'static str, Vec<Val>)> {
        let e = &self.e;
        let a = |i: usize| self.addrs[i].clone();
        Some(match *op {
            Op::Transfer(f, t, m) => ("transfer", (a(f), MuxedAddress::from(a(t)), m).into_val(e)),
            Op::TransferMux(f, t, id, m) => ("transfer", (a(f), MuxedAddress::new(a(t), id), m).into_val(e)),
            Op::TransferFrom(s, f, t, m) => ("transfer_from", (a(s), a(f), a(t), m).into_val(e)),
            Op::Approve(o, s, m, l) => ("approve", (a(o), a(s), m, l).into_val(e)),
            Op::Mint(t, m, o) => ("mint", (a(t), m, a(o)).into_val(e)),
            Op::Burn(t, m, o) => ("burn", (a(t), m, a(o)).into_val(e)),
            Op::Forced(f, t, m, o) => ("forced_transfer", (a(f), a(t), m, a(o)).into_val(e)),
            Op::Recover(x, y, o) => ("recover_balance", (a(x), a(y), a(o)).into_val(e)),
            Op::SetFrozen(x, v, o) => ("set_address_frozen", (a(x), v, a(o)).into_val(e)),
            Op::Freeze(x, m, o) => ("freeze_partial_tokens", (a(x), m, a(o)).into_val(e)),
            Op::Unfreeze(x, m, o) => ("unfreeze_partial_tokens", (a(x), m, a(o)).into_val(e)),
            Op::Pause(o) => ("pause", (a(o),).into_val(e)),
            Op::Unpause(o) => ("unpause", (a(o),).into_val(e)),
            Op::SetCompliance(k, o) => ("set_compliance", (self.cmps[k].clone(), a(o)).into_val(e)),
            Op::SetIdv(k, o) => ("set_identity_verifier", (self.idvs[k].clone(), a(o)).into_val(e)),
            Op::Advance(_) => return None,
        })
    }

    /// a read that can never abort the harness: a trap in the code under test becomes None
    fn try_get<T: TryFromVal<Env, Val>>(&self, f: &str, args: Vec<Val>) -> Option<T> {
        match self.e.try_invoke_contract::<Val, soroban_sdk::Error>(&self.tok, &Symbol::new(&self.e, f), args) {
            Ok(Ok(v)) => T::try_from_val(&self.e, &v).ok(),
            _ => None,
        }
    }

    /// full observation of the public state for the whole universe + the mocks' logs.
    /// Every read is a try-call; a getter that traps yields a sentinel (-1) that diff and monitor flag.
    fn observe(&mut self) -> std::string::String {
        let e = &self.e.clone();
        let nu = self.nu();
        let mut m = self.m.clone();
        let av: Vec<Address> = Vec::from_slice(e, &self.addrs);
        match self.try_get::<(bool, i128, Vec<(i128, i128, bool)>, Vec<i128>)>("obs", (av,).into_val(e)) {
            Some((p, sup, ac, al)) => {
                m.paused = p;
                m.supply = sup;
                for i in 0..nu { let (x, y, zf) = ac.get(i as u32).unwrap(); m.bal[i] = x; m.frz[i] = y; m.flag[i] = zf; }
                for k in 0..nu * nu { m.allow[k] = al.get(k as u32).unwrap(); }
            }
            None => {
                let none: Vec<Val> = Vec::new(e);
                let mut trapped = false;
                match self.try_get::<bool>("paused", none.clone()) { Some(p) => m.paused = p, None => trapped = true }
                m.supply = self.try_get::<i128>("total_supply", none.clone()).unwrap_or(-1);
                for i in 0..nu {
                    let a = self.addrs[i].clone();
                    m.bal[i] = self.try_get::<i128>("balance", (a.clone(),).into_val(e)).unwrap_or(-1);
                    m.frz[i] = self.try_get::<i128>("get_frozen_tokens", (a.clone(),).into_val(e)).unwrap_or(-1);
                    match self.try_get::<bool>("is_frozen", (a.clone(),).into_val(e)) { Some(f) => m.flag[i] = f, None => { m.flag[i] = false; m.frz[i] = -1; } }
                    for j in 0..nu {
                        m.allow[i * nu + j] = self.try_get::<i128>("allowance", (a.clone(), self.addrs[j].clone()).into_val(e)).unwrap_or(-1);
                    }
                }
                if trapped { m.frz[0] = -1; }
                self.trapped_reads += 1;
            }
        }
        let none: Vec<Val> = Vec::new(e);
        // the links, as the public getters report them (None = the getter traps)
        let link = |x: Option<Address>, insts: &std::vec::Vec<Address>, base: u64| -> std::string::String {
            match x { None => "None".to_string(), Some(a) => format!("(Some {})", n(insts.iter().position(|y| *y == a).map(|k| base + k as u64).unwrap_or(999))) }
        };
        let cmp_at = link(self.try_get::<Address>("compliance", none.clone()), &self.cmps, CMP0);
        let idv_at = link(self.try_get::<Address>("identity_verifier", none), &self.idvs, IDV0);
        // the logs of BOTH instances of each collaborator, and which instance it was that logged
        let mut ilog: Vec<(u32, Address)> = Vec::new(e);
        let mut clog: Vec<(u32, Address, Address, i128, bool)> = Vec::new(e);
        let (mut ifrom, mut cfrom): (Option<u64>, Option<u64>) = (None, None);
        if !self.real {
            for k in 0..self.idvs.len() {
                let l: Vec<(u32, Address)> = e.as_contract(&self.idvs[k], || e.storage().instance().get(&symbol_short!("log")).unwrap_or(Vec::new(e)));
                if !l.is_empty() { ifrom = Some(if ifrom.is_some() { 999 } else { IDV0 + k as u64 }); ilog.append(&l); }
            }
            for k in 0..self.cmps.len() {
                let l: Vec<(u32, Address, Address, i128, bool)> = e.as_contract(&self.cmps[k], || e.storage().instance().get(&symbol_short!("log")).unwrap_or(Vec::new(e)));
                if !l.is_empty() { cfrom = Some(if cfrom.is_some() { 999 } else { CMP0 + k as u64 }); clog.append(&l); }
            }
        }
        let from = |x: Option<u64>| match x { None => "None".to_string(), Some(v) => format!("(Some {})", n(v)) };
        let accts: std::vec::Vec<_> = (0..nu).map(|i| format!("({}, {}, {})", z(m.bal[i]), z(m.frz[i]), b(m.flag[i]))).collect();
        let allow: std::vec::Vec<_> = m.allow.iter().map(|&v| z(v)).collect();
        let il: std::vec::Vec<_> = ilog.iter().map(|(k, a)| {
            if k == 0 { format!("QVerify {}", n(self.idx(&a))) } else { format!("QRecovery {}", n(self.idx(&a))) }
        }).collect();
        let cl: std::vec::Vec<_> = clog.iter().map(|(k, a, bb, amt, ok)| {
            if !ok { return "CBadToken".to_string(); }
            match k {
                0 => format!("QCanTransfer {} {} {}", n(self.idx(&a)), n(self.idx(&bb)), z(amt)),
                1 => format!("QCanCreate {} {}", n(self.idx(&a)), z(amt)),
                2 => format!("NTransferred {} {} {}", n(self.idx(&a)), n(self.idx(&bb)), z(amt)),
                3 => format!("NCreated {} {}", n(self.idx(&a)), z(amt)),
                _ => format!("NDestroyed {} {}", n(self.idx(&a)), z(amt)),
            }
        }).collect();
        self.m = m;
        format!("(mkObs {} {} {} {} {} {} {} {} {} {})", b(self.m.paused), z(self.m.supply), list(&accts), list(&allow), list(&il), list(&cl), cmp_at, idv_at, from(cfrom), from(ifrom))
    }

    /// execute one call with the exact authorisation set `auths` and the collaborators' answers `orc`
    fn exec(&mut self, out: &mut Out, op: &Op, auths: &[usize], orc: &Orc) -> bool { self.exec2(out, op, auths, orc, None) }

    /// `orc` = the answers of the collaborators 50 / 60, `orc_b` = those of 51 / 61 (None = the same)
    fn exec2(&mut self, out: &mut Out, op: &Op, auths: &[usize], orc: &Orc, orc_b: Option<&Orc>) -> bool {
        self.set_oracle([orc, orc_b.unwrap_or(orc)]);
        let (ok, outcome) = self.run_op(op, auths);
        let obs = self.observe();
        let au: std::vec::Vec<_> = auths.iter().map(|&i| n(i as u64)).collect();
        let oc = match orc_b { None => format!("(orc1 {})", orc.coq()), Some(ob) => format!("(orc2 {} {})", orc.coq(), ob.coq()) };
        let call = format!("(mkCall ({}) {} {})", op.coq(), list(&au), oc);
        out.case(&format!("{}/{}", op.kind(), if ok { "ok" } else { "fail" }), &call);
        match op.mux() {
            None => self.items.push(format!("I {} {} {}", call, outcome, obs)),
            Some(id) => {
                out.label(&format!("transfer-muxed/{}", if ok { "ok" } else { "fail" }));
                self.items.push(format!("IMux {} {} {} {}", z(id as i128), call, outcome, obs));
            }
        }
        ok
    }

    /// invoke the entry point with exactly the authorisations of `auths`
    fn run_op(&mut self, op: &Op, auths: &[usize]) -> (bool, std::string::String) {
        let (ok, outcome) = match self.invocation(op) {
            None => {
                let k = if let Op::Advance(k) = op { *k } else { 0 };
                self.e.ledger().with_mut(|l| l.sequence_number += k);
                self.m.now += k;
                (true, "(Ok None)".to_string())
            }
            Some((fname, args)) => {
                let e = &self.e;
                assert!(auths.iter().all(|&i| i < self.nsign), "only the first nsign addresses can sign");
                let invs: std::vec::Vec<MockAuthInvoke> = auths.iter().map(|_| MockAuthInvoke {
                    contract: &self.tok, fn_name: fname, args: args.clone(), sub_invokes: &[],
                }).collect();
                let mas: std::vec::Vec<MockAuth> = auths.iter().zip(invs.iter()).map(|(&i, inv)| MockAuth { address: &self.addrs[i], invoke: inv }).collect();
                e.mock_auths(&mas);
                let r = e.try_invoke_contract::<Val, soroban_sdk::Error>(&self.tok, &Symbol::new(e, fname), args.clone());
                e.mock_auths(&[]);
                match r {
                    Ok(Ok(v)) => {
                        if let Op::Recover(..) = op {
                            let bv = bool::try_from_val(e, &v).expect("recover_balance returns bool");
                            (true, format!("(Ok (Some {}))", b(bv)))
                        } else { (true, "(Ok None)".to_string()) }
                    }
                    _ => (false, "Fail".to_string()),
                }
            }
        };
        if ok {
            match op { Op::SetCompliance(..) => self.m.cmp_set = true, Op::SetIdv(..) => self.m.idv_set = true, _ => {} }
        }
        (ok, outcome)
    }

    /// call with the needed signer and fully open collaborators
    fn exec_plain(&mut self, out: &mut Out, op: &Op) -> bool {
        let au: std::vec::Vec<usize> = op.signer().into_iter().filter(|&i| i < self.nsign).collect();
        let orc = Orc::open(self.nu());
        self.exec(out, op, &au, &orc)
    }

    fn finish(self, out: &mut Out, desc: &str) {
        let univ: std::vec::Vec<_> = (0..self.nu()).map(|i| n(i as u64)).collect();
        let term = format!("mkTrace (Build_hostcfg {} {}) {} {}", self.min_temp, self.max_ttl, list(&univ), list(&self.items));
        let k = self.items.len();
        if self.trapped_reads > 0 { out.label("observation/getter-trapped"); }
        out.trace(desc, term, k);
    }
}

// ---------------------------------------------------------------- generators
const MAXTTL: u32 = 6_312_000;
/// boundary catalogue of mux ids (u64)
const MUX_IDS: [u64; 5] = [0, 1, 7, u64::MAX - 1, u64::MAX];

fn setup_std(w: &mut World, out: &mut Out, adv: u32) {
    w.exec_plain(out, &Op::Advance(adv));
    w.exec_plain(out, &Op::SetCompliance(0, 0));
    w.exec_plain(out, &Op::SetIdv(0, 0));
}

/// exhaustive gate vector for one entry point: bit0 paused, bit1 from frozen, bit2 to frozen,
/// bit3 partial freeze above the amount, bit4 from unverified, bit5 to unverified, bit6 compliance denies
/// mode 0 = transfer, 1 = transfer_from, 2 = transfer to a MUXED destination (the receiver is the account-type address)
fn gate_trace(out: &mut Out, rng: &mut Rng, mode: u32, bits: u32) {
    let via_allowance = mode == 1;
    let mut w = World::new(4, 1, MAXTTL);
    let (a, mut bb, s, adm) = (0usize, 1usize, 2usize, 3usize);
    if mode == 2 { bb = w.push_account(); }
    let nu = w.nu();
    setup_std(&mut w, out, rng.below(50) as u32);
    w.exec_plain(out, &Op::Mint(a, 100, adm));
    if rng.chance(1, 2) { w.exec_plain(out, &Op::Mint(bb, 10, adm)); }
    if via_allowance { let l = w.m.now + 1 + rng.below(100) as u32; w.exec_plain(out, &Op::Approve(a, s, 1000, l)); }
    let closed_partial = bits & 8 != 0;
    // free = 100 - frozen; amount on the boundary of free
    let frozen = if closed_partial { 80 } else { 30 };
    w.exec_plain(out, &Op::Freeze(a, frozen, adm));
    let free = 100 - frozen;
    let amt = if closed_partial { if rng.chance(1, 2) { free + 1 } else { 50 } } else if rng.chance(1, 2) { free } else { 50 };
    if bits & 2 != 0 { w.exec_plain(out, &Op::SetFrozen(a, true, adm)); }
    if bits & 4 != 0 { w.exec_plain(out, &Op::SetFrozen(bb, true, adm)); }
    if bits & 1 != 0 { w.exec_plain(out, &Op::Pause(adm)); }
    let mut orc = Orc::open(nu);
    if bits & 16 != 0 { orc.verified.retain(|&x| x != a); }
    if bits & 32 != 0 { orc.verified.retain(|&x| x != bb); }
    if bits & 64 != 0 { orc.ct = false; orc.flav = rng.below(4) as u32; }
    let (op, au) = match mode {
        1 => (Op::TransferFrom(s, a, bb, amt), vec![s]),
        2 => (Op::TransferMux(a, bb, *rng.pick(&MUX_IDS), amt), vec![a]),
        _ => (Op::Transfer(a, bb, amt), vec![a]),
    };
    let ok = w.exec(out, &op, &au, &orc);
    let ep = ["transfer", "transfer_from", "transfer_muxed"][mode as usize];
    if bits == 0 { out.label(&format!("gate/{}/all-open/{}", ep, if ok { "ok" } else { "fail" })); }
    if bits.count_ones() == 1 {
        let nm = ["paused", "from-frozen", "to-frozen", "partial-freeze", "from-unverified", "to-unverified", "compliance-denies"][bits.trailing_zeros() as usize];
        out.label(&format!("gate/{}/only-{}/{}", ep, nm, if ok { "ok" } else { "fail" }));
    }
    // reopen every gate: the very same movement must now go through
    if bits & 1 != 0 { w.exec_plain(out, &Op::Unpause(adm)); }
    if bits & 2 != 0 { w.exec_plain(out, &Op::SetFrozen(a, false, adm)); }
    if bits & 4 != 0 { w.exec_plain(out, &Op::SetFrozen(bb, false, adm)); }
    if closed_partial { w.exec_plain(out, &Op::Unfreeze(a, 50, adm)); }
    w.exec_plain(out, &op);
    w.finish(out, &format!("gates/{}/{:07b}", ep, bits));
}

fn directed(out: &mut Out) {
    let nu = 4;
    let adm = 3usize;
    // F1 history: freeze 80 of 100, approve, transfer_from 50 (pre-fix: succeeded, frozen 80 > balance 50)
    {
        let mut w = World::new(nu, 1, MAXTTL);
        setup_std(&mut w, out, 10);
        w.exec_plain(out, &Op::Mint(0, 100, adm));
        w.exec_plain(out, &Op::Freeze(0, 80, adm));
        w.exec_plain(out, &Op::Approve(0, 2, 1000, 500));
        w.exec_plain(out, &Op::TransferFrom(2, 0, 1, 50));
        w.exec_plain(out, &Op::SetFrozen(0, true, adm));
        w.exec_plain(out, &Op::TransferFrom(2, 0, 1, 10));
        w.exec_plain(out, &Op::SetFrozen(0, false, adm));
        w.exec_plain(out, &Op::Pause(adm));
        w.exec_plain(out, &Op::TransferFrom(2, 0, 1, 10));
        w.exec_plain(out, &Op::Transfer(0, 1, 10));
        w.exec_plain(out, &Op::Unpause(adm));
        w.exec_plain(out, &Op::TransferFrom(2, 0, 1, 20));
        w.exec_plain(out, &Op::TransferFrom(2, 0, 1, 1));
        w.finish(out, "directed/F1-history");
    }
    // supervisory operations unfreeze only the minimum: boundaries of free / balance
    for (k, amt) in [(0, 19i128), (1, 20), (2, 21), (3, 100), (4, 101), (5, 0), (6, -1)] {
        for burn in [false, true] {
            let mut w = World::new(nu, 1, MAXTTL);
            setup_std(&mut w, out, 3);
            w.exec_plain(out, &Op::Mint(0, 100, adm));
            w.exec_plain(out, &Op::Mint(1, 7, adm));
            w.exec_plain(out, &Op::Freeze(0, 80, adm));
            w.exec_plain(out, &Op::Freeze(1, 7, adm));
            if k % 2 == 0 { w.exec_plain(out, &Op::SetFrozen(0, true, adm)); w.exec_plain(out, &Op::Pause(adm)); }
            if burn { w.exec_plain(out, &Op::Burn(0, amt, adm)); } else { w.exec_plain(out, &Op::Forced(0, 1, amt, adm)); }
            if burn { w.exec_plain(out, &Op::Burn(0, 1, adm)); } else { w.exec_plain(out, &Op::Forced(0, 0, 50, adm)); }
            w.exec_plain(out, &Op::Forced(1, 0, 7, adm));
            w.finish(out, &format!("directed/min-unfreeze/{}/{}", if burn { "burn" } else { "forced" }, amt));
        }
    }
    // recovery
    for variant in 0..10u32 {
        let mut w = World::new(nu, 1, MAXTTL);
        setup_std(&mut w, out, 1);
        w.exec_plain(out, &Op::Mint(0, 100, adm));
        w.exec_plain(out, &Op::Mint(1, 40, adm));
        w.exec_plain(out, &Op::Freeze(0, 60, adm));
        w.exec_plain(out, &Op::Freeze(1, 15, adm));
        if variant % 2 == 0 { w.exec_plain(out, &Op::SetFrozen(0, true, adm)); }
        if variant == 7 { w.exec_plain(out, &Op::Pause(adm)); }
        let mut orc = Orc::open(nu);
        orc.rec = vec![(0, 1), (2, 1)];
        let (old, new) = match variant {
            0 | 1 | 7 => (0, 1),
            2 => (0, 2),                       // not the registered target
            3 => { orc.rec = vec![]; (0, 1) }  // no target registered
            4 => { orc.verified.retain(|&x| x != 1); (0, 1) } // new account unverified
            5 => (2, 1),                       // nothing to recover
            6 => { orc.rec = vec![(0, 0)]; (0, 0) } // old = new
            8 => { orc.ct = false; orc.cc = false; orc.verified = vec![1]; (0, 1) } // compliance is not consulted
            _ => { orc.rec = vec![(1, 0)]; (1, 0) }
        };
        w.exec(out, &Op::Recover(old, new, adm), &[adm], &orc);
        w.exec(out, &Op::Recover(old, new, adm), &[adm], &orc);
        w.exec_plain(out, &Op::Transfer(1, 2, 1));
        w.finish(out, &format!("directed/recovery/{}", variant));
    }
    // aliasing, negative amounts, allowance expiry, i128 extremes, collaborators not configured
    {
        let mut w = World::new(nu, 1, MAXTTL);
        setup_std(&mut w, out, 7);
        w.exec_plain(out, &Op::Mint(0, 100, adm));
        w.exec_plain(out, &Op::Freeze(0, 40, adm));
        w.exec_plain(out, &Op::Transfer(0, 0, 60));
        w.exec_plain(out, &Op::Transfer(0, 0, 61));
        w.exec_plain(out, &Op::Transfer(0, 1, -1));
        w.exec_plain(out, &Op::Approve(0, 0, 70, 20));
        w.exec_plain(out, &Op::TransferFrom(0, 0, 0, 60));
        w.exec_plain(out, &Op::TransferFrom(0, 0, 1, 11));
        w.exec_plain(out, &Op::TransferFrom(0, 0, 1, 10));
        w.exec_plain(out, &Op::Forced(0, 0, 90, adm));
        w.exec_plain(out, &Op::Forced(0, 1, -5, adm));
        w.exec_plain(out, &Op::Burn(0, -5, adm));
        w.exec_plain(out, &Op::Mint(0, -5, adm));
        w.exec_plain(out, &Op::Freeze(0, -1, adm));
        w.exec_plain(out, &Op::Unfreeze(0, -1, adm));
        w.exec_plain(out, &Op::Approve(0, 2, -1, 100));
        w.finish(out, "directed/aliasing-negative");
    }
    for min_temp in [1u32, 16] {
        let mut w = World::new(nu, min_temp, MAXTTL);
        setup_std(&mut w, out, 100);
        w.exec_plain(out, &Op::Mint(0, 100, adm));
        w.exec_plain(out, &Op::Approve(0, 2, 50, 105));
        w.exec_plain(out, &Op::Approve(0, 1, 0, 99));       // amount 0 with a past ledger is accepted
        w.exec_plain(out, &Op::Approve(0, 1, 1, 99));       // amount > 0 is not
        w.exec_plain(out, &Op::Approve(0, 1, 1, 100 + MAXTTL - 1));
        w.exec_plain(out, &Op::Approve(0, 1, 1, 100 + MAXTTL));
        w.exec_plain(out, &Op::Advance(5));
        w.exec_plain(out, &Op::TransferFrom(2, 0, 1, 10));
        w.exec_plain(out, &Op::Approve(0, 2, 40, 104));     // cannot re-approve in the past
        w.exec_plain(out, &Op::Advance(1));
        w.exec_plain(out, &Op::TransferFrom(2, 0, 1, 10));  // expired
        w.exec_plain(out, &Op::TransferFrom(2, 0, 1, 0));
        w.exec_plain(out, &Op::Approve(0, 2, 30, 200));
        w.exec_plain(out, &Op::Approve(0, 2, 20, 110));     // shorter lifetime over a live entry
        w.exec_plain(out, &Op::Advance(5));
        w.exec_plain(out, &Op::TransferFrom(2, 0, 1, 20));
        w.exec_plain(out, &Op::Advance(30));
        w.exec_plain(out, &Op::Approve(0, 2, 20, 150));
        w.exec_plain(out, &Op::Advance(10));
        w.exec_plain(out, &Op::TransferFrom(2, 0, 1, 5));
        w.finish(out, &format!("directed/allowance-expiry/min-temp-{}", min_temp));
    }
    {
        let mut w = World::new(nu, 1, MAXTTL);
        setup_std(&mut w, out, 0);
        w.exec_plain(out, &Op::Mint(0, i128::MAX - 1, adm));
        w.exec_plain(out, &Op::Mint(1, 2, adm));
        w.exec_plain(out, &Op::Mint(1, 1, adm));
        w.exec_plain(out, &Op::Mint(1, 1, adm));
        w.exec_plain(out, &Op::Freeze(0, i128::MAX - 1, adm));
        w.exec_plain(out, &Op::Freeze(0, 1, adm));
        w.exec_plain(out, &Op::Freeze(0, i128::MAX, adm));
        w.exec_plain(out, &Op::Forced(0, 1, i128::MAX - 1, adm));
        w.exec_plain(out, &Op::Transfer(1, 0, i128::MAX));
        w.exec_plain(out, &Op::Burn(1, i128::MIN, adm));
        w.exec_plain(out, &Op::Transfer(1, 0, i128::MIN));
        w.exec_plain(out, &Op::Burn(1, i128::MAX, adm));
        w.finish(out, "directed/i128-extremes");
    }
    for which in 0..3 {
        let mut w = World::new(nu, 1, MAXTTL);
        w.exec_plain(out, &Op::Advance(2));
        if which == 1 { w.exec_plain(out, &Op::SetCompliance(0, 0)); }
        if which == 2 { w.exec_plain(out, &Op::SetIdv(0, 0)); }
        w.exec_plain(out, &Op::Mint(0, 100, adm));
        w.exec_plain(out, &Op::Freeze(0, 10, adm));
        w.exec_plain(out, &Op::SetFrozen(1, true, adm));
        w.exec_plain(out, &Op::Pause(adm));
        w.exec_plain(out, &Op::Pause(adm));
        w.exec_plain(out, &Op::Unpause(adm));
        w.exec_plain(out, &Op::Unpause(adm));
        w.exec_plain(out, &Op::SetIdv(1, 1));
        w.exec_plain(out, &Op::Mint(0, 100, adm));
        w.exec_plain(out, &Op::Transfer(0, 2, 5));
        w.exec_plain(out, &Op::Burn(0, 5, adm));
        w.exec_plain(out, &Op::SetCompliance(1, 1));
        w.exec_plain(out, &Op::Mint(0, 100, adm));
        w.exec_plain(out, &Op::Transfer(0, 2, 5));
        w.exec_plain(out, &Op::Burn(0, 5, adm));
        w.finish(out, &format!("directed/collaborators-not-set/{}", which));
    }
}

/// ledger gaps: short ones, and long ones during which nothing reads the state
/// (a day is 17280 ledgers; the library extends persistent entries to 30 days = 518400 ledgers)
fn long_gap(rng: &mut Rng) -> u32 {
    match rng.below(12) {
        0 => 0, 1 => 1, 2 => rng.below(40) as u32, 3 => rng.below(3000) as u32,
        4 => 20, 5 => 100, 6 => 17_281, 7 => 20_000, 8 | 9 => 600_000, _ => 4_000_000,
    }
}

/// every stored item of the token must survive a gap of any length during which nobody touches it
fn persistence(out: &mut Out) {
    let nu = 4;
    let adm = 3usize;
    for (min_temp, max_ttl) in [(1u32, MAXTTL), (16, 1_000_000), (16, 5000)] {
        for gap in [20u32, 100, 17_281, 20_000, 600_000, 4_000_000] {
            let mut w = World::new(nu, min_temp, max_ttl);
            setup_std(&mut w, out, 5);
            w.exec_plain(out, &Op::Mint(0, 100, adm));
            w.exec_plain(out, &Op::Mint(1, 40, adm));
            w.exec_plain(out, &Op::Freeze(0, 60, adm));
            w.exec_plain(out, &Op::SetFrozen(1, true, adm));
            let live = (w.m.now as u64 + gap as u64 + 10).min(w.m.now as u64 + max_ttl as u64 - 1) as u32;
            w.exec_plain(out, &Op::Approve(0, 2, 50, live));
            w.exec_plain(out, &Op::Pause(adm));
            w.exec_plain(out, &Op::Advance(gap));            // ONE step; nothing is read in between
            w.exec_plain(out, &Op::Transfer(0, 2, 1));       // still paused
            w.exec_plain(out, &Op::Unpause(adm));
            w.exec_plain(out, &Op::Transfer(1, 2, 1));       // 1 is still address-frozen
            w.exec_plain(out, &Op::Transfer(2, 1, 0));
            w.exec_plain(out, &Op::Transfer(0, 2, 41));      // 60 of 100 still frozen
            w.exec_plain(out, &Op::TransferFrom(2, 0, 3, 30));   // allowance alive iff within its live_until
            w.exec_plain(out, &Op::Transfer(0, 2, 10));
            w.exec_plain(out, &Op::Advance(gap));
            w.exec_plain(out, &Op::Forced(0, 2, 35, adm));   // must unfreeze exactly 35 - free
            w.exec_plain(out, &Op::Mint(3, 5, adm));         // compliance / verifier links still there
            w.exec_plain(out, &Op::Advance(gap));
            w.exec_plain(out, &Op::Burn(1, 40, adm));
            w.finish(out, &format!("persistence/temp{}-max{}/gap{}", min_temp, max_ttl, gap));
            out.label("persistence/token");
        }
    }
}

fn lab(out: &mut Out, name: &str, ok: bool) { out.label(&format!("d.{}/{}", name, if ok { "ok" } else { "fail" })); }

/// the situations of the property's quantifier, each reached deterministically and under its own label
fn situations(out: &mut Out) {
    let nu = 4;
    let adm = 3usize;
    let open = Orc::open(nu);
    let base = |out: &mut Out| -> World {
        let mut w = World::new(nu, 1, MAXTTL);
        setup_std(&mut w, out, 9);
        w.exec_plain(out, &Op::Mint(0, 100, adm));
        w.exec_plain(out, &Op::Mint(1, 40, adm));
        w.exec_plain(out, &Op::Freeze(0, 80, adm));
        w
    };
    // the mint gate
    {
        let mut w = base(out);
        let mut o = open.clone(); o.verified.retain(|&x| x != 2);
        let r = w.exec(out, &Op::Mint(2, 5, adm), &[adm], &o); lab(out, "mint/recipient-unverified", r);
        let mut o = open.clone(); o.cc = false;
        let r = w.exec(out, &Op::Mint(2, 5, adm), &[adm], &o); lab(out, "mint/can_create-refuses", r);
        let mut o = open.clone(); o.ct = false; o.verified = vec![2];
        let r = w.exec(out, &Op::Mint(2, 5, adm), &[adm], &o); lab(out, "mint/only-recipient-and-can_create-matter", r);
        let r = w.exec(out, &Op::Mint(2, 0, adm), &[adm], &open); lab(out, "mint/zero-amount", r);
        w.finish(out, "situations/mint-gate");
    }
    // recovery variants
    {
        let mut w = base(out);
        w.exec_plain(out, &Op::SetFrozen(0, true, adm));
        w.exec_plain(out, &Op::Freeze(1, 15, adm));
        let mut o = open.clone(); o.rec = vec![(0, 1)];
        let r = w.exec(out, &Op::Recover(0, 2, adm), &[adm], &o); lab(out, "recover/wrong-target", r);
        let r = w.exec(out, &Op::Recover(0, 1, adm), &[adm], &open); lab(out, "recover/no-target-registered", r);
        let mut o2 = o.clone(); o2.verified.retain(|&x| x != 1);
        let r = w.exec(out, &Op::Recover(0, 1, adm), &[adm], &o2); lab(out, "recover/target-unverified", r);
        let r = w.exec(out, &Op::Recover(0, 1, adm), &[], &o); lab(out, "recover/operator-did-not-sign", r);
        let mut o3 = o.clone(); o3.rec = vec![(2, 1)];
        let r = w.exec(out, &Op::Recover(2, 1, adm), &[adm], &o3); lab(out, "recover/nothing-to-move", r);
        let r = w.exec(out, &Op::Recover(0, 1, adm), &[adm], &o); lab(out, "recover/moved-with-freeze-state", r);
        let r = w.exec(out, &Op::Recover(0, 1, adm), &[adm], &o); lab(out, "recover/second-time-nothing", r);
        w.finish(out, "situations/recovery");
    }
    // a zero-amount movement does not slip under a closed gate
    for (k, name) in ["paused", "from-frozen", "to-frozen", "from-unverified", "to-unverified", "compliance-refuses"].iter().enumerate() {
        for via in [false, true] {
            let mut w = base(out);
            if via { w.exec_plain(out, &Op::Approve(0, 2, 10, 1000)); }
            let mut o = open.clone();
            match k { 0 => { w.exec_plain(out, &Op::Pause(adm)); } 1 => { w.exec_plain(out, &Op::SetFrozen(0, true, adm)); } 2 => { w.exec_plain(out, &Op::SetFrozen(1, true, adm)); }
                      3 => o.verified.retain(|&x| x != 0), 4 => o.verified.retain(|&x| x != 1), _ => o.ct = false }
            let (op, au) = if via { (Op::TransferFrom(2, 0, 1, 0), vec![2]) } else { (Op::Transfer(0, 1, 0), vec![0]) };
            let r = w.exec(out, &op, &au, &o);
            lab(out, &format!("zero-amount/{}/{}", if via { "transfer_from" } else { "transfer" }, name), r);
            w.finish(out, &format!("situations/zero-amount/{}/{}", name, via));
        }
    }
    // supervisory movements that need part of the frozen tokens: free = 20 < amount <= balance = 100
    {
        let mut w = base(out);
        let r = w.exec_plain(out, &Op::Forced(0, 1, 21, adm)); lab(out, "forced_transfer/free<amt<=bal", r);
        let r = w.exec_plain(out, &Op::Burn(0, 30, adm)); lab(out, "burn/free<amt<=bal", r);
        let r = w.exec_plain(out, &Op::Forced(0, 1, 49, adm)); lab(out, "forced_transfer/whole-balance", r);
        let r = w.exec_plain(out, &Op::Burn(0, 1, adm)); lab(out, "burn/more-than-balance", r);
        w.finish(out, "situations/unfreeze-needed");
    }
    // transfer_from: allowance and gates together; spender aliases
    {
        let mut w = base(out);
        w.exec_plain(out, &Op::Approve(0, 2, 10, 1000));
        let r = w.exec_plain(out, &Op::TransferFrom(2, 0, 1, 11)); lab(out, "transfer_from/insufficient-allowance-only", r);
        let mut o = open.clone(); o.ct = false;
        let r = w.exec(out, &Op::TransferFrom(2, 0, 1, 11), &[2], &o); lab(out, "transfer_from/closed-gate-and-insufficient-allowance", r);
        let r = w.exec(out, &Op::TransferFrom(2, 0, 1, 5), &[0], &open); lab(out, "transfer_from/holder-signs-instead-of-spender", r);
        let r = w.exec_plain(out, &Op::TransferFrom(2, 0, 2, 5)); lab(out, "transfer_from/spender-is-receiver", r);
        w.exec_plain(out, &Op::Approve(0, 0, 5, 1000));
        let r = w.exec_plain(out, &Op::TransferFrom(0, 0, 1, 5)); lab(out, "transfer_from/spender-is-holder", r);
        let r = w.exec_plain(out, &Op::TransferFrom(1, 0, 1, 1)); lab(out, "transfer_from/no-allowance", r);
        // the receiver's own frozen tokens / partial freeze are irrelevant
        w.exec_plain(out, &Op::Freeze(1, 40, adm));
        let r = w.exec_plain(out, &Op::Transfer(0, 1, 5)); lab(out, "transfer/receiver-has-all-its-tokens-frozen", r);
        w.finish(out, "situations/allowance");
    }
    // the CURRENTLY registered collaborators: 50 / 60 and 51 / 61 answer differently
    {
        let mut w = World::new(nu, 1, MAXTTL);
        w.exec_plain(out, &Op::Advance(4));
        w.exec_plain(out, &Op::SetCompliance(0, adm));
        w.exec_plain(out, &Op::SetIdv(0, adm));
        let mut closed = open.clone(); closed.ct = false; closed.cc = false; closed.verified = vec![];
        let r = w.exec2(out, &Op::Mint(0, 100, adm), &[adm], &open, Some(&closed)); lab(out, "switch/first-pair-open", r);
        w.exec_plain(out, &Op::SetCompliance(1, adm));
        let r = w.exec2(out, &Op::Transfer(0, 1, 5), &[0], &open, Some(&closed)); lab(out, "switch/new-compliance-refuses", r);
        let mut vonly = closed.clone(); vonly.ct = true; vonly.cc = true;
        let r = w.exec2(out, &Op::Transfer(0, 1, 5), &[0], &closed, Some(&vonly)); lab(out, "switch/new-compliance-approves-old-verifier-refuses", r);
        let mut half = open.clone(); half.ct = false; half.cc = false;
        let r = w.exec2(out, &Op::Transfer(0, 1, 5), &[0], &half, Some(&vonly)); lab(out, "switch/verifier-60-compliance-51", r);
        w.exec_plain(out, &Op::SetIdv(1, adm));
        let r = w.exec2(out, &Op::Transfer(0, 1, 5), &[0], &half, Some(&vonly)); lab(out, "switch/new-verifier-knows-nobody", r);
        let r = w.exec2(out, &Op::Transfer(0, 1, 5), &[0], &closed, Some(&open)); lab(out, "switch/second-pair-open-first-closed", r);
        let r = w.exec2(out, &Op::Forced(0, 1, 5, adm), &[adm], &closed, Some(&closed)); lab(out, "switch/forced-transfer-notifies-current", r);
        w.exec_plain(out, &Op::SetCompliance(0, adm));
        w.exec_plain(out, &Op::SetIdv(0, adm));
        let r = w.exec2(out, &Op::Transfer(0, 1, 5), &[0], &closed, Some(&open)); lab(out, "switch/back-to-first-pair-closed", r);
        let mut rec = open.clone(); rec.rec = vec![(0, 2)];
        let mut rec_b = open.clone(); rec_b.rec = vec![(0, 1)];
        let r = w.exec2(out, &Op::Recover(0, 1, adm), &[adm], &rec, Some(&rec_b)); lab(out, "switch/recovery-target-of-the-other-verifier", r);
        let r = w.exec2(out, &Op::Recover(0, 2, adm), &[adm], &rec, Some(&rec_b)); lab(out, "switch/recovery-target-of-the-current-verifier", r);
        w.finish(out, "situations/switch-collaborators");
    }
    // a contract address as a party: the token's own address receives, is minted to, is recovered to
    {
        let mut w = World::new(nu, 1, MAXTTL);
        let t = w.tok.clone();
        w.push_party(t);                       // index 4 = the token itself (it never signs)
        let open5 = Orc::open(5);
        setup_std(&mut w, out, 2);
        w.exec(out, &Op::Mint(0, 50, adm), &[adm], &open5);
        let r = w.exec(out, &Op::Transfer(0, 4, 10), &[0], &open5); lab(out, "party/transfer-to-the-token-itself", r);
        let r = w.exec(out, &Op::Mint(4, 5, adm), &[adm], &open5); lab(out, "party/mint-to-the-token-itself", r);
        let mut o = open5.clone(); o.verified.retain(|&x| x != 4);
        let r = w.exec(out, &Op::Transfer(0, 4, 10), &[0], &o); lab(out, "party/token-itself-unverified", r);
        w.exec(out, &Op::SetFrozen(4, true, adm), &[adm], &open5);
        let r = w.exec(out, &Op::Transfer(0, 4, 1), &[0], &open5); lab(out, "party/token-itself-frozen", r);
        let r = w.exec(out, &Op::Forced(4, 1, 15, adm), &[adm], &open5); lab(out, "party/forced-out-of-the-token-itself", r);
        w.finish(out, "situations/contract-as-party");
    }
    // MUXED DESTINATIONS: FungibleToken::transfer takes a MuxedAddress; an account-type address (index 4, it
    // never signs) receives with every id of the boundary catalogue and without an id; every gate still
    // applies, the compliance contract is notified exactly once naming the address part
    {
        let mut w = World::new(nu, 1, MAXTTL);
        let acc = w.push_account();
        let open5 = Orc::open(5);
        setup_std(&mut w, out, 6);
        w.exec(out, &Op::Mint(0, 1000, adm), &[adm], &open5);
        w.exec(out, &Op::Freeze(0, 100, adm), &[adm], &open5);
        for id in MUX_IDS {
            let r = w.exec(out, &Op::TransferMux(0, acc, id, 10), &[0], &open5);
            lab(out, &format!("mux/transfer/id-{}", match id { u64::MAX => "max".to_string(), x if x == u64::MAX - 1 => "max-1".to_string(), x => x.to_string() }), r);
        }
        let r = w.exec(out, &Op::Transfer(0, acc, 10), &[0], &open5); lab(out, "mux/account-destination-without-id", r);
        let r = w.exec(out, &Op::TransferMux(0, acc, 7, 0), &[0], &open5); lab(out, "mux/zero-amount", r);
        let r = w.exec(out, &Op::TransferMux(0, acc, 7, 840), &[0], &open5); lab(out, "mux/exactly-the-free-balance", r);
        let r = w.exec(out, &Op::TransferMux(0, acc, 7, 1), &[0], &open5); lab(out, "mux/one-more-than-free", r);
        let r = w.exec(out, &Op::TransferMux(0, acc, 7, -1), &[0], &open5); lab(out, "mux/negative-amount", r);
        let r = w.exec(out, &Op::TransferMux(1, acc, 7, 0), &[0], &open5); lab(out, "mux/holder-did-not-sign", r);
        // what arrived at the account address is an ordinary balance: frozen, forced out, recovered, burnt like any other
        w.exec(out, &Op::Freeze(acc, 900, adm), &[adm], &open5);
        w.exec(out, &Op::Unfreeze(0, 100, adm), &[adm], &open5);
        let r = w.exec(out, &Op::TransferMux(0, acc, 1, 100), &[0], &open5); lab(out, "mux/receiver-has-all-its-tokens-frozen", r);
        let r = w.exec(out, &Op::Forced(acc, 1, 150, adm), &[adm], &open5); lab(out, "mux/forced-out-of-the-account", r);
        let mut o = open5.clone(); o.rec = vec![(acc, 2)];
        let r = w.exec(out, &Op::Recover(acc, 2, adm), &[adm], &o); lab(out, "mux/recovered-from-the-account", r);
        w.finish(out, "situations/muxed-destination");
    }
    // ... and under each single closed gate (also with amount 0) the muxed transfer fails like the plain one
    for (k, name) in ["paused", "from-frozen", "to-frozen", "partial-freeze", "from-unverified", "to-unverified", "compliance-refuses"].iter().enumerate() {
        let mut w = World::new(nu, 1, MAXTTL);
        let acc = w.push_account();
        let open5 = Orc::open(5);
        setup_std(&mut w, out, 8);
        w.exec(out, &Op::Mint(0, 100, adm), &[adm], &open5);
        w.exec(out, &Op::Freeze(0, 80, adm), &[adm], &open5);
        let mut o = open5.clone();
        let mut amt = 5i128;
        match k {
            0 => { w.exec(out, &Op::Pause(adm), &[adm], &open5); }
            1 => { w.exec(out, &Op::SetFrozen(0, true, adm), &[adm], &open5); }
            2 => { w.exec(out, &Op::SetFrozen(acc, true, adm), &[adm], &open5); }
            3 => amt = 21,
            4 => o.verified.retain(|&x| x != 0),
            5 => o.verified.retain(|&x| x != acc),
            _ => o.ct = false,
        }
        let r = w.exec(out, &Op::TransferMux(0, acc, MUX_IDS[k % 5], amt), &[0], &o); lab(out, &format!("mux/gate/{}", name), r);
        if k != 3 { let r = w.exec(out, &Op::TransferMux(0, acc, 7, 0), &[0], &o); lab(out, &format!("mux/gate-zero-amount/{}", name), r); }
        // the same destination without an id, for comparison, then every gate open again
        w.exec(out, &Op::Transfer(0, acc, amt), &[0], &o);
        match k {
            0 => { w.exec(out, &Op::Unpause(adm), &[adm], &open5); }
            1 => { w.exec(out, &Op::SetFrozen(0, false, adm), &[adm], &open5); }
            2 => { w.exec(out, &Op::SetFrozen(acc, false, adm), &[adm], &open5); }
            3 => { w.exec(out, &Op::Unfreeze(0, 1, adm), &[adm], &open5); }
            _ => {}
        }
        let r = w.exec(out, &Op::TransferMux(0, acc, MUX_IDS[k % 5], amt), &[0], &open5); lab(out, &format!("mux/gate-reopened/{}", name), r);
        w.finish(out, &format!("situations/muxed-gate/{}", name));
    }
    // HOW a collaborator says no is its own business: a compliance contract that raises an error, traps or
    // answers a non-bool instead of returning false - and a verifier that traps plainly - is NO approval,
    // through every holder-initiated entry point (plain / muxed transfer, transfer_from) and mint
    for flav in 0..4u32 {
        let fname = ["returns-false", "contract-error", "trap", "non-bool"][flav as usize];
        let mut w = World::new(nu, 1, MAXTTL);
        let acc = w.push_account();
        let open5 = Orc::open(5);
        setup_std(&mut w, out, 5);
        w.exec(out, &Op::Mint(0, 100, adm), &[adm], &open5);
        w.exec(out, &Op::Approve(0, 2, 50, 1000), &[0], &open5);
        let mut no_ct = open5.clone().flav(flav); no_ct.ct = false;
        let mut no_cc = open5.clone().flav(flav); no_cc.cc = false;
        let r = w.exec(out, &Op::Transfer(0, 1, 5), &[0], &no_ct); lab(out, &format!("says-no/can_transfer/{}/transfer", fname), r);
        let r = w.exec(out, &Op::TransferMux(0, acc, 7, 5), &[0], &no_ct); lab(out, &format!("says-no/can_transfer/{}/transfer-muxed", fname), r);
        let r = w.exec(out, &Op::TransferFrom(2, 0, 1, 5), &[2], &no_ct); lab(out, &format!("says-no/can_transfer/{}/transfer_from", fname), r);
        let r = w.exec(out, &Op::Mint(1, 5, adm), &[adm], &no_cc); lab(out, &format!("says-no/can_create/{}/mint", fname), r);
        // the other query's refusal is irrelevant, whatever its flavour
        let r = w.exec(out, &Op::Mint(1, 5, adm), &[adm], &no_ct); lab(out, &format!("says-no/can_transfer/{}/mint-unaffected", fname), r);
        let r = w.exec(out, &Op::Transfer(0, 1, 5), &[0], &no_cc); lab(out, &format!("says-no/can_create/{}/transfer-unaffected", fname), r);
        // supervisory movements do not ask
        let r = w.exec(out, &Op::Forced(0, 1, 5, adm), &[adm], &no_ct); lab(out, &format!("says-no/can_transfer/{}/forced-transfer-unaffected", fname), r);
        // the verifier: unverified sender / receiver, recovery target unknown
        let mut unv = open5.clone().flav(flav); unv.verified.retain(|&x| x != 0);
        let r = w.exec(out, &Op::Transfer(0, 1, 5), &[0], &unv); lab(out, &format!("says-no/verify/{}/sender", fname), r);
        let mut unv = open5.clone().flav(flav); unv.verified.retain(|&x| x != acc);
        let r = w.exec(out, &Op::TransferMux(0, acc, 1, 5), &[0], &unv); lab(out, &format!("says-no/verify/{}/muxed-receiver", fname), r);
        let r = w.exec(out, &Op::Recover(0, 1, adm), &[adm], &open5.clone().flav(flav)); lab(out, &format!("says-no/recovery_target/{}", fname), r);
        w.exec(out, &Op::Transfer(0, 1, 5), &[0], &open5);
        w.finish(out, &format!("situations/says-no/{}", fname));
    }
}

fn pick_amount(rng: &mut Rng, around: &[i128]) -> i128 {
    match rng.below(20) {
        0 => 0,
        1 => -1,
        2 => *rng.pick(&lattice128()),
        3 => rng.i128_any(),
        4..=12 => { let c = *rng.pick(around); c.saturating_add(rng.range(-1, 1) as i128) }
        _ => { let c = (*rng.pick(around)).max(1); (rng.next_u128() % (c as u128 + 1)) as i128 }
    }
}

fn random_trace(out: &mut Out, rng: &mut Rng, idx: usize, len: usize, nu: usize) {
    let min_temp = if rng.chance(1, 3) { 16 } else { 1 };
    let max_ttl = match rng.below(4) { 0 => 5000, 1 => 1_000_000, _ => MAXTTL };
    let mut w = World::new(nu, min_temp, max_ttl);
    // half of the traces have the account-type address (possible muxed destination) as one more party
    let acc = if rng.chance(1, 2) { Some(w.push_account()) } else { None };
    let nall = w.nu();
    let a0 = rng.below(300) as u32;
    w.exec_plain(out, &Op::Advance(a0));
    let late_setup = rng.chance(1, 8);
    if !late_setup {
        let o = rng.below(nu as u64) as usize;
        w.exec_plain(out, &Op::SetCompliance(rng.below(2) as usize, o));
        w.exec_plain(out, &Op::SetIdv(rng.below(2) as usize, o));
        for _ in 0..(1 + rng.below(3)) {
            let t = rng.below(nall as u64) as usize;
            let amt = 1 + rng.below(1000) as i128;
            w.exec_plain(out, &Op::Mint(t, amt, o));
        }
    }
    while w.items.len() < len {
        let ad = |rng: &mut Rng| rng.below(nu as u64) as usize;       // those who can sign
        let pa = |rng: &mut Rng| rng.below(nall as u64) as usize;     // any party
        let (x, y, s, o) = (pa(rng), pa(rng), ad(rng), ad(rng));
        // holders with a balance are more interesting senders
        let x = if rng.chance(2, 3) { (0..nall).filter(|&i| w.m.bal[i] > 0).nth(rng.below(2) as usize).unwrap_or(x) } else { x };
        let op = match rng.below(100) {
            0..=17 => {
                let amt = pick_amount(rng, &[w.free(x), w.m.bal[x]]);
                // towards the account address mostly as a muxed destination
                let y = if acc.is_some() && rng.chance(1, 4) { acc.unwrap() } else { y };
                if Some(y) == acc && rng.chance(2, 3) {
                    let id = if rng.chance(1, 2) { *rng.pick(&MUX_IDS) } else { rng.next_u64() };
                    Op::TransferMux(x, y, id, amt)
                } else { Op::Transfer(x, y, amt) }
            }
            18..=33 => Op::TransferFrom(s, x, y, pick_amount(rng, &[w.free(x), w.m.bal[x], w.allowance(x, s)])),
            34..=43 => {
                let live = match rng.below(10) {
                    0 => w.m.now.saturating_sub(1),
                    1 => w.m.now,
                    2 => w.m.now + 1,
                    3 => (w.m.now as u64 + max_ttl as u64 - 1) as u32,
                    4 => (w.m.now as u64 + max_ttl as u64) as u32,
                    5 => u32::MAX,
                    6 => (w.m.now as u64 + 700_000).min(w.m.now as u64 + max_ttl as u64 - 1) as u32,
                    _ => w.m.now + rng.below(40) as u32,
                };
                Op::Approve(x, s, pick_amount(rng, &[w.m.bal[x], 50]), live)
            }
            44..=51 => Op::Mint(y, pick_amount(rng, &[100, i128::MAX.saturating_sub(w.m.supply)]), o),
            52..=58 => Op::Burn(x, pick_amount(rng, &[w.free(x), w.m.bal[x]]), o),
            59..=67 => Op::Forced(x, y, pick_amount(rng, &[w.free(x), w.m.bal[x]]), o),
            68..=73 => Op::Recover(x, y, o),
            74..=79 => Op::SetFrozen(y, rng.chance(3, 5), o),
            80..=86 => Op::Freeze(x, pick_amount(rng, &[w.free(x), w.m.bal[x] / 2]), o),
            87..=89 => Op::Unfreeze(x, pick_amount(rng, &[w.m.frz[x]]), o),
            90..=91 => Op::Pause(o),
            92..=93 => Op::Unpause(o),
            94 => Op::SetCompliance(rng.below(2) as usize, o),
            95 => Op::SetIdv(rng.below(2) as usize, o),
            _ => Op::Advance(long_gap(rng)),
        };
        // authorisation subset: the needed signer, sometimes missing, sometimes with superfluous signers
        let mut au: std::vec::Vec<usize> = vec![];
        if let Some(sg) = op.signer() {
            match rng.below(20) {
                _ if sg >= nu => { if rng.chance(1, 2) { au.push(ad(rng)); } }   // the account / the token never sign
                0 => {}
                1 => { let other = (sg + 1 + rng.below(nu as u64 - 1) as usize) % nu; au.push(other); }
                2 | 3 => { au.push(sg); au.push(ad(rng)); }
                _ => au.push(sg),
            }
        }
        // collaborators' answers (and how they deliver a negative one)
        let mut orc = Orc::open(nall).flav(rng.below(4) as u32);
        orc.verified.retain(|_| !rng.chance(1, 12));
        orc.ct = !rng.chance(1, 8);
        orc.cc = !rng.chance(1, 8);
        for i in 0..nall { if rng.chance(1, 4) { orc.rec.push((i, pa(rng))); } }
        if let Op::Recover(old, new, _) = op {
            if rng.chance(3, 4) { orc.rec.retain(|p| p.0 != old); orc.rec.insert(0, (old, new)); }
        }
        // now and then close exactly the paused gate around a movement
        // the other instance of each collaborator answers differently now and then
        if rng.chance(1, 3) {
            let mut ob = Orc::open(nall).flav(rng.below(4) as u32);
            ob.verified.retain(|_| !rng.chance(1, 4));
            ob.ct = rng.chance(1, 2);
            ob.cc = rng.chance(1, 2);
            ob.rec = orc.rec.iter().cloned().filter(|_| rng.chance(1, 2)).collect();
            w.exec2(out, &op, &au, &orc, Some(&ob));
        } else {
            w.exec(out, &op, &au, &orc);
        }
    }
    w.finish(out, &format!("random/{}", idx));
}

// ================================================================================================
// second layer: the REAL modular compliance contract (rwa/compliance/storage.rs + token_binder)
// with mock compliance modules that report every call they receive to a recorder contract
// ================================================================================================
mod cmpl {
    use super::*;
    use stellar_tokens::rwa::compliance::{storage as cstore, Compliance, ComplianceClient, ComplianceHook};
    use stellar_tokens::rwa::utils::token_binder::{self, TokenBinder};

    #[contract]
    pub struct Cmp;

    #[contractimpl]
    impl TokenBinder for Cmp {
        fn linked_tokens(e: &Env) -> Vec<Address> {
            token_binder::linked_tokens(e)
        }

        fn bind_token(e: &Env, token: Address, operator: Address) {
            operator.require_auth();
            token_binder::bind_token(e, &token);
        }

        fn unbind_token(e: &Env, token: Address, operator: Address) {
            operator.require_auth();
            token_binder::unbind_token(e, &token);
        }
    }

    #[contractimpl]
    impl Compliance for Cmp {
        fn add_module_to(e: &Env, hook: ComplianceHook, module: Address, operator: Address) {
            operator.require_auth();
            cstore::add_module_to(e, hook, module);
        }

        fn remove_module_from(e: &Env, hook: ComplianceHook, module: Address, operator: Address) {
            operator.require_auth();
            cstore::remove_module_from(e, hook, module);
        }

        fn get_modules_for_hook(e: &Env, hook: ComplianceHook) -> Vec<Address> {
            cstore::get_modules_for_hook(e, hook)
        }

        fn is_module_registered(e: &Env, hook: ComplianceHook, module: Address) -> bool {
            cstore::is_module_registered(e, hook, module)
        }

        fn transferred(e: &Env, from: Address, to: Address, amount: i128, token: Address) {
            cstore::transferred(e, from, to, amount, token);
        }

        fn created(e: &Env, to: Address, amount: i128, token: Address) {
            cstore::created(e, to, amount, token);
        }

        fn destroyed(e: &Env, from: Address, amount: i128, token: Address) {
            cstore::destroyed(e, from, amount, token);
        }

        fn can_transfer(e: &Env, from: Address, to: Address, amount: i128, token: Address) -> bool {
            cstore::can_transfer(e, from, to, amount, token)
        }

        fn can_create(e: &Env, to: Address, amount: i128, token: Address) -> bool {
            cstore::can_create(e, to, amount, token)
        }
    }

    /// one read-only entry point reading the whole public state through the library getters:
    /// (module list per hook, is the token bound, does is_module_registered agree with the lists)
    #[contractimpl]
    impl Cmp {
        pub fn cobs(e: &Env, tokens: Vec<Address>, modules: Vec<Address>) -> (Vec<Vec<Address>>, Vec<bool>, bool) {
            let mut lists: Vec<Vec<Address>> = Vec::new(e);
            let mut consistent = true;
            for h in 0..5usize {
                let v = cstore::get_modules_for_hook(e, hook(e, h));
                for m in modules.iter() {
                    if cstore::is_module_registered(e, hook(e, h), m.clone()) != v.contains(&m) { consistent = false; }
                }
                lists.push_back(v);
            }
            let mut bound: Vec<bool> = Vec::new(e);
            for t in tokens.iter() { bound.push_back(token_binder::is_token_bound(e, &t)); }
            (lists, bound, consistent)
        }
    }

    /// records, in one global sequence, every call received by any mock module
    #[contract]
    pub struct Rec;

    #[contractimpl]
    impl Rec {
        pub fn rec(e: &Env, module: Address, kind: u32, a: Address, b: Address, amount: i128, token: Address) {
            let mut log: Vec<(Address, u32, Address, Address, i128, Address)> =
                e.storage().instance().get(&symbol_short!("log")).unwrap_or(Vec::new(e));
            log.push_back((module, kind, a, b, amount, token));
            e.storage().instance().set(&symbol_short!("log"), &log);
        }
    }

    /// a compliance module: reports what it receives; refuses (returns false) or FAILS when told to.
    /// mode 0 = approves / accepts, 1 = refuses (false), 2 = raises a contract error, 3 = traps,
    /// 4 = answers a value of the wrong type (a u32 where a bool / unit is expected)
    #[contract]
    pub struct Mod;

    fn report(e: &Env, kind: u32, a: &Address, b: &Address, amount: i128, token: &Address) {
        let rec: Address = e.storage().instance().get(&symbol_short!("rec")).unwrap();
        RecClient::new(e, &rec).rec(&e.current_contract_address(), &kind, a, b, &amount, token);
    }
    fn behave(e: &Env, query: bool) -> Val {
        let mode: u32 = e.storage().instance().get(&symbol_short!("mode")).unwrap_or(0);
        match mode {
            2 => panic_with_error!(e, RWAError::IdentityVerificationFailed),
            3 => panic!("module failure"),
            4 => 7u32.into_val(e),
            1 if query => false.into_val(e),
            _ => if query { true.into_val(e) } else { ().into_val(e) },
        }
    }

    #[contractimpl]
    impl Mod {
        pub fn on_transfer(e: &Env, from: Address, to: Address, amount: i128, token: Address) -> Val {
            report(e, 0, &from, &to, amount, &token);
            behave(e, false)
        }

        pub fn on_created(e: &Env, to: Address, amount: i128, token: Address) -> Val {
            report(e, 1, &to, &to, amount, &token);
            behave(e, false)
        }

        pub fn on_destroyed(e: &Env, from: Address, amount: i128, token: Address) -> Val {
            report(e, 2, &from, &from, amount, &token);
            behave(e, false)
        }

        pub fn can_transfer(e: &Env, from: Address, to: Address, amount: i128, token: Address) -> Val {
            report(e, 3, &from, &to, amount, &token);
            behave(e, true)
        }

        pub fn can_create(e: &Env, to: Address, amount: i128, token: Address) -> Val {
            report(e, 4, &to, &to, amount, &token);
            behave(e, true)
        }
    }

    /// a contract that is NOT a compliance module (it has none of the hook functions)
    #[contract]
    pub struct NotAModule;

    #[contractimpl]
    impl NotAModule {
        pub fn hello(_e: &Env) -> u32 { 1 }
    }

    /// a token-like contract that forwards notifications to the compliance contract
    #[contract]
    pub struct Fwd;

    #[contractimpl]
    impl Fwd {
        pub fn transferred(e: &Env, cmp: Address, from: Address, to: Address, amount: i128, token: Address) {
            ComplianceClient::new(e, &cmp).transferred(&from, &to, &amount, &token);
        }

        pub fn created(e: &Env, cmp: Address, to: Address, amount: i128, token: Address) {
            ComplianceClient::new(e, &cmp).created(&to, &amount, &token);
        }

        pub fn destroyed(e: &Env, cmp: Address, from: Address, amount: i128, token: Address) {
            ComplianceClient::new(e, &cmp).destroyed(&from, &amount, &token);
        }
    }

    pub const HOOKS: [&str; 5] = ["HTransferred", "HCreated", "HDestroyed", "HCanTransfer", "HCanCreate"];
    pub fn hook(e: &Env, h: usize) -> ComplianceHook {
        let _ = e;
        match h {
            0 => ComplianceHook::Transferred,
            1 => ComplianceHook::Created,
            2 => ComplianceHook::Destroyed,
            3 => ComplianceHook::CanTransfer,
            _ => ComplianceHook::CanCreate,
        }
    }

    #[derive(Clone, Debug)]
    pub enum COp {
        Add(usize, usize, usize),    // hook, module, operator
        Remove(usize, usize, usize), // hook, module, operator
        Bind(usize, usize),          // token, operator
        Unbind(usize, usize),
        Transferred(usize, usize, i128, usize), // from, to, amount, token
        Created(usize, i128, usize),
        Destroyed(usize, i128, usize),
        CanTransfer(usize, usize, i128, usize),
        CanCreate(usize, i128, usize),
        Advance(u32),
    }

    pub const PARTY0: u64 = 0; // parties / operators are numbered 0..
    pub const TOK0: u64 = 10; // tokens 10..
    pub const MOD0: u64 = 20; // modules 20..

    impl COp {
        pub fn kind(&self) -> &'static str {
            match self {
                COp::Add(..) => "c.add_module", COp::Remove(..) => "c.remove_module", COp::Bind(..) => "c.bind", COp::Unbind(..) => "c.unbind",
                COp::Transferred(..) => "c.transferred", COp::Created(..) => "c.created", COp::Destroyed(..) => "c.destroyed",
                COp::CanTransfer(..) => "c.can_transfer", COp::CanCreate(..) => "c.can_create", COp::Advance(..) => "c.advance",
            }
        }
        pub fn coq(&self) -> std::string::String {
            let p = |i: usize| n(PARTY0 + i as u64);
            let t = |i: usize| n(TOK0 + i as u64);
            let m = |i: usize| n(MOD0 + i as u64);
            match *self {
                COp::Add(h, md, o) => format!("CAddModule {} {} {}", HOOKS[h], m(md), p(o)),
                COp::Remove(h, md, o) => format!("CRemoveModule {} {} {}", HOOKS[h], m(md), p(o)),
                COp::Bind(tk, o) => format!("CBind {} {}", t(tk), p(o)),
                COp::Unbind(tk, o) => format!("CUnbind {} {}", t(tk), p(o)),
                COp::Transferred(f, to, a, tk) => format!("CTransferred {} {} {} {}", p(f), p(to), z(a), t(tk)),
                COp::Created(to, a, tk) => format!("CCreated {} {} {}", p(to), z(a), t(tk)),
                COp::Destroyed(f, a, tk) => format!("CDestroyed {} {} {}", p(f), z(a), t(tk)),
                COp::CanTransfer(f, to, a, tk) => format!("CCanTransfer {} {} {} {}", p(f), p(to), z(a), t(tk)),
                COp::CanCreate(to, a, tk) => format!("CCanCreate {} {} {}", p(to), z(a), t(tk)),
                COp::Advance(k) => format!("CAdvance {}", k),
            }
        }
    }

    /// who authorises: parties by index, tokens by index (encoded as Auth)
    #[derive(Clone, Copy, Debug, PartialEq)]
    pub enum Who { Party(usize), Token(usize) }

    pub struct CWorld {
        pub e: Env,
        pub cmp: Address,
        pub rec: Address,
        pub parties: std::vec::Vec<Address>,
        pub tokens: std::vec::Vec<Address>, // token 0 and 2 are Fwd contracts, token 1 a plain address
        pub modules: std::vec::Vec<Address>,         // `live` Mod contracts, then two that can never be called:
        pub live: usize,                             // index live = an address where no contract is deployed,
                                                     // index live+1 = a contract without the hook functions
        pub flavour: u32,                            // how the modules told to fail do it (mode 2, 3 or 4)
        pub items: std::vec::Vec<std::string::String>,
        pub mods: std::vec::Vec<std::vec::Vec<usize>>, // mirror of the hook lists
        pub bound: std::vec::Vec<bool>,
        pub trapped_reads: u64,
        pub last: (std::string::String, std::string::String, std::string::String), // call, outcome, observation of the last call
    }

    impl CWorld {
        pub fn new(nmods: usize) -> CWorld { CWorld::with_ledger(nmods, 16, 6_312_000) }
        pub fn with_ledger(nmods: usize, min_temp: u32, max_ttl: u32) -> CWorld {
            let e = Env::default();
            e.cost_estimate().budget().reset_unlimited();
            e.cost_estimate().disable_resource_limits();
            e.ledger().with_mut(|l| {
                l.sequence_number = 0;
                l.min_temp_entry_ttl = min_temp;
                l.min_persistent_entry_ttl = 4096.min(max_ttl);
                l.max_entry_ttl = max_ttl;
            });
            let cmp = e.register(Cmp, ());
            let rec = e.register(Rec, ());
            let parties: std::vec::Vec<Address> = (0..4).map(|_| Address::generate(&e)).collect();
            let tokens = vec![e.register(Fwd, ()), Address::generate(&e), e.register(Fwd, ())];
            let modules = CWorld::make_modules(&e, &rec, nmods);
            CWorld { e, cmp, rec, parties, tokens, modules, live: nmods, flavour: 2, items: vec![], mods: vec![vec![]; 5], bound: vec![false; 3], trapped_reads: 0, last: Default::default() }
        }
        fn make_modules(e: &Env, rec: &Address, nmods: usize) -> std::vec::Vec<Address> {
            let mut modules: std::vec::Vec<Address> = (0..nmods).map(|_| {
                let m = e.register(Mod, ());
                e.as_contract(&m, || e.storage().instance().set(&symbol_short!("rec"), rec));
                m
            }).collect();
            modules.push(Address::generate(e));           // nothing deployed there
            modules.push(e.register(NotAModule, ()));     // deployed, but not a module
            modules
        }
        /// the compliance contract, its recorder and `nmods` modules inside an existing Env, for one token
        pub fn in_env(e: &Env, parties: std::vec::Vec<Address>, token: Address, nmods: usize) -> CWorld {
            let cmp = e.register(Cmp, ());
            let rec = e.register(Rec, ());
            let modules = CWorld::make_modules(e, &rec, nmods);
            CWorld { e: e.clone(), cmp, rec, parties, tokens: vec![token], modules, live: nmods, flavour: 2, items: vec![], mods: vec![vec![]; 5], bound: vec![false; 1], trapped_reads: 0, last: Default::default() }
        }
        /// the modules' behaviour during the next call (failing wins over refusing) + an empty recorder
        pub fn prepare(&self, deny: &[usize], fail: &[usize]) {
            let e = &self.e;
            for (i, m) in self.modules.iter().enumerate().take(self.live) {
                let mode: u32 = if fail.contains(&i) { self.flavour } else if deny.contains(&i) { 1 } else { 0 };
                e.as_contract(m, || e.storage().instance().set(&symbol_short!("mode"), &mode));
            }
            e.as_contract(&self.rec, || e.storage().instance().set(&symbol_short!("log"), &Vec::<(Address, u32, Address, Address, i128, Address)>::new(e)));
        }
        /// the modules that fail during a call: those told to, and the two that can never be called
        pub fn failing(&self, fail: &[usize]) -> std::vec::Vec<usize> {
            let mut v: std::vec::Vec<usize> = fail.iter().cloned().filter(|&i| i < self.live).collect();
            v.push(self.live); v.push(self.live + 1);
            v
        }
        pub fn num(&self, a: &Address) -> u64 {
            if let Some(i) = self.parties.iter().position(|x| x == a) { return PARTY0 + i as u64; }
            if let Some(i) = self.tokens.iter().position(|x| x == a) { return TOK0 + i as u64; }
            if let Some(i) = self.modules.iter().position(|x| x == a) { return MOD0 + i as u64; }
            999
        }
        fn addr(&self, w: Who) -> Address { match w { Who::Party(i) => self.parties[i].clone(), Who::Token(i) => self.tokens[i].clone() } }

        pub fn observe(&mut self) -> std::string::String {
            let e = &self.e.clone();
            let mut lists: std::vec::Vec<std::string::String> = vec![];
            let tv: Vec<Address> = Vec::from_slice(e, &self.tokens);
            let mv: Vec<Address> = Vec::from_slice(e, &self.modules);
            let args: Vec<Val> = (tv, mv).into_val(e);
            // a try-call: a trap in a getter of the code under test becomes a sentinel observation
            let r = e.try_invoke_contract::<Val, soroban_sdk::Error>(&self.cmp, &Symbol::new(e, "cobs"), args);
            let got = match r { Ok(Ok(v)) => <(Vec<Vec<Address>>, Vec<bool>, bool)>::try_from_val(e, &v).ok(), _ => None };
            match got {
                Some((ls, bs, consistent)) => {
                    let mut mirror = vec![];
                    for v in ls.iter() {
                        let mut xs: std::vec::Vec<_> = v.iter().map(|a| n(self.num(&a))).collect();
                        if !consistent { xs.push(n(999)); }
                        mirror.push(v.iter().map(|a| self.num(&a).saturating_sub(MOD0) as usize).collect::<std::vec::Vec<usize>>());
                        lists.push(list(&xs));
                    }
                    self.mods = mirror;
                    for (i, x) in bs.iter().enumerate() { self.bound[i] = x; }
                }
                None => {
                    for _ in 0..5 { lists.push(list(&[n(999)])); }
                    self.trapped_reads += 1;
                }
            }
            let log: Vec<(Address, u32, Address, Address, i128, Address)> =
                e.as_contract(&self.rec, || e.storage().instance().get(&symbol_short!("log")).unwrap_or(Vec::new(e)));
            let ls: std::vec::Vec<_> = log.iter().map(|(m, k, a, bb, amt, tk)| {
                let ev = match k {
                    0 => format!("MOnTransfer {} {} {} {}", n(self.num(&a)), n(self.num(&bb)), z(amt), n(self.num(&tk))),
                    1 => format!("MOnCreated {} {} {}", n(self.num(&a)), z(amt), n(self.num(&tk))),
                    2 => format!("MOnDestroyed {} {} {}", n(self.num(&a)), z(amt), n(self.num(&tk))),
                    3 => format!("MCanTransfer {} {} {} {}", n(self.num(&a)), n(self.num(&bb)), z(amt), n(self.num(&tk))),
                    _ => format!("MCanCreate {} {} {}", n(self.num(&a)), z(amt), n(self.num(&tk))),
                };
                format!("({}, {})", n(self.num(&m)), ev)
            }).collect();
            let bs: std::vec::Vec<_> = self.bound.iter().map(|&x| b(x)).collect();
            format!("(mkCObs {} {} {})", list(&lists), list(&bs), list(&ls))
        }

        /// `via`: Some(k) = the call is made by the forwarder contract that is token k (only for notifications)
        pub fn exec(&mut self, out: &mut Out, op: &COp, auths: &[Who], deny: &[usize], via: Option<usize>) -> bool {
            self.exec_f(out, op, auths, deny, &[], via)
        }
        /// `fail`: the modules that fail (in the world's current `flavour`) during this call
        pub fn exec_f(&mut self, out: &mut Out, op: &COp, auths: &[Who], deny: &[usize], fail: &[usize], via: Option<usize>) -> bool {
            let e = self.e.clone();
            if let COp::Advance(k) = *op {
                e.as_contract(&self.rec, || e.storage().instance().set(&symbol_short!("log"), &Vec::<(Address, u32, Address, Address, i128, Address)>::new(&e)));
                e.ledger().with_mut(|l| l.sequence_number += k);
                let obs = self.observe();
                let call = format!("(mkCCF ({}) [] [] [])", op.coq());
                out.case("c.advance/ok", &call);
                self.last = (call.clone(), "(Ok None)".to_string(), obs.clone());
                self.items.push(format!("CI {} (Ok None) {}", call, obs));
                return true;
            }
            // collaborators' behaviour + clear the recorder
            self.prepare(deny, fail);
            let p = |i: usize| self.parties[i].clone();
            let t = |i: usize| self.tokens[i].clone();
            let m = |i: usize| self.modules[i].clone();
            let (fname, args): (&'static str, Vec<Val>) = match *op {
                COp::Add(h, md, o) => ("add_module_to", (hook(&e, h), m(md), p(o)).into_val(&e)),
                COp::Remove(h, md, o) => ("remove_module_from", (hook(&e, h), m(md), p(o)).into_val(&e)),
                COp::Bind(tk, o) => ("bind_token", (t(tk), p(o)).into_val(&e)),
                COp::Unbind(tk, o) => ("unbind_token", (t(tk), p(o)).into_val(&e)),
                COp::Transferred(f, to, a, tk) => ("transferred", (p(f), p(to), a, t(tk)).into_val(&e)),
                COp::Created(to, a, tk) => ("created", (p(to), a, t(tk)).into_val(&e)),
                COp::Destroyed(f, a, tk) => ("destroyed", (p(f), a, t(tk)).into_val(&e)),
                COp::CanTransfer(f, to, a, tk) => ("can_transfer", (p(f), p(to), a, t(tk)).into_val(&e)),
                COp::CanCreate(to, a, tk) => ("can_create", (p(to), a, t(tk)).into_val(&e)),
                COp::Advance(_) => unreachable!(),
            };
            let who: std::vec::Vec<Address> = auths.iter().map(|&w| self.addr(w)).collect();
            let invs: std::vec::Vec<MockAuthInvoke> = who.iter().map(|_| MockAuthInvoke { contract: &self.cmp, fn_name: fname, args: args.clone(), sub_invokes: &[] }).collect();
            let mas: std::vec::Vec<MockAuth> = who.iter().zip(invs.iter()).map(|(a, inv)| MockAuth { address: a, invoke: inv }).collect();
            e.mock_auths(&mas);
            let r = match via {
                None => e.try_invoke_contract::<Val, soroban_sdk::Error>(&self.cmp, &Symbol::new(&e, fname), args.clone()),
                Some(k) => {
                    let mut a2: Vec<Val> = Vec::new(&e);
                    a2.push_back(self.cmp.clone().into_val(&e));
                    for v in args.iter() { a2.push_back(v); }
                    e.try_invoke_contract::<Val, soroban_sdk::Error>(&self.tokens[k], &Symbol::new(&e, fname), a2)
                }
            };
            e.mock_auths(&[]);
            let (ok, outcome) = match r {
                Ok(Ok(v)) => match op {
                    COp::CanTransfer(..) | COp::CanCreate(..) => {
                        let bv = bool::try_from_val(&e, &v).expect("bool");
                        (true, format!("(Ok (Some {}))", b(bv)))
                    }
                    _ => (true, "(Ok None)".to_string()),
                },
                _ => (false, "Fail".to_string()),
            };
            let obs = self.observe();
            let mut au: std::vec::Vec<std::string::String> = auths.iter().map(|&w| n(self.num(&self.addr(w)))).collect();
            if let Some(k) = via { au.push(n(TOK0 + k as u64)); }
            let dn: std::vec::Vec<_> = deny.iter().map(|&i| n(MOD0 + i as u64)).collect();
            let fl: std::vec::Vec<_> = self.failing(fail).iter().map(|&i| n(MOD0 + i as u64)).collect();
            let call = format!("(mkCCF ({}) {} {} {})", op.coq(), list(&au), list(&dn), list(&fl));
            let tag = if !ok { "fail" } else if outcome.contains("true") { "true" } else if outcome.contains("false") { "false" } else { "ok" };
            out.case(&format!("{}/{}", op.kind(), tag), &call);
            self.last = (call.clone(), outcome.clone(), obs.clone());
            self.items.push(format!("CI {} {} {}", call, outcome, obs));
            ok
        }
        /// with the signer the entry point needs (operator, or the token for notifications), nobody refusing
        pub fn exec_plain(&mut self, out: &mut Out, op: &COp) -> bool {
            let (au, via) = match *op {
                COp::Add(_, _, o) | COp::Remove(_, _, o) | COp::Bind(_, o) | COp::Unbind(_, o) => (vec![Who::Party(o)], None),
                COp::Transferred(_, _, _, tk) | COp::Created(_, _, tk) | COp::Destroyed(_, _, tk) =>
                    if tk == 1 { (vec![Who::Token(1)], None) } else { (vec![], Some(tk)) },
                _ => (vec![], None),
            };
            self.exec(out, op, &au, &[], via)
        }
        pub fn finish(self, out: &mut Out, desc: &str) {
            let toks: std::vec::Vec<_> = (0..self.tokens.len()).map(|i| n(TOK0 + i as u64)).collect();
            let term = format!("mkCTrace (Build_ccfg {}) {} {}", stellar_tokens::rwa::compliance::MAX_MODULES, list(&toks), list(&self.items));
            let k = self.items.len();
            if self.trapped_reads > 0 { out.label("observation/getter-trapped"); }
            out.trace(desc, term, k);
        }
    }

    /// module lists and token bindings must survive a gap of any length during which nobody touches them
    pub fn persistence(out: &mut Out) {
        for (min_temp, max_ttl) in [(1u32, 6_312_000u32), (16, 1_000_000), (16, 5000)] {
            for gap in [20u32, 100, 17_281, 20_000, 600_000, 4_000_000] {
                let mut w = CWorld::with_ledger(3, min_temp, max_ttl);
                for md in [1usize, 0, 2] { w.exec_plain(out, &COp::Add(0, md, 3)); w.exec_plain(out, &COp::Add(3, md, 3)); }
                w.exec_plain(out, &COp::Add(4, 2, 3));
                w.exec_plain(out, &COp::Bind(0, 3));
                w.exec_plain(out, &COp::Bind(1, 3));
                w.exec_plain(out, &COp::Advance(gap));                           // ONE step; nothing is read in between
                w.exec(out, &COp::Transferred(0, 1, 50, 0), &[], &[], Some(0));  // still bound, all three modules notified
                w.exec(out, &COp::CanTransfer(0, 1, 50, 0), &[], &[2], None);    // the refusing module is still asked
                w.exec_plain(out, &COp::Advance(gap));
                w.exec(out, &COp::CanCreate(1, 5, 1), &[], &[2], None);
                w.exec_plain(out, &COp::Transferred(0, 1, 7, 1));
                w.exec_plain(out, &COp::Add(0, 0, 3));                           // still registered: refused
                w.exec_plain(out, &COp::Bind(0, 3));                             // still bound: refused
                w.exec_plain(out, &COp::Advance(gap));
                w.exec_plain(out, &COp::Remove(0, 0, 3));
                w.exec_plain(out, &COp::Unbind(1, 3));
                w.finish(out, &format!("compliance/persistence/temp{}-max{}/gap{}", min_temp, max_ttl, gap));
                out.label("persistence/compliance");
            }
        }
    }

    pub fn directed(out: &mut Out) {
        // dispatch: every registered module exactly once, in order; refusal short-circuits; auth + binding
        {
            let mut w = CWorld::new(4);
            for md in [2usize, 0, 1] { w.exec_plain(out, &COp::Add(0, md, 3)); w.exec_plain(out, &COp::Add(3, md, 3)); }
            w.exec_plain(out, &COp::Add(1, 1, 3));
            w.exec_plain(out, &COp::Add(2, 3, 3));
            w.exec_plain(out, &COp::Add(4, 0, 3));
            w.exec_plain(out, &COp::Add(0, 0, 3));                               // already registered
            w.exec(out, &COp::Transferred(0, 1, 50, 0), &[], &[], Some(0));      // token not bound yet
            w.exec_plain(out, &COp::Bind(0, 3));
            w.exec_plain(out, &COp::Bind(0, 3));                                 // already bound
            w.exec_plain(out, &COp::Bind(1, 3));
            w.exec(out, &COp::Transferred(0, 1, 50, 0), &[], &[], Some(0));      // by the token contract itself
            w.exec(out, &COp::Transferred(0, 1, 50, 0), &[], &[], Some(2));      // by another contract, naming token 0
            w.exec(out, &COp::Transferred(0, 1, 50, 0), &[], &[], None);         // by nobody
            w.exec(out, &COp::Transferred(0, 1, 50, 1), &[Who::Token(1)], &[], None);
            w.exec(out, &COp::Transferred(0, 1, 50, 1), &[Who::Party(0), Who::Party(1)], &[], None); // the parties are not the token
            w.exec(out, &COp::Transferred(0, 1, 50, 2), &[], &[], Some(2));      // own token, but not bound
            w.exec(out, &COp::Created(1, 7, 0), &[], &[], Some(0));
            w.exec(out, &COp::Destroyed(1, 7, 0), &[], &[], Some(0));
            w.exec(out, &COp::Created(1, 7, 0), &[], &[], None);               // by nobody
            w.exec(out, &COp::Destroyed(1, 7, 0), &[Who::Party(1)], &[], None); // signed by a party, not by the token
            w.exec(out, &COp::CanTransfer(0, 1, 50, 0), &[], &[], None);
            w.exec(out, &COp::CanTransfer(0, 1, 50, 0), &[], &[0], None);        // the second in order refuses: third not asked
            w.exec(out, &COp::CanTransfer(0, 1, 50, 0), &[], &[1], None);        // the last refuses
            w.exec(out, &COp::CanTransfer(0, 1, 50, 0), &[], &[2, 0, 1], None);  // the first refuses
            w.exec(out, &COp::CanTransfer(0, 1, 50, 0), &[], &[3], None);        // a module that is not registered "refuses"
            w.exec(out, &COp::CanCreate(1, 5, 2), &[], &[], None);
            w.exec(out, &COp::CanCreate(1, 5, 2), &[], &[0], None);
            w.exec_plain(out, &COp::Remove(0, 0, 3));                            // middle one: order of the others kept
            w.exec_plain(out, &COp::Remove(0, 0, 3));                            // not registered any more
            w.exec(out, &COp::Transferred(1, 0, 1, 0), &[], &[], Some(0));
            w.exec(out, &COp::Remove(0, 2, 3), &[Who::Party(2)], &[], None);     // wrong operator signature
            w.exec_plain(out, &COp::Unbind(0, 3));
            w.exec(out, &COp::Transferred(1, 0, 1, 0), &[], &[], Some(0));       // unbound again
            w.exec_plain(out, &COp::Unbind(0, 3));
            w.exec_plain(out, &COp::Unbind(1, 3));
            w.exec_plain(out, &COp::Bind(2, 3));
            w.exec(out, &COp::Transferred(0, 1, i128::MAX, 2), &[], &[], Some(2));
            w.exec(out, &COp::Transferred(0, 0, -5, 2), &[], &[], Some(2));
            w.finish(out, "compliance/directed/dispatch");
        }
        // FAILING MODULES: a module that raises an error / traps / answers a non-bool / is not deployed / is
        // not a module at all is never an approval and never a delivered notification: the hook call
        // fails as a whole, through every hook, whatever the position of the module in the list
        for flavour in [2u32, 3, 4] {
            let fname = ["", "", "contract-error", "trap", "wrong-type"][flavour as usize];
            let mut w = CWorld::new(4);
            w.flavour = flavour;
            for md in [2usize, 0, 1] { for h in 0..5 { w.exec_plain(out, &COp::Add(h, md, 3)); } }
            w.exec_plain(out, &COp::Bind(0, 3));
            let tag = |ok: bool, last: &(std::string::String, std::string::String, std::string::String)| -> &'static str {
                if !ok { "fail" } else if last.1.contains("true") { "true" } else if last.1.contains("false") { "false" } else { "ok" } };
            for (pos, md) in [("first", 2usize), ("middle", 0), ("last", 1)] {
                let ok = w.exec_f(out, &COp::CanTransfer(0, 1, 50, 0), &[], &[], &[md], None);
                out.label(&format!("d.cmod/can_transfer/{}/{}-module-fails/{}", fname, pos, tag(ok, &w.last)));
                let ok = w.exec_f(out, &COp::CanCreate(1, 5, 0), &[], &[], &[md], None);
                out.label(&format!("d.cmod/can_create/{}/{}-module-fails/{}", fname, pos, tag(ok, &w.last)));
                let ok = w.exec_f(out, &COp::Transferred(0, 1, 50, 0), &[], &[], &[md], Some(0));
                out.label(&format!("d.cmod/transferred/{}/{}-module-fails/{}", fname, pos, tag(ok, &w.last)));
                let ok = w.exec_f(out, &COp::Created(1, 5, 0), &[], &[], &[md], Some(0));
                out.label(&format!("d.cmod/created/{}/{}-module-fails/{}", fname, pos, tag(ok, &w.last)));
                let ok = w.exec_f(out, &COp::Destroyed(1, 5, 0), &[], &[], &[md], Some(0));
                out.label(&format!("d.cmod/destroyed/{}/{}-module-fails/{}", fname, pos, tag(ok, &w.last)));
            }
            // a refusal BEFORE the failing module ends the loop with false; a refusal AFTER it is never reached
            let ok = w.exec_f(out, &COp::CanTransfer(0, 1, 50, 0), &[], &[2], &[0], None);
            out.label(&format!("d.cmod/can_transfer/{}/refused-before-the-failing-module/{}", fname, tag(ok, &w.last)));
            let ok = w.exec_f(out, &COp::CanTransfer(0, 1, 50, 0), &[], &[1], &[0], None);
            out.label(&format!("d.cmod/can_transfer/{}/refusal-after-the-failing-module/{}", fname, tag(ok, &w.last)));
            let ok = w.exec_f(out, &COp::CanCreate(1, 5, 0), &[], &[2], &[1], None);
            out.label(&format!("d.cmod/can_create/{}/refused-before-the-failing-module/{}", fname, tag(ok, &w.last)));
            let ok = w.exec_f(out, &COp::CanTransfer(0, 1, 50, 0), &[], &[0], &[0], None);   // told both: failing wins
            out.label(&format!("d.cmod/can_transfer/{}/module-both-refusing-and-failing/{}", fname, tag(ok, &w.last)));
            let ok = w.exec_f(out, &COp::CanTransfer(0, 1, 50, 0), &[], &[], &[0, 1, 2], None);
            out.label(&format!("d.cmod/can_transfer/{}/all-modules-fail/{}", fname, tag(ok, &w.last)));
            // a failing module that is not registered (for this hook) does not matter
            let ok = w.exec_f(out, &COp::CanTransfer(0, 1, 50, 0), &[], &[], &[3], None);
            out.label(&format!("d.cmod/can_transfer/{}/unregistered-module-fails/{}", fname, tag(ok, &w.last)));
            w.exec_plain(out, &COp::Remove(3, 0, 3));
            let ok = w.exec_f(out, &COp::CanTransfer(0, 1, 50, 0), &[], &[], &[0], None);
            out.label(&format!("d.cmod/can_transfer/{}/removed-module-fails/{}", fname, tag(ok, &w.last)));
            let ok = w.exec_f(out, &COp::Transferred(0, 1, 50, 0), &[], &[], &[0], Some(0));      // still registered for Transferred
            out.label(&format!("d.cmod/transferred/{}/module-removed-from-another-hook-fails/{}", fname, tag(ok, &w.last)));
            w.exec(out, &COp::Transferred(0, 1, 50, 0), &[], &[], Some(0));                       // everybody well again
            w.exec(out, &COp::CanTransfer(0, 1, 50, 0), &[], &[], None);
            w.finish(out, &format!("compliance/directed/failing-modules/{}", fname));
        }
        // modules that can never be called: an address where nothing is deployed (index 4), a contract
        // without the hook functions (index 5) - registered like any other module
        for (dead, dname) in [(4usize, "not-deployed"), (5, "not-a-module")] {
            let mut w = CWorld::new(4);
            w.exec_plain(out, &COp::Bind(0, 3));
            for h in 0..5 { w.exec_plain(out, &COp::Add(h, 1, 3)); }
            w.exec(out, &COp::CanTransfer(0, 1, 50, 0), &[], &[], None);
            for h in 0..5 { w.exec_plain(out, &COp::Add(h, dead, 3)); }
            let tag = |ok: bool, last: &(std::string::String, std::string::String, std::string::String)| -> &'static str {
                if !ok { "fail" } else if last.1.contains("true") { "true" } else if last.1.contains("false") { "false" } else { "ok" } };
            let ok = w.exec(out, &COp::CanTransfer(0, 1, 50, 0), &[], &[], None);
            out.label(&format!("d.cmod/can_transfer/{}/{}", dname, tag(ok, &w.last)));
            let ok = w.exec(out, &COp::CanCreate(1, 5, 0), &[], &[], None);
            out.label(&format!("d.cmod/can_create/{}/{}", dname, tag(ok, &w.last)));
            let ok = w.exec(out, &COp::Transferred(0, 1, 50, 0), &[], &[], Some(0));
            out.label(&format!("d.cmod/transferred/{}/{}", dname, tag(ok, &w.last)));
            let ok = w.exec(out, &COp::Created(1, 5, 0), &[], &[], Some(0));
            out.label(&format!("d.cmod/created/{}/{}", dname, tag(ok, &w.last)));
            let ok = w.exec(out, &COp::Destroyed(1, 5, 0), &[], &[], Some(0));
            out.label(&format!("d.cmod/destroyed/{}/{}", dname, tag(ok, &w.last)));
            // the live module in front of it refuses: false, the dead one is not reached
            let ok = w.exec(out, &COp::CanTransfer(0, 1, 50, 0), &[], &[1], None);
            out.label(&format!("d.cmod/can_transfer/{}-behind-a-refusal/{}", dname, tag(ok, &w.last)));
            for h in 0..5 { w.exec_plain(out, &COp::Remove(h, dead, 3)); }
            let ok = w.exec(out, &COp::CanTransfer(0, 1, 50, 0), &[], &[], None);
            out.label(&format!("d.cmod/can_transfer/{}-removed-again/{}", dname, tag(ok, &w.last)));
            w.exec(out, &COp::Transferred(0, 1, 50, 0), &[], &[], Some(0));
            w.finish(out, &format!("compliance/directed/dead-module/{}", dname));
        }
        // MAX_MODULES
        {
            let cap = stellar_tokens::rwa::compliance::MAX_MODULES as usize;
            let mut w = CWorld::new(cap + 2);
            for md in 0..cap + 2 { w.exec_plain(out, &COp::Add(4, md, 1)); }
            w.exec_plain(out, &COp::Remove(4, 5, 1));
            w.exec_plain(out, &COp::Add(4, cap + 1, 1));
            w.exec_plain(out, &COp::Add(4, cap, 1));
            w.exec(out, &COp::CanCreate(0, 1, 1), &[], &[], None);
            w.exec(out, &COp::CanCreate(0, 1, 1), &[], &[cap - 1], None);
            w.exec_plain(out, &COp::Add(3, 0, 1));
            w.finish(out, "compliance/directed/max-modules");
        }
    }

    pub fn random_trace(out: &mut Out, rng: &mut Rng, idx: usize, len: usize) {
        let nm = 4usize;
        let (min_temp, max_ttl) = match rng.below(3) { 0 => (1, 6_312_000), 1 => (16, 1_000_000), _ => (16, 5000) };
        let mut w = CWorld::with_ledger(nm, min_temp, max_ttl);
        let pre = rng.below(6);
        for _ in 0..pre { let (h, md) = (rng.below(5) as usize, rng.below(nm as u64) as usize); w.exec_plain(out, &COp::Add(h, md, 0)); }
        for tk in 0..3 { if rng.chance(2, 3) { w.exec_plain(out, &COp::Bind(tk, 0)); } }
        while w.items.len() < len {
            let pa = |rng: &mut Rng| rng.below(4) as usize;
            let tk = rng.below(3) as usize;
            // now and then one of the two modules that can never be called
            let md = if rng.chance(1, 12) { nm + rng.below(2) as usize } else { rng.below(nm as u64) as usize };
            let h = rng.below(5) as usize;
            let amt = match rng.below(6) { 0 => 0, 1 => -1, 2 => rng.i128_any(), _ => rng.below(1000) as i128 };
            let op = match rng.below(100) {
                0..=17 => COp::Add(h, md, pa(rng)),
                18..=27 => {
                    // mostly a registered one
                    let md2 = if rng.chance(3, 4) && !w.mods[h].is_empty() { w.mods[h][rng.below(w.mods[h].len() as u64) as usize] } else { md };
                    COp::Remove(h, md2, pa(rng))
                }
                28..=35 => COp::Bind(tk, pa(rng)),
                36..=41 => COp::Unbind(tk, pa(rng)),
                42..=56 => COp::Transferred(pa(rng), pa(rng), amt, tk),
                57..=64 => COp::Created(pa(rng), amt, tk),
                65..=72 => COp::Destroyed(pa(rng), amt, tk),
                73..=87 => COp::CanTransfer(pa(rng), pa(rng), amt, tk),
                88..=94 => COp::CanCreate(pa(rng), amt, tk),
                _ => COp::Advance(super::long_gap(rng)),
            };
            let mut auths: std::vec::Vec<Who> = vec![];
            let mut via = None;
            match op {
                COp::Add(_, _, o) | COp::Remove(_, _, o) | COp::Bind(_, o) | COp::Unbind(_, o) => {
                    match rng.below(12) { 0 => {}, 1 => auths.push(Who::Party((o + 1) % 4)), 2 => { auths.push(Who::Party(o)); auths.push(Who::Token(1)); } _ => auths.push(Who::Party(o)) }
                }
                COp::Transferred(_, _, _, t) | COp::Created(_, _, t) | COp::Destroyed(_, _, t) => {
                    match rng.below(12) {
                        0 => {}                                                   // nobody
                        1 => auths.push(Who::Party(rng.below(4) as usize)),       // a party, not the token
                        2 => via = Some(if t == 0 { 2 } else { 0 }),              // another contract
                        3 => if t != 1 { auths.push(Who::Token(1)) },             // another token's signature
                        // (mock_auths re-registers the address as a mock account contract, so only the
                        //  plain-address token 1 can sign; the contract tokens 0 and 2 call themselves)
                        _ => if t == 1 { auths.push(Who::Token(1)) } else { via = Some(t) },
                    }
                }
                _ => { if rng.chance(1, 6) { auths.push(Who::Party(0)); } }
            }
            let mut deny: std::vec::Vec<usize> = vec![];
            for i in 0..nm { if rng.chance(1, 5) { deny.push(i); } }
            let mut fail: std::vec::Vec<usize> = vec![];
            for i in 0..nm { if rng.chance(1, 10) { fail.push(i); } }
            w.flavour = 2 + rng.below(3) as u32;
            w.exec_f(out, &op, &auths, &deny, &fail, via);
        }
        w.finish(out, &format!("compliance/random/{}", idx));
    }
}

// ================================================================================================
// third layer: the REAL identity verifier (rwa/identity_verifier/storage.rs) in front of mock
// identity registry storage, claim-topics-and-issuers registry, identity (claim holder) contracts
// and claim issuers; the whole world is re-drawn for every call and is an input of the call
// ================================================================================================
mod idl {
    use super::*;
    use soroban_sdk::{contracttype, Bytes, BytesN};
    use stellar_tokens::rwa::identity_claims::{generate_claim_id, Claim};
    use stellar_tokens::rwa::identity_verifier::storage as ivs;

    /// the identity verifier contract: the library functions, unwrapped
    #[contract]
    pub struct Idv;

    #[contractimpl]
    impl Idv {
        pub fn verify_identity(e: &Env, account: Address) {
            ivs::verify_identity(e, &account);
        }

        pub fn recovery_target(e: &Env, old_account: Address) -> Option<Address> {
            ivs::recovery_target(e, &old_account)
        }

        pub fn cti(e: &Env) -> Address {
            ivs::claim_topics_and_issuers(e)
        }

        pub fn irs(e: &Env) -> Address {
            ivs::identity_registry_storage(e)
        }
    }

    #[contract]
    pub struct Irs;

    #[contractimpl]
    impl Irs {
        pub fn stored_identity(e: &Env, account: Address) -> Address {
            let ids: Map<Address, Address> = e.storage().instance().get(&symbol_short!("ids")).unwrap_or(Map::new(e));
            match ids.get(account) { Some(a) => a, None => panic_with_error!(e, RWAError::IdentityVerificationFailed) }
        }

        pub fn get_recovered_to(e: &Env, old_account: Address) -> Option<Address> {
            let rec: Map<Address, Address> = e.storage().instance().get(&symbol_short!("rec")).unwrap_or(Map::new(e));
            rec.get(old_account)
        }
    }

    #[contract]
    pub struct Cti;

    #[contractimpl]
    impl Cti {
        pub fn get_claim_topics_and_issuers(e: &Env) -> Map<u32, Vec<Address>> {
            e.storage().instance().get(&symbol_short!("ti")).unwrap_or(Map::new(e))
        }
    }

    #[contracttype]
    pub enum IdKey { Claim(BytesN<32>), Topic(u32) }

    /// an identity: holds claims by id, indexed by topic
    #[contract]
    pub struct Ident;

    #[contractimpl]
    impl Ident {
        pub fn get_claim(e: &Env, claim_id: BytesN<32>) -> Claim {
            e.storage().persistent().get(&IdKey::Claim(claim_id)).unwrap()
        }

        pub fn get_claim_ids_by_topic(e: &Env, topic: u32) -> Vec<BytesN<32>> {
            e.storage().persistent().get(&IdKey::Topic(topic)).unwrap_or(Vec::new(e))
        }
    }

    /// a claim issuer: accepts a claim iff the first byte of its data is 1; reports every call it accepts.
    /// (The ClaimIssuer interface, written out so that the mock can also answer a value where the interface
    /// returns nothing.)  HOW it refuses is its own business, flavour "fl": 0 raises a contract error,
    /// 1 traps, 2 answers `false`, 3 answers a number - only a plain return (unit) is an acceptance.
    #[contract]
    pub struct Issuer;

    #[contractimpl]
    impl Issuer {
        pub fn is_claim_valid(e: &Env, identity: Address, claim_topic: u32, _scheme: u32, _sig_data: Bytes, claim_data: Bytes) -> Val {
            if claim_data.get(0) != Some(1) {
                let fl: u32 = e.storage().instance().get(&symbol_short!("fl")).unwrap_or(0);
                match fl {
                    0 => panic_with_error!(e, RWAError::IdentityVerificationFailed),
                    1 => panic!("claim not valid"),
                    2 => return false.into_val(e),
                    _ => return 0u32.into_val(e),
                }
            }
            let mut log: Vec<(Address, u32)> = e.storage().instance().get(&symbol_short!("log")).unwrap_or(Vec::new(e));
            log.push_back((identity, claim_topic));
            e.storage().instance().set(&symbol_short!("log"), &log);
            ().into_val(e)
        }
    }

    pub const ACC0: u64 = 0;   // accounts 0..3
    pub const IDN0: u64 = 30;  // identity contracts 30..32
    pub const ISS0: u64 = 40;  // claim issuers 40..42; 43 = a trusted "issuer" address where no contract is deployed

    #[derive(Clone, Debug)]
    pub struct ClaimRec { pub k_issuer: usize, pub k_topic: u32, pub c_topic: u32, pub c_issuer: usize, pub valid: bool }

    #[derive(Clone, Debug, Default)]
    pub struct IWorld {
        pub ident: std::vec::Vec<(usize, usize)>,                       // account -> identity
        pub topics: std::vec::Vec<(u32, std::vec::Vec<usize>)>,         // ascending topics -> issuers in order
        pub claims: std::vec::Vec<(usize, std::vec::Vec<ClaimRec>)>,    // identity -> claims
        pub recovered: std::vec::Vec<(usize, usize)>,
    }
    impl IWorld {
        pub fn coq(&self) -> std::string::String {
            let id: std::vec::Vec<_> = self.ident.iter().map(|&(a, i)| pair(&n(ACC0 + a as u64), &n(IDN0 + i as u64))).collect();
            let tp: std::vec::Vec<_> = self.topics.iter().map(|(t, is)| {
                let l: std::vec::Vec<_> = is.iter().map(|&i| n(ISS0 + i as u64)).collect();
                pair(&format!("{}", t), &list(&l))
            }).collect();
            let cl: std::vec::Vec<_> = self.claims.iter().map(|(i, cs)| {
                let l: std::vec::Vec<_> = cs.iter().map(|c| format!("mkClaim {} {} {} {} {}", n(ISS0 + c.k_issuer as u64), c.k_topic, c.c_topic, n(ISS0 + c.c_issuer as u64), b(c.valid))).collect();
                pair(&n(IDN0 + *i as u64), &list(&l))
            }).collect();
            let rc: std::vec::Vec<_> = self.recovered.iter().map(|&(a, c)| pair(&n(ACC0 + a as u64), &n(ACC0 + c as u64))).collect();
            format!("(mkIW {} {} {} {})", list(&id), list(&tp), list(&cl), list(&rc))
        }
        /// the specification, computed independently (only used for labels)
        pub fn verified(&self, acc: usize) -> bool {
            let idn = match self.ident.iter().find(|p| p.0 == acc) { Some(p) => p.1, None => return false };
            let empty = vec![];
            let cl = self.claims.iter().find(|p| p.0 == idn).map(|p| &p.1).unwrap_or(&empty);
            self.topics.iter().all(|(t, is)| is.iter().any(|&i| {
                match cl.iter().find(|c| c.k_issuer == i && c.k_topic == *t) { Some(c) => c.c_topic == *t && c.c_issuer == i && c.valid, None => false }
            }))
        }
    }

    pub struct IEnv {
        pub e: Env,
        pub idv: Address,
        pub irs: Address,
        pub cti: Address,
        pub accounts: std::vec::Vec<Address>,
        pub idents: std::vec::Vec<Address>,
        pub issuers: std::vec::Vec<Address>,   // three Issuer contracts, then an address where nothing is deployed
        pub flavour: u32,                      // how the issuers refuse (see Issuer)
        pub items: std::vec::Vec<std::string::String>,
    }
    const LIVE_ISSUERS: usize = 3;

    impl IEnv {
        pub fn new() -> IEnv { IEnv::with_ledger(16, 6_312_000) }
        pub fn with_ledger(min_temp: u32, max_ttl: u32) -> IEnv {
            let e = Env::default();
            e.cost_estimate().budget().reset_unlimited();
            e.cost_estimate().disable_resource_limits();
            e.ledger().with_mut(|l| {
                l.sequence_number = 0;
                l.min_temp_entry_ttl = min_temp;
                l.min_persistent_entry_ttl = 4096.min(max_ttl);
                l.max_entry_ttl = max_ttl;
            });
            let idv = e.register(Idv, ());
            let irs = e.register(Irs, ());
            let cti = e.register(Cti, ());
            e.as_contract(&idv, || {
                ivs::set_claim_topics_and_issuers(&e, &cti);
                ivs::set_identity_registry_storage(&e, &irs);
            });
            let accounts = (0..4).map(|_| Address::generate(&e)).collect();
            let idents = (0..3).map(|_| e.register(Ident, ())).collect();
            let mut issuers: std::vec::Vec<Address> = (0..LIVE_ISSUERS).map(|_| e.register(Issuer, ())).collect();
            issuers.push(Address::generate(&e));
            IEnv { e, idv, irs, cti, accounts, idents, issuers, flavour: 0, items: vec![] }
        }

        fn install(&self, w: &IWorld) {
            let e = &self.e;
            e.as_contract(&self.irs, || {
                let mut ids: Map<Address, Address> = Map::new(e);
                for &(a, i) in &w.ident { ids.set(self.accounts[a].clone(), self.idents[i].clone()); }
                let mut rec: Map<Address, Address> = Map::new(e);
                for &(a, c) in &w.recovered { rec.set(self.accounts[a].clone(), self.accounts[c].clone()); }
                e.storage().instance().set(&symbol_short!("ids"), &ids);
                e.storage().instance().set(&symbol_short!("rec"), &rec);
            });
            e.as_contract(&self.cti, || {
                let mut ti: Map<u32, Vec<Address>> = Map::new(e);
                for (t, is) in &w.topics {
                    let mut v: Vec<Address> = Vec::new(e);
                    for &i in is { v.push_back(self.issuers[i].clone()); }
                    ti.set(*t, v);
                }
                e.storage().instance().set(&symbol_short!("ti"), &ti);
            });
            for (k, idn) in self.idents.iter().enumerate() {
                e.as_contract(idn, || {
                    // wipe the topics this harness uses, then write the claims of this world
                    for t in 0..7u32 { e.storage().persistent().remove(&IdKey::Topic(t)); }
                    let empty = vec![];
                    let cs = w.claims.iter().find(|p| p.0 == k).map(|p| &p.1).unwrap_or(&empty);
                    for c in cs {
                        let id = generate_claim_id(e, &self.issuers[c.k_issuer], c.k_topic);
                        let claim = Claim {
                            topic: c.c_topic, scheme: 1, issuer: self.issuers[c.c_issuer].clone(),
                            signature: Bytes::from_array(e, &[9, 9]),
                            data: Bytes::from_array(e, &[if c.valid { 1 } else { 0 }, 7]),
                            uri: String::from_str(e, "u"),
                        };
                        e.storage().persistent().set(&IdKey::Claim(id.clone()), &claim);
                        let mut ids: Vec<BytesN<32>> = e.storage().persistent().get(&IdKey::Topic(c.k_topic)).unwrap_or(Vec::new(e));
                        ids.push_back(id);
                        e.storage().persistent().set(&IdKey::Topic(c.k_topic), &ids);
                    }
                });
            }
            for is in self.issuers.iter().take(LIVE_ISSUERS) {
                e.as_contract(is, || {
                    e.storage().instance().set(&symbol_short!("log"), &Vec::<(Address, u32)>::new(e));
                    e.storage().instance().set(&symbol_short!("fl"), &self.flavour);
                });
            }
        }

        /// the issuers' logs cannot be globally ordered across issuers by themselves; the verifier asks
        /// them strictly sequentially, so the harness orders the entries the way the model does:
        /// by topic (ascending = Map order), then by the issuer's position in the topic's list
        fn read_log(&self, w: &IWorld) -> std::string::String {
            let e = &self.e;
            let mut entries: std::vec::Vec<(u32, usize, usize, std::string::String)> = vec![];
            for (k, is) in self.issuers.iter().enumerate().take(LIVE_ISSUERS) {
                let log: Vec<(Address, u32)> = e.as_contract(is, || e.storage().instance().get(&symbol_short!("log")).unwrap_or(Vec::new(e)));
                for (j, (idn, t)) in log.iter().enumerate() {
                    let idn_n = self.idents.iter().position(|x| *x == idn).map(|i| IDN0 + i as u64).unwrap_or(999);
                    let pos = w.topics.iter().find(|p| p.0 == t).and_then(|p| p.1.iter().position(|&x| x == k)).unwrap_or(99);
                    entries.push((t, pos, j, format!("({}, {}, {})", n(ISS0 + k as u64), n(idn_n), t)));
                }
            }
            entries.sort();
            let l: std::vec::Vec<_> = entries.into_iter().map(|x| x.3).collect();
            list(&l)
        }

        pub fn verify(&mut self, out: &mut Out, w: &IWorld, acc: usize) -> bool {
            self.install(w);
            let e = &self.e;
            let args: Vec<Val> = (self.accounts[acc].clone(),).into_val(e);
            let r = e.try_invoke_contract::<Val, soroban_sdk::Error>(&self.idv, &Symbol::new(e, "verify_identity"), args);
            let ok = matches!(r, Ok(Ok(_)));
            let log = self.read_log(w);
            let call = format!("(mkIC (IVerify {}) {})", n(ACC0 + acc as u64), w.coq());
            let expect = w.verified(acc);
            out.case(&format!("i.verify/{}{}", if ok { "ok" } else { "fail" }, if ok == expect { "" } else { "!" }), &call);
            self.items.push(format!("II {} {} {}", call, if ok { "(Ok IUnit)" } else { "Fail" }, log));
            ok
        }

        pub fn recovery(&mut self, out: &mut Out, w: &IWorld, old: usize) {
            self.install(w);
            let e = &self.e;
            let args: Vec<Val> = (self.accounts[old].clone(),).into_val(e);
            let r = e.try_invoke_contract::<Val, soroban_sdk::Error>(&self.idv, &Symbol::new(e, "recovery_target"), args);
            let outcome = match r {
                Ok(Ok(v)) => {
                    let o = Option::<Address>::try_from_val(e, &v).expect("option address");
                    match o {
                        Some(a) => format!("(Ok (ITarget (Some {})))", n(self.accounts.iter().position(|x| *x == a).map(|i| ACC0 + i as u64).unwrap_or(999))),
                        None => "(Ok (ITarget None))".to_string(),
                    }
                }
                _ => "Fail".to_string(),
            };
            let call = format!("(mkIC (IRecoveryTarget {}) {})", n(ACC0 + old as u64), w.coq());
            out.case(&format!("i.recovery_target/{}", if outcome == "Fail" { "fail" } else if outcome.contains("Some") { "some" } else { "none" }), &call);
            self.items.push(format!("II {} {} {}", call, outcome, "[]"));
        }

        /// are the verifier's links to its registries still there (try-calls: a trap = not there)
        pub fn links(&mut self, out: &mut Out) {
            let e = &self.e;
            let none: Vec<Val> = Vec::new(e);
            let c = matches!(e.try_invoke_contract::<Val, soroban_sdk::Error>(&self.idv, &Symbol::new(e, "cti"), none.clone()), Ok(Ok(_)));
            let r = matches!(e.try_invoke_contract::<Val, soroban_sdk::Error>(&self.idv, &Symbol::new(e, "irs"), none), Ok(Ok(_)));
            let call = "(mkIC ILinks (mkIW [] [] [] []))".to_string();
            out.case(&format!("i.links/{}", if c && r { "both" } else { "lost" }), &call);
            self.items.push(format!("II {} (Ok (ILinked {} {})) []", call, b(c), b(r)));
        }

        pub fn advance(&mut self, out: &mut Out, k: u32) {
            self.e.ledger().with_mut(|l| l.sequence_number += k);
            let call = format!("(mkIC (IAdvance {}) (mkIW [] [] [] []))", k);
            out.case("i.advance/ok", &call);
            self.items.push(format!("II {} (Ok IUnit) []", call));
        }

        pub fn finish(self, out: &mut Out, desc: &str) {
            let k = self.items.len();
            out.trace(desc, format!("mkITrace {}", list(&self.items)), k);
        }
    }

    fn good(i: usize, t: u32) -> ClaimRec { ClaimRec { k_issuer: i, k_topic: t, c_topic: t, c_issuer: i, valid: true } }

    pub fn directed(out: &mut Out) {
        let mut x = IEnv::new();
        let base = IWorld { ident: vec![(0, 0), (1, 1)], topics: vec![(1, vec![0, 1]), (2, vec![2]), (5, vec![1, 0])], claims: vec![], recovered: vec![(0, 1)] };
        // fully verified through different issuers
        let mut w = base.clone();
        w.claims = vec![(0, vec![good(1, 1), good(2, 2), good(0, 5)]), (1, vec![good(0, 1)])];
        x.verify(out, &w, 0);
        x.verify(out, &w, 1);          // only the first topic satisfied
        x.verify(out, &w, 2);          // no identity registered
        // each single topic missing in turn (the later ones are the interesting ones)
        for miss in [1u32, 2, 5] {
            let mut w2 = w.clone();
            w2.claims[0].1.retain(|c| c.k_topic != miss);
            x.verify(out, &w2, 0);
        }
        // invalid / mismatching claims of the only issuer, of the first issuer with a valid second one, of the last issuer
        for (k, variant) in [(0, "invalid"), (1, "topic-field"), (2, "issuer-field")].iter() {
            let mut w2 = w.clone();
            for c in w2.claims[0].1.iter_mut() {
                if c.k_topic == 2 { match *k { 0 => c.valid = false, 1 => c.c_topic = 1, _ => c.c_issuer = 0 } }
            }
            let _ = variant;
            x.verify(out, &w2, 0);
        }
        {
            let mut w2 = w.clone();
            w2.claims[0].1 = vec![ClaimRec { valid: false, ..good(0, 1) }, good(1, 1), good(2, 2), ClaimRec { valid: false, ..good(1, 5) }, good(0, 5)];
            x.verify(out, &w2, 0);     // first issuer's claim invalid, a later issuer's valid
            w2.claims[0].1[4].valid = false;
            x.verify(out, &w2, 0);     // ... and the last one invalid as well
        }
        {
            let mut w2 = w.clone();
            w2.topics = vec![(1, vec![0, 1]), (2, vec![])];   // a required topic nobody is trusted for
            x.verify(out, &w2, 0);
            w2.topics = vec![];                                // nothing required
            x.verify(out, &w2, 0);
            x.verify(out, &w2, 3);
        }
        x.recovery(out, &w, 0);
        x.recovery(out, &w, 1);
        x.finish(out, "identity/directed");
        // HOW an issuer refuses is its own business: a contract error, a trap, an answer `false`, a number -
        // only a plain return accepts the claim; and a trusted issuer address where nothing is deployed accepts nothing
        for flavour in 0..4u32 {
            let fname = ["contract-error", "trap", "answers-false", "answers-a-number"][flavour as usize];
            let mut x = IEnv::new();
            x.flavour = flavour;
            let lab = |out: &mut Out, name: &str, ok: bool| out.label(&format!("d.issuer/{}/{}/{}", name, fname, if ok { "ok" } else { "fail" }));
            let r = x.verify(out, &w, 0); lab(out, "all-claims-accepted", r);
            for (pos, t) in [("first", 1u32), ("middle", 2), ("last", 5)] {
                let mut w2 = w.clone();
                for c in w2.claims[0].1.iter_mut() { if c.k_topic == t { c.valid = false; } }
                let r = x.verify(out, &w2, 0); lab(out, &format!("only-claim-of-the-{}-topic-refused", pos), r);
            }
            let mut w2 = w.clone();
            w2.claims[0].1 = vec![ClaimRec { valid: false, ..good(0, 1) }, good(1, 1), good(2, 2), ClaimRec { valid: false, ..good(1, 5) }, good(0, 5)];
            let r = x.verify(out, &w2, 0); lab(out, "first-issuer-refuses-second-accepts", r);
            w2.claims[0].1[4].valid = false;
            let r = x.verify(out, &w2, 0); lab(out, "every-issuer-of-the-last-topic-refuses", r);
            for c in w2.claims[0].1.iter_mut() { c.valid = false; }
            let r = x.verify(out, &w2, 0); lab(out, "every-claim-refused", r);
            // issuer 43: trusted, but no contract there - its "verdict" is never an acceptance
            let mut w3 = w.clone();
            w3.topics = vec![(1, vec![3, 0]), (2, vec![2, 3]), (5, vec![3])];
            w3.claims[0].1 = vec![ClaimRec { valid: false, ..good(3, 1) }, good(0, 1), good(2, 2), ClaimRec { valid: false, ..good(3, 5) }];
            let r = x.verify(out, &w3, 0); lab(out, "last-topic-only-through-an-undeployed-issuer", r);
            w3.topics = vec![(1, vec![3, 0]), (2, vec![2, 3])];
            let r = x.verify(out, &w3, 0); lab(out, "undeployed-issuer-first-a-live-one-accepts", r);
            w3.topics = vec![(1, vec![3]), (2, vec![2, 3])];
            let r = x.verify(out, &w3, 0); lab(out, "first-topic-only-through-an-undeployed-issuer", r);
            x.finish(out, &format!("identity/directed/issuer-refusal/{}", fname));
        }
        // the verifier's links to its registries must survive a gap of any length
        for (min_temp, max_ttl) in [(1u32, 6_312_000u32), (16, 1_000_000), (16, 5000)] {
            let mut x = IEnv::with_ledger(min_temp, max_ttl);
            x.links(out);
            for gap in [20u32, 100, 17_281, 20_000, 600_000, 4_000_000] {
                x.advance(out, gap);                  // ONE step; nothing is read in between
                x.links(out);
                x.verify(out, &w, 0);
                x.verify(out, &w, 1);
                x.recovery(out, &w, 0);
            }
            x.finish(out, &format!("identity/persistence/temp{}-max{}", min_temp, max_ttl));
            out.label("persistence/identity");
        }
    }

    pub fn random_trace(out: &mut Out, rng: &mut Rng, idx: usize, len: usize) {
        let (min_temp, max_ttl) = match rng.below(3) { 0 => (1, 6_312_000), 1 => (16, 1_000_000), _ => (16, 5000) };
        let mut x = IEnv::with_ledger(min_temp, max_ttl);
        while x.items.len() < len {
            match rng.below(25) {
                0 => { let k = super::long_gap(rng); x.advance(out, k); continue; }
                1 => { x.links(out); continue; }
                _ => {}
            }
            let mut w = IWorld::default();
            for a in 0..4usize { if rng.chance(4, 5) { w.ident.push((a, rng.below(3) as usize)); } }
            let all_topics = [1u32, 2, 3, 4, 5];
            let nt = rng.below(4);
            let mut ts: std::vec::Vec<u32> = vec![];
            while (ts.len() as u64) < nt { let t = *rng.pick(&all_topics); if !ts.contains(&t) { ts.push(t); } }
            ts.sort();
            for &t in &ts {
                let mut is: std::vec::Vec<usize> = vec![];
                for _ in 0..rng.below(4) { let i = rng.below(3) as usize; if !is.contains(&i) { is.push(i); } }
                if is.is_empty() && !rng.chance(1, 8) { is.push(rng.below(3) as usize); }
                w.topics.push((t, is));
            }
            for idn in 0..3usize {
                let mut cs: std::vec::Vec<ClaimRec> = vec![];
                for &(t, ref is) in &w.topics {
                    // mostly satisfy the topic through one of its issuers
                    let sat = rng.chance(5, 6);
                    let chosen = if is.is_empty() { None } else { Some(is[rng.below(is.len() as u64) as usize]) };
                    for i in 0..3usize {
                        let is_chosen = Some(i) == chosen;
                        if (is_chosen && sat) || rng.chance(1, 3) {
                            let mut c = good(i, t);
                            if !(is_chosen && sat) {
                                match rng.below(5) { 0 => c.valid = false, 1 => c.c_topic = t % 5 + 1, 2 => c.c_issuer = (i + 1) % 3, _ => {} }
                            }
                            cs.push(c);
                        }
                    }
                }
                // claims about topics that are not required
                if rng.chance(1, 3) { cs.push(good(rng.below(3) as usize, 6)); }
                if !cs.is_empty() { w.claims.push((idn, cs)); }
            }
            for a in 0..4usize { if rng.chance(1, 4) { w.recovered.push((a, rng.below(4) as usize)); } }
            x.flavour = rng.below(4) as u32;
            if rng.chance(1, 8) { x.recovery(out, &w, rng.below(4) as usize); } else { x.verify(out, &w, rng.below(4) as usize); }
        }
        x.finish(out, &format!("identity/random/{}", idx));
    }
}

// ================================================================================================
// fourth family: THE WHOLE STACK from library code - the token (rwa/storage.rs) in front of the real
// compliance contract (compliance/storage.rs + token_binder, harness modules) and the real identity
// verifier (identity_verifier/storage.rs) over the real claim-topics-and-issuers registry, identity
// registry storage and identity-claims contracts, with a harness claim issuer (answer table).
// ================================================================================================
mod stack {
    use super::*;
    use super::cmpl::{COp, CWorld, Who, MOD0, TOK0};
    use super::idl::{ClaimRec, IWorld, Idv, ACC0, IDN0, ISS0};
    use soroban_sdk::{Bytes, BytesN};
    use stellar_tokens::rwa::claim_topics_and_issuers::storage as cti;
    use stellar_tokens::rwa::identity_claims::{self as idc, Claim};
    use stellar_tokens::rwa::identity_registry_storage::{
        self as irs, CountryData, CountryRelation, IdentityType, IndividualCountryRelation,
    };
    use stellar_tokens::rwa::identity_verifier::storage as ivs;

    #[contract]
    pub struct CtiC;
    #[contractimpl]
    impl CtiC {
        pub fn add_claim_topic(e: &Env, t: u32) { cti::add_claim_topic(e, t) }
        pub fn remove_claim_topic(e: &Env, t: u32) { cti::remove_claim_topic(e, t) }
        pub fn add_trusted_issuer(e: &Env, i: Address, ts: Vec<u32>) { cti::add_trusted_issuer(e, &i, &ts) }
        pub fn remove_trusted_issuer(e: &Env, i: Address) { cti::remove_trusted_issuer(e, &i) }
        pub fn update_issuer_claim_topics(e: &Env, i: Address, ts: Vec<u32>) { cti::update_issuer_claim_topics(e, &i, &ts) }
        pub fn get_claim_topics_and_issuers(e: &Env) -> Map<u32, Vec<Address>> { cti::get_claim_topics_and_issuers(e) }
    }

    #[contract]
    pub struct IrsC;
    #[contractimpl]
    impl IrsC {
        pub fn add_identity(e: &Env, account: Address, identity: Address) {
            let mut cs: Vec<CountryData> = Vec::new(e);
            cs.push_back(CountryData { country: CountryRelation::Individual(IndividualCountryRelation::Residence(840)), metadata: None });
            irs::add_identity(e, &account, &identity, IdentityType::Individual, &cs)
        }
        pub fn modify_identity(e: &Env, account: Address, identity: Address) { irs::modify_identity(e, &account, &identity) }
        pub fn remove_identity(e: &Env, account: Address) { irs::remove_identity(e, &account) }
        pub fn recover_identity(e: &Env, old: Address, new: Address) { irs::recover_identity(e, &old, &new) }
        pub fn stored_identity(e: &Env, account: Address) -> Address { irs::stored_identity(e, &account) }
        pub fn get_recovered_to(e: &Env, old: Address) -> Option<Address> { irs::get_recovered_to(e, &old) }
    }

    /// an identity contract: the library's identity_claims storage
    #[contract]
    pub struct IdentC;
    #[contractimpl]
    impl IdentC {
        pub fn add_claim(e: &Env, topic: u32, issuer: Address) -> BytesN<32> {
            idc::add_claim(e, topic, 1, &issuer, &Bytes::from_array(e, &[9, 9]), &Bytes::from_array(e, &[7]), &String::from_str(e, "u"))
        }
        pub fn remove_claim(e: &Env, claim_id: BytesN<32>) { idc::remove_claim(e, &claim_id) }
        pub fn get_claim(e: &Env, claim_id: BytesN<32>) -> Claim { idc::get_claim(e, &claim_id) }
        pub fn get_claim_ids_by_topic(e: &Env, topic: u32) -> Vec<BytesN<32>> { idc::get_claim_ids_by_topic(e, topic) }
    }

    /// the harness claim issuer: an answer table - accepts every claim except the revoked (identity, topic) pairs
    #[contract]
    pub struct IssuerC;
    #[contractimpl]
    impl IssuerC {
        /// the ClaimIssuer interface written out (so that a refusal can also be an answered value): flavour "fl"
        /// 0 contract error, 1 trap, 2 answers `false`, 3 answers a number; only a plain return accepts
        pub fn is_claim_valid(e: &Env, identity: Address, claim_topic: u32, _scheme: u32, _sig_data: Bytes, _claim_data: Bytes) -> Val {
            let rev: Map<(Address, u32), bool> = e.storage().instance().get(&symbol_short!("rev")).unwrap_or(Map::new(e));
            if rev.get((identity, claim_topic)).unwrap_or(false) {
                let fl: u32 = e.storage().instance().get(&symbol_short!("fl")).unwrap_or(0);
                match fl {
                    0 => panic_with_error!(e, RWAError::IdentityVerificationFailed),
                    1 => panic!("claim revoked"),
                    2 => return false.into_val(e),
                    _ => return 0u32.into_val(e),
                }
            }
            ().into_val(e)
        }
        pub fn set_flavour(e: &Env, fl: u32) { e.storage().instance().set(&symbol_short!("fl"), &fl); }
        pub fn set_revoked(e: &Env, identity: Address, topic: u32, revoked: bool) {
            let mut rev: Map<(Address, u32), bool> = e.storage().instance().get(&symbol_short!("rev")).unwrap_or(Map::new(e));
            rev.set((identity, topic), revoked);
            e.storage().instance().set(&symbol_short!("rev"), &rev);
        }
    }

    /// an edit of one of the identity registries
    #[derive(Clone, Debug)]
    pub enum Edit {
        AddTopic(u32), RemoveTopic(u32),
        AddIssuer(usize, std::vec::Vec<u32>), RemoveIssuer(usize), UpdateIssuer(usize, std::vec::Vec<u32>),
        AddIdentity(usize, usize), RemoveIdentity(usize), ModifyIdentity(usize, usize), RecoverIdentity(usize, usize),
        AddClaim(usize, u32, usize), RemoveClaim(usize, u32, usize), // identity, topic, issuer
        Revoke(usize, usize, u32, bool),                              // issuer, identity, topic, revoked
    }
    const TOPICS: [u32; 3] = [1, 2, 3];

    pub struct SWorld {
        pub w: World,
        pub c: CWorld,
        pub cti: Address,
        pub irs: Address,
        pub idents: std::vec::Vec<Address>,
        pub issuers: std::vec::Vec<Address>,
        pub world: IWorld,       // the registry state as read through the getters
        pub stale: bool,         // must be read again before the next token call
        pub items: std::vec::Vec<std::string::String>,
    }

    impl SWorld {
        pub fn new(min_temp: u32, max_ttl: u32) -> SWorld {
            let mut w = World::new(4, min_temp, max_ttl);
            w.real = true;
            w.push_account();        // party 4: the account-type address, destination of muxed transfers
            let e = w.e.clone();
            let c = CWorld::in_env(&e, w.addrs.clone(), w.tok.clone(), 3);
            let idv = e.register(Idv, ());
            let cti = e.register(CtiC, ());
            let irs_ = e.register(IrsC, ());
            e.as_contract(&idv, || {
                ivs::set_claim_topics_and_issuers(&e, &cti);
                ivs::set_identity_registry_storage(&e, &irs_);
            });
            let idents = (0..4).map(|_| e.register(IdentC, ())).collect();
            let issuers = (0..2).map(|_| e.register(IssuerC, ())).collect();
            // the token is pointed at the real collaborators by its own set_compliance / set_identity_verifier calls
            w.cmps = vec![c.cmp.clone()];
            w.idvs = vec![idv];
            SWorld { w, c, cti, irs: irs_, idents, issuers, world: IWorld::default(), stale: true, items: vec![] }
        }

        fn try_call(&self, contract: &Address, f: &str, args: Vec<Val>) -> Option<Val> {
            match self.w.e.try_invoke_contract::<Val, soroban_sdk::Error>(contract, &Symbol::new(&self.w.e, f), args) {
                Ok(Ok(v)) => Some(v),
                _ => None,
            }
        }

        /// read the whole registry state through the public getters (try-calls)
        fn read_world(&mut self) {
            let e = self.w.e.clone();
            let mut iw = IWorld::default();
            for (a, acc) in self.w.addrs.iter().enumerate() {
                if let Some(v) = self.try_call(&self.irs, "stored_identity", (acc.clone(),).into_val(&e)) {
                    if let Ok(idn) = Address::try_from_val(&e, &v) {
                        let k = self.idents.iter().position(|x| *x == idn).unwrap_or(99);
                        iw.ident.push((a, k));
                    }
                }
                if let Some(v) = self.try_call(&self.irs, "get_recovered_to", (acc.clone(),).into_val(&e)) {
                    if let Ok(Some(t)) = Option::<Address>::try_from_val(&e, &v) {
                        let k = self.w.addrs.iter().position(|x| *x == t).unwrap_or(99);
                        iw.recovered.push((a, k));
                    }
                }
            }
            if let Some(v) = self.try_call(&self.cti, "get_claim_topics_and_issuers", Vec::new(&e)) {
                if let Ok(m) = Map::<u32, Vec<Address>>::try_from_val(&e, &v) {
                    for (t, is) in m.iter() {
                        let l: std::vec::Vec<usize> = is.iter().map(|i| self.issuers.iter().position(|x| *x == i).unwrap_or(99)).collect();
                        iw.topics.push((t, l));
                    }
                }
            }
            for (k, idn) in self.idents.iter().enumerate() {
                let mut cs: std::vec::Vec<ClaimRec> = vec![];
                for &t in TOPICS.iter() {
                    let ids = match self.try_call(idn, "get_claim_ids_by_topic", (t,).into_val(&e)) {
                        Some(v) => Vec::<BytesN<32>>::try_from_val(&e, &v).unwrap_or(Vec::new(&e)),
                        None => Vec::new(&e),
                    };
                    for id in ids.iter() {
                        let claim = match self.try_call(idn, "get_claim", (id.clone(),).into_val(&e)) {
                            Some(v) => match Claim::try_from_val(&e, &v) { Ok(c) => c, Err(_) => continue },
                            None => continue,
                        };
                        // which (issuer, topic) does this id stand for
                        let mut key = None;
                        for (i, is) in self.issuers.iter().enumerate() {
                            for &t2 in TOPICS.iter() { if idc::generate_claim_id(&e, is, t2) == id { key = Some((i, t2)); } }
                        }
                        let (ki, kt) = match key { Some(x) => x, None => continue };
                        let ci = self.issuers.iter().position(|x| *x == claim.issuer).unwrap_or(99);
                        // the issuer's current answer for this claim
                        let args: Vec<Val> = (idn.clone(), claim.topic, claim.scheme, claim.signature.clone(), claim.data.clone()).into_val(&e);
                        // only a plain return (unit) is an acceptance
                        let valid = ci < self.issuers.len() && self.try_call(&self.issuers[ci], "is_claim_valid", args).map(|v| v.is_void()).unwrap_or(false);
                        cs.push(ClaimRec { k_issuer: ki, k_topic: kt, c_topic: claim.topic, c_issuer: ci, valid });
                    }
                }
                if !cs.is_empty() { iw.claims.push((k, cs)); }
            }
            self.world = iw;
            self.stale = false;
        }

        /// how the claim issuers refuse from now on
        pub fn issuer_flavour(&mut self, fl: u32) {
            let e = self.w.e.clone();
            for is in &self.issuers { let _ = self.try_call(is, "set_flavour", (fl,).into_val(&e)); }
            self.stale = true;
        }

        fn sobs(&mut self) -> std::string::String {
            let t = self.w.observe();
            let c = self.c.observe();
            format!("(mkSObs {} {})", t, c)
        }

        /// a call of the token
        pub fn tok(&mut self, out: &mut Out, op: &Op, auths: &[usize], deny: &[usize]) -> bool { self.tokf(out, op, auths, deny, &[]) }
        /// ... during which the compliance modules `fail` fail (in the flavour `self.c.flavour`)
        pub fn tokf(&mut self, out: &mut Out, op: &Op, auths: &[usize], deny: &[usize], fail: &[usize]) -> bool {
            if self.stale { self.read_world(); }
            self.c.prepare(deny, fail);
            let (ok, outcome) = self.w.run_op(op, auths);
            if let Op::Advance(_) = op { self.stale = true; }
            let obs = self.sobs();
            let au: std::vec::Vec<_> = auths.iter().map(|&i| n(i as u64)).collect();
            let dn: std::vec::Vec<_> = deny.iter().map(|&i| n(MOD0 + i as u64)).collect();
            let failing = self.c.failing(fail);
            let fl: std::vec::Vec<_> = failing.iter().map(|&i| n(MOD0 + i as u64)).collect();
            let call = format!("(STokF ({}) {} {} {} {})", op.coq(), list(&au), list(&dn), list(&fl), self.world.coq());
            // (labels only) the hook lists as they were before the call: a successful call does not change them
            let hit = |hooks: &[usize], who: &[usize]| hooks.iter().any(|&h| who.iter().any(|d| self.c.mods[h].contains(d)));
            let gate = match *op {
                Op::Transfer(f, t, _) | Op::TransferMux(f, t, _, _) | Op::TransferFrom(_, f, t, _) => {
                    if !self.world.verified(f) { "/sender-unverified" } else if !self.world.verified(t) { "/receiver-unverified" }
                    else if hit(&[3], deny) { "/module-refuses" }
                    else if hit(&[3], &failing) { "/asked-module-fails" }
                    else if hit(&[0], &failing) { "/notified-module-fails" } else { "" }
                }
                Op::Mint(..) => if hit(&[4], &failing) { "/asked-module-fails" } else if hit(&[1], &failing) { "/notified-module-fails" } else { "" },
                Op::Burn(..) => if hit(&[2], &failing) { "/notified-module-fails" } else { "" },
                Op::Forced(..) => if hit(&[0], &failing) { "/notified-module-fails" } else { "" },
                _ => "",
            };
            let kind = if op.mux().is_some() { "transfer-muxed" } else { op.kind() };
            out.case(&format!("s.{}/{}{}", kind, if ok { "ok" } else { "fail" }, gate), &call);
            match op.mux() {
                None => self.items.push(format!("SI {} {} {}", call, outcome, obs)),
                Some(id) => self.items.push(format!("SIMux {} {} {} {}", z(id as i128), call, outcome, obs)),
            }
            ok
        }
        pub fn tok_plain(&mut self, out: &mut Out, op: &Op) -> bool {
            let au: std::vec::Vec<usize> = op.signer().into_iter().filter(|&i| i < self.w.nsign).collect();
            self.tok(out, op, &au, &[])
        }

        /// an administrative call of the compliance contract
        pub fn cmp(&mut self, out: &mut Out, op: &COp, operator_signs: bool) -> bool {
            let au = match *op {
                COp::Add(_, _, o) | COp::Remove(_, _, o) | COp::Bind(_, o) | COp::Unbind(_, o) if operator_signs => vec![Who::Party(o)],
                _ => vec![],
            };
            let ok = self.c.exec(out, op, &au, &[], None);
            self.c.items.clear();
            let (call, outcome, _) = self.c.last.clone();
            let obs = self.sobs();
            self.items.push(format!("SI (SCmp {}) {} {}", call, outcome, obs));
            ok
        }

        /// an edit of an identity registry (its effect is read back before the next token call)
        pub fn edit(&mut self, out: &mut Out, ed: &Edit) -> bool {
            let e = self.w.e.clone();
            let tv = |ts: &std::vec::Vec<u32>| { let mut v: Vec<u32> = Vec::new(&e); for &t in ts { v.push_back(t); } v };
            let r = match ed {
                Edit::AddTopic(t) => self.try_call(&self.cti, "add_claim_topic", (*t,).into_val(&e)),
                Edit::RemoveTopic(t) => self.try_call(&self.cti, "remove_claim_topic", (*t,).into_val(&e)),
                Edit::AddIssuer(i, ts) => self.try_call(&self.cti, "add_trusted_issuer", (self.issuers[*i].clone(), tv(ts)).into_val(&e)),
                Edit::RemoveIssuer(i) => self.try_call(&self.cti, "remove_trusted_issuer", (self.issuers[*i].clone(),).into_val(&e)),
                Edit::UpdateIssuer(i, ts) => self.try_call(&self.cti, "update_issuer_claim_topics", (self.issuers[*i].clone(), tv(ts)).into_val(&e)),
                Edit::AddIdentity(a, k) => self.try_call(&self.irs, "add_identity", (self.w.addrs[*a].clone(), self.idents[*k].clone()).into_val(&e)),
                Edit::RemoveIdentity(a) => self.try_call(&self.irs, "remove_identity", (self.w.addrs[*a].clone(),).into_val(&e)),
                Edit::ModifyIdentity(a, k) => self.try_call(&self.irs, "modify_identity", (self.w.addrs[*a].clone(), self.idents[*k].clone()).into_val(&e)),
                Edit::RecoverIdentity(a, b2) => self.try_call(&self.irs, "recover_identity", (self.w.addrs[*a].clone(), self.w.addrs[*b2].clone()).into_val(&e)),
                Edit::AddClaim(k, t, i) => self.try_call(&self.idents[*k], "add_claim", (*t, self.issuers[*i].clone()).into_val(&e)),
                Edit::RemoveClaim(k, t, i) => {
                    let id = idc::generate_claim_id(&e, &self.issuers[*i], *t);
                    self.try_call(&self.idents[*k], "remove_claim", (id,).into_val(&e))
                }
                Edit::Revoke(i, k, t, rv) => self.try_call(&self.issuers[*i], "set_revoked", (self.idents[*k].clone(), *t, *rv).into_val(&e)),
            };
            self.stale = true;
            self.c.prepare(&[], &[]);
            let obs = self.sobs();
            let kind = format!("{:?}", ed);
            let kind = kind.split('(').next().unwrap_or("edit").to_string();
            out.label(&format!("s.edit/{}/{}", kind, if r.is_some() { "ok" } else { "fail" }));
            self.items.push(format!("SI SEdit (Ok None) {}", obs));
            r.is_some()
        }

        pub fn finish(self, out: &mut Out, desc: &str) {
            let univ: std::vec::Vec<_> = (0..self.w.nu()).map(|i| n(ACC0 + i as u64)).collect();
            let term = format!("mkSTrace (Build_hostcfg {} {}) (Build_ccfg {}) {} {} {}", self.w.min_temp, self.w.max_ttl,
                stellar_tokens::rwa::compliance::MAX_MODULES, list(&univ), n(TOK0), list(&self.items));
            let k = self.items.len();
            if self.w.trapped_reads + self.c.trapped_reads > 0 { out.label("observation/getter-trapped"); }
            let _ = (IDN0, ISS0);
            out.trace(desc, term, k);
        }

        /// a working stack: collaborators linked, modules 1,0 on CanTransfer / 0,2 on Transferred / 2 on CanCreate /
        /// 1 on Created / 0 on Destroyed, token bound; topics 1 and 2 required, issuer 0 trusted for 1 and 2,
        /// issuer 1 for 2; accounts 0,1,2 have identities 0,1,2 with claims; account 3 (the operator) has none;
        /// party 4 (account-type address, never signs) has identity 3 with claims
        pub fn standard(out: &mut Out, min_temp: u32, max_ttl: u32) -> SWorld {
            let adm = 3usize;
            let mut s = SWorld::new(min_temp, max_ttl);
            s.tok_plain(out, &Op::Advance(3));
            s.tok_plain(out, &Op::SetCompliance(0, adm));
            s.tok_plain(out, &Op::SetIdv(0, adm));
            for (h, md) in [(3usize, 1usize), (3, 0), (0, 0), (0, 2), (4, 2), (1, 1), (2, 0)] { s.cmp(out, &COp::Add(h, md, adm), true); }
            s.cmp(out, &COp::Bind(0, adm), true);
            s.edit(out, &Edit::AddTopic(1));
            s.edit(out, &Edit::AddTopic(2));
            s.edit(out, &Edit::AddIssuer(0, vec![1, 2]));
            s.edit(out, &Edit::AddIssuer(1, vec![2]));
            for a in 0..3usize {
                s.edit(out, &Edit::AddIdentity(a, a));
                s.edit(out, &Edit::AddClaim(a, 1, 0));
                s.edit(out, &Edit::AddClaim(a, 2, if a == 1 { 1 } else { 0 }));
            }
            // party 4 (the account-type address) has identity 3 with claims as well
            s.edit(out, &Edit::AddIdentity(4, 3));
            s.edit(out, &Edit::AddClaim(3, 1, 0));
            s.edit(out, &Edit::AddClaim(3, 2, 1));
            s
        }
    }

    pub fn directed(out: &mut Out) {
        let adm = 3usize;
        // every way a gate answer can change under a holder who already has tokens
        {
            let mut s = SWorld::standard(out, 1, MAXTTL);
            s.tok_plain(out, &Op::Mint(0, 100, adm));
            s.tok_plain(out, &Op::Mint(3, 5, adm));                 // the operator has no identity
            s.tok_plain(out, &Op::Transfer(0, 1, 10));
            s.tok_plain(out, &Op::Approve(0, 2, 50, 100_000));
            s.tok_plain(out, &Op::TransferFrom(2, 0, 1, 5));
            // the sender's claim is revoked after it received its tokens
            s.edit(out, &Edit::Revoke(0, 0, 1, true));
            s.tok_plain(out, &Op::Transfer(0, 1, 10));
            s.tok_plain(out, &Op::TransferFrom(2, 0, 1, 5));
            s.tok_plain(out, &Op::Transfer(1, 0, 1));               // ... and it cannot receive either
            s.tok_plain(out, &Op::Mint(0, 1, adm));
            s.tok_plain(out, &Op::Forced(0, 1, 1, adm));            // the supervisor can still move
            s.edit(out, &Edit::Revoke(0, 0, 1, false));
            s.tok_plain(out, &Op::Transfer(0, 1, 10));
            // the claim is removed from the identity
            s.edit(out, &Edit::RemoveClaim(0, 2, 0));
            s.tok_plain(out, &Op::Transfer(0, 1, 10));
            s.edit(out, &Edit::AddClaim(0, 2, 1));                  // a claim of the other trusted issuer will do
            s.tok_plain(out, &Op::Transfer(0, 1, 10));
            // the issuer is de-listed for a topic / altogether
            s.edit(out, &Edit::UpdateIssuer(1, vec![1]));
            s.tok_plain(out, &Op::Transfer(0, 1, 10));
            s.edit(out, &Edit::UpdateIssuer(1, vec![1, 2]));
            s.tok_plain(out, &Op::Transfer(0, 1, 10));
            s.edit(out, &Edit::RemoveIssuer(1));
            s.tok_plain(out, &Op::Transfer(0, 1, 10));              // 0's topic-2 claim and 1's topic-2 claim are worthless now
            s.tok_plain(out, &Op::Transfer(2, 0, 0));
            s.edit(out, &Edit::AddIssuer(1, vec![2]));
            // the identity is removed from the registry
            s.edit(out, &Edit::RemoveIdentity(1));
            s.tok_plain(out, &Op::Transfer(0, 1, 10));
            s.tok_plain(out, &Op::Transfer(1, 0, 1));
            s.edit(out, &Edit::AddIdentity(1, 1));
            s.tok_plain(out, &Op::Transfer(1, 0, 1));
            // the required topics change
            s.edit(out, &Edit::AddTopic(3));                        // nobody is trusted for it: nobody is verified
            s.tok_plain(out, &Op::Transfer(0, 1, 1));
            s.edit(out, &Edit::UpdateIssuer(0, vec![1, 2, 3]));
            s.tok_plain(out, &Op::Transfer(0, 1, 1));
            s.edit(out, &Edit::AddClaim(0, 3, 0));
            s.edit(out, &Edit::AddClaim(1, 3, 0));
            s.tok_plain(out, &Op::Transfer(0, 1, 1));
            s.edit(out, &Edit::RemoveTopic(3));
            s.edit(out, &Edit::RemoveTopic(2));
            s.tok_plain(out, &Op::Transfer(0, 1, 1));
            s.finish(out, "stack/directed/identity-gate");
        }
        // compliance modules and binding
        {
            let mut s = SWorld::standard(out, 16, 1_000_000);
            s.tok_plain(out, &Op::Mint(0, 100, adm));
            s.tok(out, &Op::Transfer(0, 1, 10), &[0], &[0]);        // the second CanTransfer module refuses
            s.tok(out, &Op::Transfer(0, 1, 10), &[0], &[1]);        // the first one refuses: the second is not asked
            s.tok(out, &Op::Transfer(0, 1, 10), &[0], &[2]);        // a module that is only notified cannot refuse
            s.tok(out, &Op::Mint(1, 10, adm), &[adm], &[2]);        // CanCreate module refuses
            s.tok(out, &Op::Mint(1, 10, adm), &[adm], &[0, 1]);
            s.cmp(out, &COp::Remove(3, 0, adm), true);
            s.tok(out, &Op::Transfer(0, 1, 10), &[0], &[0]);        // no longer registered: its refusal does not count
            s.cmp(out, &COp::Add(3, 2, adm), true);
            s.tok(out, &Op::Transfer(0, 1, 10), &[0], &[2]);
            s.cmp(out, &COp::Remove(0, 0, adm), false);             // not signed by the operator
            s.cmp(out, &COp::Add(0, 1, adm), true);
            s.tok_plain(out, &Op::Transfer(0, 1, 10));              // three modules notified, in order
            s.tok_plain(out, &Op::Burn(1, 3, adm));
            s.tok_plain(out, &Op::Forced(1, 2, 3, adm));
            s.cmp(out, &COp::Unbind(0, adm), true);                 // the compliance contract no longer accepts the token's notifications
            s.tok_plain(out, &Op::Transfer(0, 1, 10));
            s.tok_plain(out, &Op::Mint(0, 1, adm));
            s.tok_plain(out, &Op::Burn(0, 1, adm));
            s.tok_plain(out, &Op::Forced(0, 1, 1, adm));
            s.tok_plain(out, &Op::Freeze(0, 1, adm));               // nothing to notify: unaffected
            s.cmp(out, &COp::Bind(0, adm), true);
            s.tok_plain(out, &Op::Transfer(0, 1, 10));
            s.finish(out, "stack/directed/compliance-gate");
        }
        // FAILING compliance modules end to end: a module that fails when asked is no approval, a module that
        // fails when notified blocks the movement (nothing may be left behind), in every flavour
        for flavour in [2u32, 3, 4] {
            let fname = ["", "", "contract-error", "trap", "wrong-type"][flavour as usize];
            let mut s = SWorld::standard(out, 1, MAXTTL);
            s.c.flavour = flavour;
            let lab = |out: &mut Out, name: &str, ok: bool| out.label(&format!("d.stack/{}/{}/{}", name, fname, if ok { "ok" } else { "fail" }));
            s.tok_plain(out, &Op::Mint(0, 100, adm));
            s.tok_plain(out, &Op::Approve(0, 2, 50, 100_000));
            // modules 1,0 on CanTransfer / 0,2 on Transferred / 2 on CanCreate / 1 on Created / 0 on Destroyed
            let r = s.tokf(out, &Op::Transfer(0, 1, 10), &[0], &[], &[1]); lab(out, "transfer/first-asked-module-fails", r);
            let r = s.tokf(out, &Op::Transfer(0, 1, 10), &[0], &[], &[0]); lab(out, "transfer/asked-and-notified-module-fails", r);
            let r = s.tokf(out, &Op::Transfer(0, 1, 10), &[0], &[], &[2]); lab(out, "transfer/notified-module-fails", r);
            let r = s.tokf(out, &Op::TransferMux(0, 4, 7, 10), &[0], &[], &[1]); lab(out, "transfer-muxed/asked-module-fails", r);
            let r = s.tokf(out, &Op::TransferMux(0, 4, 7, 10), &[0], &[], &[2]); lab(out, "transfer-muxed/notified-module-fails", r);
            let r = s.tokf(out, &Op::TransferFrom(2, 0, 1, 10), &[2], &[], &[1]); lab(out, "transfer_from/asked-module-fails", r);
            let r = s.tokf(out, &Op::TransferFrom(2, 0, 1, 10), &[2], &[], &[2]); lab(out, "transfer_from/notified-module-fails", r);
            let r = s.tokf(out, &Op::Transfer(0, 1, 10), &[0], &[1], &[0]); lab(out, "transfer/refused-before-the-failing-module", r);
            let r = s.tokf(out, &Op::Mint(1, 10, adm), &[adm], &[], &[2]); lab(out, "mint/asked-module-fails", r);
            let r = s.tokf(out, &Op::Mint(1, 10, adm), &[adm], &[], &[1]); lab(out, "mint/notified-module-fails", r);
            let r = s.tokf(out, &Op::Mint(1, 10, adm), &[adm], &[], &[0]); lab(out, "mint/unrelated-module-fails", r);
            let r = s.tokf(out, &Op::Burn(0, 5, adm), &[adm], &[], &[0]); lab(out, "burn/notified-module-fails", r);
            let r = s.tokf(out, &Op::Burn(0, 5, adm), &[adm], &[], &[1, 2]); lab(out, "burn/unrelated-modules-fail", r);
            let r = s.tokf(out, &Op::Forced(0, 1, 5, adm), &[adm], &[], &[2]); lab(out, "forced_transfer/notified-module-fails", r);
            let r = s.tokf(out, &Op::Forced(0, 1, 5, adm), &[adm], &[], &[1]); lab(out, "forced_transfer/unrelated-module-fails", r);
            s.tok_plain(out, &Op::Freeze(0, 1, adm));
            let r = s.tokf(out, &Op::Freeze(0, 1, adm), &[adm], &[], &[0, 1, 2]); lab(out, "freeze/nobody-is-called", r);
            // everybody well again: the very same movements go through
            let r = s.tok_plain(out, &Op::Transfer(0, 1, 10)); lab(out, "transfer/modules-well-again", r);
            let r = s.tok_plain(out, &Op::TransferMux(0, 4, u64::MAX, 10)); lab(out, "transfer-muxed/modules-well-again", r);
            let r = s.tok_plain(out, &Op::TransferFrom(2, 0, 1, 10)); lab(out, "transfer_from/modules-well-again", r);
            s.finish(out, &format!("stack/directed/failing-modules/{}", fname));
        }
        // a registered module that can never be called (nothing deployed at index 3 / not a module at index 4)
        for (dead, dname) in [(3usize, "not-deployed"), (4, "not-a-module")] {
            let mut s = SWorld::standard(out, 16, 1_000_000);
            let lab = |out: &mut Out, name: &str, ok: bool| out.label(&format!("d.stack/{}/{}/{}", name, dname, if ok { "ok" } else { "fail" }));
            s.tok_plain(out, &Op::Mint(0, 100, adm));
            let r = s.tok_plain(out, &Op::Transfer(0, 1, 10)); lab(out, "transfer/before-registration", r);
            s.cmp(out, &COp::Add(3, dead, adm), true);              // CanTransfer
            let r = s.tok_plain(out, &Op::Transfer(0, 1, 10)); lab(out, "transfer/registered-for-can_transfer", r);
            let r = s.tok_plain(out, &Op::TransferMux(0, 4, 1, 10)); lab(out, "transfer-muxed/registered-for-can_transfer", r);
            let r = s.tok_plain(out, &Op::Forced(0, 1, 10, adm)); lab(out, "forced_transfer/registered-for-can_transfer", r);
            s.cmp(out, &COp::Remove(3, dead, adm), true);
            s.cmp(out, &COp::Add(0, dead, adm), true);              // Transferred
            let r = s.tok_plain(out, &Op::Transfer(0, 1, 10)); lab(out, "transfer/registered-for-transferred", r);
            let r = s.tok_plain(out, &Op::Forced(0, 1, 10, adm)); lab(out, "forced_transfer/registered-for-transferred", r);
            let r = s.tok_plain(out, &Op::Mint(0, 10, adm)); lab(out, "mint/registered-for-transferred", r);
            s.cmp(out, &COp::Remove(0, dead, adm), true);
            s.cmp(out, &COp::Add(4, dead, adm), true);              // CanCreate
            let r = s.tok_plain(out, &Op::Mint(0, 10, adm)); lab(out, "mint/registered-for-can_create", r);
            s.cmp(out, &COp::Remove(4, dead, adm), true);
            s.cmp(out, &COp::Add(2, dead, adm), true);              // Destroyed
            let r = s.tok_plain(out, &Op::Burn(0, 10, adm)); lab(out, "burn/registered-for-destroyed", r);
            s.cmp(out, &COp::Remove(2, dead, adm), true);
            let r = s.tok_plain(out, &Op::Transfer(0, 1, 10)); lab(out, "transfer/removed-again", r);
            s.finish(out, &format!("stack/directed/dead-module/{}", dname));
        }
        // MUXED destinations end to end: the receiver's identity is that of the address part; every module is
        // asked / notified exactly once with the address part
        {
            let mut s = SWorld::standard(out, 1, MAXTTL);
            let lab = |out: &mut Out, name: &str, ok: bool| out.label(&format!("d.stack/mux/{}/{}", name, if ok { "ok" } else { "fail" }));
            s.tok_plain(out, &Op::Mint(0, 100, adm));
            for id in MUX_IDS { let r = s.tok_plain(out, &Op::TransferMux(0, 4, id, 3)); if id == 0 || id == u64::MAX { lab(out, &format!("id-{}", if id == 0 { "0" } else { "max" }), r); } }
            let r = s.tok_plain(out, &Op::Transfer(0, 4, 3)); lab(out, "account-destination-without-id", r);
            let r = s.tok(out, &Op::TransferMux(0, 4, 7, 3), &[0], &[0]); lab(out, "module-refuses", r);
            s.edit(out, &Edit::Revoke(1, 3, 2, true));             // the receiver's claim is revoked
            let r = s.tok_plain(out, &Op::TransferMux(0, 4, 7, 3)); lab(out, "receiver-unverified", r);
            let r = s.tok_plain(out, &Op::Transfer(0, 4, 3)); lab(out, "receiver-unverified-without-id", r);
            s.edit(out, &Edit::Revoke(1, 3, 2, false));
            s.edit(out, &Edit::Revoke(0, 0, 1, true));             // the sender's claim is revoked
            let r = s.tok_plain(out, &Op::TransferMux(0, 4, 7, 3)); lab(out, "sender-unverified", r);
            s.edit(out, &Edit::Revoke(0, 0, 1, false));
            s.tok_plain(out, &Op::SetFrozen(4, true, adm));
            let r = s.tok_plain(out, &Op::TransferMux(0, 4, 7, 3)); lab(out, "receiver-frozen", r);
            s.tok_plain(out, &Op::SetFrozen(4, false, adm));
            s.tok_plain(out, &Op::Pause(adm));
            let r = s.tok_plain(out, &Op::TransferMux(0, 4, 7, 3)); lab(out, "paused", r);
            s.tok_plain(out, &Op::Unpause(adm));
            s.cmp(out, &COp::Unbind(0, adm), true);
            let r = s.tok_plain(out, &Op::TransferMux(0, 4, 7, 3)); lab(out, "token-unbound", r);
            s.cmp(out, &COp::Bind(0, adm), true);
            let r = s.tok_plain(out, &Op::TransferMux(0, 4, 7, 3)); lab(out, "all-open-again", r);
            s.finish(out, "stack/directed/muxed-destination");
        }
        // a claim issuer that refuses by answering a value / trapping / raising an error: the holder is unverified all the same
        {
            let mut s = SWorld::standard(out, 1, MAXTTL);
            s.tok_plain(out, &Op::Mint(0, 100, adm));
            s.edit(out, &Edit::Revoke(0, 0, 1, true));
            for fl in 0..4u32 {
                let fname = ["contract-error", "trap", "answers-false", "answers-a-number"][fl as usize];
                s.issuer_flavour(fl);
                let r = s.tok_plain(out, &Op::Transfer(0, 1, 10)); out.label(&format!("d.stack/issuer-refuses/{}/sender/{}", fname, if r { "ok" } else { "fail" }));
                let r = s.tok_plain(out, &Op::Transfer(1, 0, 0)); out.label(&format!("d.stack/issuer-refuses/{}/receiver/{}", fname, if r { "ok" } else { "fail" }));
                let r = s.tok_plain(out, &Op::Mint(0, 1, adm)); out.label(&format!("d.stack/issuer-refuses/{}/mint-recipient/{}", fname, if r { "ok" } else { "fail" }));
            }
            s.edit(out, &Edit::Revoke(0, 0, 1, false));
            let r = s.tok_plain(out, &Op::Transfer(0, 1, 10)); out.label(&format!("d.stack/issuer-refuses/accepts-again/{}", if r { "ok" } else { "fail" }));
            s.finish(out, "stack/directed/issuer-refusal-flavours");
        }
        // recovery through the registry, freezes, pause, long gaps
        for (min_temp, max_ttl, gap) in [(1u32, MAXTTL, 600_000u32), (16, 5000, 4_000_000)] {
            let mut s = SWorld::standard(out, min_temp, max_ttl);
            s.tok_plain(out, &Op::Mint(0, 100, adm));
            s.tok_plain(out, &Op::Mint(1, 50, adm));
            s.tok_plain(out, &Op::Freeze(0, 10, adm));
            s.tok_plain(out, &Op::Freeze(1, 50, adm));
            s.tok_plain(out, &Op::SetFrozen(0, true, adm));
            s.tok_plain(out, &Op::Recover(0, 1, adm));              // no recovery registered
            s.edit(out, &Edit::RemoveIdentity(1));
            s.edit(out, &Edit::RecoverIdentity(0, 1));              // account 0 lost: its identity moves to account 1
            s.tok_plain(out, &Op::Recover(0, 2, adm));              // not the registered target
            s.tok_plain(out, &Op::Advance(gap));
            s.tok_plain(out, &Op::Recover(0, 1, adm));              // 100/10 frozen + flag on top of 50/50 frozen
            s.tok_plain(out, &Op::Recover(0, 1, adm));              // nothing left
            s.tok_plain(out, &Op::Transfer(1, 2, 1));               // 1 is address-frozen now
            s.tok_plain(out, &Op::SetFrozen(1, false, adm));
            s.tok_plain(out, &Op::Transfer(1, 2, 90));
            s.tok_plain(out, &Op::Transfer(1, 2, 91));
            s.tok_plain(out, &Op::Pause(adm));
            s.tok_plain(out, &Op::Advance(gap));
            s.tok_plain(out, &Op::Transfer(2, 1, 1));
            s.tok_plain(out, &Op::Unpause(adm));
            s.tok_plain(out, &Op::Transfer(2, 1, 1));
            s.finish(out, &format!("stack/directed/recovery-gap{}", gap));
        }
    }

    pub fn random_trace(out: &mut Out, rng: &mut Rng, idx: usize, len: usize) {
        let adm = 3usize;
        let (min_temp, max_ttl) = match rng.below(3) { 0 => (1, MAXTTL), 1 => (16, 1_000_000), _ => (16, 5000) };
        let mut s = SWorld::standard(out, min_temp, max_ttl);
        for a in 0..3usize { if rng.chance(3, 4) { let m = 10 + rng.below(200) as i128; s.tok_plain(out, &Op::Mint(a, m, adm)); } }
        let start = s.items.len();
        while s.items.len() < start + len {
            let ad = |rng: &mut Rng| rng.below(4) as usize;
            let (x, sp) = (ad(rng), ad(rng));
            let y = rng.below(5) as usize;                          // party 4 = the account-type address
            let x = if rng.chance(2, 3) { (0..4).filter(|&i| s.w.m.bal[i] > 0).nth(rng.below(2) as usize).unwrap_or(x) } else { x };
            let mut deny: std::vec::Vec<usize> = vec![];
            for i in 0..3 { if rng.chance(1, 10) { deny.push(i); } }
            let mut fail: std::vec::Vec<usize> = vec![];
            for i in 0..3 { if rng.chance(1, 14) { fail.push(i); } }
            s.c.flavour = 2 + rng.below(3) as u32;
            if rng.chance(1, 12) { s.issuer_flavour(rng.below(4) as u32); }
            match rng.below(100) {
                0..=21 => {
                    let a = pick_amount(rng, &[s.w.free(x), s.w.m.bal[x]]);
                    let op = if y == 4 && rng.chance(2, 3) { Op::TransferMux(x, y, if rng.chance(1, 2) { *rng.pick(&MUX_IDS) } else { rng.next_u64() }, a) } else { Op::Transfer(x, y, a) };
                    s.tokf(out, &op, &[x], &deny, &fail);
                }
                22..=33 => { let a = pick_amount(rng, &[s.w.free(x), s.w.allowance(x, sp)]); let op = Op::TransferFrom(sp, x, y, a); s.tokf(out, &op, &[sp], &deny, &fail); }
                34..=39 => { let l = s.w.m.now + 1 + rng.below(50_000) as u32; let a = pick_amount(rng, &[s.w.m.bal[x], 50]); s.tok_plain(out, &Op::Approve(x, sp, a, l.min(s.w.m.now + max_ttl - 1))); }
                40..=45 => { let a = pick_amount(rng, &[100]); let op = Op::Mint(y, a, adm); s.tokf(out, &op, &[adm], &deny, &fail); }
                46..=48 => { let a = pick_amount(rng, &[s.w.m.bal[x]]); s.tokf(out, &Op::Burn(x, a, adm), &[adm], &[], &fail); }
                49..=52 => { let a = pick_amount(rng, &[s.w.free(x), s.w.m.bal[x]]); s.tokf(out, &Op::Forced(x, y, a, adm), &[adm], &[], &fail); }
                53..=55 => { s.tok_plain(out, &Op::Recover(x, y, adm)); }
                56..=58 => { s.tok_plain(out, &Op::SetFrozen(y, rng.chance(1, 2), adm)); }
                59..=61 => { let a = pick_amount(rng, &[s.w.free(x)]); s.tok_plain(out, &Op::Freeze(x, a, adm)); }
                62..=63 => { let a = pick_amount(rng, &[s.w.m.frz[x]]); s.tok_plain(out, &Op::Unfreeze(x, a, adm)); }
                64 => { s.tok_plain(out, &Op::Pause(adm)); }
                65 => { s.tok_plain(out, &Op::Unpause(adm)); }
                66..=67 => { let g = long_gap(rng); s.tok_plain(out, &Op::Advance(g)); }
                68..=72 => { let md = if rng.chance(1, 10) { 3 + rng.below(2) as usize } else { rng.below(3) as usize }; s.cmp(out, &COp::Add(rng.below(5) as usize, md, adm), !rng.chance(1, 8)); }
                73..=76 => { let md = if rng.chance(1, 5) { 3 + rng.below(2) as usize } else { rng.below(3) as usize }; s.cmp(out, &COp::Remove(rng.below(5) as usize, md, adm), !rng.chance(1, 8)); }
                77 => { s.cmp(out, &COp::Unbind(0, adm), true); }
                78..=79 => { s.cmp(out, &COp::Bind(0, adm), true); }
                _ => {
                    let (k, i, t) = (rng.below(4) as usize, rng.below(2) as usize, *rng.pick(&TOPICS));
                    let ed = match rng.below(14) {
                        0 => Edit::AddTopic(t),
                        1 => Edit::RemoveTopic(t),
                        2 => Edit::AddIssuer(i, TOPICS.iter().cloned().filter(|_| rng.chance(2, 3)).collect()),
                        3 => Edit::RemoveIssuer(i),
                        4 => Edit::UpdateIssuer(i, TOPICS.iter().cloned().filter(|_| rng.chance(2, 3)).collect()),
                        5 => Edit::AddIdentity(rng.below(5) as usize, k),
                        6 => Edit::RemoveIdentity(rng.below(5) as usize),
                        7 => Edit::ModifyIdentity(rng.below(5) as usize, k),
                        8 => Edit::RecoverIdentity(x, y),
                        9 | 10 => Edit::AddClaim(k, t, i),
                        11 => Edit::RemoveClaim(k, t, i),
                        _ => Edit::Revoke(i, k, t, rng.chance(2, 3)),
                    };
                    s.edit(out, &ed);
                }
            }
        }
        s.finish(out, &format!("stack/random/{}", idx));
    }
}

fn main() {
    let mut out = Out::new("From SC Require Import Lib.Prelude Lib.Int Lib.Host Model.Rwa Model.RwaCompliance Model.RwaIdentity Run.C04Compliance Run.C04Identity Run.C04Stack Run.C04.\nOpen Scope Z_scope.", "check_all");
    out.per_shard(700);
    let mut rng = Rng::new(out.cfg.seed);
    let thorough = out.cfg.thorough;
    let scale = out.cfg.scale as usize;

    directed(&mut out);
    persistence(&mut out);
    situations(&mut out);
    // the 2^7 gate vectors through both entry points
    let reps = if thorough { 4 } else { 1 };
    for _ in 0..reps {
        for mode in [0u32, 1] {
            for bits in 0..128u32 { gate_trace(&mut out, &mut rng, mode, bits); }
        }
        // the muxed entry path: all open, every single closed gate, every pair, all closed (thorough: the whole vector)
        for bits in 0..128u32 {
            if thorough || bits.count_ones() <= 2 || bits == 127 { gate_trace(&mut out, &mut rng, 2, bits); }
        }
    }
    // VERIF_DIRECTED_ONLY=1 (self-check of the coverage gate): no random stream at all
    let no_random = std::env::var("VERIF_DIRECTED_ONLY").map(|v| v == "1").unwrap_or(false);
    let scale = if no_random { 0 } else { scale };
    // random adaptive sequences
    let (ntr, len, nu) = if thorough { (1500 * scale, 80, 5) } else { (110 * scale, 45, 4) };
    for i in 0..ntr {
        let l = len / 2 + rng.below(len as u64) as usize;
        let u = if thorough && rng.chance(1, 3) { 3 } else { nu };
        random_trace(&mut out, &mut rng, i, l, u);
    }
    // second layer: the real compliance contract with mock modules
    cmpl::directed(&mut out);
    cmpl::persistence(&mut out);
    let nct = if thorough { 600 * scale } else { 40 * scale };
    for i in 0..nct {
        let l = 25 + rng.below(30) as usize;
        cmpl::random_trace(&mut out, &mut rng, i, l);
    }
    // third layer: the real identity verifier in front of mock registries, identities and issuers
    idl::directed(&mut out);
    let nit = if thorough { 400 * scale } else { 30 * scale };
    for i in 0..nit { idl::random_trace(&mut out, &mut rng, i, 40); }
    // fourth family: the whole stack of real contracts, checked against the composition of the three models
    stack::directed(&mut out);
    let nst = if thorough { 500 * scale } else { 36 * scale };
    for i in 0..nst { stack::random_trace(&mut out, &mut rng, i, 34); }
    out.finish();
}
