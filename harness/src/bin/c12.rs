//! C12 correspondence harness: drives the real mul_div / Wad code inside the Soroban host.
use soroban_sdk::{contract, contractimpl, Env, I256};
use stellar_contract_utils::math::{
    checked_mul_div_i128, checked_mul_div_i256, mul_div_i128, mul_div_i256, wad::Wad, Rounding,
};
use vh::*;

#[contract]
pub struct MathC;

fn rd(k: u32) -> Rounding { match k { 0 => Rounding::Floor, 1 => Rounding::Ceil, _ => Rounding::Truncate } }

#[contractimpl]
impl MathC {
    pub fn md(e: Env, k: u32, x: i128, y: i128, d: i128) -> i128 { mul_div_i128(&e, x, y, d, rd(k)) }
    pub fn cmd(e: Env, k: u32, x: i128, y: i128, d: i128) -> Option<i128> { checked_mul_div_i128(&e, x, y, d, rd(k)) }
    pub fn md256(e: Env, k: u32, x: I256, y: I256, d: I256) -> I256 { mul_div_i256(&e, x, y, d, rd(k)) }
    pub fn cmd256(e: Env, k: u32, x: I256, y: I256, d: I256) -> Option<I256> { checked_mul_div_i256(&e, x, y, d, rd(k)) }
    pub fn wmul(e: Env, a: i128, b: i128) -> Option<i128> { Wad::from_raw(a).checked_mul(&e, Wad::from_raw(b)).map(|w| w.raw()) }
    pub fn wdiv(e: Env, a: i128, b: i128) -> Option<i128> { Wad::from_raw(a).checked_div(&e, Wad::from_raw(b)).map(|w| w.raw()) }
    pub fn wratio(e: Env, n: i128, d: i128) -> i128 { Wad::from_ratio(&e, n, d).raw() }
    pub fn wint(e: Env, n: i128) -> i128 { Wad::from_integer(&e, n).raw() }
    pub fn wcpow(e: Env, x: i128, p: u32) -> Option<i128> { Wad::from_raw(x).checked_pow(&e, p).map(|w| w.raw()) }
    pub fn wpow(e: Env, x: i128, p: u32) -> i128 { Wad::from_raw(x).pow(&e, p).raw() }
}

fn rdname(k: u32) -> &'static str { match k { 0 => "Floor", 1 => "Ceil", _ => "Truncate" } }

/// 256-bit values are carried as (hi: i128, lo: u128); Coq side: I256 hi lo = hi*2^128+lo
#[derive(Clone, Copy)]
struct W(i128, u128);
impl W {
    fn from_i128(v: i128) -> W { W(if v < 0 { -1 } else { 0 }, v as u128) }
    fn to(&self, e: &Env) -> I256 { I256::from_parts(e, (self.0 >> 64) as i64, self.0 as u64, (self.1 >> 64) as u64, self.1 as u64) }
    fn of(v: &I256) -> W {
        let mut b = [0u8; 32]; v.to_be_bytes().copy_into_slice(&mut b);
        let mut hi = [0u8; 16]; let mut lo = [0u8; 16];
        hi.copy_from_slice(&b[..16]); lo.copy_from_slice(&b[16..]);
        W(i128::from_be_bytes(hi), u128::from_be_bytes(lo))
    }
    fn coq(&self) -> String { format!("(I256 {} {})", z(self.0), zu(self.1)) }
}

fn out_i128<E>(r: Result<Result<i128, E>, impl Sized>) -> String {
    match r { Ok(Ok(v)) => format!("(Ok (Some {}))", z(v)), _ => "Fail".into() }
}
fn out_opt<E>(r: Result<Result<Option<i128>, E>, impl Sized>) -> String {
    match r { Ok(Ok(Some(v))) => format!("(Ok (Some {}))", z(v)), Ok(Ok(None)) => "(Ok None)".into(), _ => "Fail".into() }
}

// ---------- interior "magic number" lattice ----------
// Thresholds a plausible fast path would compare against are NOT the ends of i128: they are powers of
// ten (10^k, in particular sqrt(WAD_SCALE) = 10^9, WAD_SCALE = 10^18, WAD_SCALE^2 = 10^36), powers of two
// (2^31, 2^32, 2^63, 2^64, ... = "fits in a narrower type"), integer square roots of the type ranges
// ("the product of two such values fits") and scale-relative ends (MAX / WAD_SCALE, half a unit, ...).
// An off-by-one in such a threshold (<= for <) manifests only with operand(s) exactly AT the constant,
// often with ALL operands at it simultaneously (aliased magnitudes).
const WADC: i128 = 1_000_000_000_000_000_000;
const KEY2: [u32; 20] = [7, 8, 15, 16, 31, 32, 52, 53, 59, 60, 62, 63, 64, 65, 95, 96, 100, 120, 125, 126];
fn p10(k: u32) -> i128 { 10i128.pow(k) }
/// magnitudes (>= 0) of the magic lattice; `full`: +-1 neighbours of every 2^k, otherwise only of KEY2
fn magic128(full: bool) -> Vec<i128> {
    let mut v: Vec<i128> = vec![];
    for k in 0..=38u32 { for d in -1i128..=1 { v.push(p10(k) + d); } }
    for k in 0..=126u32 {
        let p = 1i128 << k;
        v.push(p);
        if full || KEY2.contains(&k) { v.push(p - 1); v.push(p + 1); }
    }
    // integer square roots of the type ranges and of the Wad overflow edge:
    //   isqrt(i64::MAX), isqrt(u64::MAX), isqrt(i128::MAX), isqrt(u128::MAX), isqrt(i128::MAX * 10^18)
    for r in [3_037_000_499i128, 4_294_967_295, 13_043_817_825_332_782_212, 18_446_744_073_709_551_615,
              13_043_817_825_332_782_212_349_571_806] {
        for d in -1i128..=1 { v.push(r + d); }
    }
    // scale-relative: MAX / WAD (from_integer edge), half a unit, two units
    for r in [i128::MAX / WADC, WADC / 2, 2 * WADC, i128::MAX / 1_000_000_000] { for d in -1i128..=1 { v.push(r + d); } }
    v.retain(|x| *x >= 0);
    v.sort(); v.dedup(); v
}
/// the reduced lattice used for the three-operand entry points in the quick tier
fn magic128_triples(full: bool) -> Vec<i128> {
    if full { return magic128(true); }
    let mut v: Vec<i128> = vec![];
    for k in 0..=38u32 { v.push(p10(k)); if [9u32, 18, 19, 36].contains(&k) { v.push(p10(k) - 1); v.push(p10(k) + 1); } }
    for k in 0..=126u32 { let p = 1i128 << k; v.push(p); if KEY2.contains(&k) { v.push(p - 1); v.push(p + 1); } }
    for r in [3_037_000_499i128, 13_043_817_825_332_782_212, 18_446_744_073_709_551_615] { for d in -1i128..=1 { v.push(r + d); } }
    v.sort(); v.dedup(); v
}

// 256-bit magnitudes as (hi: u128, lo: u128)
fn u256_pow2(k: u32) -> (u128, u128) { if k < 128 { (0, 1u128 << k) } else { (1u128 << (k - 128), 0) } }
fn u256_pow10(k: u32) -> (u128, u128) {
    let (mut hi, mut lo) = (0u128, 1u128);
    let mask = (1u128 << 64) - 1;
    for _ in 0..k {
        let p0 = (lo & mask) * 10;
        let p1 = (lo >> 64) * 10 + (p0 >> 64);
        lo = (p1 << 64) | (p0 & mask);
        hi = hi * 10 + (p1 >> 64);
    }
    (hi, lo)
}
fn u256_add(m: (u128, u128), d: i8) -> (u128, u128) {
    match d {
        1 => { let (lo, c) = m.1.overflowing_add(1); (m.0 + c as u128, lo) }
        -1 => { let (lo, b) = m.1.overflowing_sub(1); (m.0 - b as u128, lo) }
        _ => m,
    }
}
/// signed 256-bit value from sign and magnitude (magnitude <= 2^255)
fn w_of(neg: bool, m: (u128, u128)) -> W {
    if !neg { W(m.0 as i128, m.1) }
    else { let lo = (!m.1).wrapping_add(1); let hi = (!m.0).wrapping_add(if m.1 == 0 { 1 } else { 0 }); W(hi as i128, lo) }
}

fn main() {
    let mut out = Out::new("From SC Require Import Lib.Prelude Lib.Int Model.Math Run.C12.\nOpen Scope Z_scope.", "check_all");
    let e = Env::default();
    e.cost_estimate().budget().reset_unlimited();
    let id = e.register(MathC, ());
    let c = MathCClient::new(&e, &id);
    let mut rng = Rng::new(out.cfg.seed);
    let lat = lattice128();
    let thorough = out.cfg.thorough;

    // closure: run one 128-bit triple through all six entry points
    let mut trace: Vec<String> = vec![];
    let mut emit = |out: &mut Out, trace: &mut Vec<String>, call: String, res: String, lab: &str| {
        let tag = if res == "Fail" { "trap" } else if res == "(Ok None)" { "none" } else { "some" };
        out.case(&format!("{}/{}", lab, tag), &call);
        trace.push(pair(&call, &res));
    };
    let mut tidx = 0usize;
    let flush = |out: &mut Out, trace: &mut Vec<String>, desc: &str, tidx: &mut usize| {
        if !trace.is_empty() { let nn = trace.len(); out.trace(desc, list(trace), nn); trace.clear(); *tidx += 1; }
    };

    let do128 = |out: &mut Out, trace: &mut Vec<String>, x: i128, y: i128, d: i128, emit: &mut dyn FnMut(&mut Out, &mut Vec<String>, String, String, &str)| {
        for k in 0..3u32 {
            let wide = x.checked_mul(y).is_none();
            let r = c.try_md(&k, &x, &y, &d);
            emit(out, trace, format!("MulDiv128 {} {} {} {}", rdname(k), z(x), z(y), z(d)), out_i128(r), if wide { "md128-widened" } else { "md128" });
            let r = c.try_cmd(&k, &x, &y, &d);
            emit(out, trace, format!("CMulDiv128 {} {} {} {}", rdname(k), z(x), z(y), z(d)), out_opt(r), if wide { "cmd128-widened" } else { "cmd128" });
        }
    };

    // 1. boundary lattice cubed (quick: a seeded sample of it plus the full 13-point core cubed)
    let core: Vec<i128> = vec![0, 1, -1, 1 << 63, -(1 << 63), 1 << 64, -(1 << 64), 1_000_000_000_000_000_000, -1_000_000_000_000_000_000,
                               i128::MIN, i128::MIN + 1, i128::MAX - 1, i128::MAX, 2];
    for &x in &core { for &y in &core { for &d in &core { do128(&mut out, &mut trace, x, y, d, &mut emit); } flush(&mut out, &mut trace, "core-lattice", &mut tidx); } }
    let nl = if thorough { 6000 } else { 300 } * out.cfg.scale;
    for i in 0..nl {
        let (x, y, d) = (*rng.pick(&lat), *rng.pick(&lat), *rng.pick(&lat));
        do128(&mut out, &mut trace, x, y, d, &mut emit);
        if i % 40 == 39 { flush(&mut out, &mut trace, "lattice-sample", &mut tidx); }
    }
    flush(&mut out, &mut trace, "lattice-sample", &mut tidx);
    // 2. random triples of every bit length
    let nr = if thorough { 20000 } else { 700 } * out.cfg.scale;
    for i in 0..nr {
        let (x, y) = (rng.i128_any(), rng.i128_any());
        let d = if rng.chance(1, 30) { 0 } else { rng.i128_any() };
        do128(&mut out, &mut trace, x, y, d, &mut emit);
        if i % 40 == 39 { flush(&mut out, &mut trace, "random", &mut tidx); }
    }
    flush(&mut out, &mut trace, "random", &mut tidx);
    // 3. constructed: quotient exactly at / just beyond MAX and MIN:  x*y ~ T*d (+/- small)
    let nc = if thorough { 6000 } else { 200 } * out.cfg.scale;
    for i in 0..nc {
        // choose d and y=d*k so that x*y/d = x*k ; pick x near MAX/k
        let k = 1 + rng.u_bits(20);
        let dd = { let v = rng.u_bits(60) + 1; if rng.chance(1, 2) { v } else { -v } };
        let y = match dd.checked_mul(k) { Some(v) => v, None => continue };
        let target = if rng.chance(1, 2) { i128::MAX } else { i128::MIN };
        let base = target / k;
        let x = base.saturating_add(rng.range(-2, 2) as i128);
        do128(&mut out, &mut trace, x, y, dd, &mut emit);
        do128(&mut out, &mut trace, x, y + rng.range(-1, 1) as i128, dd, &mut emit);
        if i % 20 == 19 { flush(&mut out, &mut trace, "quotient-at-range-edge", &mut tidx); }
    }
    flush(&mut out, &mut trace, "quotient-at-range-edge", &mut tidx);

    // 3b. directed: rounding-sensitive fit on the widening path (floor fits / ceil does not, and the reverse),
    //     at both ends of the range, and quotient exactly MIN / MAX with an overflowing product
    {
        let m = i128::MAX; let n = i128::MIN;
        let cases: [(i128, i128, i128); 12] = [
            (m, 3, 3), (m, 4, 4), (n, 3, 3), (n, 5, -5),           // exact MAX / MIN / MIN / (2^127 does not fit)
            (m, 2 * 3 + 1, 2 * 3 + 1),                              // exact MAX through a widened product
            ((1i128 << 126), 6, 3), ((1i128 << 126) + 1, 6, 3),      // 2^127 (unfit) and just above
            // quotient strictly between MAX and MAX+1: floor = MAX fits, ceil = MAX+1 does not
            (m, 4, 4 - 0), (m - 0, 1 << 64, (1 << 64) - 0),
            // x*y = MAX*(2^64) + r  with 0 < r < 2^64  => floor = MAX, ceil = MAX+1
            (m, 1 << 64, 1 << 64), (n, 1 << 64, 1 << 64), (n, 1 << 64, -(1 << 64)),
        ];
        for &(x, y, d) in cases.iter() { do128(&mut out, &mut trace, x, y, d, &mut emit); }
        // MAX*k + r over k, r in (0,k): floor fits, ceil does not; MIN*k - r: ceil fits, floor does not
        for k in [3i128, 7, 1 << 40, (1 << 64) + 1] {
            // choose y = k, x = MAX, then perturb the divisor so the quotient is just above MAX / just below MIN
            do128(&mut out, &mut trace, m, k, k - 1 + 1, &mut emit);
            do128(&mut out, &mut trace, m, k + 1, k, &mut emit);          // quotient > MAX: never fits
            do128(&mut out, &mut trace, m - 1, k, k, &mut emit);          // exact MAX-1
            do128(&mut out, &mut trace, n, k, k, &mut emit);              // exact MIN
            do128(&mut out, &mut trace, n + 1, k + 1, k + 1, &mut emit);
            // inexact around the ends: (MAX*k + (k-1)) / k  has floor MAX, ceil MAX+1 ; needs x*y form: use x = MAX, y = k, d = k with remainder via y+? -> use 3-factor trick: x=(MAX), y=(2k-1), d=(2k-1) exact; so take d = y+0 and x just below
            do128(&mut out, &mut trace, m, 2 * k - 1, 2 * k - 2 + 1, &mut emit);
        }
        // rational just above MAX with floor = MAX: x = 2^64+1, y = 2^63 - 1 ... brute-force search of small multipliers
        for a in [(1i128 << 64) + 3, (1i128 << 100) + 12345, 0x1234_5678_9abc_def0_1234_5678i128] {
            let b_ = m / a + 1;                       // a*b_ > MAX  (widened)
            for dd in [1i128, 2, 3, -1, -2, -3, b_, -b_, a] {
                do128(&mut out, &mut trace, a, b_, dd, &mut emit);
                do128(&mut out, &mut trace, -a, b_, dd, &mut emit);
            }
        }
        flush(&mut out, &mut trace, "directed-rounding-at-range-ends", &mut tidx);
    }

    // 4. I256 entry points
    let n256 = if thorough { 6000 } else { 300 } * out.cfg.scale;
    let minw = W(i128::MIN, 0); let maxw = W(i128::MAX, u128::MAX);
    {
        let one = W(0, 1); let m1 = W(-1, u128::MAX); let zero = W(0, 0); let two = W(0, 2);
        let directed: [(W, W, W); 10] = [(minw, one, m1), (one, minw, m1), (minw, m1, one), (maxw, maxw, zero), (maxw, two, zero), (minw, minw, zero),
                                         (maxw, one, one), (minw, one, one), (maxw, one, two), (minw, one, two)];
        for (x, y, d) in directed.iter() {
            for k in 0..3u32 {
                let r = c.try_md256(&k, &x.to(&e), &y.to(&e), &d.to(&e));
                let s_ = match r { Ok(Ok(v)) => format!("(Ok (Some {}))", W::of(&v).coq()), _ => "Fail".into() };
                emit(&mut out, &mut trace, format!("MulDiv256 {} {} {} {}", rdname(k), x.coq(), y.coq(), d.coq()), s_, "md256-directed");
                let r = c.try_cmd256(&k, &x.to(&e), &y.to(&e), &d.to(&e));
                let s_ = match r { Ok(Ok(Some(v))) => format!("(Ok (Some {}))", W::of(&v).coq()), Ok(Ok(None)) => "(Ok None)".into(), _ => "Fail".into() };
                emit(&mut out, &mut trace, format!("CMulDiv256 {} {} {} {}", rdname(k), x.coq(), y.coq(), d.coq()), s_, "cmd256-directed");
            }
        }
        flush(&mut out, &mut trace, "i256-directed", &mut tidx);
    }
    for i in 0..n256 {
        let pickw = |rng: &mut Rng| -> W {
            match rng.below(10) {
                0 => minw, 1 => maxw, 2 => W(i128::MIN, 1), 3 => W(-1, u128::MAX), 4 => W(0, 0), 5 => W(0, 1),
                6 | 7 => W::from_i128(rng.i128_any()),
                _ => W(rng.i128_any() >> rng.below(127) as u32, rng.next_u128()),
            }
        };
        let (x, y, d) = (pickw(&mut rng), pickw(&mut rng), if rng.chance(1, 25) { W(0, 0) } else { pickw(&mut rng) });
        for k in 0..3u32 {
            let r = c.try_md256(&k, &x.to(&e), &y.to(&e), &d.to(&e));
            let s = match r { Ok(Ok(v)) => format!("(Ok (Some {}))", W::of(&v).coq()), _ => "Fail".into() };
            emit(&mut out, &mut trace, format!("MulDiv256 {} {} {} {}", rdname(k), x.coq(), y.coq(), d.coq()), s, "md256");
            let r = c.try_cmd256(&k, &x.to(&e), &y.to(&e), &d.to(&e));
            let s = match r { Ok(Ok(Some(v))) => format!("(Ok (Some {}))", W::of(&v).coq()), Ok(Ok(None)) => "(Ok None)".into(), _ => "Fail".into() };
            emit(&mut out, &mut trace, format!("CMulDiv256 {} {} {} {}", rdname(k), x.coq(), y.coq(), d.coq()), s, "cmd256");
        }
        if i % 40 == 39 { flush(&mut out, &mut trace, "i256", &mut tidx); }
    }
    flush(&mut out, &mut trace, "i256", &mut tidx);

    // 5a. Wad: boundary core squared, exhaustively (incl. aliased operands a == b and 0/0)
    {
        let wad = 1_000_000_000_000_000_000i128;
        let mut wcore = core.clone();
        wcore.extend_from_slice(&[wad, -wad, wad + 1, wad - 1, 2 * wad, 3, -3, 7]);
        for (i, &a) in wcore.iter().enumerate() {
            for &b_ in wcore.iter() {
                emit(&mut out, &mut trace, format!("WadCMul {} {}", z(a), z(b_)), out_opt(c.try_wmul(&a, &b_)), "wad_mul");
                emit(&mut out, &mut trace, format!("WadCDiv {} {}", z(a), z(b_)), out_opt(c.try_wdiv(&a, &b_)), "wad_div");
                emit(&mut out, &mut trace, format!("WadFromRatio {} {}", z(a), z(b_)), out_i128(c.try_wratio(&a, &b_)), "wad_from_ratio");
            }
            emit(&mut out, &mut trace, format!("WadFromInteger {}", z(a)), out_i128(c.try_wint(&a)), "wad_from_integer");
            if i % 3 == 2 { flush(&mut out, &mut trace, "wad-core-lattice", &mut tidx); }
        }
        flush(&mut out, &mut trace, "wad-core-lattice", &mut tidx);
    }
    // 5b. directed pow pairs: exponents 0,1, base 0 and 1.0, overflow, huge exponent on 1.0 +/- eps
    {
        let wad = 1_000_000_000_000_000_000i128;
        for &(x, p) in [(5i128, 0u32), (5, 1), (0, 7), (wad, u32::MAX), (2 * wad, 10), (2 * wad, 200), (-2 * wad, 3), (-2 * wad, 127), (wad + 1, u32::MAX), (wad - 1, u32::MAX),
                        (i128::MAX, 2), (i128::MIN, 2), (i128::MIN, 1), (3 * wad / 2, 64), (wad / 2, 64)].iter() {
            emit(&mut out, &mut trace, format!("WadCPow {} {}", z(x), p), out_opt(c.try_wcpow(&x, &p)), "wad_checked_pow-directed");
            emit(&mut out, &mut trace, format!("WadPow {} {}", z(x), p), out_i128(c.try_wpow(&x, &p)), "wad_pow-directed");
        }
        flush(&mut out, &mut trace, "wad-pow-directed", &mut tidx);
    }
    // 6. interior magic numbers of plausible fast paths (deterministic; no use of the random stream).
    //    For EVERY operation: operands exactly at 10^k / 2^k / isqrt(range) / scale-relative constants (each +-1),
    //    (A) aliased (all operands the same magnitude, all sign patterns), (B) pairwise over the powers of ten,
    //    (C) one magic operand against a generic one, in every position, (D) pairs whose exact RESULT sits on a
    //    threshold (0 | 1 raw unit, 1.0, the i128 edge), (E) 2^i * 2^j on the product-fits edge.
    {
        let mfull = magic128(true);                         // ~520 magnitudes
        let mtri = magic128_triples(thorough);              // reduced for the 3-operand entry points
        let sgn = |v: i128, neg: bool| -> i128 { if neg { -v } else { v } };
        let wad3 = |out: &mut Out, trace: &mut Vec<String>, a: i128, b_: i128, fam: &str, ops: u8,
                    emit: &mut dyn FnMut(&mut Out, &mut Vec<String>, String, String, &str)| {
            if ops & 1 != 0 { emit(out, trace, format!("WadCMul {} {}", z(a), z(b_)), out_opt(c.try_wmul(&a, &b_)), &format!("wad_mul-{}", fam)); }
            if ops & 2 != 0 { emit(out, trace, format!("WadCDiv {} {}", z(a), z(b_)), out_opt(c.try_wdiv(&a, &b_)), &format!("wad_div-{}", fam)); }
            if ops & 4 != 0 { emit(out, trace, format!("WadFromRatio {} {}", z(a), z(b_)), out_i128(c.try_wratio(&a, &b_)), &format!("wad_from_ratio-{}", fam)); }
        };
        let do128m = |out: &mut Out, trace: &mut Vec<String>, x: i128, y: i128, d: i128, fam: &str,
                      emit: &mut dyn FnMut(&mut Out, &mut Vec<String>, String, String, &str)| {
            for k in 0..3u32 {
                emit(out, trace, format!("MulDiv128 {} {} {} {}", rdname(k), z(x), z(y), z(d)), out_i128(c.try_md(&k, &x, &y, &d)), &format!("md128-{}", fam));
                emit(out, trace, format!("CMulDiv128 {} {} {} {}", rdname(k), z(x), z(y), z(d)), out_opt(c.try_cmd(&k, &x, &y, &d)), &format!("cmd128-{}", fam));
            }
        };

        // (A) Wad, aliased magnitudes over the FULL lattice: a = +-v, b = +-v  (the 'dust * dust' shape:
        //     a conjunction of two comparisons against the same constant is wrong only when both sit on it)
        //     multiply: every v of the full lattice, all four sign patterns; divide / from_ratio (whose aliased result is
        //     always +-1.0) and from_integer: the reduced lattice plus the scale-relative constants in quick, all in thorough
        let rich = |v: i128| -> bool {
            thorough || v == 0 || mtri.binary_search(&v).is_ok()
                || [i128::MAX / WADC, WADC / 2, 2 * WADC, i128::MAX / 1_000_000_000].iter().any(|r| (v - r).abs() <= 1)
        };
        for (i, &v) in mfull.iter().enumerate() {
            let ops = if rich(v) { 7 } else { 1 };
            wad3(&mut out, &mut trace, v, v, "magic-aliased", ops, &mut emit);
            wad3(&mut out, &mut trace, v, -v, "magic-aliased", ops, &mut emit);
            wad3(&mut out, &mut trace, -v, -v, "magic-aliased", 1, &mut emit);
            wad3(&mut out, &mut trace, -v, v, "magic-aliased", if thorough { 7 } else { 1 }, &mut emit);
            if rich(v) { for n in [v, -v] { emit(&mut out, &mut trace, format!("WadFromInteger {}", z(n)), out_i128(c.try_wint(&n)), "wad_from_integer-magic"); } }
            if i % 30 == 29 { flush(&mut out, &mut trace, "wad-magic-aliased", &mut tidx); }
        }
        flush(&mut out, &mut trace, "wad-magic-aliased", &mut tidx);

        // (B) Wad, all ordered pairs of powers of ten (10^i, 10^j), sign pattern rotating with the pair;
        //     next to the diagonal also the mixed +-1 neighbours
        for i in 0..=38u32 {
            for j in 0..=38u32 {
                let s = (i + 2 * j) % 4;
                wad3(&mut out, &mut trace, sgn(p10(i), s & 1 != 0), sgn(p10(j), s & 2 != 0), "magic-pair", 7, &mut emit);
            }
            let v = p10(i);
            for (da, db) in [(0i128, -1i128), (0, 1), (-1, 0), (1, 0), (-1, 1), (1, -1)] {
                wad3(&mut out, &mut trace, sgn(v + da, i % 2 == 1), v + db, "magic-pair", 7, &mut emit);
            }
            if i % 3 == 2 { flush(&mut out, &mut trace, "wad-magic-pow10-pairs", &mut tidx); }
        }
        flush(&mut out, &mut trace, "wad-magic-pow10-pairs", &mut tidx);

        // (C) Wad, one magic operand against a generic non-trivial one (1.5 units + 7 raw), both positions
        let g1 = 3 * WADC / 2 + 7;
        for (i, &v) in mtri.iter().enumerate() {
            let vs = sgn(v, i % 3 == 1);
            wad3(&mut out, &mut trace, vs, g1, "magic-single", 7, &mut emit);
            wad3(&mut out, &mut trace, if i % 2 == 0 { g1 } else { -g1 }, vs, "magic-single", 7, &mut emit);
            if i % 60 == 59 { flush(&mut out, &mut trace, "wad-magic-single", &mut tidx); }
        }
        flush(&mut out, &mut trace, "wad-magic-single", &mut tidx);

        // (D) Wad, exact result on a threshold.
        //     mul: a*b around 10^18 (result 0 | +-1 raw unit) and around 10^36 (result around 1.0);
        //          10^i * b with the result at the i128 edge
        //     div / from_ratio: a*10^18 around b (result 0 | +-1); a / 10^j with the result at the i128 edge
        for tot in [18u32, 36] {
            for i in 0..=tot {
                if tot - i > 38 || i > 38 { continue; }
                for da in -1i128..=1 { for db in -1i128..=1 {
                    let neg = (i as i128 + da + 2 * db).rem_euclid(4);
                    wad3(&mut out, &mut trace, sgn(p10(i) + da, neg & 1 != 0), sgn(p10(tot - i) + db, neg & 2 != 0), "magic-result", 1, &mut emit);
                } }
            }
        }
        for i in 18..=38u32 {
            let edge = i128::MAX / p10(i - 18);
            for db in 0i128..=1 {
                if let Some(b_) = edge.checked_add(db) {
                    wad3(&mut out, &mut trace, p10(i), b_, "magic-result", 1, &mut emit);
                    wad3(&mut out, &mut trace, -b_, p10(i), "magic-result", 1, &mut emit);
                    wad3(&mut out, &mut trace, -b_, -p10(i), "magic-result", 1, &mut emit);
                }
            }
        }
        flush(&mut out, &mut trace, "wad-magic-result-mul", &mut tidx);
        for i in 0..=20u32 {
            for da in -1i128..=1 { for db in -1i128..=1 {
                let neg = (i as i128 + da + 2 * db).rem_euclid(4);
                wad3(&mut out, &mut trace, sgn(p10(i) + da, neg & 1 != 0), sgn(p10(i + 18) + db, neg & 2 != 0), "magic-result", 6, &mut emit);
            } }
        }
        for j in 0..=18u32 {
            let edge = i128::MAX / p10(18 - j);
            for da in 0i128..=1 {
                if let Some(a) = edge.checked_add(da) {
                    wad3(&mut out, &mut trace, a, p10(j), "magic-result", 6, &mut emit);
                    wad3(&mut out, &mut trace, -a, p10(j), "magic-result", 6, &mut emit);
                    wad3(&mut out, &mut trace, -a - 1, -p10(j), "magic-result", 6, &mut emit);
                }
            }
        }
        flush(&mut out, &mut trace, "wad-magic-result-div", &mut tidx);

        // pow: magic bases with exponents 2 and 3 (base*base is the aliased product), magic exponents 2^k (+-1)
        for k in 0..=38u32 {
            for dv in -1i128..=1 {
                let x = sgn(p10(k) + dv, k % 2 == 1 && dv == 0);
                for p in [2u32, 3] {
                    emit(&mut out, &mut trace, format!("WadCPow {} {}", z(x), p), out_opt(c.try_wcpow(&x, &p)), "wad_checked_pow-magic");
                    emit(&mut out, &mut trace, format!("WadPow {} {}", z(x), p), out_i128(c.try_wpow(&x, &p)), "wad_pow-magic");
                }
            }
        }
        for k in 0..=31u32 {
            for dp in -1i64..=1 {
                let p = ((1i64 << k) + dp) as u32;
                let x = if k % 2 == 0 { WADC + 1_000_000_000 } else { WADC - 1_000_000_000 };
                emit(&mut out, &mut trace, format!("WadCPow {} {}", z(x), p), out_opt(c.try_wcpow(&x, &p)), "wad_checked_pow-magic");
                emit(&mut out, &mut trace, format!("WadPow {} {}", z(x), p), out_i128(c.try_wpow(&x, &p)), "wad_pow-magic");
            }
        }
        flush(&mut out, &mut trace, "wad-magic-pow", &mut tidx);

        // i128 mul_div, all six variants.
        // (A) x = +-v, y = +-v with a generic divisor; all three operands aliased; (C) generic product over a magic divisor
        let (ga, gb) = (0x1234_5678_9abc_def0_1234i128, 1_000_003i128);      // product fits in i128
        let (ha, hb) = ((1i128 << 100) + 12345, (1i128 << 40) + 7);          // product needs the widening path
        for (i, &v) in mtri.iter().enumerate() {
            let d7 = if i % 2 == 0 { 7 } else { -7 };
            do128m(&mut out, &mut trace, sgn(v, i % 4 >= 2), v, d7, "magic-aliased", &mut emit);
            do128m(&mut out, &mut trace, v, -v, sgn(v, i % 2 == 1), "magic-aliased", &mut emit);
            if i % 2 == 0 { do128m(&mut out, &mut trace, ga, sgn(gb, i % 4 == 2), sgn(v, i % 3 == 1), "magic-single", &mut emit); }
            else { do128m(&mut out, &mut trace, sgn(ha, i % 4 == 3), hb, sgn(v, i % 3 == 1), "magic-single", &mut emit); }
            if i % 40 == 39 { flush(&mut out, &mut trace, "md128-magic", &mut tidx); }
        }
        flush(&mut out, &mut trace, "md128-magic", &mut tidx);
        // (E) bit-length fast paths: 2^i * 2^(127-i) = 2^127 is one past MAX (widened), -2^i * 2^(127-i) = MIN fits natively
        for i in 1..=126u32 {
            let (x, y) = (1i128 << i, 1i128 << (127 - i));
            let d = [-1i128, 1, 3, -3, 1 << (i.min(100)), -2][(i % 6) as usize];
            do128m(&mut out, &mut trace, x, y, d, "magic-bits", &mut emit);
            do128m(&mut out, &mut trace, -x, y, d, "magic-bits", &mut emit);
            if thorough { do128m(&mut out, &mut trace, x - 1, y, d, "magic-bits", &mut emit); do128m(&mut out, &mut trace, -x, -y, -d, "magic-bits", &mut emit); }
            if i % 42 == 41 { flush(&mut out, &mut trace, "md128-magic-bits", &mut tidx); }
        }
        flush(&mut out, &mut trace, "md128-magic-bits", &mut tidx);

        // (F) corners of a NARROWER type seen from the wide domain ("all operands fit in iN -> take the iN path"):
        //     T = 2^31, 2^32, 2^64 for the i128 entry points: MIN_N / -1, MIN_N * -1, MAX_N, MAX_N + 1 as x, y, d
        for t in [1i128 << 31, 1 << 32, 1 << 64] {
            for x in [-t, t - 1, t] { for y in [1i128, -1, -t] { for d in [1i128, -1, -t] {
                do128m(&mut out, &mut trace, x, y, d, "magic-narrow", &mut emit);
            } } }
        }
        flush(&mut out, &mut trace, "md128-magic-narrow", &mut tidx);
        {
            let one = (0u128, 1u128);
            for k in [31u32, 63, 127] {
                let t = u256_pow2(k);
                let xs = [w_of(true, t), w_of(false, u256_add(t, -1)), w_of(false, t)];
                let ys = [w_of(false, one), w_of(true, one), w_of(true, t)];
                for x in xs.iter() { for y in ys.iter() { for d in ys.iter() {
                    for r_ in 0..3u32 {
                        let r = c.try_md256(&r_, &x.to(&e), &y.to(&e), &d.to(&e));
                        let s_ = match r { Ok(Ok(v)) => format!("(Ok (Some {}))", W::of(&v).coq()), _ => "Fail".into() };
                        emit(&mut out, &mut trace, format!("MulDiv256 {} {} {} {}", rdname(r_), x.coq(), y.coq(), d.coq()), s_, "md256-magic-narrow");
                        let r = c.try_cmd256(&r_, &x.to(&e), &y.to(&e), &d.to(&e));
                        let s_ = match r { Ok(Ok(Some(v))) => format!("(Ok (Some {}))", W::of(&v).coq()), Ok(Ok(None)) => "(Ok None)".into(), _ => "Fail".into() };
                        emit(&mut out, &mut trace, format!("CMulDiv256 {} {} {} {}", rdname(r_), x.coq(), y.coq(), d.coq()), s_, "cmd256-magic-narrow");
                    }
                } } }
            }
            flush(&mut out, &mut trace, "i256-magic-narrow", &mut tidx);
        }

        // I256 mul_div: magic values of the 256-bit domain, in particular the i128 / i64 ends seen from I256
        // ("both operands fit in i128 -> take the narrow path"), aliased and against a generic operand
        {
            let mut mags: Vec<(u128, u128)> = vec![];
            for k in [31u32, 32, 63, 64, 126, 127, 128, 129, 191, 192, 253, 254] {
                for d in -1i8..=1 { mags.push(u256_add(u256_pow2(k), d)); }
            }
            for k in [9u32, 18, 36, 38, 39, 72, 76] { for d in -1i8..=1 { mags.push(u256_add(u256_pow10(k), d)); } }
            let three = W(0, 3); let g = W(0, 1_000_003);
            for (i, m) in mags.iter().enumerate() {
                let (p, q) = (w_of(false, *m), w_of(true, *m));
                let triples: [(W, W, W); 4] = [(p, p, if i % 2 == 0 { three } else { w_of(true, (0, 3)) }), (p, q, p), (q, g, three), (g, three, q)];
                for (x, y, d) in triples.iter() {
                    for k in 0..3u32 {
                        let r = c.try_md256(&k, &x.to(&e), &y.to(&e), &d.to(&e));
                        let s_ = match r { Ok(Ok(v)) => format!("(Ok (Some {}))", W::of(&v).coq()), _ => "Fail".into() };
                        emit(&mut out, &mut trace, format!("MulDiv256 {} {} {} {}", rdname(k), x.coq(), y.coq(), d.coq()), s_, "md256-magic");
                        let r = c.try_cmd256(&k, &x.to(&e), &y.to(&e), &d.to(&e));
                        let s_ = match r { Ok(Ok(Some(v))) => format!("(Ok (Some {}))", W::of(&v).coq()), Ok(Ok(None)) => "(Ok None)".into(), _ => "Fail".into() };
                        emit(&mut out, &mut trace, format!("CMulDiv256 {} {} {} {}", rdname(k), x.coq(), y.coq(), d.coq()), s_, "cmd256-magic");
                    }
                }
                if i % 12 == 11 { flush(&mut out, &mut trace, "i256-magic", &mut tidx); }
            }
            flush(&mut out, &mut trace, "i256-magic", &mut tidx);
        }
    }

    // 5. Wad
    let nw =if thorough { 10000 } else { 500 } * out.cfg.scale;
    let wad = 1_000_000_000_000_000_000i128;
    for i in 0..nw {
        let pk = |rng: &mut Rng| -> i128 { match rng.below(4) { 0 => *rng.pick(&lat), 1 => rng.i128_any(), 2 => wad.saturating_mul(rng.range(-1000, 1000) as i128) + rng.range(-3, 3) as i128, _ => rng.u_bits(100) } };
        let (a, b_) = (pk(&mut rng), if rng.chance(1, 25) { 0 } else { pk(&mut rng) });
        emit(&mut out, &mut trace, format!("WadCMul {} {}", z(a), z(b_)), out_opt(c.try_wmul(&a, &b_)), "wad_mul");
        emit(&mut out, &mut trace, format!("WadCDiv {} {}", z(a), z(b_)), out_opt(c.try_wdiv(&a, &b_)), "wad_div");
        emit(&mut out, &mut trace, format!("WadFromRatio {} {}", z(a), z(b_)), out_i128(c.try_wratio(&a, &b_)), "wad_from_ratio");
        emit(&mut out, &mut trace, format!("WadFromInteger {}", z(a)), out_i128(c.try_wint(&a)), "wad_from_integer");
        // pow: bases near 1.0 so that large exponents are meaningful, and arbitrary ones
        let x = match rng.below(5) { 0 => wad + rng.range(-1000, 1000) as i128, 1 => wad * rng.range(-12, 12) as i128 / 4, 2 => *rng.pick(&lat), 3 => rng.i128_any(), _ => wad + rng.u_bits(50) };
        let p: u32 = match rng.below(6) { 0 => rng.below(4) as u32, 1 => rng.below(70) as u32, 2 => rng.below(100000) as u32, 3 => u32::MAX - rng.below(3) as u32, 4 => 1u32 << rng.below(32), _ => rng.next_u64() as u32 };
        emit(&mut out, &mut trace, format!("WadCPow {} {}", z(x), p), out_opt(c.try_wcpow(&x, &p)), "wad_checked_pow");
        emit(&mut out, &mut trace, format!("WadPow {} {}", z(x), p), out_i128(c.try_wpow(&x, &p)), "wad_pow");
        if i % 40 == 39 { flush(&mut out, &mut trace, "wad", &mut tidx); }
    }
    flush(&mut out, &mut trace, "wad", &mut tidx);
    out.finish();
}
