//! C09 correspondence harness: the real examples/timelock-controller contract (included by path)
//! inside the Soroban host.  Admin-only entry points are called end to end with REAL authorisation
//! entries for the controller's own address (signature = Vec<OperationMeta>, arbitrary invocation
//! tree), so the host itself dispatches to __check_auth; __check_auth is also invoked directly with
//! crafted (metas, contexts).  Ordinary accounts sign through always-accepting account contracts
//! with exact per-invocation entries (never mock_all_auths).
#![allow(clippy::too_many_arguments)]
use soroban_sdk::{
    auth::{Context, ContractContext, ContractExecutable, CreateContractHostFnContext},
    contract, contractimpl, contracttype,
    testutils::{Address as _, Ledger as _, MockAuth, MockAuthContract, MockAuthInvoke},
    xdr, Address, BytesN, Env, IntoVal, Symbol, TryFromVal, Val, Vec,
};
use stellar_governance::timelock::{OperationState, TimelockError, DONE_LEDGER, UNSET_LEDGER};
use vh::*;

#[path = "/repo/examples/timelock-controller/src/contract.rs"]
mod ctrl;
use ctrl::{OperationMeta, TimelockController};

#[contracttype]
pub enum TKey { Count(u32) }

/// external target of execute_op: counts successful invocations per tag
#[contract]
pub struct Target;

#[contractimpl]
impl Target {
    pub fn bump(e: Env, tag: u32) -> u32 {
        let k = TKey::Count(tag);
        let c: u32 = e.storage().persistent().get(&k).unwrap_or(0) + 1;
        e.storage().persistent().set(&k, &c);
        c
    }
    pub fn boom(_e: Env, _tag: u32) { panic!("target traps") }
    pub fn count(e: Env, tag: u32) -> u32 { e.storage().persistent().get(&TKey::Count(tag)).unwrap_or(0) }
}

// ---------- fixed symbol tables (ids shared with Model/TimelockController.v) ----------
fn fn_name(f: u8) -> &'static str {
    match f {
        0 => "bump", 1 => "boom", 2 => "nope",
        10 => "update_delay", 11 => "grant_role", 12 => "revoke_role", 13 => "set_role_admin",
        14 => "transfer_admin_role", 15 => "renounce_admin", 16 => "accept_admin_transfer", 17 => "renounce_role",
        18 => "schedule_op", 19 => "execute_op", 20 => "cancel_op", 21 => "get_min_delay",
        _ => "zzz",
    }
}
const ROLE_NAMES: [&str; 6] = ["", "proposer", "executor", "canceller", "minter", "madmin"];
const NROLES: usize = 5;
// addresses: index = model address
const SELF: usize = 1; const P1: usize = 2; const P2: usize = 3; const X1: usize = 4; const X2: usize = 5;
const ADM: usize = 6; const OUT: usize = 7; const TGT: usize = 8; const DEAD: usize = 9;
const NADDR: usize = 9;
/// host configurations (min_temp_entry_ttl, min_persistent_entry_ttl, max_entry_ttl): both let the library's own
/// extend_ttl calls (roles: 1 555 200 ledgers, operations: 518 400) succeed on any kind of entry
const HOSTCFG: [(u32, u32, u32); 2] = [(1, 4096, 3_110_400), (16, 2_073_600, 6_312_000)];
const LONG_GAPS: [u32; 6] = [20, 100, 17_281, 20_000, 600_000, 4_000_000];
const CAP: u32 = u32::MAX - 7_000_000;

/// argument vectors of the controller's entry points
#[derive(Clone, PartialEq, Debug)]
enum Av { U32(u32), Role(usize, usize, usize), RoleAdmin(usize, usize), Transfer(usize, u32), Nil, Renounce(usize, usize),
          Sched(Box<OpD>, u32, usize), Exec(Box<OpD>, Option<usize>), Cancel([u8; 32], usize) }

#[derive(Clone, PartialEq, Debug)]
struct OpD { target: usize, f: u8, av: Av, pred: [u8; 32], salt: u8 }

#[derive(Clone, Debug)]
enum Cx { C(usize, u8, Av), Other }
#[derive(Clone, Debug)]
struct MetaD { pred: [u8; 32], salt: u8, exec: Option<usize> }
#[derive(Clone, Debug)]
struct SelfE { root: Cx, subs: std::vec::Vec<Cx>, metas: std::vec::Vec<MetaD> }
#[derive(Clone, Debug, Default)]
struct Authz { plain: std::vec::Vec<usize>, wrong: std::vec::Vec<usize>, selfe: Option<SelfE>, exec: std::vec::Vec<(usize, OpD)>, exec_trunc: std::vec::Vec<(usize, OpD, u8)>, tag: &'static str }

struct World {
    e: Env,
    addrs: std::vec::Vec<Address>, // index 0 unused
    ids: std::vec::Vec<[u8; 32]>,
    avs: std::vec::Vec<(String, u64)>, // printed argv -> id
    now: u32,
    nonce: i64,
    max_ttl: u32,
}

impl World {
    fn bytes(&self, b: &[u8; 32]) -> BytesN<32> { BytesN::from_array(&self.e, b) }
    /// salts: code s = the 32-byte big-endian number s, except the codes 251..=255 which stand for special 32-byte values
    /// (injective, so the model's salt numbers keep identifying the byte strings)
    fn salt(&self, s: u8) -> BytesN<32> { self.bytes(&salt_bytes(s)) }
    fn id_ix(&mut self, b: [u8; 32]) -> u64 {
        if let Some(p) = self.ids.iter().position(|x| *x == b) { return p as u64; }
        self.ids.push(b); (self.ids.len() - 1) as u64
    }
    fn role(&self, r: usize) -> Symbol { Symbol::new(&self.e, ROLE_NAMES[r]) }
    fn av_vals(&self, av: &Av) -> Vec<Val> {
        let e = &self.e;
        match av {
            Av::U32(d) => soroban_sdk::vec![e, d.into_val(e)],
            Av::Role(a, r, c) => soroban_sdk::vec![e, self.addrs[*a].to_val(), self.role(*r).to_val(), self.addrs[*c].to_val()],
            Av::RoleAdmin(r, ar) => soroban_sdk::vec![e, self.role(*r).to_val(), self.role(*ar).to_val()],
            Av::Transfer(a, lu) => soroban_sdk::vec![e, self.addrs[*a].to_val(), lu.into_val(e)],
            Av::Nil => Vec::new(e),
            Av::Renounce(r, c) => soroban_sdk::vec![e, self.role(*r).to_val(), self.addrs[*c].to_val()],
            Av::Sched(o, d, p) => (self.addrs[o.target].clone(), Symbol::new(e, fn_name(o.f)), self.av_vals(&o.av), self.bytes(&o.pred), self.salt(o.salt), *d, self.addrs[*p].clone()).into_val(e),
            Av::Exec(o, x) => (self.addrs[o.target].clone(), Symbol::new(e, fn_name(o.f)), self.av_vals(&o.av), self.bytes(&o.pred), self.salt(o.salt), x.map(|a| self.addrs[a].clone())).into_val(e),
            Av::Cancel(i, k) => (self.bytes(i), self.addrs[*k].clone()).into_val(e),
        }
    }
    fn av_coq(&mut self, av: &Av) -> String {
        match av {
            Av::Sched(o, d, p) => { let oc = self.op_coq(o); format!("(AV_sched {} {} {})", oc, d, n(*p as u64)) }
            Av::Exec(o, x) => { let oc = self.op_coq(o); format!("(AV_exec {} {})", oc, opt(x.map(|a| n(a as u64)))) }
            Av::Cancel(i, k) => { let ix = self.id_ix(*i); format!("(AV_cancel {} {})", n(ix), n(*k as u64)) }
            Av::U32(d) => format!("(AV_u32 {})", d),
            Av::Role(a, r, c) => format!("(AV_role {} {} {})", n(*a as u64), n(*r as u64), n(*c as u64)),
            Av::RoleAdmin(r, ar) => format!("(AV_role_admin {} {})", n(*r as u64), n(*ar as u64)),
            Av::Transfer(a, lu) => format!("(AV_transfer {} {})", n(*a as u64), lu),
            Av::Nil => "AV_nil".to_string(),
            Av::Renounce(r, c) => format!("(AV_renounce {} {})", n(*r as u64), n(*c as u64)),
        }
    }
    fn av_ix(&mut self, av: &Av) -> u64 {
        let s = self.av_coq(av);
        if let Some(p) = self.avs.iter().find(|x| x.0 == s) { return p.1; }
        let k = self.avs.len() as u64 + 1;
        self.avs.push((s, k)); k
    }
    fn op_coq(&mut self, d: &OpD) -> String {
        let p = self.id_ix(d.pred); let a = self.av_ix(&d.av);
        format!("(Op {} {} {} {} {})", n(d.target as u64), n(d.f as u64), n(a), n(p), n(d.salt as u64))
    }
    fn cx_coq(&mut self, c: &Cx) -> String {
        match c { Cx::C(a, f, av) => { let k = self.av_ix(av); format!("(CtxC {} {} {})", n(*a as u64), n(*f as u64), n(k)) } Cx::Other => "CtxOther".to_string() }
    }
    fn meta_coq(&mut self, m: &MetaD) -> String {
        let p = self.id_ix(m.pred);
        format!("(Meta {} {} {})", n(p), n(m.salt as u64), opt(m.exec.map(|x| n(x as u64))))
    }
    fn authz_coq(&mut self, a: &Authz) -> String {
        let pl: std::vec::Vec<String> = a.plain.iter().map(|x| n(*x as u64)).collect();
        let se = match &a.selfe {
            None => "None".to_string(),
            Some(s) => {
                let root = self.cx_coq(&s.root);
                let subs: std::vec::Vec<String> = s.subs.iter().map(|c| self.cx_coq(c)).collect();
                let metas: std::vec::Vec<String> = s.metas.iter().map(|m| self.meta_coq(m)).collect();
                format!("(Some (SE {} {} {}))", root, list(&subs), list(&metas))
            }
        };
        let ex: std::vec::Vec<String> = a.exec.iter().map(|(x, o)| { let oc = self.op_coq(o); pair(&n(*x as u64), &oc) }).collect();
        format!("(AZ {} {} {})", list(&pl), se, list(&ex))
    }

    // ---------- XDR authorisation entries ----------
    fn invocation(&self, contract: &Address, f: &str, args: Vec<Val>, subs: std::vec::Vec<xdr::SorobanAuthorizedInvocation>) -> xdr::SorobanAuthorizedInvocation {
        xdr::SorobanAuthorizedInvocation {
            function: xdr::SorobanAuthorizedFunction::ContractFn(xdr::InvokeContractArgs {
                contract_address: xdr::ScAddress::try_from(contract).unwrap(),
                function_name: f.try_into().unwrap(),
                args: args.try_into().unwrap(),
            }),
            sub_invocations: subs.try_into().unwrap(),
        }
    }
    fn cx_invocation(&self, c: &Cx, subs: std::vec::Vec<xdr::SorobanAuthorizedInvocation>) -> xdr::SorobanAuthorizedInvocation {
        match c {
            Cx::C(a, f, av) => self.invocation(&self.addrs[*a], fn_name(*f), self.av_vals(av), subs),
            Cx::Other => xdr::SorobanAuthorizedInvocation {
                function: xdr::SorobanAuthorizedFunction::CreateContractHostFn(xdr::CreateContractArgs {
                    contract_id_preimage: xdr::ContractIdPreimage::Address(xdr::ContractIdPreimageFromAddress {
                        address: xdr::ScAddress::try_from(&self.addrs[SELF]).unwrap(), salt: xdr::Uint256([7u8; 32]) }),
                    executable: xdr::ContractExecutable::StellarAsset,
                }),
                sub_invocations: subs.try_into().unwrap(),
            },
        }
    }
    fn entry(&mut self, who: usize, signature: xdr::ScVal, root: xdr::SorobanAuthorizedInvocation) -> xdr::SorobanAuthorizationEntry {
        self.nonce += 1;
        xdr::SorobanAuthorizationEntry {
            root_invocation: root,
            credentials: xdr::SorobanCredentials::Address(xdr::SorobanAddressCredentials {
                address: xdr::ScAddress::try_from(&self.addrs[who]).unwrap(),
                nonce: self.nonce,
                signature_expiration_ledger: self.now + 10,
                signature,
            }),
        }
    }
    fn meta_val(&self, m: &MetaD) -> OperationMeta {
        OperationMeta { predecessor: self.bytes(&m.pred), salt: self.salt(m.salt), executor: m.exec.map(|x| self.addrs[x].clone()) }
    }
    /// ("execute_op", contract, fn, args, pred, salt): what the executor signs inside __check_auth
    fn exec_args(&self, o: &OpD) -> Vec<Val> {
        let e = &self.e;
        (Symbol::new(e, "execute_op"), self.addrs[o.target].clone(), Symbol::new(e, fn_name(o.f)), self.av_vals(&o.av),
         self.bytes(&o.pred), self.salt(o.salt)).into_val(e)
    }
    /// all entries for one end-to-end invocation (fname, args) of the controller
    fn entries(&mut self, f: u8, args: &Vec<Val>, au: &Authz) -> std::vec::Vec<xdr::SorobanAuthorizationEntry> {
        let mut v = std::vec::Vec::new();
        let ctrl = self.addrs[SELF].clone();
        for &p in au.plain.iter() {
            let inv = self.invocation(&ctrl, fn_name(f), args.clone(), std::vec![]);
            let en = self.entry(p, xdr::ScVal::Void, inv); v.push(en);
        }
        for &p in au.wrong.iter() {
            // an entry of that account for another invocation: must not authorise this one
            let inv = self.invocation(&ctrl, "get_min_delay", Vec::new(&self.e), std::vec![]);
            let en = self.entry(p, xdr::ScVal::Void, inv); v.push(en);
        }
        if let Some(se) = &au.selfe {
            let subs: std::vec::Vec<_> = se.subs.iter().map(|c| self.cx_invocation(c, std::vec![])).collect();
            let root = self.cx_invocation(&se.root, subs);
            let mut metas: Vec<OperationMeta> = Vec::new(&self.e);
            for m in se.metas.iter() { metas.push_back(self.meta_val(m)); }
            let sig: xdr::ScVal = xdr::ScVal::try_from_val(&self.e, &metas.to_val()).unwrap();
            let en = self.entry(SELF, sig, root); v.push(en);
        }
        for (x, o) in au.exec.iter() {
            let inv = self.invocation(&ctrl, "__check_auth", self.exec_args(o), std::vec![]);
            let en = self.entry(*x, xdr::ScVal::Void, inv); v.push(en);
        }
        // executor signatures over a SHORTER tuple (salt or predecessor left out): they do not authorise
        // ("execute_op", contract, fn, args, pred, salt) and are therefore not part of the printed a_exec
        for (x, o, drop) in au.exec_trunc.iter() {
            let full = self.exec_args(o);
            let mut short: Vec<Val> = Vec::new(&self.e);
            for (i, val) in full.iter().enumerate() { if i as u8 != *drop { short.push_back(val); } }
            let inv = self.invocation(&ctrl, "__check_auth", short, std::vec![]);
            let en = self.entry(*x, xdr::ScVal::Void, inv); v.push(en);
        }
        v
    }
    fn invoke(&mut self, f: u8, args: Vec<Val>, au: &Authz) -> Option<Val> {
        let en = self.entries(f, &args, au);
        self.e.set_auths(&en);
        let r = self.e.try_invoke_contract::<Val, soroban_sdk::Error>(&self.addrs[SELF], &Symbol::new(&self.e, fn_name(f)), args);
        self.e.set_auths(&[]);
        match r { Ok(Ok(v)) => Some(v), _ => None }
    }
    fn set_now(&mut self, now: u32) { self.now = now; self.e.ledger().with_mut(|l| l.sequence_number = now); }
}

fn salt_bytes(s: u8) -> [u8; 32] {
    let mut x = [0u8; 32];
    match s {
        255 => { x = [0xFFu8; 32]; }
        254 => { x[0] = 0x80; }
        253 => { x = [0xFFu8; 32]; x[0] = 0x7F; }
        252 => { x[30] = 1; }
        251 => { x[0] = 1; }
        _ => { x[31] = s; }
    }
    x
}
fn salt_name(s: u8) -> &'static str { match s { 255 => "ff", 254 => "high-bit", 253 => "max-positive", 252 => "256", 251 => "high-byte", 0 => "zero", _ => "small" } }

fn st_name(s: OperationState) -> &'static str {
    match s { OperationState::Unset => "Unset", OperationState::Waiting => "Waiting", OperationState::Ready => "Ready", OperationState::Done => "Done" }
}

struct Tr {
    w: World,
    ops: std::vec::Vec<OpD>,
    op_ids: std::vec::Vec<usize>,
    nids: usize,
    tags: std::vec::Vec<u32>,
    cfg_text: String,
    tbl: std::vec::Vec<String>,
    obs0: String,
    items: std::vec::Vec<String>,
    nexec: usize,
    admin_self: bool,
    /// tag of the next direct __check_auth call (part of its label)
    ca_tag: &'static str,
}

#[derive(Clone, Debug)]
enum C {
    Schedule(usize, u32, usize, Authz), Execute(usize, Option<usize>, Authz), Cancel(usize, usize, Authz),
    /// an admin-style entry point called end to end: function id, its arguments, authorisation
    Admin(u8, Av, Authz),
    CheckAuth(std::vec::Vec<MetaD>, std::vec::Vec<Cx>, std::vec::Vec<(usize, OpD)>),
    Advance(u32),
}

impl Tr {
    fn client(&self) -> ctrl::TimelockControllerClient<'_> { ctrl::TimelockControllerClient::new(&self.w.e, &self.w.addrs[SELF]) }

    fn new(rng: &mut Rng, now0: u32, min_delay: u32, proposers: &[usize], executors: &[usize], admin: Option<usize>, nops: usize, plain: bool) -> Tr { Tr::new_h(rng, now0, min_delay, proposers, executors, admin, nops, plain, 0) }
    fn new_h(rng: &mut Rng, now0: u32, min_delay: u32, proposers: &[usize], executors: &[usize], admin: Option<usize>, nops: usize, plain: bool, hc: usize) -> Tr {
        let e = Env::default();
        e.cost_estimate().budget().reset_unlimited();
        e.cost_estimate().disable_resource_limits();
        e.ledger().with_mut(|l| { l.sequence_number = now0; l.min_temp_entry_ttl = HOSTCFG[hc].0; l.min_persistent_entry_ttl = HOSTCFG[hc].1; l.max_entry_ttl = HOSTCFG[hc].2; });
        let mut addrs = std::vec![Address::generate(&e)]; // index 0 unused
        for _ in 1..=NADDR { addrs.push(Address::generate(&e)); }
        // ordinary accounts: always-accepting account contracts (exact entries are still required)
        for k in [P1, P2, X1, X2, ADM, OUT] { e.register_at(&addrs[k], MockAuthContract, ()); }
        e.register_at(&addrs[TGT], Target, ());
        let to_vec = |xs: &[usize]| { let mut v: Vec<Address> = Vec::new(&e); for x in xs { v.push_back(addrs[*x].clone()); } v };
        e.register_at(&addrs[SELF], TimelockController, (min_delay, to_vec(proposers), to_vec(executors), admin.map(|a| addrs[a].clone())));
        let mut w = World { e, addrs, ids: std::vec![[0u8; 32]], avs: std::vec![], now: now0, nonce: 1000, max_ttl: HOSTCFG[hc].2 };
        let mut raw = [0u8; 32];
        for x in raw.iter_mut() { *x = rng.below(256) as u8; }
        w.id_ix(raw);
        // argument ids 1..3 = the vectors [1], [2], [3]: the target mock's tags
        for t in 1..=3u32 { w.av_ix(&Av::U32(t)); }
        // ---- operation universe ----
        let d1 = 1 + rng.below(6) as u32; let d2 = d1 + 1 + rng.below(3) as u32;
        let mut pool: std::vec::Vec<(usize, u8, Av)> = std::vec![
            (SELF, 10, Av::U32(d1)), (SELF, 10, Av::U32(d2)),
            (SELF, 11, Av::Role(OUT, 1, SELF)), (SELF, 11, Av::Role(X2, 2, SELF)), (SELF, 12, Av::Role(P1, 1, SELF)), (SELF, 12, Av::Role(X1, 2, SELF)),
            (SELF, 13, Av::RoleAdmin(4, 5)), (SELF, 11, Av::Role(OUT, 5, SELF)),
            (SELF, 14, Av::Transfer(ADM, now0 + 40 + rng.below(40) as u32)), (SELF, 15, Av::Nil), (SELF, 16, Av::Nil),
            (TGT, 0, Av::U32(1)), (TGT, 0, Av::U32(2)), (TGT, 1, Av::U32(3)), (DEAD, 0, Av::U32(1)), (SELF, 21, Av::Nil),
            (SELF, 11, Av::Role(SELF, 2, SELF)),
            (SELF, 12, Av::Role(X2, 2, SELF)), (SELF, 12, Av::Role(ADM, 2, SELF)), (SELF, 12, Av::Role(OUT, 2, SELF)),
            (SELF, 12, Av::Role(P2, 1, SELF)), (SELF, 12, Av::Role(P2, 3, SELF)), (SELF, 12, Av::Role(SELF, 2, SELF)),
        ];
        // shuffle, keep nops, but always keep one update_delay first
        if !plain { for i in (2..pool.len()).rev() { let j = 1 + rng.below(i as u64) as usize; pool.swap(i, j); } }
        let mut ops: std::vec::Vec<OpD> = std::vec![];
        let mut op_ids: std::vec::Vec<usize> = std::vec![];
        let mut tbl = std::vec![];
        for k in 0..nops.min(pool.len()) {
            let (t, f, av) = pool[k].clone();
            let pred = match rng.below(10) { 0..=5 => [0u8; 32], 6..=8 => if k == 0 { [0u8; 32] } else { w.ids[op_ids[rng.below(k as u64) as usize]] }, _ => raw };
            let mut d = OpD { target: t, f, av, pred: if plain { [0u8; 32] } else { pred }, salt: rng.below(2) as u8 };
            if !plain && k > 0 && rng.chance(1, 6) { d = ops[rng.below(k as u64) as usize].clone(); d.salt += 1 + rng.below(2) as u8; }
            if ops.iter().any(|x| *x == d) { d.salt = 10 + k as u8; }
            let c = ctrl::TimelockControllerClient::new(&w.e, &w.addrs[SELF]);
            let h = match c.try_hash_operation(&w.addrs[d.target], &Symbol::new(&w.e, fn_name(d.f)), &w.av_vals(&d.av), &w.bytes(&d.pred), &w.salt(d.salt)) { Ok(Ok(v)) => v.to_array(), _ => [0xEEu8; 32] };
            let ix = w.id_ix(h) as usize;
            let oc = w.op_coq(&d);
            tbl.push(pair(&oc, &n(ix as u64)));
            ops.push(d); op_ids.push(ix);
        }
        let nids = w.ids.len();
        let lst = |xs: &[usize]| list(&xs.iter().map(|x| n(*x as u64)).collect::<std::vec::Vec<_>>());
        let cfg_text = format!("(Build_cfg {} (Build_hostcfg {} {}) {}) {} {} {} {} {}", n(SELF as u64), HOSTCFG[hc].0, HOSTCFG[hc].2, stellar_access::access_control::MAX_ROLES,
            now0, min_delay, lst(proposers), lst(executors), opt(admin.map(|a| n(a as u64))));
        let mut tr = Tr { w, ops, op_ids, nids, tags: std::vec![1, 2, 3], cfg_text, tbl, obs0: String::new(), items: std::vec![], nexec: executors.len(), admin_self: admin.is_none(), ca_tag: "" };
        tr.obs0 = tr.observe();
        tr
    }

    /// add one more operation descriptor to the universe (only before the first call)
    fn add_op(&mut self, d: OpD) -> usize {
        assert!(self.items.is_empty());
        let c = ctrl::TimelockControllerClient::new(&self.w.e, &self.w.addrs[SELF]);
        let h = match c.try_hash_operation(&self.w.addrs[d.target], &Symbol::new(&self.w.e, fn_name(d.f)), &self.w.av_vals(&d.av), &self.w.bytes(&d.pred), &self.w.salt(d.salt)) { Ok(Ok(v)) => v.to_array(), _ => [0xEEu8; 32] };
        let ix = self.w.id_ix(h) as usize;
        let oc = self.w.op_coq(&d);
        self.tbl.push(pair(&oc, &n(ix as u64)));
        self.ops.push(d); self.op_ids.push(ix);
        self.nids = self.w.ids.len();
        self.obs0 = self.observe();
        self.ops.len() - 1
    }

    /// every read goes through try_: a trapping getter becomes a sentinel (-1 / Unset / false / 99) that diff and monitor flag
    fn observe(&self) -> String {
        let c = self.client();
        let e = &self.w.e;
        let aix = |a: &Address| n(self.w.addrs.iter().position(|x| x == a).unwrap_or(99) as u64);
        let md = match c.try_get_min_delay() { Ok(Ok(v)) => Some(format!("{}", v)), _ => None };
        let mut ops = std::vec![];
        for k in 0..self.nids {
            let idb = self.w.bytes(&self.w.ids[k]);
            let mut trap = false;
            let st = match c.try_get_operation_state(&idb) { Ok(Ok(v)) => st_name(v), _ => { trap = true; "Unset" } };
            let mut fl = |r: Result<Result<bool, soroban_sdk::ConversionError>, Result<soroban_sdk::Error, soroban_sdk::InvokeError>>| match r { Ok(Ok(v)) => b(v), _ => { trap = true; b(false) } };
            let flags = format!("{} {} {} {}", fl(c.try_operation_exists(&idb)), fl(c.try_is_operation_pending(&idb)), fl(c.try_is_operation_ready(&idb)), fl(c.try_is_operation_done(&idb)));
            let lg = match c.try_get_operation_ledger(&idb) { Ok(Ok(v)) => format!("{}", v), _ => { trap = true; "(-1)".to_string() } };
            ops.push(pair(&n(k as u64), &format!("(OV9 {} {} {} {})", lg, st, flags, b(trap))));
        }
        let adm = match c.try_get_admin() { Ok(Ok(v)) => v.map(|a| aix(&a)), _ => Some(n(99)) };
        let mut hr = std::vec![]; let mut cnt = std::vec![]; let mut ra = std::vec![]; let mut mem = std::vec![];
        for r in 1..=NROLES {
            let rs = self.w.role(r);
            for a in 1..=NADDR {
                let v = match c.try_has_role(&self.w.addrs[a], &rs) { Ok(Ok(v)) => v.map(|x| format!("{}", x)), _ => Some("(-1)".to_string()) };
                hr.push(format!("({}, {}, {})", n(a as u64), n(r as u64), opt(v)));
            }
            let (k, ktext) = match c.try_get_role_member_count(&rs) { Ok(Ok(v)) => (v, format!("{}", v)), _ => (0, "(-1)".to_string()) };
            cnt.push(pair(&n(r as u64), &ktext));
            let mut ms = std::vec![];
            for i in 0..k.min(32) { ms.push(match c.try_get_role_member(&rs, &i) { Ok(Ok(a)) => aix(&a), _ => n(99) }); }
            mem.push(pair(&n(r as u64), &list(&ms)));
            let adr = match c.try_get_role_admin(&rs) { Ok(Ok(v)) => v.map(|s| n((1..=NROLES).find(|q| self.w.role(*q) == s).unwrap_or(99) as u64)), _ => Some(n(99)) };
            ra.push(pair(&n(r as u64), &opt(adr)));
        }
        let ex: std::vec::Vec<String> = match c.try_get_existing_roles() { Ok(Ok(v)) => v.iter().map(|s| n((1..=NROLES).find(|q| self.w.role(*q) == s).unwrap_or(99) as u64)).collect(), _ => std::vec![n(99)] };
        let t = TargetClient::new(e, &self.w.addrs[TGT]);
        let runs: std::vec::Vec<String> = self.tags.iter().map(|tg| pair(&n(*tg as u64), &match t.try_count(tg) { Ok(Ok(v)) => format!("{}", v), _ => "(-1)".to_string() })).collect();
        format!("(Obs9 {} {} {} {} {} {} {} {} {} {})", self.w.now, opt(md), list(&ops), opt(adm), list(&hr), list(&cnt), list(&mem), list(&ra), list(&ex), list(&runs))
    }

    fn call(&mut self, out: &mut Out, c: &C) -> bool {
        let (text, lab, res): (String, String, Option<Option<u64>>) = match c {
            C::Schedule(k, d, p, au) => {
                let o = self.ops[*k].clone();
                let e = self.w.e.clone();
                let args: Vec<Val> = (self.w.addrs[o.target].clone(), Symbol::new(&e, fn_name(o.f)), self.w.av_vals(&o.av), self.w.bytes(&o.pred), self.w.salt(o.salt), *d, self.w.addrs[*p].clone()).into_val(&e);
                if au.selfe.is_some() { let a = Av::Sched(Box::new(o.clone()), *d, *p); self.w.av_ix(&a); }
                let r = self.w.invoke(18, args, au);
                let res = r.map(|v| { let idb = BytesN::<32>::try_from_val(&e, &v).unwrap(); Some(self.w.id_ix(idb.to_array())) });
                let oc = self.w.op_coq(&o); let ac = self.w.authz_coq(au);
                (format!("ScheduleOp {} {} {} {}", oc, d, n(*p as u64), ac), tagged("schedule_op", au.tag), res)
            }
            C::Execute(k, x, au) => {
                let o = self.ops[*k].clone();
                let e = self.w.e.clone();
                let args: Vec<Val> = (self.w.addrs[o.target].clone(), Symbol::new(&e, fn_name(o.f)), self.w.av_vals(&o.av), self.w.bytes(&o.pred), self.w.salt(o.salt), x.map(|a| self.w.addrs[a].clone())).into_val(&e);
                if au.selfe.is_some() { let a = Av::Exec(Box::new(o.clone()), *x); self.w.av_ix(&a); }
                let r = self.w.invoke(19, args, au);
                let tgt_ok = o.target == TGT && o.f == 0;
                let oc = self.w.op_coq(&o); let ac = self.w.authz_coq(au);
                (format!("ExecuteOp {} {} {} {}", oc, opt(x.map(|a| n(a as u64))), b(tgt_ok), ac), tagged(if o.target == SELF { "execute_op_self" } else { "execute_op" }, au.tag), r.map(|_| None))
            }
            C::Cancel(ix, k, au) => {
                let e = self.w.e.clone();
                let args: Vec<Val> = (self.w.bytes(&self.w.ids[*ix]), self.w.addrs[*k].clone()).into_val(&e);
                if au.selfe.is_some() { let a = Av::Cancel(self.w.ids[*ix], *k); self.w.av_ix(&a); }
                let r = self.w.invoke(20, args, au);
                let ac = self.w.authz_coq(au);
                (format!("CancelOp {} {} {}", n(*ix as u64), n(*k as u64), ac), tagged("cancel_op", au.tag), r.map(|_| None))
            }
            C::Admin(f, av, au) => {
                // the situation the call meets (part of the label): who is admin, are executors configured, state of the
                // operation (controller, f, av, pred, salt) named by the first descriptor
                let sit = {
                    let adm = match self.admin() { Some(a) if a == SELF => "adminS", Some(_) => "adminE", None => "admin0" };
                    let ex = if self.holders(2).is_empty() { "x0" } else { "x1" };
                    let st = match au.selfe.as_ref().and_then(|se| se.metas.first()) {
                        Some(m) => match (0..self.ops.len()).find(|i| { let o = &self.ops[*i]; o.target == SELF && o.f == *f && o.av == *av && o.pred == m.pred && o.salt == m.salt }) {
                            Some(i) => st_name(self.state_of(self.op_ids[i])), None => "NoOp" },
                        None => "NoMeta" };
                    format!("{},{},{}", adm, ex, st)
                };
                let args = self.w.av_vals(av);
                let r = self.w.invoke(*f, args, au);
                // the argument vector of the call itself is measured too (the monitor relates it to the contexts of the entry)
                self.w.av_ix(av);
                let ac = self.w.authz_coq(au);
                let text = match (f, av) {
                    (10, Av::U32(d)) => format!("UpdateDelay {} {}", d, ac),
                    (11, Av::Role(a, r, k)) => format!("GrantRole {} {} {} {}", n(*a as u64), n(*r as u64), n(*k as u64), ac),
                    (12, Av::Role(a, r, k)) => format!("RevokeRole {} {} {} {}", n(*a as u64), n(*r as u64), n(*k as u64), ac),
                    (17, Av::Renounce(r, k)) => format!("RenounceRole {} {} {}", n(*r as u64), n(*k as u64), ac),
                    (13, Av::RoleAdmin(r, ar)) => format!("SetRoleAdmin {} {} {}", n(*r as u64), n(*ar as u64), ac),
                    (14, Av::Transfer(a, lu)) => format!("TransferAdmin {} {} {}", n(*a as u64), lu, ac),
                    (16, Av::Nil) => format!("AcceptAdmin {}", ac),
                    (15, Av::Nil) => format!("RenounceAdmin {}", ac),
                    _ => panic!("harness: ill-formed admin call {:?}", c),
                };
                let selfpath = au.selfe.is_some();
                let tg = if au.tag.is_empty() { String::new() } else { format!(":{}", au.tag) };
                (text, format!("{}{}{}@{}", fn_name(*f), if selfpath { "+selfauth" } else { "" }, tg, sit), r.map(|_| None))
            }
            C::CheckAuth(metas, cxs, xa) => {
                let sit = {
                    let ex = if self.holders(2).is_empty() { "x0" } else { "x1" };
                    let st = match (cxs.first(), metas.first()) {
                        (Some(Cx::C(t, f, av)), Some(m)) => match (0..self.ops.len()).find(|i| { let o = &self.ops[*i]; o.target == *t && o.f == *f && o.av == *av && o.pred == m.pred && o.salt == m.salt }) {
                            Some(i) => st_name(self.state_of(self.op_ids[i])), None => "NoOp" },
                        _ => "NoPair" };
                    format!("{},{}", ex, st)
                };
                let e = self.w.e.clone();
                let ctrl = self.w.addrs[SELF].clone();
                // executors' require_auth_for_args entries
                let argsv: std::vec::Vec<Vec<Val>> = xa.iter().map(|(_, o)| self.w.exec_args(o)).collect();
                let invs: std::vec::Vec<MockAuthInvoke> = argsv.iter().map(|a| MockAuthInvoke { contract: &ctrl, fn_name: "__check_auth", args: a.clone(), sub_invokes: &[] }).collect();
                let mocks: std::vec::Vec<MockAuth> = xa.iter().zip(invs.iter()).map(|((x, _), i)| MockAuth { address: &self.w.addrs[*x], invoke: i }).collect();
                if mocks.iter().all(|m| *m.address != ctrl) { e.mock_auths(&mocks); } else { e.set_auths(&[]); }
                let mut mv: Vec<OperationMeta> = Vec::new(&e);
                for m in metas.iter() { mv.push_back(self.w.meta_val(m)); }
                let mut cv: Vec<Context> = Vec::new(&e);
                for c in cxs.iter() {
                    cv.push_back(match c {
                        Cx::C(a, f, av) => Context::Contract(ContractContext { contract: self.w.addrs[*a].clone(), fn_name: Symbol::new(&e, fn_name(*f)), args: self.w.av_vals(av) }),
                        Cx::Other => Context::CreateContractHostFn(CreateContractHostFnContext { executable: ContractExecutable::Wasm(BytesN::from_array(&e, &[3u8; 32])), salt: BytesN::from_array(&e, &[4u8; 32]) }),
                    });
                }
                let r = e.try_invoke_contract_check_auth::<TimelockError>(&ctrl, &BytesN::from_array(&e, &[9u8; 32]), mv.into_val(&e), &cv);
                e.set_auths(&[]);
                let ms: std::vec::Vec<String> = metas.iter().map(|m| self.w.meta_coq(m)).collect();
                let cs: std::vec::Vec<String> = cxs.iter().map(|c| self.w.cx_coq(c)).collect();
                let xs: std::vec::Vec<String> = xa.iter().map(|(x, o)| { let oc = self.w.op_coq(o); pair(&n(*x as u64), &oc) }).collect();
                let shape = if metas.len() < cxs.len() { "short" } else if metas.len() > cxs.len() { "long" } else { "eq" };
                (format!("CheckAuth {} {} {}", list(&ms), list(&cs), list(&xs)), { let t = std::mem::take(&mut self.ca_tag); if t.is_empty() { format!("check_auth_{}@{}", shape, sit) } else { format!("check_auth_{}:{}@{}", shape, t, sit) } }, match r { Ok(()) => Some(None), Err(_) => None })
            }
            C::Advance(k) => {
                let nn = self.w.now.checked_add(*k).filter(|v| *v <= CAP).expect("generator keeps the ledger <= CAP");
                self.w.set_now(nn);
                (format!("Advance {}", k), (if *k >= 17_281 { "advance_long" } else { "advance" }).into(), Some(None))
            }
        };
        let o = match res { Some(Some(i)) => format!("(OkI {})", n(i)), Some(None) => "OkN".to_string(), None => "Bad".to_string() };
        assert!(self.w.ids.len() == self.nids, "id outside the universe appeared");
        let obs = self.observe();
        out.case(&format!("{}/{}", lab, if res.is_some() { "ok" } else { "fail" }), &format!("{}@{}", text, obs));
        self.items.push(format!("({}, {}, {})", text, o, obs));
        res.is_some()
    }

    fn finish(self, out: &mut Out, desc: &str) {
        let nn = self.items.len();
        let idl: std::vec::Vec<String> = (0..self.nids).map(|k| n(k as u64)).collect();
        let tagl: std::vec::Vec<String> = self.tags.iter().map(|t| n(*t as u64)).collect();
        let avl: std::vec::Vec<String> = self.w.avs.iter().map(|(s, k)| pair(s, &n(*k))).collect();
        let header = format!("(Hdr9 {} {} {} {} {} {} {} {} {} {})", self.cfg_text, list(&idl), n(NADDR as u64), n(NROLES as u64), list(&tagl), list(&self.tbl), list(&avl), UNSET_LEDGER, DONE_LEDGER, self.obs0);
        out.trace(desc, format!("({}, {})", header, list(&self.items)), nn);
    }

    // ---------- state the generator may read ----------
    fn ledger_of(&self, ix: usize) -> u32 { match self.client().try_get_operation_ledger(&self.w.bytes(&self.w.ids[ix])) { Ok(Ok(v)) => v, _ => 0 } }
    fn state_of(&self, ix: usize) -> OperationState { match self.client().try_get_operation_state(&self.w.bytes(&self.w.ids[ix])) { Ok(Ok(v)) => v, _ => OperationState::Unset } }
    fn min_delay(&self) -> u32 { match self.client().try_get_min_delay() { Ok(Ok(v)) => v, _ => 0 } }
    fn holders(&self, r: usize) -> std::vec::Vec<usize> { (1..=NADDR).filter(|a| matches!(self.client().try_has_role(&self.w.addrs[*a], &self.w.role(r)), Ok(Ok(Some(_))))).collect() }
    fn admin(&self) -> Option<usize> { match self.client().try_get_admin() { Ok(Ok(Some(a))) => self.w.addrs.iter().position(|x| *x == a), _ => None } }
}

fn tagged(base: &str, tag: &str) -> String { if tag.is_empty() { base.to_string() } else { format!("{}:{}", base, tag) } }

// ---------- role enumerations (swap-and-pop): the harness's own shadow, used for LABELS only ----------
/// the situation a removal meets: members before, position of the removed account (only / last / penult / first / mid),
/// and whether an earlier removal relocated that account into a vacated slot
fn enum_tag(list: &[usize], moved: &[usize], a: usize) -> &'static str {
    let k = list.len();
    let s = match list.iter().position(|x| *x == a) {
        None => format!("enum-n{}-absent", k),
        Some(i) => {
            let pos = if k == 1 { "only" } else if i == k - 1 { "last" } else if i == k - 2 { "penult" } else if i == 0 { "first" } else { "mid" };
            format!("enum-n{}-{}{}", k, pos, if moved.contains(&a) { "+moved" } else { "" })
        }
    };
    Box::leak(s.into_boxed_str())
}
fn shadow_remove(list: &mut std::vec::Vec<usize>, moved: &mut std::vec::Vec<usize>, a: usize) {
    if let Some(i) = list.iter().position(|x| *x == a) {
        let last = list.len() - 1;
        if i != last { let m = list[last]; list[i] = m; if !moved.contains(&m) { moved.push(m); } }
        list.pop(); moved.retain(|x| *x != a);
    }
}
fn dedup(xs: &[usize]) -> std::vec::Vec<usize> { let mut v = std::vec![]; for x in xs { if !v.contains(x) { v.push(*x); } } v }
fn permutations(k: usize) -> std::vec::Vec<std::vec::Vec<usize>> {
    if k == 0 { return std::vec![std::vec![]]; }
    let mut out = std::vec![];
    for p in permutations(k - 1) { for i in 0..k { let mut q = p.clone(); q.insert(i, k - 1); out.push(q); } }
    out.sort(); out
}

#[derive(Clone, Copy, Debug)]
enum EStep { Revoke(usize, usize), Renounce(usize, usize), Grant(usize, usize) }   // (role, account)

/// Directed family: roles with MANY members (constructor lists may repeat accounts and may name the controller), members
/// removed in a given order by revoke_role (through the timelock when the controller is its own admin, directly by an
/// external admin) or renounce_role, granted again; after every removal each account removed so far tries to use the role
/// (schedule_op / cancel_op / execute_op / as the executor of a consuming authorisation), at the end a remaining member does.
fn enum_scenario(out: &mut Out, rng: &mut Rng, desc: &str, now0: u32, props: &[usize], execs: &[usize], admin: Option<usize>, hc: usize, steps: &[EStep]) {
    let mut tr = Tr::new_h(rng, now0, 1, props, execs, admin, 1, true, hc);
    let z = [0u8; 32];
    let pa = |p: usize| { let mut a = Authz::default(); a.plain.push(p); a };
    let pt = |p: usize, t: &'static str| { let mut a = Authz::default(); a.plain.push(p); a.tag = t; a };
    let self_admin = admin.is_none();
    // operations: one per timelocked step, probes
    let mut step_ops: std::vec::Vec<Option<OpD>> = std::vec![];
    for (i, st) in steps.iter().enumerate() {
        step_ops.push(match st {
            EStep::Revoke(r, a) if self_admin => Some(OpD { target: SELF, f: 12, av: Av::Role(*a, *r, SELF), pred: z, salt: 100 + i as u8 }),
            EStep::Grant(r, a) if self_admin => Some(OpD { target: SELF, f: 11, av: Av::Role(*a, *r, SELF), pred: z, salt: 100 + i as u8 }),
            _ => None,
        });
    }
    let ext1 = OpD { target: TGT, f: 0, av: Av::U32(1), pred: z, salt: 90 };
    let ext2 = OpD { target: TGT, f: 0, av: Av::U32(2), pred: z, salt: 91 };
    let sp = OpD { target: TGT, f: 0, av: Av::U32(3), pred: z, salt: 92 };
    let u1 = OpD { target: SELF, f: 10, av: Av::U32(5), pred: z, salt: 93 };
    let ks: std::vec::Vec<Option<usize>> = step_ops.iter().map(|o| o.as_ref().map(|o| tr.add_op(o.clone()))).collect();
    let k_e1 = tr.add_op(ext1.clone()); let k_e2 = tr.add_op(ext2.clone()); let k_sp = tr.add_op(sp.clone()); let k_u1 = tr.add_op(u1.clone());
    let mut sh: [std::vec::Vec<usize>; 4] = [std::vec![], dedup(props), dedup(execs), dedup(props)];
    let mut moved: [std::vec::Vec<usize>; 4] = [std::vec![], std::vec![], std::vec![], std::vec![]];
    let mut gone: std::vec::Vec<(usize, usize)> = std::vec![];
    let p0 = sh[1][0];
    for k in ks.iter().flatten() { tr.call(out, &C::Schedule(*k, 1, p0, pa(p0))); }
    for k in [k_e1, k_e2] { tr.call(out, &C::Schedule(k, 1, p0, pa(p0))); }
    if self_admin { tr.call(out, &C::Schedule(k_u1, 1, p0, pa(p0))); }
    tr.call(out, &C::Advance(1));
    let signer = |sh: &[std::vec::Vec<usize>; 4]| sh[2].last().copied();
    for (i, st) in steps.iter().enumerate() {
        let (role, acct, removal) = match st { EStep::Revoke(r, a) | EStep::Renounce(r, a) => (*r, *a, true), EStep::Grant(r, a) => (*r, *a, false) };
        let was_member = sh[role].contains(&acct);
        let tag: &'static str = if removal { enum_tag(&sh[role], &moved[role], acct) }
            else if gone.contains(&(role, acct)) { "enum-regrant" } else if was_member { "enum-grant-again" } else { "enum-grant" };
        let ok = match st {
            EStep::Renounce(r, a) => { tr.call(out, &C::Admin(17, Av::Renounce(*r, *a), pt(*a, tag))) }
            EStep::Revoke(..) | EStep::Grant(..) => {
                let f = if removal { 12 } else { 11 };
                match &step_ops[i] {
                    Some(o) => { let mut au = good_self(o, signer(&sh)); au.tag = tag; tr.call(out, &C::Admin(f, o.av.clone(), au)) }
                    None => { let ad = admin.unwrap(); tr.call(out, &C::Admin(f, Av::Role(acct, role, ad), pt(ad, tag))) }
                }
            }
        };
        if ok && removal { shadow_remove(&mut sh[role], &mut moved[role], acct); if !gone.contains(&(role, acct)) { gone.push((role, acct)); } }
        if ok && !removal { if !sh[role].contains(&acct) { sh[role].push(acct); } gone.retain(|g| *g != (role, acct)); }
        if !removal { continue; }
        // every account removed from this role so far tries to use it
        for &(r, a) in gone.iter().filter(|g| g.0 == role && g.1 != SELF) {
            match r {
                1 => { tr.call(out, &C::Schedule(k_sp, 1, a, pt(a, "revoked-member"))); }
                3 => { tr.call(out, &C::Cancel(tr.op_ids[k_e2], a, pt(a, "revoked-member"))); }
                2 if !sh[2].is_empty() => {
                    tr.call(out, &C::Execute(k_e1, Some(a), pt(a, "revoked-member")));
                    if self_admin && a == acct { let mut au = good_self(&u1, Some(a)); au.tag = "executor-revoked"; tr.call(out, &C::Admin(10, u1.av.clone(), au)); }
                }
                _ => {}
            }
        }
    }
    // a remaining member of each role uses it
    if let Some(&a) = sh[1].iter().find(|a| **a != SELF) { tr.call(out, &C::Schedule(k_sp, 1, a, pt(a, "remaining-member"))); }
    else { for a in [P1, OUT] { tr.call(out, &C::Schedule(k_sp, 1, a, pt(a, "no-proposer-left"))); } }
    if let Some(&a) = sh[3].iter().find(|a| **a != SELF) { tr.call(out, &C::Cancel(tr.op_ids[k_e2], a, pt(a, "remaining-member"))); }
    match sh[2].iter().find(|a| **a != SELF).copied() {
        Some(a) => {
            tr.call(out, &C::Execute(k_e1, Some(a), pt(a, "remaining-member")));
            if self_admin { let mut au = good_self(&u1, Some(a)); au.tag = "executor-remaining"; tr.call(out, &C::Admin(10, u1.av.clone(), au)); }
        }
        None if sh[2].is_empty() => { let mut au = Authz::default(); au.tag = "no-executor-left"; tr.call(out, &C::Execute(k_e1, None, au)); }
        None => {}
    }
    tr.finish(out, desc);
}

// ---------- generators ----------
fn pick_or(rng: &mut Rng, xs: &[usize], other: usize) -> usize { if xs.is_empty() { other } else { *rng.pick(xs) } }

/// authorisation for an ordinary account: usually right, sometimes missing / for another invocation
fn plain_auth(rng: &mut Rng, who: usize) -> Authz {
    let mut a = Authz::default();
    match rng.below(10) { 0 => {}, 1 => a.wrong.push(who), 2 => { a.plain.push(who); a.plain.push(OUT); } _ => a.plain.push(who) }
    a
}

/// the well-formed self-authorisation that consumes operation `o` by executor `x`
fn good_self(o: &OpD, x: Option<usize>) -> Authz {
    let mut a = Authz::default();
    a.selfe = Some(SelfE { root: Cx::C(o.target, o.f, o.av.clone()), subs: std::vec![], metas: std::vec![MetaD { pred: o.pred, salt: o.salt, exec: x }] });
    if let Some(x) = x { if x != SELF { a.exec.push((x, o.clone())); } }   // the controller as executor signs nothing (invoker-contract rule)
    a
}

/// distort a well-formed self-authorisation in one of the ways an adversary may
fn distort(rng: &mut Rng, tr: &Tr, a: Authz, o: &OpD) -> (Authz, &'static str) {
    let (mut a, t) = distort0(rng, tr, a, o);
    a.tag = t;
    (a, t)
}
fn distort0(rng: &mut Rng, tr: &Tr, mut a: Authz, o: &OpD) -> (Authz, &'static str) {
    let se = a.selfe.as_mut().unwrap();
    let kinds = 17;
    match rng.below(kinds) {
        15 => { a.exec_trunc = a.exec.iter().map(|(x, o2)| (*x, o2.clone(), 5u8)).collect(); a.exec.clear(); (a, "executor-signed-without-salt") }
        16 => { a.exec_trunc = a.exec.iter().map(|(x, o2)| (*x, o2.clone(), 4u8)).collect(); a.exec.clear(); (a, "executor-signed-without-predecessor") }
        14 => { // a further context that names ANOTHER contract: an external operation of the universe with its own descriptor
            let ext: std::vec::Vec<usize> = (0..tr.ops.len()).filter(|i| tr.ops[*i].target != SELF).collect();
            if ext.is_empty() { se.subs.push(Cx::C(TGT, 0, Av::U32(1))); let m = se.metas[0].clone(); se.metas.push(m); return (a, "foreign-contract-context"); }
            let ready: std::vec::Vec<usize> = ext.iter().cloned().filter(|i| tr.state_of(tr.op_ids[*i]) == OperationState::Ready).collect();
            let k = if !ready.is_empty() { *rng.pick(&ready) } else { *rng.pick(&ext) };
            let o2 = tr.ops[k].clone();
            let x = se.metas[0].exec;
            se.subs.push(Cx::C(o2.target, o2.f, o2.av.clone())); se.metas.push(MetaD { pred: o2.pred, salt: o2.salt, exec: x });
            if let Some(x) = x { a.exec.push((x, o2)); }
            (a, "foreign-contract-context") }
        0 => { se.metas.clear(); (a, "no-metas") }
        1 => { se.metas[0].salt = se.metas[0].salt.wrapping_add(1); (a, "wrong-salt") }
        2 => { se.metas[0].pred = tr.w.ids[rng.below(tr.nids as u64) as usize]; (a, "other-pred") }
        3 => { se.metas[0].exec = None; (a, "no-executor") }
        4 => { se.metas[0].exec = Some(OUT); a.exec.push((OUT, o.clone())); (a, "executor-without-role") }
        5 => { a.exec.clear(); (a, "executor-unsigned") }
        6 => { let mut o2 = o.clone(); o2.salt = o2.salt.wrapping_add(1); a.exec = a.exec.iter().map(|(x, _)| (*x, o2.clone())).collect(); (a, "executor-signed-other-op") }
        7 => { let m = se.metas[0].clone(); se.metas.push(m); (a, "extra-meta") }
        8 => { // a second context in the tree without a descriptor (the F3 shape, root consumed)
            se.subs.push(Cx::C(SELF, 10, Av::U32(0))); (a, "sub-without-meta") }
        9 => { // a second context with its own descriptor: some other operation of the universe
            let k = rng.below(tr.ops.len() as u64) as usize; let o2 = tr.ops[k].clone();
            let x = se.metas[0].exec;
            se.subs.push(Cx::C(o2.target, o2.f, o2.av.clone())); se.metas.push(MetaD { pred: o2.pred, salt: o2.salt, exec: x });
            if let Some(x) = x { a.exec.push((x, o2)); }
            (a, "two-operations") }
        10 => { se.subs.push(Cx::Other); let m = se.metas[0].clone(); se.metas.push(m); (a, "create-contract-context") }
        11 => { se.root = Cx::C(SELF, 21, Av::Nil); (a, "root-for-other-fn") }
        12 => { a.selfe = None; (a, "no-self-entry") }
        _ => { // descriptors swapped: right length, wrong order
            let k = rng.below(tr.ops.len() as u64) as usize; let o2 = tr.ops[k].clone();
            let x = se.metas[0].exec;
            se.subs.push(Cx::C(o2.target, o2.f, o2.av.clone())); se.metas.insert(0, MetaD { pred: o2.pred, salt: o2.salt, exec: x });
            if let Some(x) = x { a.exec.push((x, o2)); }
            (a, "metas-swapped") }
    }
}

fn random_call(rng: &mut Rng, tr: &Tr) -> C {
    let nops = tr.ops.len();
    let k = rng.below(nops as u64) as usize;
    let proposers = tr.holders(1); let executors = tr.holders(2); let cancellers = tr.holders(3);
    let exec_pick = |rng: &mut Rng| -> Option<usize> { if executors.is_empty() { if rng.chance(1, 4) { Some(OUT) } else { None } } else { match rng.below(8) { 0 => None, 1 => Some(OUT), _ => Some(*rng.pick(&executors)) } } };
    match rng.below(100) {
        0..=21 => {
            let m = tr.min_delay();
            let d = match rng.below(8) { 0 => 0, 1 => m.saturating_sub(1), 2 | 3 | 4 => m, 5 => m + 1, _ => m + rng.below(4) as u32 };
            let p = match rng.below(8) { 0 => OUT, 1 => ADM, _ => pick_or(rng, &proposers, P1) };
            C::Schedule(k, d, p, plain_auth(rng, p))
        }
        22..=29 => { let c = match rng.below(6) { 0 => OUT, _ => pick_or(rng, &cancellers, P1) }; let ix = if rng.chance(5, 6) { tr.op_ids[k] } else { rng.below(tr.nids as u64) as usize }; C::Cancel(ix, c, plain_auth(rng, c)) }
        30..=41 => {
            let ext: std::vec::Vec<usize> = (0..nops).filter(|i| tr.ops[*i].target != SELF).collect();
            let ready: std::vec::Vec<usize> = ext.iter().cloned().filter(|i| tr.state_of(tr.op_ids[*i]) == OperationState::Ready).collect();
            let k = if !ready.is_empty() && rng.chance(2, 3) { *rng.pick(&ready) } else if !ext.is_empty() && rng.chance(5, 6) { *rng.pick(&ext) } else { k };
            let x = exec_pick(rng); let au = match x { Some(x) => plain_auth(rng, x), None => Authz::default() }; C::Execute(k, x, au) }
        42..=69 => {
            // perform a self-targeting operation of the universe by calling the admin function directly
            let selfops: std::vec::Vec<usize> = (0..nops).filter(|i| tr.ops[*i].target == SELF && (10..=17).contains(&tr.ops[*i].f)).collect();
            if selfops.is_empty() { return C::Advance(1); }
            // prefer operations that are ready
            let ready: std::vec::Vec<usize> = selfops.iter().cloned().filter(|i| tr.state_of(tr.op_ids[*i]) == OperationState::Ready).collect();
            let k = if !ready.is_empty() && rng.chance(3, 4) { *rng.pick(&ready) } else { *rng.pick(&selfops) };
            let o = tr.ops[k].clone();
            let x = if tr.holders(2).is_empty() { if rng.chance(1, 8) { Some(OUT) } else { None } } else { Some(*rng.pick(&tr.holders(2))) };
            let mut au = good_self(&o, x);
            if rng.chance(2, 5) { au = distort(rng, tr, au, &o).0; }
            // when the admin is an ordinary account its signature matters instead
            if let Some(ad) = tr.admin() { if ad != SELF && rng.chance(3, 4) { au.plain.push(ad); } }
            // the actual call: usually exactly the operation's arguments, sometimes other arguments
            let av = if rng.chance(1, 8) { match &o.av { Av::U32(d) => Av::U32(d + 1), Av::Role(a, r, c) => Av::Role(*a, 1 + (*r % NROLES), *c), x => x.clone() } } else { o.av.clone() };
            C::Admin(o.f, av, au)
        }
        70..=79 => {
            // __check_auth directly
            let selfops: std::vec::Vec<usize> = (0..nops).collect();
            let cnt = 1 + rng.below(2) as usize;
            let x = if tr.holders(2).is_empty() { None } else { Some(*rng.pick(&tr.holders(2))) };
            let mut metas = std::vec![]; let mut cxs = std::vec![]; let mut xa = std::vec![];
            let readyops: std::vec::Vec<usize> = selfops.iter().cloned().filter(|i| tr.state_of(tr.op_ids[*i]) == OperationState::Ready).collect();
            for _ in 0..cnt {
                let o = if !readyops.is_empty() && rng.chance(1, 2) { tr.ops[*rng.pick(&readyops)].clone() } else { tr.ops[*rng.pick(&selfops)].clone() };
                cxs.push(Cx::C(o.target, o.f, o.av.clone())); metas.push(MetaD { pred: o.pred, salt: o.salt, exec: x });
                if let Some(x) = x { xa.push((x, o)); }
            }
            match rng.below(9) { 0 => { metas.clear(); } 1 => { metas.pop(); } 2 => { let m = metas[0].clone(); metas.push(m); } 3 => { cxs.push(Cx::Other); } 4 => { xa.clear(); } 5 => { metas[0].salt = metas[0].salt.wrapping_add(1); } 6 => { cxs.clear(); metas.clear(); } _ => {} }
            C::CheckAuth(metas, cxs, xa)
        }
        80..=91 => {
            // access-control entry points by ordinary accounts (external admin, role admins, holders)
            let who = *rng.pick(&[ADM, OUT, P1, X1, P2]);
            match rng.below(7) {
                0 => C::Admin(11, Av::Role(*rng.pick(&[OUT, P2, X2, X1]), 1 + rng.below(NROLES as u64) as usize, who), plain_auth(rng, who)),
                1 => C::Admin(12, Av::Role(*rng.pick(&[OUT, P1, P2, X1, X2]), 1 + rng.below(NROLES as u64) as usize, who), plain_auth(rng, who)),
                2 => { let r = 1 + rng.below(NROLES as u64) as usize; let hs = tr.holders(r); let w2 = pick_or(rng, &hs, who); C::Admin(17, Av::Renounce(r, w2), plain_auth(rng, w2)) }
                3 => C::Admin(16, Av::Nil, plain_auth(rng, who)),
                4 => C::Admin(13, Av::RoleAdmin(1 + rng.below(NROLES as u64) as usize, 1 + rng.below(NROLES as u64) as usize), plain_auth(rng, who)),
                5 => C::Admin(14, Av::Transfer(*rng.pick(&[ADM, OUT, SELF]), match rng.below(4) { 0 => 0, 1 => tr.w.now + tr.w.max_ttl - rng.below(2) as u32, 2 => tr.w.now.saturating_sub(1), _ => tr.w.now + rng.below(30) as u32 }), plain_auth(rng, who)),
                _ => C::Admin(10, Av::U32(rng.below(5) as u32), plain_auth(rng, who)),
            }
        }
        _ => {
            let pend: std::vec::Vec<u32> = tr.op_ids.iter().map(|ix| tr.ledger_of(*ix)).filter(|r| *r > tr.w.now).collect();
            if !pend.is_empty() && rng.chance(3, 4) { let r = *rng.pick(&pend); let gap = r - tr.w.now; C::Advance(match rng.below(4) { 0 => gap - 1, 3 => gap + 1, _ => gap }) } else if rng.chance(1, 4) { C::Advance((*rng.pick(&LONG_GAPS)).min(CAP - tr.w.now)) } else { C::Advance(rng.below(3) as u32) }
        }
    }
}

/// directed: one admin entry point x one scheduling state x one payload shape
fn directed(out: &mut Out, rng: &mut Rng, nexec: usize, state: u8, shape: u64, which: usize) {
    let execs: std::vec::Vec<usize> = [X1, X2][..nexec].to_vec();
    let mut tr = Tr::new(rng, 100, 2, &[P1], &execs, None, 12, true);
    let selfops: std::vec::Vec<usize> = (0..tr.ops.len()).filter(|i| tr.ops[*i].target == SELF && (10..=15).contains(&tr.ops[*i].f) && tr.ops[*i].pred == [0u8; 32]).collect();
    let k = selfops[which % selfops.len()];
    let o = tr.ops[k].clone();
    let pa = |p: usize| { let mut a = Authz::default(); a.plain.push(p); a };
    // bring the operation into the wanted scheduling state: 0 unset, 1 waiting, 2 ready, 3 done, 4 cancelled
    let ext: Option<usize> = (0..tr.ops.len()).find(|i| tr.ops[*i].target == TGT && tr.ops[*i].f == 0);
    if let Some(ke) = ext { tr.call(out, &C::Schedule(ke, 2, P1, pa(P1))); }
    if state >= 1 { tr.call(out, &C::Schedule(k, 2, P1, pa(P1))); }
    if state == 2 || state == 3 { tr.call(out, &C::Advance(2)); }
    let x = if nexec == 0 { None } else { Some(X1) };
    if state == 3 { tr.call(out, &C::Admin(o.f, o.av.clone(), good_self(&o, x))); }
    if state == 4 { let id = tr.op_ids[k]; tr.call(out, &C::Cancel(id, P1, pa(P1))); tr.call(out, &C::Advance(2)); }
    let mut au = good_self(&o, x);
    let mut tag = "well-formed";
    if shape > 0 {
        // search the seed space for the distortion kind number shape-1 so that every kind is hit deterministically
        let mut sd = shape * 7919 + which as u64;
        loop { let mut probe = Rng::new(sd); if probe.below(17) == (shape - 1) % 17 { break; } sd += 1; }
        let (a2, t) = distort(&mut Rng::new(sd), &tr, au, &o); au = a2; tag = t;
    }
    tr.call(out, &C::Admin(o.f, o.av.clone(), au));
    // and the same payload through __check_auth directly, then a correct one
    tr.call(out, &C::CheckAuth(std::vec![], std::vec![Cx::C(SELF, o.f, o.av.clone())], std::vec![]));
    tr.call(out, &C::Admin(o.f, o.av.clone(), good_self(&o, x)));
    tr.finish(out, &format!("directed/{}-state{}-exec{}-{}", fn_name(o.f), state, nexec, tag));
}

// ---------- K2: numeric arguments at the u32 extremes, special 32-byte values ----------
const M32: u32 = u32::MAX;
const H31: u32 = 1u32 << 31;
fn leak(s: String) -> &'static str { Box::leak(s.into_boxed_str()) }

/// try to get operation k through: admin entry point end to end with the consuming authorisation (self-targeting),
/// execute_op (external target)
fn probe(tr: &mut Tr, out: &mut Out, k: usize, x: Option<usize>, tag: &'static str) -> bool {
    let o = tr.ops[k].clone();
    if o.target == SELF && (10..=17).contains(&o.f) {
        let mut au = good_self(&o, x); au.tag = tag;
        tr.call(out, &C::Admin(o.f, o.av.clone(), au))
    } else {
        let mut au = Authz::default(); if let Some(x) = x { au.plain.push(x); } au.tag = tag;
        tr.call(out, &C::Execute(k, x, au))
    }
}
fn probe_direct(tr: &mut Tr, out: &mut Out, k: usize, x: Option<usize>, tag: &'static str) -> bool {
    let o = tr.ops[k].clone();
    let xa: std::vec::Vec<(usize, OpD)> = x.map(|x| std::vec![(x, o.clone())]).unwrap_or_default();
    tr.ca_tag = tag;
    tr.call(out, &C::CheckAuth(std::vec![MetaD { pred: o.pred, salt: o.salt, exec: x }], std::vec![Cx::C(o.target, o.f, o.av.clone())], xa))
}

/// Directed family: schedule_op with delays at the u32 extremes (u32::MAX, u32::MAX - 1, 2^31 +- 1, ledger + delay =
/// u32::MAX - 1 / u32::MAX / 2^32 / 2^32 + 1 / 2^32 + 2, = CAP - 1 / CAP / CAP + 1, the minimum delay +- 1, 0) for every kind
/// of operation, each one tried in the scheduling ledger, one ledger later, at ready - 1 / ready / ready + 1 of every
/// operation whose ready ledger can be reached, and at the highest ledger the host supports.
fn extreme_delays(out: &mut Out, rng: &mut Rng, desc: &str, now0: u32, nexec: usize, hc: usize) {
    let execs: std::vec::Vec<usize> = [X1][..nexec].to_vec();
    let min = 2u32;
    let mut tr = Tr::new_h(rng, now0, min, &[P1, P2], &execs, None, 1, true, hc);
    let x = if nexec == 0 { None } else { Some(X1) };
    let z = [0u8; 32];
    let to_max = M32 - now0;
    let mut cat: std::vec::Vec<(&'static str, u32, bool)> = std::vec![
        ("max", M32, false), ("max-1", M32 - 1, false),
        ("sum=max-1", to_max - 1, false), ("sum=max", to_max, false), ("sum=max+1", to_max.saturating_add(1), false), ("sum=max+2", to_max.saturating_add(2), false), ("sum=max+3", to_max.saturating_add(3), false),
        ("sum=max+ledger", to_max.saturating_add(now0), false),
        ("half-1", H31 - 1, false), ("half", H31, true), ("half+1", H31 + 1, false),
        ("sum=cap-1", CAP - 1 - now0, true), ("sum=cap", CAP - now0, false), ("sum=cap+1", CAP + 1 - now0, false),
        ("min", min, false), ("min+1", min + 1, true), ("min-1", min - 1, false), ("zero", 0, false)];
    // one operation per delay; the kinds rotate so that every admin entry point (and execute_op) meets every delay class
    let rot = now0 as usize % 7 + nexec;
    let mut ks: std::vec::Vec<usize> = std::vec![];
    for (i, _) in cat.iter().enumerate() {
        let (t, f, av) = match (i + rot) % 7 {
            0 => (SELF, 10u8, Av::U32(30 + i as u32)), 1 => (SELF, 11, Av::Role(OUT, 4, SELF)), 2 => (TGT, 0, Av::U32(1)),
            3 => (SELF, 13, Av::RoleAdmin(4, 5)), 4 => (SELF, 12, Av::Role(P2, 3, SELF)), 5 => (SELF, 14, Av::Transfer(ADM, now0 + 3000)),
            _ => (SELF, 11, Av::Role(P2, 5, SELF)),
        };
        ks.push(tr.add_op(OpD { target: t, f, av, pred: z, salt: 100 + i as u8 }));
    }
    // the first two always: update_delay and grant_role with delay u32::MAX / u32::MAX - 1 whatever the rotation
    cat.push(("max", M32, false)); ks.push(tr.add_op(OpD { target: SELF, f: 10, av: Av::U32(0), pred: z, salt: 130 }));
    cat.push(("max-1", M32 - 1, false)); ks.push(tr.add_op(OpD { target: SELF, f: 11, av: Av::Role(OUT, 1, SELF), pred: z, salt: 131 }));
    cat.push(("sum=max+1", to_max.saturating_add(1), false)); ks.push(tr.add_op(OpD { target: SELF, f: 12, av: Av::Role(P2, 1, SELF), pred: z, salt: 132 }));
    cat.push(("sum=max+3", to_max.saturating_add(3), false)); ks.push(tr.add_op(OpD { target: SELF, f: 14, av: Av::Transfer(OUT, now0 + 3000), pred: z, salt: 133 }));
    cat.push(("max", M32, false)); ks.push(tr.add_op(OpD { target: TGT, f: 0, av: Av::U32(2), pred: z, salt: 134 }));
    let n = cat.len();
    let mut sched = std::vec![false; n]; let mut done = std::vec![false; n];
    let ready: std::vec::Vec<u32> = cat.iter().map(|c| now0.saturating_add(c.1)).collect();
    for i in 0..n {
        let mut a = Authz::default(); a.plain.push(P1); a.tag = leak(format!("delay-{}", cat[i].0));
        sched[i] = tr.call(out, &C::Schedule(ks[i], cat[i].1, P1, a));
        if sched[i] {
            // in the very ledger it was scheduled in
            let ok = probe(&mut tr, out, ks[i], x, leak(format!("delay-{}@same-ledger", cat[i].0)));
            if ok { done[i] = true; }
            if i % 3 == 0 && !ok { if probe_direct(&mut tr, out, ks[i], x, leak(format!("delay-{}@same-ledger", cat[i].0))) { done[i] = true; } }
        }
    }
    let mut visits: std::vec::Vec<u32> = std::vec![now0 + 1, CAP];
    for i in 0..n { if sched[i] { for r in [ready[i].wrapping_sub(1), ready[i], ready[i].wrapping_add(1)] { if r > now0 && r <= CAP { visits.push(r); } } } }
    visits.sort(); visits.dedup();
    for &l in visits.iter() {
        let gap = l - tr.w.now;
        if gap > 0 { tr.call(out, &C::Advance(gap)); }
        for i in 0..n {
            if !sched[i] || done[i] { continue; }
            let rel = l as i64 - ready[i] as i64;
            let tag = if rel.abs() <= 1 { if cat[i].2 && rel == 0 { continue; } leak(format!("delay-{}@ready{:+}", cat[i].0, rel)) }
                      else if l == now0 + 1 { leak(format!("delay-{}@next-ledger", cat[i].0)) }
                      else if l == CAP { leak(format!("delay-{}@top-ledger", cat[i].0)) } else { continue };
            let direct = (i + l as usize) % 4 == 0;
            let ok = if direct { probe_direct(&mut tr, out, ks[i], x, tag) } else { probe(&mut tr, out, ks[i], x, tag) };
            if ok { done[i] = true; }
            // a failed consumption of an operation that is due stays possible later; nothing else to do
        }
    }
    tr.finish(out, desc);
}

/// Directed family: update_delay with 0 / 1 / 2^31 / u32::MAX - 1 / u32::MAX (through the timelock, or directly by an external
/// admin); after each the new minimum is probed by schedule_op one below / at it, and the operation scheduled AT the minimum
/// is tried in the same ledger (legal only for minimum 0), one ledger later, at its ready ledger.
fn extreme_min_delay(out: &mut Out, rng: &mut Rng, desc: &str, nexec: usize, hc: usize, admin: Option<usize>) {
    let execs: std::vec::Vec<usize> = [X1][..nexec].to_vec();
    let now0 = 2000u32;
    let mut tr = Tr::new_h(rng, now0, 2, &[P1], &execs, admin, 1, true, hc);
    let x = if nexec == 0 { None } else { Some(X1) };
    let z = [0u8; 32];
    let vals: [(&'static str, u32); 6] = [("0", 0), ("1", 1), ("half", H31), ("half+1", H31 + 1), ("max-1", M32 - 1), ("max", M32)];
    let ups: std::vec::Vec<OpD> = vals.iter().enumerate().map(|(i, v)| OpD { target: SELF, f: 10, av: Av::U32(v.1), pred: z, salt: 120 + i as u8 }).collect();
    let kups: std::vec::Vec<usize> = ups.iter().map(|o| tr.add_op(o.clone())).collect();
    // probes: external and self-targeting operations alternate
    let kpr: std::vec::Vec<usize> = (0..vals.len()).map(|j| tr.add_op(if j % 2 == 0 || admin.is_some() { OpD { target: TGT, f: 0, av: Av::U32(1 + (j as u32 % 2)), pred: z, salt: 140 + j as u8 } }
                                                                       else { OpD { target: SELF, f: 11, av: Av::Role(OUT, 4, SELF), pred: z, salt: 140 + j as u8 } })).collect();
    let pt = |p: usize, t: &'static str| { let mut a = Authz::default(); a.plain.push(p); a.tag = t; a };
    if admin.is_none() {
        for &k in kups.iter() { tr.call(out, &C::Schedule(k, 2, P1, pt(P1, ""))); }
        tr.call(out, &C::Advance(2));
    }
    for (i, (name, v)) in vals.iter().enumerate() {
        let tag = leak(format!("new-delay-{}", name));
        match admin {
            None => { let mut au = good_self(&ups[i], x); au.tag = tag; tr.call(out, &C::Admin(10, ups[i].av.clone(), au)); }
            Some(ad) => { tr.call(out, &C::Admin(10, Av::U32(*v), pt(ad, tag))); }
        }
        if *v > 0 { tr.call(out, &C::Schedule(kpr[i], *v - 1, P1, pt(P1, leak(format!("below-min-{}", name))))); }
        if tr.call(out, &C::Schedule(kpr[i], *v, P1, pt(P1, leak(format!("at-min-{}", name))))) {
            let ok = probe(&mut tr, out, kpr[i], x, leak(format!("min-{}@same-ledger", name)));
            if !ok {
                tr.call(out, &C::Advance(1));
                probe(&mut tr, out, kpr[i], x, leak(format!("min-{}@next-ledger", name)));
            }
        }
    }
    tr.finish(out, desc);
}

/// Directed family: transfer_admin_role with live_until at 0 / 1 / ledger -1, +0, +1 / the host's maximum ttl -1, +0, +1 /
/// 2^31 / u32::MAX - 1 / u32::MAX, by an external admin; acceptance at live_until and one ledger after it
fn extreme_live_until(out: &mut Out, rng: &mut Rng, desc: &str, hc: usize) {
    let now0 = 3000u32;
    let mut tr = Tr::new_h(rng, now0, 1, &[P1], &[], Some(ADM), 1, true, hc);
    let pt = |p: usize, t: &'static str| { let mut a = Authz::default(); a.plain.push(p); a.tag = t; a };
    let mt = tr.w.max_ttl;
    let lus: [(&'static str, u32); 12] = [("0", 0), ("1", 1), ("ledger-1", now0 - 1), ("ledger", now0), ("ledger+1", now0 + 1), ("max-ttl-1", now0 + mt - 2), ("max-ttl", now0 + mt - 1),
        ("max-ttl+1", now0 + mt), ("max-ttl+2", now0 + mt + 1), ("half", H31), ("max-1", M32 - 1), ("max", M32)];
    for (name, lu) in lus.iter() {
        tr.call(out, &C::Admin(14, Av::Transfer(OUT, *lu), pt(ADM, leak(format!("live-until-{}", name)))));
    }
    tr.call(out, &C::Admin(14, Av::Transfer(OUT, 0), pt(ADM, "live-until-0-cancels")));
    tr.call(out, &C::Admin(16, Av::Nil, pt(OUT, "offer-cancelled")));
    tr.call(out, &C::Admin(14, Av::Transfer(OUT, now0 + 20), pt(ADM, "live-until-ledger+20")));
    tr.call(out, &C::Advance(21));
    tr.call(out, &C::Admin(16, Av::Nil, pt(OUT, "accept@live-until+1")));
    tr.call(out, &C::Admin(14, Av::Transfer(OUT, now0 + 21 + 20), pt(ADM, "live-until-ledger+20")));
    tr.call(out, &C::Advance(20));
    tr.call(out, &C::Admin(16, Av::Nil, pt(OUT, "accept@live-until")));
    tr.finish(out, desc);
}

/// Directed family: special 32-byte values as salt (0, 0xFF.., 0x80 0.., 0x7F FF.., 256, 1 << 248) and as predecessor
/// (0xFF.., 0..01, 0x80 0.., the id of a Done / a Waiting / a cancelled operation), descriptor and operation agreeing or not
fn special_bytes(out: &mut Out, rng: &mut Rng, desc: &str, nexec: usize, hc: usize) {
    let execs: std::vec::Vec<usize> = [X1][..nexec].to_vec();
    let mut tr = Tr::new_h(rng, 4000, 2, &[P1], &execs, None, 1, true, hc);
    let x = if nexec == 0 { None } else { Some(X1) };
    let z = [0u8; 32];
    let pt = |p: usize, t: &'static str| { let mut a = Authz::default(); a.plain.push(p); a.tag = t; a };
    let salts: [u8; 6] = [0, 255, 254, 253, 252, 251];
    let sops: std::vec::Vec<OpD> = salts.iter().enumerate().map(|(i, s)| OpD { target: if i == 4 { TGT } else { SELF }, f: if i == 4 { 0 } else { 10 }, av: Av::U32(if i == 4 { 1 } else { 60 + i as u32 }), pred: z, salt: *s }).collect();
    let ksal: std::vec::Vec<usize> = sops.iter().map(|o| tr.add_op(o.clone())).collect();
    let base = OpD { target: SELF, f: 10, av: Av::U32(70), pred: z, salt: 1 };         // becomes Done
    let wait = OpD { target: SELF, f: 10, av: Av::U32(71), pred: z, salt: 1 };         // stays Waiting
    let canc = OpD { target: SELF, f: 10, av: Av::U32(72), pred: z, salt: 1 };         // cancelled
    let kb = tr.add_op(base.clone()); let kw = tr.add_op(wait.clone()); let kc = tr.add_op(canc.clone());
    let mut one = [0u8; 32]; one[31] = 1; let mut high = [0u8; 32]; high[0] = 0x80;
    let preds: std::vec::Vec<(&'static str, [u8; 32])> = std::vec![("ff", [0xFFu8; 32]), ("one", one), ("high-bit", high),
        ("done", tr.w.ids[tr.op_ids[kb]]), ("waiting", tr.w.ids[tr.op_ids[kw]]), ("cancelled", tr.w.ids[tr.op_ids[kc]])];
    let pops: std::vec::Vec<OpD> = preds.iter().enumerate().map(|(i, p)| OpD { target: if i == 1 { TGT } else { SELF }, f: if i == 1 { 0 } else { 11 }, av: if i == 1 { Av::U32(2) } else { Av::Role(OUT, 4, SELF) }, pred: p.1, salt: 80 + i as u8 }).collect();
    let kpre: std::vec::Vec<usize> = pops.iter().map(|o| tr.add_op(o.clone())).collect();
    for (i, &k) in ksal.iter().enumerate() { tr.call(out, &C::Schedule(k, 2, P1, pt(P1, leak(format!("salt-{}", salt_name(salts[i])))))); }
    for (i, &k) in kpre.iter().enumerate() { tr.call(out, &C::Schedule(k, 2, P1, pt(P1, leak(format!("pred-{}", preds[i].0))))); }
    tr.call(out, &C::Schedule(kb, 2, P1, pt(P1, ""))); tr.call(out, &C::Schedule(kc, 2, P1, pt(P1, "")));
    tr.call(out, &C::Schedule(kw, 50, P1, pt(P1, "")));
    tr.call(out, &C::Cancel(tr.op_ids[kc], P1, pt(P1, "")));
    tr.call(out, &C::Advance(1));
    for (i, &k) in ksal.iter().enumerate() { probe(&mut tr, out, k, x, leak(format!("salt-{}@ready-1", salt_name(salts[i])))); }
    tr.call(out, &C::Advance(1));
    // descriptor naming ANOTHER special salt than the operation's: not that operation
    for i in 0..sops.len() {
        let o = &sops[i]; if o.target != SELF { continue; }
        let other = salts[(i + 1) % salts.len()];
        let mut au = good_self(o, x); au.selfe.as_mut().unwrap().metas[0].salt = other; au.tag = leak(format!("salt-{}-for-{}", salt_name(other), salt_name(o.salt)));
        tr.call(out, &C::Admin(o.f, o.av.clone(), au));
    }
    for (i, &k) in ksal.iter().enumerate() {
        let tag = leak(format!("salt-{}@ready+0", salt_name(salts[i])));
        if i % 2 == 1 { probe_direct(&mut tr, out, k, x, tag); } else { probe(&mut tr, out, k, x, tag); }
    }
    for (i, &k) in kpre.iter().enumerate() { probe(&mut tr, out, k, x, leak(format!("pred-{}@before", preds[i].0))); }
    probe(&mut tr, out, kb, x, "pred-base");
    for (i, &k) in kpre.iter().enumerate() {
        let tag = leak(format!("pred-{}@after", preds[i].0));
        if i % 2 == 1 && tr.ops[k].target == SELF { probe_direct(&mut tr, out, k, x, tag); } else { probe(&mut tr, out, k, x, tag); }
    }
    // descriptor with the zero predecessor for an operation scheduled with a special one
    for i in 0..pops.len() {
        let o = &pops[i]; if o.target != SELF { continue; }
        let mut au = good_self(o, x); au.selfe.as_mut().unwrap().metas[0].pred = z; au.tag = leak(format!("pred-zero-for-{}", preds[i].0));
        tr.call(out, &C::Admin(o.f, o.av.clone(), au));
    }
    tr.finish(out, desc);
}

fn main() {
    let mut out = Out::new("From SC Require Import Lib.Prelude Lib.Int Lib.Host Model.Timelock Model.TimelockController Run.C09.\nOpen Scope Z_scope.", "check_all");
    out.per_shard(250);
    let mut rng = Rng::new(out.cfg.seed);
    let thorough = out.cfg.thorough;
    let scale = out.cfg.scale;

    // ---------- directed corpus ----------
    // the pre-fix failing history of F3: nothing scheduled, empty descriptor list
    {
        let mut tr = Tr::new(&mut rng, 50, 3, &[P1], &[X1], None, 6, false);
        let mut au = Authz::default();
        au.selfe = Some(SelfE { root: Cx::C(SELF, 10, Av::U32(0)), subs: std::vec![], metas: std::vec![] });
        au.tag = "no-metas";
        tr.call(&mut out, &C::Admin(10, Av::U32(0), au.clone()));
        tr.call(&mut out, &C::CheckAuth(std::vec![], std::vec![Cx::C(SELF, 10, Av::U32(0))], std::vec![]));
        let mut au2 = Authz::default();
        au2.selfe = Some(SelfE { root: Cx::C(SELF, 11, Av::Role(OUT, 1, SELF)), subs: std::vec![], metas: std::vec![] });
        au2.tag = "no-metas";
        tr.call(&mut out, &C::Admin(11, Av::Role(OUT, 1, SELF), au2));
        let mut au3 = Authz::default();
        au3.selfe = Some(SelfE { root: Cx::C(SELF, 14, Av::Transfer(OUT, 90)), subs: std::vec![], metas: std::vec![] });
        au3.tag = "no-metas";
        tr.call(&mut out, &C::Admin(14, Av::Transfer(OUT, 90), au3));
        tr.finish(&mut out, "directed/F3-empty-descriptors");
    }
    // admin handed over to an ordinary account through the timelock, then that account acts directly
    for nexec in 0..=1usize {
        let execs: std::vec::Vec<usize> = [X1][..nexec].to_vec();
        let mut tr = Tr::new(&mut rng, 200, 1, &[P1], &execs, None, 12, true);
        let pa = |p: usize| { let mut a = Authz::default(); a.plain.push(p); a };
        let x = if nexec == 0 { None } else { Some(X1) };
        let find = |tr: &Tr, f: u8| (0..tr.ops.len()).find(|i| tr.ops[*i].f == f && tr.ops[*i].target == SELF);
        if let Some(k) = find(&tr, 14) {
            let o = tr.ops[k].clone();
            tr.call(&mut out, &C::Admin(16, Av::Nil, pa(ADM)));                    // nothing pending yet
            tr.call(&mut out, &C::Schedule(k, 1, P1, pa(P1)));
            tr.call(&mut out, &C::Admin(o.f, o.av.clone(), good_self(&o, x)));     // still waiting
            tr.call(&mut out, &C::Advance(1));
            tr.call(&mut out, &C::Admin(o.f, o.av.clone(), good_self(&o, x)));     // offer made
            tr.call(&mut out, &C::Admin(16, Av::Nil, pa(OUT)));                    // wrong account
            tr.call(&mut out, &C::Admin(16, Av::Nil, Authz::default()));          // no signature
            tr.call(&mut out, &C::Admin(10, Av::U32(0), pa(ADM)));                 // not admin yet
            tr.call(&mut out, &C::Admin(16, Av::Nil, pa(ADM)));                    // accepted
            tr.call(&mut out, &C::Admin(10, Av::U32(0), pa(ADM)));                 // external admin: no timelock any more
            tr.call(&mut out, &C::Admin(10, Av::U32(3), pa(OUT)));
            tr.call(&mut out, &C::Admin(11, Av::Role(OUT, 1, ADM), pa(ADM)));
            tr.call(&mut out, &C::Admin(12, Av::Role(P1, 1, ADM), pa(ADM)));
            tr.call(&mut out, &C::Admin(15, Av::Nil, pa(ADM)));                    // renounce: no admin at all
            tr.call(&mut out, &C::Admin(10, Av::U32(1), pa(ADM)));
        }
        tr.finish(&mut out, &format!("directed/admin-handover-exec{}", nexec));
    }
    // execute_op on an external target: executor role + signature when executors exist, anyone otherwise
    for nexec in 0..=2usize {
        let execs: std::vec::Vec<usize> = [X1, X2][..nexec].to_vec();
        let mut tr = Tr::new(&mut rng, 400, 2, &[P1, P2], &execs, None, 16, true);
        let pa = |p: usize| { let mut a = Authz::default(); a.plain.push(p); a };
        let ext: std::vec::Vec<usize> = (0..tr.ops.len()).filter(|i| tr.ops[*i].target != SELF).collect();
        for &k in ext.iter() { tr.call(&mut out, &C::Schedule(k, 2, P2, pa(P2))); }
        let k0 = ext[0];
        let x = if nexec == 0 { None } else { Some(X1) };
        tr.call(&mut out, &C::Execute(k0, x, x.map(pa).unwrap_or_default()));      // waiting
        tr.call(&mut out, &C::Advance(1));
        tr.call(&mut out, &C::Execute(k0, x, x.map(pa).unwrap_or_default()));      // still waiting (ready - 1)
        tr.call(&mut out, &C::Advance(1));
        {   // a Ready operation on ANOTHER contract offered to __check_auth (directly and as a further context)
            let oe = tr.ops[k0].clone();
            let xa: std::vec::Vec<(usize, OpD)> = x.map(|x| std::vec![(x, oe.clone())]).unwrap_or_default();
            tr.call(&mut out, &C::CheckAuth(std::vec![MetaD { pred: oe.pred, salt: oe.salt, exec: x }], std::vec![Cx::C(oe.target, oe.f, oe.av.clone())], xa));
        }
        tr.call(&mut out, &C::Execute(k0, Some(OUT), pa(OUT)));                   // outsider
        tr.call(&mut out, &C::Execute(k0, x, Authz::default()));                  // executor without signature
        tr.call(&mut out, &C::Execute(k0, None, Authz::default()));               // nobody named
        tr.call(&mut out, &C::Execute(k0, x, x.map(pa).unwrap_or_default()));      // the right way (unless done above)
        tr.call(&mut out, &C::Execute(k0, x, x.map(pa).unwrap_or_default()));      // twice
        for &k in ext.iter().skip(1) { tr.call(&mut out, &C::Execute(k, x, x.map(pa).unwrap_or_default())); }
        tr.call(&mut out, &C::Cancel(tr.op_ids[k0], P1, pa(P1)));                 // done: cannot be cancelled
        tr.call(&mut out, &C::Schedule(k0, 2, P1, pa(P1)));                       // nor re-scheduled
        tr.finish(&mut out, &format!("directed/external-execute-exec{}", nexec));
    }
    // persistence: every kind of stored item (operation marks Waiting/Ready/Done/absent, minimum delay, admin, role
    // membership + enumeration, role admins, existing roles) must survive long ledger gaps; each gap is ONE Advance
    for hc in 0..2usize {
        for (gi, &gap) in LONG_GAPS.iter().enumerate() {
            if !thorough && (gi + hc + out.cfg.seed as usize) % 2 == 1 && gap != 4_000_000 && gap != 600_000 { continue; }
            let mut tr = Tr::new_h(&mut rng, 100 + gi as u32, 2, &[P1, P2], &[X1], None, 12, true, hc);
            let pa = |p: usize| { let mut a = Authz::default(); a.plain.push(p); a };
            let o: std::vec::Vec<OpD> = tr.ops.clone();
            let ids = tr.op_ids.clone();
            for k in [0usize, 6, 7, 2, 11, 1, 3] { tr.call(&mut out, &C::Schedule(k, 2, P1, pa(P1))); }
            tr.call(&mut out, &C::Schedule(5, gap.saturating_add(7), P2, pa(P2)));            // stays Waiting across the gap
            tr.call(&mut out, &C::Advance(2));
            for k in [0usize, 6, 7] { tr.call(&mut out, &C::Admin(o[k].f, o[k].av.clone(), good_self(&o[k], Some(X1)))); }
            tr.call(&mut out, &C::Cancel(ids[1], P1, pa(P1)));
            // now: op0 Done (min delay changed), role admin of minter = madmin, OUT holds madmin, op1 absent, op2/op3/op11 Ready, op5 Waiting
            tr.call(&mut out, &C::Advance(gap));
            tr.call(&mut out, &C::Admin(o[0].f, o[0].av.clone(), good_self(&o[0], Some(X1))));   // Done forever
            tr.call(&mut out, &C::Schedule(0, 9, P1, pa(P1)));
            tr.call(&mut out, &C::Cancel(ids[0], P1, pa(P1)));
            tr.call(&mut out, &C::Admin(11, Av::Role(P2, 4, OUT), pa(OUT)));                    // delegated role admin still works
            let md = tr.min_delay();
            tr.call(&mut out, &C::Schedule(1, md.saturating_sub(1), P2, pa(P2)));               // minimum delay still in force
            tr.call(&mut out, &C::Schedule(1, md, OUT, pa(OUT)));                               // still not a proposer
            tr.call(&mut out, &C::Schedule(1, md, P2, pa(P2)));
            tr.call(&mut out, &C::Execute(11, Some(OUT), pa(OUT)));                             // executors still configured
            tr.call(&mut out, &C::Execute(11, None, Authz::default()));
            tr.call(&mut out, &C::Execute(11, Some(X1), pa(X1)));
            tr.call(&mut out, &C::Admin(10, Av::U32(0), Authz::default()));                     // admin still the controller
            tr.call(&mut out, &C::Admin(10, Av::U32(0), pa(ADM)));
            tr.call(&mut out, &C::Admin(o[5].f, o[5].av.clone(), good_self(&o[5], Some(X1))));   // still Waiting
            tr.call(&mut out, &C::Admin(o[2].f, o[2].av.clone(), good_self(&o[2], None)));       // executor still required
            tr.call(&mut out, &C::Admin(o[2].f, o[2].av.clone(), good_self(&o[2], Some(X1))));   // still Ready
            tr.call(&mut out, &C::Cancel(ids[3], OUT, pa(OUT)));                                // OUT is proposer now, not canceller
            tr.call(&mut out, &C::Cancel(ids[3], P2, pa(P2)));
            tr.call(&mut out, &C::Advance(gap));
            tr.call(&mut out, &C::Schedule(4, md, OUT, pa(OUT)));                               // granted role persists
            tr.call(&mut out, &C::Admin(17, Av::Renounce(4, P2), pa(P2)));                      // delegated grant persisted
            tr.call(&mut out, &C::Admin(o[5].f, o[5].av.clone(), good_self(&o[5], Some(X1))));
            tr.call(&mut out, &C::Execute(11, Some(X1), pa(X1)));
            tr.finish(&mut out, &format!("directed/persistence-gap{}-host{}", gap, hc));
        }
    }
    // the controller itself holds executor / proposer / canceller roles (granted through the timelock)
    for nexec in 0..=1usize {
        let execs: std::vec::Vec<usize> = [X1][..nexec].to_vec();
        let mut tr = Tr::new_h(&mut rng, 700, 2, &[P1], &execs, None, 1, true, nexec);
        let pa = |p: usize| { let mut a = Authz::default(); a.plain.push(p); a };
        let z = [0u8; 32];
        let mk = |f: u8, av: Av, salt: u8| OpD { target: SELF, f, av, pred: z, salt };
        let g_e = mk(11, Av::Role(SELF, 2, SELF), 50); let g_p = mk(11, Av::Role(SELF, 1, SELF), 51); let g_c = mk(11, Av::Role(SELF, 3, SELF), 52);
        let u1 = mk(10, Av::U32(7), 53); let u2 = mk(10, Av::U32(8), 54); let u3 = mk(10, Av::U32(9), 55); let u4 = mk(10, Av::U32(6), 56);
        let ext = OpD { target: TGT, f: 0, av: Av::U32(2), pred: z, salt: 57 };
        let s_x = mk(19, Av::Exec(Box::new(ext.clone()), Some(SELF)), 58);
        let s_s = mk(18, Av::Sched(Box::new(u3.clone()), 20, SELF), 59);
        let k_ge = tr.add_op(g_e.clone()); let k_gp = tr.add_op(g_p.clone()); let k_gc = tr.add_op(g_c.clone());
        let k_u1 = tr.add_op(u1.clone()); let k_u2 = tr.add_op(u2.clone()); let k_u3 = tr.add_op(u3.clone()); let k_u4 = tr.add_op(u4.clone());
        let k_ext = tr.add_op(ext.clone()); let k_sx = tr.add_op(s_x.clone()); let k_ss = tr.add_op(s_s.clone());
        let id_u3 = tr.w.ids[tr.op_ids[k_u3]];
        let s_c = mk(20, Av::Cancel(id_u3, SELF), 60);
        let k_sc = tr.add_op(s_c.clone());
        let r_c = mk(17, Av::Renounce(3, SELF), 61);                                                     // the controller renounces its canceller role
        let k_rc = tr.add_op(r_c.clone());
        let x = if nexec == 0 { None } else { Some(X1) };
        // before the grants: the controller named as executor / proposer does not hold the roles
        for k in [k_ge, k_gp, k_gc, k_u1, k_u2, k_u4, k_ext, k_sx, k_ss, k_sc, k_rc] { tr.call(&mut out, &C::Schedule(k, 2, P1, pa(P1))); }
        tr.call(&mut out, &C::Advance(2));
        tr.call(&mut out, &C::Admin(10, u1.av.clone(), good_self(&u1, Some(SELF))));                 // executor = controller, not (yet) an executor
        tr.call(&mut out, &C::Admin(g_e.f, g_e.av.clone(), good_self(&g_e, x)));
        let x = x.or(Some(SELF));   // from now on executors are configured in any case
        for g in [&g_p, &g_c] { tr.call(&mut out, &C::Admin(g.f, g.av.clone(), good_self(g, x))); }
        // now the controller holds all three roles
        {   // executor field = the controller, nobody signs: inside the end-to-end call the controller is the invoker of its own __check_auth
            let mut au = good_self(&u1, Some(SELF)); au.exec.clear(); au.tag = "executor-is-controller";
            tr.call(&mut out, &C::Admin(10, u1.av.clone(), au));
        }
        // the same through __check_auth directly (no invoking frame of the controller)
        tr.call(&mut out, &C::CheckAuth(std::vec![MetaD { pred: z, salt: u2.salt, exec: Some(SELF) }], std::vec![Cx::C(SELF, 10, u2.av.clone())], std::vec![]));
        tr.call(&mut out, &C::Admin(10, u2.av.clone(), good_self(&u2, x.or(Some(SELF)))));
        // execute_op with executor = the controller: needs a consuming authorisation for (controller, execute_op, args)
        tr.call(&mut out, &C::Execute(k_ext, Some(SELF), Authz::default()));
        {   let mut au = Authz::default();
            au.selfe = Some(SelfE { root: Cx::C(SELF, 19, s_x.av.clone()), subs: std::vec![], metas: std::vec![MetaD { pred: z, salt: s_x.salt, exec: x.or(Some(SELF)) }] });
            if let Some(x) = x { if x != SELF { au.exec.push((x, s_x.clone())); } }
            tr.call(&mut out, &C::Execute(k_ext, Some(SELF), au.clone()));
            tr.call(&mut out, &C::Execute(k_ext, Some(SELF), au));
        }
        // schedule_op with proposer = the controller
        tr.call(&mut out, &C::Schedule(k_u3, 20, SELF, Authz::default()));
        {   let mut au = Authz::default();
            au.selfe = Some(SelfE { root: Cx::C(SELF, 18, s_s.av.clone()), subs: std::vec![], metas: std::vec![MetaD { pred: z, salt: s_s.salt, exec: x.or(Some(SELF)) }] });
            if let Some(x) = x { if x != SELF { au.exec.push((x, s_s.clone())); } }
            tr.call(&mut out, &C::Schedule(k_u3, 21, SELF, au.clone()));                               // other delay than authorised
            tr.call(&mut out, &C::Schedule(k_u3, 20, SELF, au));
        }
        // cancel_op with canceller = the controller
        tr.call(&mut out, &C::Cancel(tr.op_ids[k_u3], SELF, Authz::default()));
        {   let mut au = Authz::default();
            au.selfe = Some(SelfE { root: Cx::C(SELF, 20, s_c.av.clone()), subs: std::vec![], metas: std::vec![MetaD { pred: z, salt: s_c.salt, exec: x.or(Some(SELF)) }] });
            if let Some(x) = x { if x != SELF { au.exec.push((x, s_c.clone())); } }
            tr.call(&mut out, &C::Cancel(tr.op_ids[k_u3], SELF, au));
        }
        tr.call(&mut out, &C::Admin(17, r_c.av.clone(), Authz::default()));                            // renounce_role by the controller: not without consuming
        tr.call(&mut out, &C::Admin(17, r_c.av.clone(), good_self(&r_c, x)));
        tr.call(&mut out, &C::Admin(17, r_c.av.clone(), good_self(&r_c, x)));
        tr.call(&mut out, &C::Admin(10, u4.av.clone(), good_self(&u4, x)));
        tr.finish(&mut out, &format!("directed/controller-holds-roles-exec{}", nexec));
    }
    // the life cycle of an admin offer on a self-administered controller: expiry, cancellation (live_until = 0), re-issue,
    // acceptance only by the account named by the last live offer
    for hc in 0..2usize {
        let mut tr = Tr::new_h(&mut rng, 900, 1, &[P1], &[], None, 1, true, hc);
        let pa = |p: usize| { let mut a = Authz::default(); a.plain.push(p); a };
        let z = [0u8; 32];
        let mk = |av: Av, salt: u8| OpD { target: SELF, f: 14, av, pred: z, salt };
        let t1 = mk(Av::Transfer(ADM, 925), 70); let t2 = mk(Av::Transfer(OUT, 2000), 71); let t0 = mk(Av::Transfer(OUT, 0), 72); let t3 = mk(Av::Transfer(ADM, 3000), 73);
        let ks: std::vec::Vec<usize> = [&t1, &t2, &t0, &t3].iter().map(|o| tr.add_op((*o).clone())).collect();
        let pt = |p: usize, t: &'static str| { let mut a = Authz::default(); a.plain.push(p); a.tag = t; a };
        tr.call(&mut out, &C::Admin(16, Av::Nil, pt(ADM, "no-offer")));                                 // nothing offered
        for &k in ks.iter() { tr.call(&mut out, &C::Schedule(k, 1, P1, pa(P1))); }
        tr.call(&mut out, &C::Advance(1));
        tr.call(&mut out, &C::Admin(14, t1.av.clone(), good_self(&t1, None)));                           // offer to ADM until 925
        tr.call(&mut out, &C::Admin(16, Av::Nil, pt(OUT, "not-named")));                                // not the named account
        tr.call(&mut out, &C::Advance(40));                                                             // past live_until (and past min_temp ttl)
        tr.call(&mut out, &C::Admin(16, Av::Nil, pt(ADM, "offer-expired")));                            // expired
        tr.call(&mut out, &C::Admin(14, t2.av.clone(), good_self(&t2, None)));                           // offer to OUT
        tr.call(&mut out, &C::Admin(14, t0.av.clone(), good_self(&t0, None)));                           // cancelled again
        tr.call(&mut out, &C::Admin(16, Av::Nil, pt(OUT, "offer-cancelled")));                          // cancelled offer
        tr.call(&mut out, &C::Admin(14, t3.av.clone(), good_self(&t3, None)));                           // re-issued to ADM
        tr.call(&mut out, &C::Admin(16, Av::Nil, pt(OUT, "not-named")));
        { let mut a = Authz::default(); a.tag = "no-signature"; tr.call(&mut out, &C::Admin(16, Av::Nil, a)); }
        tr.call(&mut out, &C::Admin(16, Av::Nil, pt(ADM, "named")));                                    // accepted
        tr.call(&mut out, &C::Admin(16, Av::Nil, pt(ADM, "offer-consumed")));                           // consumed
        tr.finish(&mut out, &format!("directed/admin-offer-lifecycle-host{}", hc));
    }
    // an external admin hands the controller over to itself: accept_admin_transfer by the controller needs a consuming authorisation
    for nexec in 0..=1usize {
        let execs: std::vec::Vec<usize> = [X1][..nexec].to_vec();
        let mut tr = Tr::new_h(&mut rng, 950, 1, &[P1], &execs, Some(ADM), 1, true, nexec);
        let pa = |p: usize| { let mut a = Authz::default(); a.plain.push(p); a };
        let acc = OpD { target: SELF, f: 16, av: Av::Nil, pred: [0u8; 32], salt: 80 };
        let u = OpD { target: SELF, f: 10, av: Av::U32(4), pred: [0u8; 32], salt: 81 };
        let k_acc = tr.add_op(acc.clone()); let k_u = tr.add_op(u.clone());
        let x = if nexec == 0 { None } else { Some(X1) };
        tr.call(&mut out, &C::Schedule(k_acc, 1, P1, pa(P1)));
        tr.call(&mut out, &C::Schedule(k_u, 1, P1, pa(P1)));
        tr.call(&mut out, &C::Advance(1));
        tr.call(&mut out, &C::Admin(16, Av::Nil, good_self(&acc, x)));                                   // nothing offered to the controller yet
        tr.call(&mut out, &C::Admin(10, Av::U32(4), good_self(&u, x)));                                  // admin is external: the consuming path is not asked
        tr.call(&mut out, &C::Admin(14, Av::Transfer(SELF, 1500), pa(ADM)));                            // offered to the controller
        tr.call(&mut out, &C::Admin(16, Av::Nil, Authz::default()));                                    // not without consuming
        tr.call(&mut out, &C::Admin(16, Av::Nil, pa(ADM)));
        tr.call(&mut out, &C::Admin(16, Av::Nil, good_self(&acc, x)));                                   // the controller accepts: consumes its operation
        tr.call(&mut out, &C::Admin(10, Av::U32(4), pa(ADM)));                                          // the former admin has no power any more
        tr.call(&mut out, &C::Admin(10, Av::U32(4), good_self(&u, x)));                                  // the timelock path is in force
        tr.finish(&mut out, &format!("directed/handover-to-controller-exec{}", nexec));
    }
    // __check_auth called directly: |descriptors| <, =, > |contexts| against Ready / Waiting / Done operations
    for nexec in 0..=1usize {
        let execs: std::vec::Vec<usize> = [X1][..nexec].to_vec();
        let mut tr = Tr::new_h(&mut rng, 600, 1, &[P1], &execs, None, 3, true, nexec);
        let pa = |p: usize| { let mut a = Authz::default(); a.plain.push(p); a };
        let x = if nexec == 0 { None } else { Some(X1) };
        let o: std::vec::Vec<OpD> = tr.ops.clone();
        let cx = |d: &OpD| Cx::C(d.target, d.f, d.av.clone());
        let me = |d: &OpD| MetaD { pred: d.pred, salt: d.salt, exec: x };
        let xa = |ds: &[&OpD]| -> std::vec::Vec<(usize, OpD)> { match x { Some(x) => ds.iter().map(|d| (x, (*d).clone())).collect(), None => std::vec![] } };
        for k in 0..3usize { tr.call(&mut out, &C::Schedule(k, 1 + (k as u32 / 2) * 5, P1, pa(P1))); }
        tr.call(&mut out, &C::CheckAuth(std::vec![me(&o[0])], std::vec![cx(&o[0])], xa(&[&o[0]])));                          // waiting
        tr.call(&mut out, &C::Advance(1));
        tr.call(&mut out, &C::CheckAuth(std::vec![me(&o[0]), me(&o[1])], std::vec![cx(&o[0])], xa(&[&o[0], &o[1]])));          // more descriptors than contexts
        tr.call(&mut out, &C::CheckAuth(std::vec![me(&o[0])], std::vec![cx(&o[0]), cx(&o[1])], xa(&[&o[0], &o[1]])));          // fewer
        tr.call(&mut out, &C::CheckAuth(std::vec![], std::vec![], std::vec![]));                                               // none at all: nothing to authorise
        tr.call(&mut out, &C::CheckAuth(std::vec![me(&o[0]), me(&o[2])], std::vec![cx(&o[0]), cx(&o[2])], xa(&[&o[0], &o[2]]))); // second one still waiting: nothing consumed
        tr.call(&mut out, &C::CheckAuth(std::vec![me(&o[0]), me(&o[1])], std::vec![cx(&o[0]), cx(&o[1])], xa(&[&o[0], &o[1]]))); // two ready operations
        tr.call(&mut out, &C::CheckAuth(std::vec![me(&o[0])], std::vec![cx(&o[0])], xa(&[&o[0]])));                          // done
        tr.call(&mut out, &C::CheckAuth(std::vec![me(&o[2])], std::vec![Cx::Other], xa(&[&o[2]])));
        tr.finish(&mut out, &format!("directed/check-auth-direct-exec{}", nexec));
    }
    // cancelling needs the CANCELLER role, scheduling the PROPOSER role - not the other one
    {
        let mut tr = Tr::new(&mut rng, 500, 1, &[P1, P2], &[], None, 6, true);
        let pa = |p: usize| { let mut a = Authz::default(); a.plain.push(p); a };
        // extra operations: revoke proposer from P1 (stays canceller), revoke canceller from P2 (stays proposer)
        let o1 = OpD { target: SELF, f: 12, av: Av::Role(P1, 1, SELF), pred: [0u8; 32], salt: 40 };
        let o2 = OpD { target: SELF, f: 12, av: Av::Role(P2, 3, SELF), pred: [0u8; 32], salt: 41 };
        let k1 = tr.add_op(o1.clone()); let k2 = tr.add_op(o2.clone());
        tr.call(&mut out, &C::Schedule(k1, 1, P1, pa(P1)));
        tr.call(&mut out, &C::Schedule(k2, 1, P2, pa(P2)));
        tr.call(&mut out, &C::Schedule(0, 5, P1, pa(P1)));
        tr.call(&mut out, &C::Advance(1));
        tr.call(&mut out, &C::Admin(12, o1.av.clone(), good_self(&o1, None)));
        tr.call(&mut out, &C::Admin(12, o2.av.clone(), good_self(&o2, None)));
        tr.call(&mut out, &C::Schedule(1, 5, P1, pa(P1)));                        // P1 no longer proposer
        tr.call(&mut out, &C::Schedule(1, 5, P2, pa(P2)));                        // P2 still is
        tr.call(&mut out, &C::Cancel(tr.op_ids[1], P2, pa(P2)));                  // P2 no longer canceller
        tr.call(&mut out, &C::Cancel(tr.op_ids[1], P1, pa(P1)));                  // P1 still is
        tr.call(&mut out, &C::Cancel(tr.op_ids[0], P1, Authz::default()));        // but not without signature
        tr.call(&mut out, &C::Cancel(tr.op_ids[0], P1, pa(P1)));
        tr.finish(&mut out, "directed/role-split");
    }
    // a role admin configured through the timelock may grant/revoke that role without it
    {
        let mut tr = Tr::new(&mut rng, 300, 1, &[P1], &[], None, 12, true);
        let pa = |p: usize| { let mut a = Authz::default(); a.plain.push(p); a };
        let ks: std::vec::Vec<usize> = (0..tr.ops.len()).filter(|i| (tr.ops[*i].f == 13) || (tr.ops[*i].f == 11 && tr.ops[*i].av == Av::Role(OUT, 5, SELF))).collect();
        tr.call(&mut out, &C::Admin(11, Av::Role(P2, 4, OUT), pa(OUT)));           // not yet
        for &k in ks.iter() { tr.call(&mut out, &C::Schedule(k, 1, P1, pa(P1))); }
        tr.call(&mut out, &C::Advance(1));
        for &k in ks.iter() { let o = tr.ops[k].clone(); tr.call(&mut out, &C::Admin(o.f, o.av.clone(), good_self(&o, None))); }
        tr.call(&mut out, &C::Admin(11, Av::Role(P2, 4, OUT), pa(OUT)));           // now allowed: OUT holds madmin, admin role of minter
        tr.call(&mut out, &C::Admin(11, Av::Role(P2, 1, OUT), pa(OUT)));           // but not for proposer
        tr.call(&mut out, &C::Admin(12, Av::Role(P2, 4, OUT), Authz::default())); // and not without signature
        tr.call(&mut out, &C::Admin(12, Av::Role(P2, 4, OUT), pa(OUT)));
        tr.call(&mut out, &C::Admin(17, Av::Renounce(5, OUT), pa(OUT)));
        tr.call(&mut out, &C::Admin(11, Av::Role(P2, 4, OUT), pa(OUT)));
        tr.finish(&mut out, "directed/role-admin-delegation");
    }
    // ---------- role enumerations with four and more members ----------
    // EXECUTOR: every order of removing three of four executors through the timelock (the signer of the consuming
    // authorisation is the executor enumerated last at that moment - also when it is the one being revoked)
    for (pi, perm) in permutations(4).iter().enumerate() {
        let m = [X1, X2, ADM, OUT];
        let steps: std::vec::Vec<EStep> = perm[..3].iter().map(|i| EStep::Revoke(2, m[*i])).collect();
        enum_scenario(&mut out, &mut rng, &format!("directed/enum-executors-{}{}{}", perm[0], perm[1], perm[2]), 1000 + pi as u32, &[P1], &m, None, pi % 2, &steps);
    }
    // PROPOSER and CANCELLER (two enumerations of the same four accounts, emptied in different orders)
    {
        let m = [P1, P2, ADM, OUT];
        let fixed: [[usize; 4]; 6] = [[1, 3, 2, 0], [0, 1, 2, 3], [3, 2, 1, 0], [1, 0, 3, 2], [2, 0, 1, 3], [0, 2, 3, 1]];
        let mut orders: std::vec::Vec<std::vec::Vec<usize>> = if thorough { permutations(4) } else { fixed.iter().map(|o| o.to_vec()).collect() };
        if !thorough { let all = permutations(4); orders.push(all[rng.below(24) as usize].clone()); }
        for (oi, o) in orders.iter().enumerate() {
            let mut steps: std::vec::Vec<EStep> = std::vec![];
            for j in 0..4 {
                steps.push(EStep::Revoke(1, m[o[j]]));
                if j < 3 { steps.push(EStep::Revoke(3, m[o[(j + 1) % 4]])); }
            }
            enum_scenario(&mut out, &mut rng, &format!("directed/enum-proposers-{}{}{}{}", o[0], o[1], o[2], o[3]), 1100 + oi as u32, &m, &[], None, oi % 2, &steps);
        }
    }
    // constructor lists with repeated accounts and with the controller itself; renounce_role by the holder, revoke_role,
    // grant_role again (re-enumerated at the end), five and six members; through the timelock and by an external admin
    for (fi, admin) in [None, Some(ADM)].iter().enumerate() {
        let execs = [X1, X2, X1, ADM, OUT, SELF, P2, X2];            // six distinct executors, two repeated
        let props = [P1, P1, OUT];
        let steps = [EStep::Renounce(2, X2), EStep::Revoke(2, P2), EStep::Revoke(2, OUT), EStep::Grant(2, X2), EStep::Grant(2, X1),
                     EStep::Renounce(2, ADM), EStep::Revoke(2, X2), EStep::Grant(2, OUT), EStep::Revoke(2, X1), EStep::Revoke(3, P1), EStep::Renounce(1, OUT),
                     EStep::Revoke(2, SELF), EStep::Revoke(2, TGT)];
        enum_scenario(&mut out, &mut rng, &format!("directed/enum-mixed-admin{}", fi), 1200, &props, &execs, *admin, fi, &steps);
        // five executors, the order drawn from the seed
        let m = [X1, X2, ADM, OUT, P2];
        let mut idx: std::vec::Vec<usize> = (0..5).collect();
        for i in (1..5).rev() { let j = rng.below(i as u64 + 1) as usize; idx.swap(i, j); }
        let steps: std::vec::Vec<EStep> = idx[..4].iter().map(|i| if rng.chance(1, 3) { EStep::Renounce(2, m[*i]) } else { EStep::Revoke(2, m[*i]) }).collect();
        enum_scenario(&mut out, &mut rng, &format!("directed/enum-five-random-admin{}", fi), 1300, &[P1, P2], &m, *admin, 1 - fi, &steps);
    }
    // an external admin empties five executors in the orders that relocate an account twice
    for (oi, o) in [[1usize, 0, 4, 2, 3], [0, 1, 0, 0, 0], [3, 1, 4, 0, 2]].iter().enumerate() {
        let m = [X1, X2, ADM, OUT, P2];
        // o = positions in the CURRENT enumeration (shadow), so that the situations are hit whatever the accounts are
        let mut cur: std::vec::Vec<usize> = m.to_vec(); let mut mv: std::vec::Vec<usize> = std::vec![];
        let mut steps: std::vec::Vec<EStep> = std::vec![];
        for &pos in o.iter() { if cur.is_empty() { break; } let a = cur[pos % cur.len()]; steps.push(EStep::Revoke(2, a)); shadow_remove(&mut cur, &mut mv, a); }
        enum_scenario(&mut out, &mut rng, &format!("directed/enum-external-admin-{}", oi), 1400, &[P1], &m, Some(ADM), oi % 2, &steps);
    }
    // ---------- K2: numeric arguments at the u32 extremes; special 32-byte salts / predecessors ----------
    for (i, (now0, nexec)) in [(1000u32, 1usize), (1000, 0), (CAP - 300, 1), (H31 - 5, 0), (2, 1)].iter().enumerate() {
        if !thorough && i >= 3 && (i + out.cfg.seed as usize) % 2 == 0 { continue; }
        extreme_delays(&mut out, &mut rng, &format!("directed/extreme-delays-ledger{}-exec{}", now0, nexec), *now0, *nexec, i % 2);
    }
    for nexec in 0..=1usize {
        extreme_min_delay(&mut out, &mut rng, &format!("directed/extreme-min-delay-exec{}-self", nexec), nexec, nexec, None);
        extreme_min_delay(&mut out, &mut rng, &format!("directed/extreme-min-delay-exec{}-external", nexec), nexec, 1 - nexec, Some(ADM));
        special_bytes(&mut out, &mut rng, &format!("directed/special-bytes-exec{}", nexec), nexec, nexec);
        extreme_live_until(&mut out, &mut rng, &format!("directed/extreme-live-until-host{}", nexec), nexec);
    }
    let nshape = 18u64;
    for nexec in 0..=1usize { for state in 0..=4u8 { for shape in 0..nshape {
        let core = state == 2 && nexec == 1;   // always: every payload shape against a Ready operation, executors configured
        if !thorough && !core && shape > 0 && (shape + state as u64 + nexec as u64 + out.cfg.seed) % 3 != 0 { continue; }
        directed(&mut out, &mut rng, nexec, state, shape, (shape as usize + state as usize * 2 + nexec) % 8);
    } } }
    if thorough { for which in 0..8 { for state in 0..=4u8 { for nexec in 0..=2usize { directed(&mut out, &mut rng, nexec, state, 0, which); let sh = 1 + rng.below(14); directed(&mut out, &mut rng, nexec, state, sh, which); } } } }

    // ---------- random adaptive traces ----------
    let ntraces = if std::env::var("VERIF_DIRECTED_ONLY").is_ok() { 0 } else { (if thorough { 1500 } else { 190 }) * scale };
    for t in 0..ntraces {
        let nexec = rng.below(3) as usize;
        let mut execs: std::vec::Vec<usize> = [X1, X2][..nexec].to_vec();
        let mut props: std::vec::Vec<usize> = if rng.chance(1, 3) { std::vec![P1, P2] } else { std::vec![P1] };
        if rng.chance(1, 4) {   // crowded roles (repetitions allowed)
            let cand = [X1, X2, ADM, OUT, P2, SELF, P1];
            execs = (0..3 + rng.below(4)).map(|_| *rng.pick(&cand)).collect();
            if rng.chance(1, 2) { props = std::vec![P1]; for _ in 0..2 + rng.below(3) { props.push(*rng.pick(&cand[..5])); } }
        }
        let admin = if rng.chance(1, 4) { Some(ADM) } else { None };
        let start = match rng.below(4) { 0 => 2, 1 => 3, _ => 2 + rng.below(500) as u32 };
        let nops = 5 + rng.below(6) as usize;
        let md0 = rng.below(4) as u32;
        let hc = rng.below(2) as usize;
        let mut tr = Tr::new_h(&mut rng, start, md0, &props, &execs, admin, nops, false, hc);
        let len = if thorough { 30 + rng.below(40) } else { 25 + rng.below(20) } as usize;
        for _ in 0..len { let c = random_call(&mut rng, &tr); tr.call(&mut out, &c); }
        let _ = (tr.nexec, tr.admin_self);
        tr.finish(&mut out, &format!("random/{}", t));
    }
    out.finish();
}
