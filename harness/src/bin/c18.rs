//! C18 correspondence harness: the WebAuthn / Ed25519 verifiers, the base64url helper and
//! extract_from_bytes of packages/accounts/src/verifiers, plus the two real example verifier
//! contracts, executed in the Soroban test host.
//!
//! Oracles supplied with every call (computed here, independently of the host): the P-256 verdict
//! (p256 crate, own SHA-256, low-S rule of the host), the Ed25519 verdict (ed25519-dalek
//! verify_strict), the serde_json_core parse of the client data, the XDR decode of sig_data.
//! Every assertion additionally carries what the generator knows by construction
//! (genuine / corrupted), which the monitor cross-checks against the oracles and the outcome.
//!
//! Byte strings are printed packed (7 bytes per uint63 literal, `B len [...]`), long ones are
//! `let`-bound once per trace.
use soroban_sdk::{contract, contractimpl, testutils::Ledger as _, xdr::{FromXdr, ToXdr}, Address, Bytes, BytesN, Env, IntoVal, Symbol, Val};
use std::collections::HashMap;
use std::ops::Bound;
use stellar_accounts::verifiers::{
    ed25519,
    utils::{base64_url_encode, extract_from_bytes},
    webauthn::{self, ClientDataJson, WebAuthnSigData, AUTHENTICATOR_DATA_MIN_LEN, CLIENT_DATA_MAX_LEN},
    VerifierClient,
};
use vh::*;

#[path = "/repo/examples/multisig-smart-account/webauthn-verifier/src/contract.rs"]
mod wa_ex;
#[path = "/repo/examples/multisig-smart-account/ed25519-verifier/src/contract.rs"]
mod ed_ex;

// ---------------------------------------------------------------------------------------------
// thin wrappers around the library functions
// ---------------------------------------------------------------------------------------------
#[contract]
pub struct Lib;

fn bv(b: &Bytes) -> Vec<u8> { b.iter().collect() }
fn bnd(k: u32, n: u32) -> Bound<u32> { match k { 0 => Bound::Unbounded, 1 => Bound::Included(n), _ => Bound::Excluded(n) } }

#[contractimpl]
impl Lib {
    pub fn b64(e: Env, dst_len: u32, src: Bytes) -> Bytes {
        let mut dst = std::vec![0u8; dst_len as usize];
        let s = bv(&src);
        base64_url_encode(&mut dst, &s);
        Bytes::from_slice(&e, &dst)
    }
    /// base64_url_encode into a caller-supplied buffer that is NOT zeroed
    pub fn b64f(e: Env, dst: Bytes, src: Bytes) -> Bytes {
        let mut d = bv(&dst);
        let s = bv(&src);
        base64_url_encode(&mut d, &s);
        Bytes::from_slice(&e, &d)
    }
    pub fn extract32(e: Env, data: Bytes, sk: u32, s: u32, ek: u32, en: u32) -> Option<BytesN<32>> {
        extract_from_bytes::<32>(&e, &data, (bnd(sk, s), bnd(ek, en)))
    }
    pub fn extract65(e: Env, data: Bytes, sk: u32, s: u32, ek: u32, en: u32) -> Option<BytesN<65>> {
        extract_from_bytes::<65>(&e, &data, (bnd(sk, s), bnd(ek, en)))
    }
    pub fn extract3(e: Env, data: Bytes, sk: u32, s: u32, ek: u32, en: u32) -> Option<BytesN<3>> {
        extract_from_bytes::<3>(&e, &data, (bnd(sk, s), bnd(ek, en)))
    }
    pub fn flags(e: Env, f: u32) {
        webauthn::validate_user_present_bit_set(&e, f as u8);
        webauthn::validate_user_verified_bit_set(&e, f as u8);
        webauthn::validate_backup_eligibility_and_state(&e, f as u8);
    }
    pub fn flag_one(e: Env, which: u32, f: u32) {
        match which {
            0 => webauthn::validate_user_present_bit_set(&e, f as u8),
            1 => webauthn::validate_user_verified_bit_set(&e, f as u8),
            _ => webauthn::validate_backup_eligibility_and_state(&e, f as u8),
        }
    }
    pub fn type_chk(e: Env, ty: Bytes) {
        let t = bv(&ty);
        let s = core::str::from_utf8(&t).expect("harness passes utf8");
        webauthn::validate_expected_type(&e, &ClientDataJson { challenge: "", type_field: s });
    }
    pub fn challenge(e: Env, ch: Bytes, payload: Bytes) {
        let t = bv(&ch);
        let s = core::str::from_utf8(&t).expect("harness passes utf8");
        webauthn::validate_challenge(&e, &ClientDataJson { challenge: s, type_field: "" }, &payload);
    }
    pub fn wa(e: Env, payload: Bytes, key: BytesN<65>, sig: WebAuthnSigData) -> bool {
        webauthn::verify(&e, &payload, &key, &sig)
    }
    /// the XDR decoding oracle (host errors during decoding escalate to a panic, hence a contract call)
    pub fn decode(e: Env, sig_data: Bytes) -> WebAuthnSigData {
        WebAuthnSigData::from_xdr(&e, &sig_data).expect("decodes")
    }
    pub fn ed(e: Env, payload: Bytes, key: BytesN<32>, sig: BytesN<64>) -> bool {
        ed25519::verify(&e, &payload, &key, &sig)
    }
}

/// A contract that consults a verifier the way smart_account::authenticate does with an external signer:
/// a cross-contract call of `verify(hash, key_data, sig_data)` with the arguments as plain `Val`s, trapping
/// unless the answer is `true`.  The verifier is then invoked BY A CONTRACT (not by the test's top level) and
/// through the generic interface (no argument types known to the caller).
#[contract]
pub struct Fwd;
#[contractimpl]
impl Fwd {
    pub fn auth(e: Env, verifier: Address, hash: Val, key_data: Val, sig_data: Val) -> bool {
        let ok: bool = e.invoke_contract(&verifier, &Symbol::new(&e, "verify"), soroban_sdk::vec![&e, hash, key_data, sig_data]);
        if !ok { panic!("ExternalVerificationFailed") }
        true
    }
}

// ---------------------------------------------------------------------------------------------
// own SHA-256 (FIPS 180-4), cross-checked against the host at start-up
// ---------------------------------------------------------------------------------------------
const K256: [u32; 64] = [
    0x428a2f98, 0x71374491, 0xb5c0fbcf, 0xe9b5dba5, 0x3956c25b, 0x59f111f1, 0x923f82a4, 0xab1c5ed5, 0xd807aa98, 0x12835b01,
    0x243185be, 0x550c7dc3, 0x72be5d74, 0x80deb1fe, 0x9bdc06a7, 0xc19bf174, 0xe49b69c1, 0xefbe4786, 0x0fc19dc6, 0x240ca1cc,
    0x2de92c6f, 0x4a7484aa, 0x5cb0a9dc, 0x76f988da, 0x983e5152, 0xa831c66d, 0xb00327c8, 0xbf597fc7, 0xc6e00bf3, 0xd5a79147,
    0x06ca6351, 0x14292967, 0x27b70a85, 0x2e1b2138, 0x4d2c6dfc, 0x53380d13, 0x650a7354, 0x766a0abb, 0x81c2c92e, 0x92722c85,
    0xa2bfe8a1, 0xa81a664b, 0xc24b8b70, 0xc76c51a3, 0xd192e819, 0xd6990624, 0xf40e3585, 0x106aa070, 0x19a4c116, 0x1e376c08,
    0x2748774c, 0x34b0bcb5, 0x391c0cb3, 0x4ed8aa4a, 0x5b9cca4f, 0x682e6ff3, 0x748f82ee, 0x78a5636f, 0x84c87814, 0x8cc70208,
    0x90befffa, 0xa4506ceb, 0xbef9a3f7, 0xc67178f2,
];
fn sha256(msg: &[u8]) -> [u8; 32] {
    let mut h: [u32; 8] = [0x6a09e667, 0xbb67ae85, 0x3c6ef372, 0xa54ff53a, 0x510e527f, 0x9b05688c, 0x1f83d9ab, 0x5be0cd19];
    let mut m = msg.to_vec();
    let bitlen = (msg.len() as u64).wrapping_mul(8);
    m.push(0x80);
    while m.len() % 64 != 56 { m.push(0); }
    m.extend_from_slice(&bitlen.to_be_bytes());
    for chunk in m.chunks(64) {
        let mut w = [0u32; 64];
        for i in 0..16 { w[i] = u32::from_be_bytes([chunk[4 * i], chunk[4 * i + 1], chunk[4 * i + 2], chunk[4 * i + 3]]); }
        for i in 16..64 {
            let s0 = w[i - 15].rotate_right(7) ^ w[i - 15].rotate_right(18) ^ (w[i - 15] >> 3);
            let s1 = w[i - 2].rotate_right(17) ^ w[i - 2].rotate_right(19) ^ (w[i - 2] >> 10);
            w[i] = w[i - 16].wrapping_add(s0).wrapping_add(w[i - 7]).wrapping_add(s1);
        }
        let mut v = h;
        for i in 0..64 {
            let s1 = v[4].rotate_right(6) ^ v[4].rotate_right(11) ^ v[4].rotate_right(25);
            let ch = (v[4] & v[5]) ^ (!v[4] & v[6]);
            let t1 = v[7].wrapping_add(s1).wrapping_add(ch).wrapping_add(K256[i]).wrapping_add(w[i]);
            let s0 = v[0].rotate_right(2) ^ v[0].rotate_right(13) ^ v[0].rotate_right(22);
            let maj = (v[0] & v[1]) ^ (v[0] & v[2]) ^ (v[1] & v[2]);
            let t2 = s0.wrapping_add(maj);
            v[7] = v[6]; v[6] = v[5]; v[5] = v[4]; v[4] = v[3].wrapping_add(t1); v[3] = v[2]; v[2] = v[1]; v[1] = v[0]; v[0] = t1.wrapping_add(t2);
        }
        for i in 0..8 { h[i] = h[i].wrapping_add(v[i]); }
    }
    let mut o = [0u8; 32];
    for i in 0..8 { o[4 * i..4 * i + 4].copy_from_slice(&h[i].to_be_bytes()); }
    o
}

// ---------------------------------------------------------------------------------------------
// independent reference base64url (used only to BUILD genuine challenges; the Coq monitor has
// its own RFC 4648 specification)
// ---------------------------------------------------------------------------------------------
fn b64url(src: &[u8]) -> Vec<u8> {
    const T: &[u8] = b"ABCDEFGHIJKLMNOPQRSTUVWXYZabcdefghijklmnopqrstuvwxyz0123456789-_";
    let mut bits: Vec<u8> = vec![];
    for b in src { for k in (0..8).rev() { bits.push((b >> k) & 1); } }
    while bits.len() % 6 != 0 { bits.push(0); }
    bits.chunks(6).map(|g| T[g.iter().fold(0usize, |a, b| a * 2 + *b as usize)]).collect()
}

// ---------------------------------------------------------------------------------------------
// oracles
// ---------------------------------------------------------------------------------------------
fn p256_oracle(key: &[u8], digest: &[u8; 32], sig: &[u8]) -> bool {
    use p256::ecdsa::{signature::hazmat::PrehashVerifier, Signature, VerifyingKey};
    use p256::elliptic_curve::scalar::IsHigh;
    if key.len() != 65 || key[0] != 0x04 { return false; }
    let vk = match VerifyingKey::from_sec1_bytes(key) { Ok(v) => v, Err(_) => return false };
    let s = match Signature::try_from(sig) { Ok(s) => s, Err(_) => return false };
    if bool::from(s.s().is_high()) { return false; } // the host rejects non-normalised signatures
    vk.verify_prehash(digest, &s).is_ok()
}
fn wa_message_digest(ad: &[u8], cd: &[u8]) -> [u8; 32] {
    let mut m = ad.to_vec();
    m.extend_from_slice(&sha256(cd));
    sha256(&m)
}
fn ed_oracle(key: &[u8], msg: &[u8], sig: &[u8]) -> bool {
    use ed25519_dalek::{Signature, VerifyingKey};
    let k: [u8; 32] = match key.try_into() { Ok(k) => k, Err(_) => return false };
    let s: [u8; 64] = match sig.try_into() { Ok(s) => s, Err(_) => return false };
    let vk = match VerifyingKey::from_bytes(&k) { Ok(v) => v, Err(_) => return false };
    vk.verify_strict(msg, &Signature::from_bytes(&s)).is_ok()
}
fn json_oracle(cd: &[u8]) -> Option<(Vec<u8>, Vec<u8>)> {
    match serde_json_core::de::from_slice::<ClientDataJson>(cd) {
        Ok((v, _)) => Some((v.type_field.as_bytes().to_vec(), v.challenge.as_bytes().to_vec())),
        Err(_) => None,
    }
}

// ---------------------------------------------------------------------------------------------
// Independent reader of client data (same algorithm as coq/Model/ClientDataSpec.v, which re-reads the
// printed bytes in the monitor): RFC 8259 object, top-level "type" / "challenge" string members.
// It shares no code with serde / serde-json-core / the repo's ClientDataJson.
// ---------------------------------------------------------------------------------------------
#[derive(Clone, Debug, PartialEq)]
enum Cd { Plain(Vec<u8>, Vec<u8>), Invalid, Other }
#[derive(Debug)]
enum Stop { Invalid, Other }
#[derive(Clone, PartialEq)]
enum Field { None, Str(Vec<u8>), Bad, Undecided }
struct Js<'a> { s: &'a [u8], i: usize, fuel: usize }
impl<'a> Js<'a> {
    fn ws(&mut self) { while self.i < self.s.len() && matches!(self.s[self.i], 32 | 9 | 10 | 13) { self.i += 1; } }
    fn peek(&self) -> Option<u8> { self.s.get(self.i).copied() }
    /// after the opening quote; returns (raw, had_escape)
    fn string(&mut self) -> Result<(Vec<u8>, bool), Stop> {
        let mut raw = vec![]; let mut esc = false;
        loop {
            let c = self.peek().ok_or(Stop::Invalid)?; self.i += 1;
            if c == b'"' { return Ok((raw, esc)); }
            if c == b'\\' {
                let d = self.peek().ok_or(Stop::Invalid)?; self.i += 1;
                match d {
                    b'"' | b'\\' | b'/' | b'b' | b'f' | b'n' | b'r' | b't' => {}
                    b'u' => { let h = self.s.get(self.i..self.i + 4).ok_or(Stop::Other)?; if !h.iter().all(|x| x.is_ascii_hexdigit()) { return Err(Stop::Other); } }
                    _ => return Err(Stop::Other),
                }
                raw.push(c); raw.push(d); esc = true; continue;
            }
            if c < 32 { return Err(Stop::Other); }
            raw.push(c);
        }
    }
    fn digits1(&mut self) -> Result<(), Stop> {
        if !self.peek().map(|c| c.is_ascii_digit()).unwrap_or(false) { return Err(Stop::Invalid); }
        while self.peek().map(|c| c.is_ascii_digit()).unwrap_or(false) { self.i += 1; }
        Ok(())
    }
    fn number(&mut self) -> Result<(), Stop> {
        if self.peek() == Some(b'-') { self.i += 1; }
        match self.peek() { Some(b'0') => { self.i += 1; } Some(b'1'..=b'9') => { self.digits1()?; } _ => return Err(Stop::Invalid) }
        if self.peek() == Some(b'.') { self.i += 1; self.digits1()?; }
        if matches!(self.peek(), Some(b'e') | Some(b'E')) { self.i += 1; if matches!(self.peek(), Some(b'+') | Some(b'-')) { self.i += 1; } self.digits1()?; }
        Ok(())
    }
    fn lit(&mut self, w: &[u8]) -> Result<(), Stop> { if self.s[self.i..].starts_with(w) { self.i += w.len(); Ok(()) } else { Err(Stop::Invalid) } }
    fn value(&mut self) -> Result<(), Stop> {
        if self.fuel == 0 { return Err(Stop::Other); } self.fuel -= 1;
        match self.peek().ok_or(Stop::Invalid)? {
            b'"' => { self.i += 1; self.string()?; Ok(()) }
            b'{' => { self.i += 1; self.ws(); self.members(&mut None) }
            b'[' => {
                self.i += 1; self.ws();
                if self.peek() == Some(b']') { self.i += 1; return Ok(()); }
                loop {
                    if self.fuel == 0 { return Err(Stop::Other); } self.fuel -= 1;
                    self.value()?; self.ws();
                    match self.peek() { Some(b',') => { self.i += 1; self.ws(); } Some(b']') => { self.i += 1; return Ok(()); } _ => return Err(Stop::Invalid) }
                }
            }
            b't' => self.lit(b"true"), b'f' => self.lit(b"false"), b'n' => self.lit(b"null"),
            _ => self.number(),
        }
    }
    /// after '{' and whitespace, up to and including '}'; `top` records the two fields
    fn members(&mut self, top: &mut Option<(Field, Field)>) -> Result<(), Stop> {
        if self.peek() == Some(b'}') { self.i += 1; return Ok(()); }
        loop {
            if self.fuel == 0 { return Err(Stop::Other); } self.fuel -= 1;
            if self.peek().ok_or(Stop::Invalid)? != b'"' { return Err(Stop::Invalid); }
            self.i += 1;
            let (key, kesc) = self.string()?;
            if top.is_some() && kesc { return Err(Stop::Other); }
            self.ws();
            if self.peek() != Some(b':') { return Err(Stop::Invalid); }
            self.i += 1; self.ws();
            let fv = if top.is_some() && self.peek() == Some(b'"') {
                self.i += 1; let (raw, esc) = self.string()?; if esc { Field::Undecided } else { Field::Str(raw) }
            } else {
                // malformed inside a value that is not read: not decided by this reader
                match self.value() { Ok(()) => {} Err(Stop::Invalid) if top.is_some() => return Err(Stop::Other), Err(x) => return Err(x) }
                Field::Bad
            };
            if let Some((ty, ch)) = top.as_mut() {
                if key == b"type" { *ty = if *ty == Field::None { fv.clone() } else { Field::Undecided }; }
                if key == b"challenge" { *ch = if *ch == Field::None { fv.clone() } else { Field::Undecided }; }
            }
            self.ws();
            match self.peek() {
                Some(b',') => { self.i += 1; self.ws(); }
                Some(b'}') => { self.i += 1; return Ok(()); }
                // junk after a top-level value that is not a string: serde-json-core skips up to the next delimiter
                _ if top.is_some() && fv == Field::Bad => return Err(Stop::Other),
                _ => return Err(Stop::Invalid),
            }
        }
    }
}
fn cd_fields(cd: &[u8]) -> Cd {
    if !cd.iter().all(|c| *c < 128) { return Cd::Other; }
    let mut p = Js { s: cd, i: 0, fuel: cd.len() + 1 };
    p.ws();
    if p.peek() != Some(b'{') { return Cd::Invalid; }
    p.i += 1; p.ws();
    let mut top = Some((Field::None, Field::None));
    match p.members(&mut top) { Err(Stop::Invalid) => return Cd::Invalid, Err(Stop::Other) => return Cd::Other, Ok(()) => {} }
    p.ws();
    if p.i != cd.len() { return Cd::Invalid; }
    match top.unwrap() {
        (Field::None, _) | (Field::Bad, _) | (_, Field::None) | (_, Field::Bad) => Cd::Invalid,
        (Field::Str(t), Field::Str(c)) => Cd::Plain(t, c),
        _ => Cd::Other,
    }
}

/// Independent strict decoder of the XDR form of WebAuthnSigData (same algorithm as
/// coq/Model/SigDataXdrSpec.v): ScVal::Map(Some([Symbol -> Bytes; 3])) with the three field names in order.
fn xdr_sigdata(x: &[u8]) -> Option<(Vec<u8>, Vec<u8>, Vec<u8>)> {
    fn u32be(x: &[u8], i: &mut usize) -> Option<u32> { let b = x.get(*i..*i + 4)?; *i += 4; Some(u32::from_be_bytes([b[0], b[1], b[2], b[3]])) }
    fn padded(x: &[u8], i: &mut usize, n: usize) -> Option<Vec<u8>> {
        let pad = (4 - n % 4) % 4;
        let b = x.get(*i..*i + n)?.to_vec();
        let z = x.get(*i + n..*i + n + pad)?;
        if z.iter().any(|c| *c != 0) { return None; }
        *i += n + pad; Some(b)
    }
    fn entry(x: &[u8], i: &mut usize, name: &[u8]) -> Option<Vec<u8>> {
        if u32be(x, i)? != 15 { return None; }
        let n = u32be(x, i)? as usize;
        if padded(x, i, n)? != name { return None; }
        if u32be(x, i)? != 13 { return None; }
        let m = u32be(x, i)? as usize;
        padded(x, i, m)
    }
    let mut i = 0usize;
    if u32be(x, &mut i)? != 17 || u32be(x, &mut i)? != 1 || u32be(x, &mut i)? != 3 { return None; }
    let ad = entry(x, &mut i, b"authenticator_data")?;
    let cd = entry(x, &mut i, b"client_data")?;
    let sig = entry(x, &mut i, b"signature")?;
    if i != x.len() || sig.len() != 64 { return None; }
    Some((sig, ad, cd))
}

// ---------------------------------------------------------------------------------------------
// Gallina printing with per-trace sharing of byte strings
// ---------------------------------------------------------------------------------------------
fn pack(v: &[u8]) -> String {
    let mut ws: Vec<String> = vec![];
    for ch in v.chunks(7) {
        let mut x: u64 = 0;
        for i in 0..7 { x = x * 256 + if i < ch.len() { ch[i] as u64 } else { 0 }; }
        ws.push(format!("{}", x));
    }
    if ws.is_empty() { format!("(B 0 [])") } else { format!("(B {} [{}]%uint63)", v.len(), ws.join("; ")) }
}
struct Tr { names: HashMap<Vec<u8>, usize>, defs: Vec<String>, items: Vec<String>, kinds: std::collections::HashSet<String>, cred: Vec<u8> }
impl Tr {
    fn new() -> Tr { Tr { names: HashMap::new(), defs: vec![], items: vec![], kinds: Default::default(), cred: vec![] } }
    fn bs(&mut self, v: &[u8]) -> String {
        if v.len() <= 7 { return pack(v); }
        if let Some(i) = self.names.get(v) { return format!("(v {})", i); }
        let i = self.defs.len();
        self.defs.push(pack(v));
        self.names.insert(v.to_vec(), i);
        format!("(v {})", i)
    }
    fn push(&mut self, out: &mut Out, label: &str, call: String, res: String) {
        out.case(label, &call);
        // C18_ORDER=1: the label of every call in order (to name the call a replay file points at)
        if std::env::var("C18_ORDER").is_ok() { eprintln!("ORDER call#{} {} -> {}", self.items.len() + 1, label, if res == "Fail" { "Fail" } else { "Ok" }); }
        self.items.push(pair(&call, &res));
    }
    /// the trace term: a table of the byte strings used, looked up by index (`v i`)
    fn flush(&mut self, out: &mut Out, desc: &str) {
        if self.items.is_empty() { return; }
        // (fun v => trace) (table lookup): the body is elaborated without the big table in its context
        let s = format!("((fun v : Z -> list Z => ((Build_cfg {} {}, {}) : trace)) (let tbl := {} in fun i : Z => nth (Z.to_nat i) tbl []))",
                        CLIENT_DATA_MAX_LEN, AUTHENTICATOR_DATA_MIN_LEN, list(&self.items),
                        if self.defs.is_empty() { "(@nil (list Z))".to_string() } else { list(&self.defs) });
        let n = self.items.len();
        if std::env::var("C18_ORDER").is_ok() { eprintln!("ORDER == end of trace ({} calls): {}", n, desc); }
        out.trace(desc, s, n);
        *self = Tr::new();
    }
}
fn ob(x: Option<bool>) -> String { opt(x.map(b)) }


// ---------------------------------------------------------------------------------------------
// assertions
// ---------------------------------------------------------------------------------------------
#[derive(Clone)]
struct Asn { payload: Vec<u8>, key: Vec<u8>, sig: Vec<u8>, ad: Vec<u8>, cd: Vec<u8>,
             /// the signature was produced over sha256(ad ++ sha256(cd)) with the secret key of `key` and nothing was changed since
             signed: bool }

/// how an example verifier contract is reached: from the test's top level, or by the forwarder contract.
/// Both go through the GENERIC interface `verify(hash: Bytes, key_data: Val, sig_data: Val)` - the client the
/// smart account uses (stellar_accounts::verifiers::VerifierClient) - so that the harness does not depend on the
/// contracts' associated KeyData / SigData types and can hand over values of any length or type.
#[derive(Clone, Copy, PartialEq)]
enum Via { Top, Fwd }
struct Ctx<'a> {
    e: &'a Env,
    lib: LibClient<'a>,
    wa: VerifierClient<'a>,
    ed: VerifierClient<'a>,
    fwd: FwdClient<'a>,
    wa_id: Address,
    ed_id: Address,
}

fn rbytes(rng: &mut Rng, n: usize) -> Vec<u8> { (0..n).map(|_| rng.next_u64() as u8).collect() }
fn flip(rng: &mut Rng, v: &[u8]) -> Vec<u8> {
    let mut w = v.to_vec();
    if w.is_empty() { return w; }
    let i = rng.below(w.len() as u64) as usize;
    w[i] ^= 1 << rng.below(8);
    w
}
fn flip_in(rng: &mut Rng, v: &[u8], lo: usize, hi: usize) -> Vec<u8> {
    let mut w = v.to_vec();
    let i = lo + rng.below((hi - lo) as u64) as usize;
    w[i] ^= 1 << rng.below(8);
    w
}
fn find(h: &[u8], n: &[u8]) -> Option<usize> { h.windows(n.len()).position(|w| w == n) }

fn p256_key(rng: &mut Rng) -> (p256::ecdsa::SigningKey, Vec<u8>) {
    loop {
        let b = rbytes(rng, 32);
        if let Ok(sk) = p256::ecdsa::SigningKey::from_slice(&b) {
            let pk = sk.verifying_key().to_encoded_point(false).as_bytes().to_vec();
            return (sk, pk);
        }
    }
}
fn p256_sign(sk: &p256::ecdsa::SigningKey, digest: &[u8; 32]) -> Vec<u8> {
    use p256::ecdsa::{signature::hazmat::PrehashSigner, Signature};
    let s: Signature = sk.sign_prehash(digest).unwrap();
    let s = s.normalize_s().unwrap_or(s);
    s.to_bytes().to_vec()
}
/// (r, n - s): the other, mathematically equally valid, form of an ECDSA signature
fn high_s(sig: &[u8]) -> Vec<u8> {
    const N: [u8; 32] = [0xFF, 0xFF, 0xFF, 0xFF, 0, 0, 0, 0, 0xFF, 0xFF, 0xFF, 0xFF, 0xFF, 0xFF, 0xFF, 0xFF,
                         0xBC, 0xE6, 0xFA, 0xAD, 0xA7, 0x17, 0x9E, 0x84, 0xF3, 0xB9, 0xCA, 0xC2, 0xFC, 0x63, 0x25, 0x51];
    let mut o = sig.to_vec();
    let mut borrow = 0i32;
    for i in (0..32).rev() {
        let mut d = N[i] as i32 - sig[32 + i] as i32 - borrow;
        if d < 0 { d += 256; borrow = 1; } else { borrow = 0; }
        o[32 + i] = d as u8;
    }
    o
}
/// Ed25519 (R, S + L): same scalar mod L, non-canonical encoding
fn ed_noncanonical(sig: &[u8]) -> Vec<u8> {
    const L: [u8; 32] = [0xed, 0xd3, 0xf5, 0x5c, 0x1a, 0x63, 0x12, 0x58, 0xd6, 0x9c, 0xf7, 0xa2, 0xde, 0xf9, 0xde, 0x14,
                         0, 0, 0, 0, 0, 0, 0, 0, 0, 0, 0, 0, 0, 0, 0, 0x10];
    let mut o = sig.to_vec();
    let mut carry = 0u32;
    for i in 0..32 { let t = sig[32 + i] as u32 + L[i] as u32 + carry; o[32 + i] = t as u8; carry = t >> 8; }
    o
}

/// client data JSON in several shapes; `pad` extra characters go into the origin
fn make_cd(style: u64, ty: &str, ch: &str, pad: usize) -> Vec<u8> {
    let o = format!("https://example.com{}", if pad > 0 { "/".to_string() + &"a".repeat(pad - 1) } else { String::new() });
    let s = match style % 6 {
        0 => format!(r#"{{"type":"{ty}","challenge":"{ch}","origin":"{o}","crossOrigin":false}}"#),
        1 => format!(r#"{{"challenge":"{ch}","origin":"{o}","type":"{ty}"}}"#),
        2 => format!("{{\n  \"type\": \"{ty}\",\n  \"challenge\": \"{ch}\",\n  \"origin\": \"{o}\",\n  \"crossOrigin\": false\n}}"),
        3 => format!(r#"{{"type":"{ty}","challenge":"{ch}","origin":"{o}","crossOrigin":true,"tokenBinding":{{"status":"supported","id":"dGI"}}}}"#),
        4 => format!(r#"{{"origin":"{o}","other_keys_can_be_added_here":"do not compare clientDataJSON against a template","n":[1,2.5,null,{{"type":"x"}}],"type":"{ty}","androidPackageName":null,"challenge":"{ch}"}}"#),
        _ => format!(r#"{{"type":"{ty}","challenge":"{ch}","origin":"{o}"}}"#),
    };
    s.into_bytes()
}
fn make_cd_len(style: u64, ty: &str, ch: &str, total: usize) -> Vec<u8> {
    let base = make_cd(style, ty, ch, 0).len();
    if total <= base { return make_cd(style, ty, ch, 0); }
    let v = make_cd(style, ty, ch, total - base);
    assert_eq!(v.len(), total);
    v
}
fn make_ad(rng: &mut Rng, flags: u8, len: usize) -> Vec<u8> {
    let mut ad = rbytes(rng, len);
    if len > 32 { ad[32] = flags; }
    ad
}
fn sign_asn(sk: &p256::ecdsa::SigningKey, pk: &[u8], payload: &[u8], ad: &[u8], cd: &[u8]) -> Asn {
    let sig = p256_sign(sk, &wa_message_digest(ad, cd));
    Asn { payload: payload.to_vec(), key: pk.to_vec(), sig, ad: ad.to_vec(), cd: cd.to_vec(), signed: true }
}
fn flags_rule(f: u8) -> bool { f & 1 != 0 && f & 4 != 0 && !(f & 8 == 0 && f & 16 != 0) }

/// What the property text says about a freshly SIGNED assertion, from the independent client-data reader and the
/// documented rules (1024 / 37, flag bits, "webauthn.get", challenge = base64url of the 32-byte payload).
/// None = the text does not decide (reader undecided, or payload longer than 32 bytes that would pass on its prefix).
fn spec_expect(a: &Asn, pre: bool) -> Option<bool> {
    if !a.signed { return None; }
    let (ty, ch) = match cd_fields(&a.cd) { Cd::Plain(t, c) => (t, c), Cd::Invalid => return Some(false), Cd::Other => return None };
    let rest = pre && a.cd.len() <= 1024 && ty == b"webauthn.get" && a.ad.len() >= 37 && flags_rule(a.ad[32]);
    if a.payload.len() == 32 { return Some(rest && ch == b64url(&a.payload)); }
    if !(rest && a.payload.len() > 32 && ch == b64url(&a.payload[..32])) { Some(false) } else { None }
}
fn asn_term(tr: &mut Tr, a: &Asn, expect: Option<bool>) -> String {
    if std::env::var("C18_JSONDBG").is_ok() {
        let r = cd_fields(&a.cd); let o = json_oracle(&a.cd);
        let agree = match (&r, &o) { (Cd::Plain(t, c), Some((t2, c2))) => t == t2 && c == c2, (Cd::Invalid, None) => true, (Cd::Other, _) => true, _ => false };
        eprintln!("JSONDBG agree={} reader={:?} serde={:?} cd={:?}", agree, match &r { Cd::Plain(..) => "plain", Cd::Invalid => "invalid", Cd::Other => "other" }, o.is_some(), String::from_utf8_lossy(&a.cd[..a.cd.len().min(160)]));
    }
    let parsed = json_oracle(&a.cd).map(|(t, c)| pair(&tr.bs(&t), &tr.bs(&c)));
    let sigok = a.sig.len() == 64 && p256_oracle(&a.key, &wa_message_digest(&a.ad, &a.cd), &a.sig);
    // Build_assertion payload key sig ad cd parsed sigok expect (the record notation elaborates slowly)
    format!("(Build_assertion {} {} {} {} {} {} {} {})",
            tr.bs(&a.payload), tr.bs(&a.key), tr.bs(&a.sig), tr.bs(&a.ad), tr.bs(&a.cd), opt(parsed), b(sigok), ob(expect))
}
fn res_bool<E, F>(r: Result<Result<bool, E>, F>) -> (String, &'static str) {
    match r { Ok(Ok(v)) => (format!("(Ok (OBool {}))", b(v)), if v { "ok" } else { "false" }), _ => ("Fail".into(), "fail") }
}

/// webauthn::verify through the library wrapper
fn wa_lib(cx: &Ctx, tr: &mut Tr, out: &mut Out, kind: &str, a: &Asn, expect: Option<bool>) {
    let e = cx.e;
    let expect = expect.or_else(|| spec_expect(a, true));
    let key: [u8; 65] = a.key.clone().try_into().expect("65-byte key");
    let sig: [u8; 64] = a.sig.clone().try_into().expect("64-byte sig");
    let sd = WebAuthnSigData { signature: BytesN::from_array(e, &sig), authenticator_data: Bytes::from_slice(e, &a.ad), client_data: Bytes::from_slice(e, &a.cd) };
    let (res, tag) = res_bool(cx.lib.try_wa(&Bytes::from_slice(e, &a.payload), &BytesN::from_array(e, &key), &sd));
    let call = format!("WaLib {}", asn_term(tr, a, expect));
    tr.push(out, &format!("wa-lib/{}/{}", kind, tag), call, res);
}
/// the example contract: key_data = key ++ credential id, sig_data = XDR bytes.  `signed`: the signature inside
/// sig_data is a genuine one for the first 65 bytes of key_data over the authenticator / client data inside.
fn wa_ex_raw(cx: &Ctx, tr: &mut Tr, out: &mut Out, kind: &str, payload: &[u8], key_data: &[u8], sig_data: &Bytes, expect: Option<bool>, signed: bool) {
    wa_ex_via(cx, tr, out, Via::Top, kind, payload, key_data, sig_data, expect, signed)
}
fn wa_ex_via(cx: &Ctx, tr: &mut Tr, out: &mut Out, via: Via, kind: &str, payload: &[u8], key_data: &[u8], sig_data: &Bytes, expect: Option<bool>, signed: bool) {
    let e = cx.e;
    let sdv = bv(sig_data);
    // the decoding oracle handed to the model: the SDK's from_xdr (run in a helper contract)
    let dec: Option<WebAuthnSigData> = cx.lib.try_decode(sig_data).ok().and_then(|r| r.ok());
    let key = if key_data.len() >= 65 { key_data[..65].to_vec() } else { key_data.to_vec() };
    let a = match &dec {
        Some(s) => Asn { payload: payload.to_vec(), key: key.clone(), sig: s.signature.to_array().to_vec(), ad: bv(&s.authenticator_data), cd: bv(&s.client_data), signed },
        None => Asn { payload: payload.to_vec(), key: key.clone(), sig: vec![], ad: vec![], cd: vec![], signed: false },
    };
    // the expectation comes from the INDEPENDENT decoder (the monitor re-decodes the printed bytes as well)
    let own = xdr_sigdata(&sdv);
    if own.is_some() != dec.is_some() { out.label("oracle/xdr-decoders-disagree"); }
    let expect = expect.or_else(|| match &own {
        None => Some(false),
        Some((sig, ad, cd)) => spec_expect(&Asn { payload: payload.to_vec(), key: key.clone(), sig: sig.clone(), ad: ad.clone(), cd: cd.clone(), signed }, key_data.len() >= 65),
    });
    let (p, k, s) = (Bytes::from_slice(e, payload), Bytes::from_slice(e, key_data).to_val(), sig_data.to_val());
    let (res, tag) = match via {
        Via::Top => res_bool(cx.wa.try_verify(&p, &k, &s)),
        Via::Fwd => res_bool(cx.fwd.try_auth(&cx.wa_id, &p.to_val(), &k, &s)),
    };
    let call = format!("WaEx {} {} {} {}", tr.bs(key_data), tr.bs(&sdv), b(dec.is_some()), asn_term(tr, &a, expect));
    tr.push(out, &format!("{}/{}/{}", if via == Via::Top { "wa-ex" } else { "wa-fwd" }, kind, tag), call, res);
}
fn wa_ex(cx: &Ctx, tr: &mut Tr, out: &mut Out, kind: &str, a: &Asn, expect: Option<bool>) {
    let e = cx.e;
    let sig: [u8; 64] = a.sig.clone().try_into().expect("64-byte sig");
    let sd = WebAuthnSigData { signature: BytesN::from_array(e, &sig), authenticator_data: Bytes::from_slice(e, &a.ad), client_data: Bytes::from_slice(e, &a.cd) };
    // the same credential id for the whole trace: key_data of a corrupted assertion equals that of the genuine one
    let kd = [&a.key[..], &tr.cred.clone()[..]].concat();
    wa_ex_raw(cx, tr, out, kind, &a.payload, &kd, &sd.to_xdr(e), expect, a.signed);
}
/// the same through the forwarder contract (the verifier is invoked by a contract)
fn wa_fwd(cx: &Ctx, tr: &mut Tr, out: &mut Out, kind: &str, a: &Asn, expect: Option<bool>) {
    let e = cx.e;
    let sig: [u8; 64] = a.sig.clone().try_into().expect("64-byte sig");
    let sd = WebAuthnSigData { signature: BytesN::from_array(e, &sig), authenticator_data: Bytes::from_slice(e, &a.ad), client_data: Bytes::from_slice(e, &a.cd) };
    let kd = [&a.key[..], &tr.cred.clone()[..]].concat();
    wa_ex_via(cx, tr, out, Via::Fwd, kind, &a.payload, &kd, &sd.to_xdr(e), expect, a.signed);
}
/// one assertion: through BOTH entry points the first time a kind occurs in a trace (so that every
/// wa-lib/... and wa-ex/... label is hit deterministically) or when `both`; afterwards through one of them
fn wa_any(cx: &Ctx, tr: &mut Tr, out: &mut Out, rng: &mut Rng, kind: &str, a: &Asn, expect: Option<bool>, both: bool) {
    let lib_ok = a.key.len() == 65 && a.sig.len() == 64;
    let first = tr.kinds.insert(kind.to_string());
    if both || first || !lib_ok {
        if lib_ok { wa_lib(cx, tr, out, kind, a, expect); }
        wa_ex(cx, tr, out, kind, a, expect);
    } else if rng.chance(1, 2) { wa_lib(cx, tr, out, kind, a, expect); } else { wa_ex(cx, tr, out, kind, a, expect); }
}

#[derive(Clone, Copy, PartialEq)]
enum EdVia { Lib, Ex, Fwd }
fn ed_call(cx: &Ctx, tr: &mut Tr, out: &mut Out, via_ex: bool, kind: &str, payload: &[u8], key: &[u8], sig: &[u8], expect: Option<bool>) {
    ed_gen(cx, tr, out, if via_ex { EdVia::Ex } else { EdVia::Lib }, kind, payload, key, sig, expect)
}
/// key / sig of any length for the contract entries (generic interface); the library function takes BytesN<32> / BytesN<64>
fn ed_gen(cx: &Ctx, tr: &mut Tr, out: &mut Out, via: EdVia, kind: &str, payload: &[u8], key: &[u8], sig: &[u8], expect: Option<bool>) {
    let e = cx.e;
    let sigok = ed_oracle(key, payload, sig);
    let p = Bytes::from_slice(e, payload);
    let (res, tag) = match via {
        EdVia::Lib => {
            let k: [u8; 32] = key.to_vec().try_into().expect("32-byte key");
            let s: [u8; 64] = sig.to_vec().try_into().expect("64-byte sig");
            res_bool(cx.lib.try_ed(&p, &BytesN::from_array(e, &k), &BytesN::from_array(e, &s)))
        }
        EdVia::Ex => res_bool(cx.ed.try_verify(&p, &Bytes::from_slice(e, key).to_val(), &Bytes::from_slice(e, sig).to_val())),
        EdVia::Fwd => res_bool(cx.fwd.try_auth(&cx.ed_id, &p.to_val(), &Bytes::from_slice(e, key).to_val(), &Bytes::from_slice(e, sig).to_val())),
    };
    let call = format!("{} {} {} {} {} {}", if via == EdVia::Lib { "EdLib" } else { "EdEx" }, tr.bs(payload), tr.bs(key), tr.bs(sig), b(sigok), ob(expect));
    tr.push(out, &format!("{}/{}/{}", match via { EdVia::Lib => "ed-lib", EdVia::Ex => "ed-ex", EdVia::Fwd => "ed-fwd" }, kind, tag), call, res);
}
/// a call of an example verifier (which: 0 = Ed25519, 1 = WebAuthn) with an argument that is not of the declared
/// type; the other two arguments are those of a genuine assertion.  shape = 100 * position + type code.
fn bad_arg(cx: &Ctx, tr: &mut Tr, out: &mut Out, which: u32, via: Via, shape: u32, hash: Val, key: Val, sig: Val) {
    let e = cx.e;
    let id = if which == 0 { &cx.ed_id } else { &cx.wa_id };
    let (res, tag) = match via {
        Via::Top => res_bool(e.try_invoke_contract::<bool, soroban_sdk::Error>(id, &Symbol::new(e, "verify"), soroban_sdk::vec![e, hash, key, sig])),
        Via::Fwd => res_bool(cx.fwd.try_auth(id, &hash, &key, &sig)),
    };
    let call = format!("BadArg {} {}", which, shape);
    tr.push(out, &format!("{}-{}/bad-arg/{}", if which == 0 { "ed" } else { "wa" }, if via == Via::Top { "ex" } else { "fwd" }, tag), call, res);
}

// malformed / alternative XDR shapes for the example contract's sig_data
mod shapes {
    use soroban_sdk::{contracttype, Bytes, BytesN};
    #[contracttype]
    pub struct NoSig { pub authenticator_data: Bytes, pub client_data: Bytes }
    #[contracttype]
    pub struct SigBytes { pub authenticator_data: Bytes, pub client_data: Bytes, pub signature: Bytes }
    #[contracttype]
    pub struct Extra { pub authenticator_data: Bytes, pub client_data: Bytes, pub extra: u32, pub signature: BytesN<64> }
}

fn valid_flags(rng: &mut Rng) -> u8 {
    let be = rng.chance(1, 2);
    let bs = be && rng.chance(1, 2);
    let mut f = 0x05u8 | if be { 8 } else { 0 } | if bs { 16 } else { 0 };
    for bit in [0x02u8, 0x20, 0x40, 0x80] { if rng.chance(1, 3) { f |= bit; } }
    f
}

fn wa_trace(cx: &Ctx, out: &mut Out, rng: &mut Rng, thorough: bool, idx: usize) {
    let e = cx.e;
    let mut tr = Tr::new();
    let tr = &mut tr;
    let (sk, pk) = p256_key(rng);
    let (sk2, pk2) = p256_key(rng);
    tr.cred = { let n = [0usize, 1, 16, 32, 40, 0][idx % 6]; rbytes(rng, n) };
    // the payload: random, or (every third trace) made of boundary bytes (all zero / all ones / the bytes that
    // produce the characters '-' and '_' / alternating)
    let payload: Vec<u8> = match idx % 9 {
        2 => vec![0u8; 32], 5 => vec![0xFFu8; 32],
        8 => (0..32).map(|i| [0xFBu8, 0xEF, 0xBE, 0xFF, 0x00, 0x3E, 0x3F][(i + idx / 9) % 7]).collect(),
        _ => rbytes(rng, 32),
    };
    let ch = String::from_utf8(b64url(&payload)).unwrap();
    let style = rng.below(6);
    let flags = valid_flags(rng);
    let min_ad = AUTHENTICATOR_DATA_MIN_LEN;
    let max_cd = CLIENT_DATA_MAX_LEN;
    let adlen = match rng.below(6) { 0 | 1 => min_ad, 2 => min_ad + 1, 3 => min_ad + 18, 4 => min_ad + 63, _ => min_ad + rng.below(200) as usize };
    let ad = make_ad(rng, flags, adlen);
    let cd = make_cd(style, "webauthn.get", &ch, *rng.pick(&[0usize, 0, 5, 40]));
    let g = sign_asn(&sk, &pk, &payload, &ad, &cd);
    wa_any(cx, tr, out, rng, "genuine", &g, Some(true), true);
    // genuine assertions for boundary-byte payloads (in every trace, both entry points)
    for bp in [vec![0u8; 32], vec![0xFFu8; 32], (0..32u8).map(|i| if i % 2 == 0 { 0xFB } else { 0xFF }).collect::<Vec<u8>>(), (0..32u8).map(|i| 0x80 >> (i % 8)).collect::<Vec<u8>>()] {
        let c = make_cd(style, "webauthn.get", &String::from_utf8(b64url(&bp)).unwrap(), 0);
        let a = sign_asn(&sk, &pk, &bp, &ad, &c);
        wa_any(cx, tr, out, rng, "genuine-boundary-payload", &a, Some(true), true);
        let mut a2 = a.clone(); a2.payload[31] ^= 1;
        wa_any(cx, tr, out, rng, "boundary-payload-bit", &a2, Some(false), true);
    }

    // ---- corruptions of a genuine assertion, signature NOT redone: all must be rejected ----
    let no = Some(false);
    // single-bit corruptions of payload / key / signature / authenticator data, each through BOTH entry points.
    // quick: 5 bits of each field per trace; thorough: additionally every bit of the payload (traces 1 mod 8),
    // every 4th bit of key and signature (2 mod 8), every 4th bit of the authenticator data (3 mod 8)
    let bit = |v: &[u8], k: usize| { let mut w = v.to_vec(); w[k / 8] ^= 1 << (k % 8); w };
    let pick_bits = |rng: &mut Rng, nbits: usize, all: bool, stride: usize| -> Vec<usize> {
        if all { (0..nbits).step_by(stride).collect() } else { let mut v = vec![0, nbits - 1]; for _ in 0..3 { v.push(rng.below(nbits as u64) as usize); } v }
    };
    for k in pick_bits(rng, 256, thorough && idx % 8 == 1, 1) { let mut a = g.clone(); a.payload = bit(&g.payload, k); wa_any(cx, tr, out, rng, "payload-bit", &a, no, true); }
    for k in pick_bits(rng, 520, thorough && idx % 8 == 2, 4) { let mut a = g.clone(); a.key = bit(&g.key, k); wa_any(cx, tr, out, rng, "key-bit", &a, no, true); }
    for k in pick_bits(rng, 512, thorough && idx % 8 == 2, 4) { let mut a = g.clone(); a.sig = bit(&g.sig, k); wa_any(cx, tr, out, rng, "sig-bit", &a, no, true); }
    for k in pick_bits(rng, g.ad.len() * 8, thorough && idx % 8 == 3, 4) { let mut a = g.clone(); a.ad = bit(&g.ad, k); wa_any(cx, tr, out, rng, "ad-bit", &a, no, true); }
    { let mut a = g.clone(); a.payload = rbytes(rng, 32); wa_any(cx, tr, out, rng, "payload-other", &a, no, false); }
    { let mut a = g.clone(); a.key = pk2.clone(); wa_any(cx, tr, out, rng, "key-other", &a, no, false); }
    { let mut a = g.clone(); a.key[0] = *rng.pick(&[0x02u8, 0x03, 0x00]); wa_any(cx, tr, out, rng, "key-tag", &a, no, false); }
    { let mut a = g.clone(); a.sig = high_s(&g.sig); wa_any(cx, tr, out, rng, "sig-high-s", &a, no, false); }
    { let mut a = g.clone(); a.sig = vec![0u8; 64]; wa_any(cx, tr, out, rng, "sig-zero", &a, no, false); }
    { let mut a = g.clone(); a.sig = [&g.sig[32..], &g.sig[..32]].concat(); wa_any(cx, tr, out, rng, "sig-swap", &a, no, false); }
    { let mut a = g.clone(); a.sig = p256_sign(&sk2, &wa_message_digest(&ad, &cd)); wa_any(cx, tr, out, rng, "sig-other-key", &a, no, false); }
    let fbits: Vec<u8> = if thorough { (0..8).collect() } else { vec![rng.below(8) as u8, rng.below(8) as u8] };
    for k in fbits { let mut a = g.clone(); a.ad[32] ^= 1 << k; wa_any(cx, tr, out, rng, "ad-flag-bit", &a, no, true); }
    { let mut a = g.clone(); a.ad.push(rng.next_u64() as u8); wa_any(cx, tr, out, rng, "ad-append", &a, no, false); }
    { let mut a = g.clone(); a.ad.pop(); wa_any(cx, tr, out, rng, "ad-truncate", &a, no, false); }
    for _ in 0..4 { let mut a = g.clone(); a.cd = flip(rng, &g.cd); wa_any(cx, tr, out, rng, "cd-bit", &a, no, true); }
    if let Some(p) = find(&g.cd, ch.as_bytes()) { let mut a = g.clone(); a.cd = flip_in(rng, &g.cd, p, p + 43); wa_any(cx, tr, out, rng, "cd-bit-challenge", &a, no, false); }
    if let Some(p) = find(&g.cd, b"webauthn.get") { let mut a = g.clone(); a.cd = flip_in(rng, &g.cd, p, p + 12); wa_any(cx, tr, out, rng, "cd-bit-type", &a, no, false); }
    { let mut a = g.clone(); a.cd.push(b' '); wa_any(cx, tr, out, rng, "cd-append-space", &a, no, false); }
    { let mut a = g.clone(); a.cd.pop(); wa_any(cx, tr, out, rng, "cd-truncate", &a, no, false); }
    let cd2 = make_cd(style, "webauthn.get", &ch, 11);
    { let mut a = g.clone(); a.cd = cd2.clone(); wa_any(cx, tr, out, rng, "cd-other-origin", &a, no, false); }
    // signatures (by the right key) over something else than sha256(ad ++ sha256(cd))
    let sh = |v: &[u8]| sha256(v);
    let cat = |a: &[u8], b: &[u8]| [a, b].concat();
    let alts: Vec<(&str, [u8; 32])> = vec![
        ("msg-ad-only", sh(&ad)),
        ("msg-ad-rawcd", sh(&cat(&ad, &cd))),
        ("msg-swapped", sh(&cat(&sh(&cd), &ad))),
        ("msg-double-hash", sh(&sh(&cat(&ad, &sh(&cd))))),
        ("msg-unhashed-tail", sh(&cat(&ad, &sh(&cd)[..31]))),
        ("msg-payload", { let mut d = [0u8; 32]; d.copy_from_slice(&payload); d }),
        ("msg-cd-hash", sh(&cd)),
        ("msg-other-cd", wa_message_digest(&ad, &cd2)),
        ("msg-ad-payload", sh(&cat(&ad, &payload))),
        // the same client data with another authenticator data (rpIdHash differs in one bit)
        ("msg-other-ad", { let mut adb = ad.clone(); adb[0] ^= 1; wa_message_digest(&adb, &cd) }),
    ];
    for (k, d) in alts { let mut a = g.clone(); a.sig = p256_sign(&sk, &d); wa_any(cx, tr, out, rng, k, &a, no, false); }

    // ---- one field changed and the assertion signed again: accepted iff the rule allows it ----
    let fl: Vec<u8> = if thorough && idx % 4 == 0 { (0..=255u8).collect() } else {
        (0..16u8).map(|m| (m & 1) | ((m >> 1) & 1) << 2 | ((m >> 2) & 1) << 3 | ((m >> 3) & 1) << 4 | (rng.next_u64() as u8 & 0xE2)).collect() };
    for f in fl {
        let mut ad2 = ad.clone(); ad2[32] = f;
        let a = sign_asn(&sk, &pk, &payload, &ad2, &cd);
        wa_any(cx, tr, out, rng, if flags_rule(f) { "flags-valid" } else { "flags-invalid" }, &a, Some(flags_rule(f)), false);
    }
    for (ty, ex) in [("webauthn.create", no), ("webauthn.get ", no), (" webauthn.get", no), ("Webauthn.get", no), ("webauthn.ge", no), ("webauthn.gett", no), ("", no),
                     ("webauthn.get\\u0000", no), ("webauthn.get\u{e9}", no), ("webauthn.g\u{e9}t", no),
                     // escaped spellings of the same string: the text does not say whether the comparison is on the raw or the unescaped string
                     ("webauthn.g\\u0065t", None), ("webauthn\\u002eget", None)] {
        let a = sign_asn(&sk, &pk, &payload, &ad, &make_cd(style, ty, &ch, 0));
        wa_any(cx, tr, out, rng, "type-changed", &a, ex, false);
    }
    let other = String::from_utf8(b64url(&flip(rng, &payload))).unwrap();
    let std_alpha = ch.replace('-', "+").replace('_', "/");
    let mut chs: Vec<String> = vec![other, format!("{}=", ch), ch[..42].to_string(), format!("{}A", ch), String::new(), ch.to_lowercase(), format!(" {}", ch),
                                    String::from_utf8(b64url(&payload[..31])).unwrap(), String::from_utf8(b64url(&[&payload[..], &[0u8][..]].concat())).unwrap()];
    if std_alpha != ch { chs.push(std_alpha); }
    { // last character replaced by its neighbour with the two zero-fill bits set
        let mut c = ch.clone().into_bytes(); let l = c[42]; c[42] = if l == b'A' { b'B' } else { b'A' }; chs.push(String::from_utf8(c).unwrap());
    }
    for c2 in chs {
        if c2 == ch { continue; }
        let a = sign_asn(&sk, &pk, &payload, &ad, &make_cd(style, "webauthn.get", &c2, 0));
        wa_any(cx, tr, out, rng, "challenge-changed", &a, no, false);
    }
    // payload lengths
    for n in [0usize, 1, 31] {
        let p = payload[..n].to_vec();
        let a = sign_asn(&sk, &pk, &p, &ad, &make_cd(style, "webauthn.get", &String::from_utf8(b64url(&p)).unwrap(), 0));
        wa_any(cx, tr, out, rng, "payload-short", &a, no, false);
    }
    for n in [33usize, 64] {
        let p = [&payload[..], &rbytes(rng, n - 32)[..]].concat();
        // challenge of the 32-byte prefix: accepted by the code (outside the property's domain, the host passes 32 bytes)
        let a = sign_asn(&sk, &pk, &p, &ad, &cd);
        wa_any(cx, tr, out, rng, "payload-long-prefix", &a, None, false);
        let a = sign_asn(&sk, &pk, &p, &ad, &make_cd(style, "webauthn.get", &String::from_utf8(b64url(&p)).unwrap(), 0));
        wa_any(cx, tr, out, rng, "payload-long-full", &a, no, false);
    }
    // client data length: the documented bound 1024 (and the code's constant, should it differ), and lengths in between
    let mut totals: Vec<usize> = vec![1023, 1024, 1025, 1500];
    for t in [max_cd - 1, max_cd, max_cd + 1] { if !totals.contains(&t) { totals.push(t); } }
    for total in totals {
        let c = make_cd_len(style, "webauthn.get", &ch, total);
        let a = sign_asn(&sk, &pk, &payload, &ad, &c);
        let k = if total < 1024 { "cd-len-below" } else if total == 1024 { "cd-len-at" } else { "cd-len-above" };
        wa_any(cx, tr, out, rng, k, &a, Some(c.len() <= 1024), true);
    }
    for total in [300usize, 512, 777, 1000, 260 + rng.below(760) as usize, 260 + rng.below(760) as usize] {
        let c = make_cd_len(style, "webauthn.get", &ch, total);
        let a = sign_asn(&sk, &pk, &payload, &ad, &c);
        wa_any(cx, tr, out, rng, "cd-len-mid", &a, Some(true), false);
    }
    // authenticator data length: the documented minimum 37 (and the code's constant, should it differ)
    let mut lens: Vec<usize> = vec![0, 32, 33, 36, 37, 38];
    for t in [min_ad - 1, min_ad, min_ad + 1] { if !lens.contains(&t) { lens.push(t); } }
    for n in lens {
        let ad2 = make_ad(rng, flags, n);
        let a = sign_asn(&sk, &pk, &payload, &ad2, &cd);
        let k = if n < 37 { "ad-len-below" } else { "ad-len-ok" };
        wa_any(cx, tr, out, rng, k, &a, Some(n >= 37), true);
    }
    // JSON shapes: the expectation `None` is replaced by what the independent reader and the text say (spec_expect);
    // an explicit one is what the generator knows by construction
    let jsons: Vec<(&str, String, Option<bool>)> = vec![
        ("json-missing-field", format!(r#"{{"challenge":"{ch}","origin":"o"}}"#), no),
        ("json-missing-field", format!(r#"{{"type":"webauthn.get","origin":"o"}}"#), no),
        ("json-key-variant", format!(r#"{{"Type":"webauthn.get","challenge":"{ch}"}}"#), no),
        ("json-key-variant", format!(r#"{{"type ":"webauthn.get","challenge":"{ch}"}}"#), no),
        ("json-key-variant", format!(r#"{{"type":"webauthn.get","Challenge":"{ch}"}}"#), no),
        ("json-key-variant", format!(r#"{{"type_field":"webauthn.get","challenge":"{ch}"}}"#), no),
        ("json-nonstring-type", format!(r#"{{"type":5,"challenge":"{ch}"}}"#), no),
        ("json-nonstring-type", format!(r#"{{"type":"webauthn.get","challenge":["{ch}"]}}"#), no),
        ("json-not-object", format!(r#"["webauthn.get","{ch}"]"#), no),
        ("json-not-object", String::new(), no),
        ("json-trailing-garbage", format!(r#"{{"type":"webauthn.get","challenge":"{ch}"}}x"#), no),
        ("json-trailing-garbage", format!(r#"{{"type":"webauthn.get","challenge":"{ch}"}}}}"#), no),
        ("json-trailing-ws", format!("{{\"type\":\"webauthn.get\",\"challenge\":\"{ch}\"}} \n\t "), Some(true)),
        ("json-leading-ws", format!(" \r\n{{ \"type\" : \"webauthn.get\" , \"challenge\" : \"{ch}\" }}"), Some(true)),
        ("json-dup-key", format!(r#"{{"type":"webauthn.get","type":"webauthn.get","challenge":"{ch}"}}"#), None),
        ("json-dup-key", format!(r#"{{"type":"webauthn.create","type":"webauthn.get","challenge":"{ch}"}}"#), None),
        ("json-nested-only", format!(r#"{{"x":{{"type":"webauthn.get","challenge":"{ch}"}}}}"#), no),
        ("json-nested-decoy", format!(r#"{{"x":{{"type":"webauthn.create","challenge":"AAAA"}},"type":"webauthn.get","challenge":"{ch}"}}"#), Some(true)),
        ("json-nested-decoy", format!(r#"{{"x":[{{"type":"webauthn.get","challenge":"{ch}"}}],"type":"webauthn.create","challenge":"{ch}"}}"#), no),
        ("json-escaped-quote", format!(r#"{{"type":"webauthn.get","challenge":"{ch}","origin":"https://ex\"ample.com"}}"#), Some(true)),
        ("json-escaped-quote", format!(r#"{{"origin":"\",\"type\":\"webauthn.get","type":"webauthn.create","challenge":"{ch}"}}"#), no),
        ("json-bom", format!("\u{feff}{{\"type\":\"webauthn.get\",\"challenge\":\"{ch}\"}}"), None),
        ("json-unterminated", format!(r#"{{"type":"webauthn.get","challenge":"{ch}""#), no),
        ("json-unterminated", format!(r#"{{"type":"webauthn.get","challenge":"{ch}"#), no),
        // malformed inside a member that is not read: serde-json-core skips it leniently; not decided by the text's clauses
        ("json-malformed-ignored", format!(r#"{{"type":"webauthn.get","challenge":"{ch}","crossOrigin":fal{{e}}"#), None),
        ("json-malformed-ignored", format!(r#"{{"type":"webauthn.get","challenge":"{ch}","n":[1,,2]}}"#), None),
    ];
    for (k, j, ex) in jsons {
        let a = sign_asn(&sk, &pk, &payload, &ad, j.as_bytes());
        wa_any(cx, tr, out, rng, k, &a, ex, false);
    }
    { // a non-UTF-8 byte inside the origin string
        let mut c = cd.clone(); if let Some(p) = find(&c, b"example") { c[p] = 0xFF; }
        let a = sign_asn(&sk, &pk, &payload, &ad, &c);
        wa_any(cx, tr, out, rng, "json-non-utf8", &a, None, false);
    }
    // the example contract's own decoding steps
    let sig64: [u8; 64] = g.sig.clone().try_into().unwrap();
    let (adb, cdb) = (Bytes::from_slice(e, &ad), Bytes::from_slice(e, &cd));
    let good = WebAuthnSigData { signature: BytesN::from_array(e, &sig64), authenticator_data: adb.clone(), client_data: cdb.clone() }.to_xdr(e);
    wa_ex_raw(cx, tr, out, "key-data-exact", &payload, &pk, &good, Some(true), true);
    wa_ex_raw(cx, tr, out, "key-data-short", &payload, &pk[..64], &good, no, true);
    wa_ex_raw(cx, tr, out, "key-data-short", &payload, &[], &good, no, true);
    wa_ex_raw(cx, tr, out, "key-data-shifted", &payload, &[&[0u8][..], &pk[..]].concat(), &good, no, true);
    wa_ex_raw(cx, tr, out, "xdr-nosig", &payload, &pk, &shapes::NoSig { authenticator_data: adb.clone(), client_data: cdb.clone() }.to_xdr(e), no, true);
    wa_ex_raw(cx, tr, out, "xdr-sig63", &payload, &pk, &shapes::SigBytes { authenticator_data: adb.clone(), client_data: cdb.clone(), signature: Bytes::from_slice(e, &g.sig[..63]) }.to_xdr(e), no, true);
    wa_ex_raw(cx, tr, out, "xdr-sig-as-bytes", &payload, &pk, &shapes::SigBytes { authenticator_data: adb.clone(), client_data: cdb.clone(), signature: Bytes::from_slice(e, &g.sig) }.to_xdr(e), None, true);
    wa_ex_raw(cx, tr, out, "xdr-extra-field", &payload, &pk, &shapes::Extra { authenticator_data: adb.clone(), client_data: cdb.clone(), extra: 7, signature: BytesN::from_array(e, &sig64) }.to_xdr(e), None, true);
    wa_ex_raw(cx, tr, out, "xdr-garbage", &payload, &pk, &Bytes::from_slice(e, &rbytes(rng, 40)), no, true);
    wa_ex_raw(cx, tr, out, "xdr-empty", &payload, &pk, &Bytes::new(e), no, true);
    { let v = bv(&good); wa_ex_raw(cx, tr, out, "xdr-truncated", &payload, &pk, &Bytes::from_slice(e, &v[..v.len() - 4]), no, true); }
    { let mut v = bv(&good); v.extend_from_slice(&[0, 0, 0, 0]); wa_ex_raw(cx, tr, out, "xdr-trailing", &payload, &pk, &Bytes::from_slice(e, &v), None, true); }
    // ---------------------------------------------------------------------------------------------------------
    // round 4: situations of the classes K2 (unusual but legal values), K5 (aliasing), K6 (histories), K3/K1 (the
    // verifier invoked by another contract through the generic interface); one label per situation, all deterministic
    // ---------------------------------------------------------------------------------------------------------
    // K5: the bytes payload ++ key_data ++ sig_data of the genuine call accepted at the start of the trace, cut at
    // other places (an approval remembered under a hash of the concatenation would be found again)
    {
        let kd_full = [&pk[..], &tr.cred.clone()[..]].concat();
        let gv = bv(&good);
        wa_ex_raw(cx, tr, out, "concat-shift", &[&payload[..], &kd_full[..1]].concat(), &kd_full[1..], &good, no, false);
        wa_ex_raw(cx, tr, out, "concat-shift", &payload[..31], &[&payload[31..], &kd_full[..]].concat(), &good, no, false);
        wa_ex_raw(cx, tr, out, "concat-shift", &payload, &[&kd_full[..], &gv[..1]].concat(), &Bytes::from_slice(e, &gv[1..]), no, false);
    }
    // K2: long authenticator data (attested credential data / extensions follow the counter), genuine
    for n in [256usize, 257, 1000 + rng.below(48) as usize, 4096] {
        let ad2 = make_ad(rng, flags, n.max(min_ad));
        let a = sign_asn(&sk, &pk, &payload, &ad2, &cd);
        wa_any(cx, tr, out, rng, "ad-len-large", &a, Some(true), true);
    }
    // K2: degenerate keys and signatures
    for (k, key2) in [("key-zero", vec![0u8; 65]), ("key-ones", vec![0xFFu8; 65])] { let mut a = g.clone(); a.key = key2; wa_any(cx, tr, out, rng, k, &a, no, true); }
    for (k, sig2) in [("sig-ones", vec![0xFFu8; 64]), ("sig-r-zero", [&[0u8; 32][..], &g.sig[32..]].concat()), ("sig-s-zero", [&g.sig[..32], &[0u8; 32][..]].concat())] {
        let mut a = g.clone(); a.sig = sig2; wa_any(cx, tr, out, rng, k, &a, no, true);
    }
    // K2: the challenge differing from the expected one in exactly one character, at the first / second / a middle /
    // the second-to-last position (the last one is in "challenge-changed"), signed again
    for pos in [0usize, 1, 21, 41] {
        let mut c = ch.clone().into_bytes(); c[pos] = if c[pos] == b'A' { b'B' } else { b'A' };
        let a = sign_asn(&sk, &pk, &payload, &ad, &make_cd(style, "webauthn.get", &String::from_utf8(c).unwrap(), 0));
        wa_any(cx, tr, out, rng, "challenge-pos", &a, no, true);
    }
    // K2: the signature counter (bytes 33..37) at u32::MAX and then at 0 - a counter going DOWN; both genuine
    for (k, cnt) in [("signcount-max", [0xFFu8; 4]), ("signcount-zero", [0u8; 4])] {
        let mut ad2 = make_ad(rng, flags, 37.max(min_ad)); ad2[..32].copy_from_slice(&ad[..32]); ad2[33..37].copy_from_slice(&cnt);
        let a = sign_asn(&sk, &pk, &payload, &ad2, &cd);
        wa_any(cx, tr, out, rng, k, &a, Some(true), true);
    }
    // K5: authenticator data and client data are the SAME byte string (byte 32 of this JSON text is 'e' = 0x65: UP, UV, no BS)
    {
        let c0 = make_cd(0, "webauthn.get", &ch, 0);
        assert!(c0.len() >= 37 && flags_rule(c0[32]));
        let a = sign_asn(&sk, &pk, &payload, &c0, &c0);
        wa_any(cx, tr, out, rng, "alias-ad-cd", &a, Some(c0.len() >= min_ad.max(37)), true);
    }
    // K5: the payload is the x coordinate of the public key
    {
        let p2 = pk[1..33].to_vec();
        let a = sign_asn(&sk, &pk, &p2, &ad, &make_cd(style, "webauthn.get", &String::from_utf8(b64url(&p2)).unwrap(), 0));
        wa_any(cx, tr, out, rng, "alias-payload-key", &a, Some(true), true);
    }
    // K5 / K2: a credential id that is itself a public key: the same key twice (genuine), and a second key whose owner
    // signed (only the FIRST 65 bytes are the key)
    {
        wa_ex_raw(cx, tr, out, "key-data-twice", &payload, &[&pk[..], &pk[..]].concat(), &good, Some(true), true);
        let s2: [u8; 64] = p256_sign(&sk2, &wa_message_digest(&ad, &cd)).try_into().unwrap();
        let sd2 = WebAuthnSigData { signature: BytesN::from_array(e, &s2), authenticator_data: adb.clone(), client_data: cdb.clone() }.to_xdr(e);
        wa_ex_raw(cx, tr, out, "key-data-second-key", &payload, &[&pk[..], &pk2[..]].concat(), &sd2, no, false);
    }
    // K6: a key never seen before whose FIRST assertion is a corrupted one, then its genuine one
    {
        let (sk3, pk3) = p256_key(rng);
        let g3 = sign_asn(&sk3, &pk3, &payload, &ad, &cd);
        let mut bad = g3.clone(); bad.sig[63] ^= 1;
        wa_any(cx, tr, out, rng, "fresh-corrupted-first", &bad, no, true);
        wa_any(cx, tr, out, rng, "fresh-genuine-after", &g3, Some(true), true);
    }
    // K3 / K1: the verifier invoked by another contract (as smart_account::authenticate does), arguments as plain Vals
    {
        wa_fwd(cx, tr, out, "genuine", &g, Some(true));
        { let mut a = g.clone(); a.sig[0] ^= 0x80; wa_fwd(cx, tr, out, "sig-bit", &a, no); }
        { let mut a = g.clone(); a.payload[0] ^= 1; wa_fwd(cx, tr, out, "payload-bit", &a, no); }
        { let mut ad2 = ad.clone(); ad2[32] = flags & !4; let a = sign_asn(&sk, &pk, &payload, &ad2, &cd); wa_fwd(cx, tr, out, "flags-invalid", &a, Some(false)); }
        wa_ex_via(cx, tr, out, Via::Fwd, "key-data-short", &payload, &pk[..64], &good, no, true);
    }
    // statelessness: the same genuine assertion is accepted again after all of the above and after a long ledger gap
    e.ledger().with_mut(|l| l.sequence_number += [20u32, 100, 17281, 20000, 600000, 4000000][idx % 6]);
    wa_any(cx, tr, out, rng, "genuine-again", &g, Some(true), true);
    tr.flush(out, "webauthn: genuine assertion, corruptions, re-signed variants");
}

fn ed_trace(cx: &Ctx, out: &mut Out, rng: &mut Rng, n: usize) {
    use ed25519_dalek::{Signer, SigningKey};
    let mut tr = Tr::new();
    let tr = &mut tr;
    for i in 0..n {
        let sk = SigningKey::from_bytes(&rbytes(rng, 32).try_into().unwrap());
        let sk2 = SigningKey::from_bytes(&rbytes(rng, 32).try_into().unwrap());
        let pk = sk.verifying_key().to_bytes().to_vec();
        let plen = match i % 8 { 0 => 32, 1 => 0, 2 => 1, 3 => 31, 4 => 33, 5 => 64, 6 => 100, _ => rng.below(300) as usize };
        let p = rbytes(rng, plen);
        let sig = sk.sign(&p).to_bytes().to_vec();
        let no = Some(false);
        ed_call(cx, tr, out, false, "genuine", &p, &pk, &sig, Some(true));
        ed_call(cx, tr, out, true, "genuine", &p, &pk, &sig, Some(true));
        // entry point: alternates deterministically (every kind meets both parities of i within a trace)
        let cnt = std::cell::Cell::new(0usize);
        let via = |_rng: &mut Rng| { cnt.set(cnt.get() + 1); (cnt.get() + i) % 2 == 0 };
        if plen > 0 { for j in 0..4 { ed_call(cx, tr, out, j % 2 == 0, "payload-bit", &flip(rng, &p), &pk, &sig, no); } }
        { let v = via(rng); ed_call(cx, tr, out, v, "payload-append", &[&p[..], &[0u8][..]].concat(), &pk, &sig, no); }
        if plen > 0 { let v = via(rng); ed_call(cx, tr, out, v, "payload-truncate", &p[..plen - 1], &pk, &sig, no); }
        if plen > 32 { let v = via(rng); ed_call(cx, tr, out, v, "payload-prefix32", &p[..32], &pk, &sig, no); }
        for j in 0..4 { ed_call(cx, tr, out, j % 2 == 0, "key-bit", &p, &flip(rng, &pk), &sig, no); }
        { let v = via(rng); ed_call(cx, tr, out, v, "key-other", &p, &sk2.verifying_key().to_bytes(), &sig, no); }
        for j in 0..4 { ed_call(cx, tr, out, j % 2 == 0, "sig-bit", &p, &pk, &flip(rng, &sig), no); }
        { let v = via(rng); ed_call(cx, tr, out, v, "sig-other-key", &p, &pk, &sk2.sign(&p).to_bytes(), no); }
        { let v = via(rng); ed_call(cx, tr, out, v, "sig-other-payload", &p, &pk, &sk.sign(&rbytes(rng, 32)).to_bytes(), no); }
        { let v = via(rng); ed_call(cx, tr, out, v, "sig-noncanonical-s", &p, &pk, &ed_noncanonical(&sig), no); }
        { let v = via(rng); ed_call(cx, tr, out, v, "sig-zero", &p, &pk, &[0u8; 64], no); }
        { let v = via(rng); ed_call(cx, tr, out, v, "sig-swap", &p, &pk, &[&sig[32..], &sig[..32]].concat(), no); }
        // small-order / degenerate keys: the oracle decides
        let mut ident = [0u8; 32]; ident[0] = 1;
        // the identity as key with a signature made for another key: not a valid signature under any verification equation
        ed_call(cx, tr, out, false, "key-identity", &p, &ident, &sig, no);
        ed_call(cx, tr, out, true, "key-identity", &p, &ident, &sig, no);
        // order-4 key, R = that point, S = 0: valid under RFC 8032's cofactored equation for every message, rejected by
        // strict verification - the text ("a valid signature") does not decide
        { let v = via(rng); ed_call(cx, tr, out, v, "key-small-order-cofactored", &p, &[0u8; 32], &[0u8; 64], None); }
        // ---- round 4: K2 boundary / large payloads (genuine), K5 aliasing, K2 degenerate key / signature, K1 the
        // verifier's own contract id as key, K3 the generic interface (any length) from the top level and from a
        // contract, K6 a fresh key whose first signature is a corrupted one ----
        let alt = |k: usize| if (k + i) % 2 == 0 { EdVia::Ex } else { EdVia::Lib };
        let bp = if i % 2 == 0 { vec![0u8; 32] } else { vec![0xFFu8; 32] };
        let bsig = sk.sign(&bp).to_bytes().to_vec();
        ed_gen(cx, tr, out, EdVia::Lib, "genuine-boundary-payload", &bp, &pk, &bsig, Some(true));
        ed_gen(cx, tr, out, EdVia::Ex, "genuine-boundary-payload", &bp, &pk, &bsig, Some(true));
        let ln = [1024usize, 1025, 4096, 255, 256, 257, 65, 10000][i % 8];
        let lp = rbytes(rng, ln);
        let lsig = sk.sign(&lp).to_bytes().to_vec();
        ed_gen(cx, tr, out, EdVia::Lib, "genuine-large-payload", &lp, &pk, &lsig, Some(true));
        ed_gen(cx, tr, out, EdVia::Ex, "genuine-large-payload", &lp, &pk, &lsig, Some(true));
        { let mut q = lp.clone(); *q.last_mut().unwrap() ^= 1; ed_gen(cx, tr, out, alt(0), "large-payload-bit", &q, &pk, &lsig, no); }
        let asig = sk.sign(&pk).to_bytes().to_vec();
        ed_gen(cx, tr, out, EdVia::Lib, "alias-payload-key", &pk, &pk, &asig, Some(true));
        ed_gen(cx, tr, out, EdVia::Ex, "alias-payload-key", &pk, &pk, &asig, Some(true));
        ed_gen(cx, tr, out, alt(1), "alias-sig-key-key", &p, &pk, &[&pk[..], &pk[..]].concat(), no);
        ed_gen(cx, tr, out, alt(0), "key-ones", &p, &[0xFFu8; 32], &sig, no);
        ed_gen(cx, tr, out, alt(1), "sig-ones", &p, &pk, &[0xFFu8; 64], no);
        { let idx = bv(&cx.ed_id.clone().to_xdr(cx.e)); let own = idx[idx.len() - 32..].to_vec(); ed_gen(cx, tr, out, alt(0), "key-own-contract-id", &p, &own, &sig, no); }
        let gv = if i % 2 == 0 { EdVia::Ex } else { EdVia::Fwd };
        ed_gen(cx, tr, out, gv, "key-len31", &p, &pk[..31], &sig, no);
        ed_gen(cx, tr, out, gv, "key-len33", &p, &[&pk[..], &[0u8][..]].concat(), &sig, no);
        ed_gen(cx, tr, out, gv, "sig-len63", &p, &pk, &sig[..63], no);
        ed_gen(cx, tr, out, gv, "sig-len65", &p, &pk, &[&sig[..], &[0u8][..]].concat(), no);
        ed_gen(cx, tr, out, EdVia::Fwd, "genuine", &p, &pk, &sig, Some(true));
        ed_gen(cx, tr, out, EdVia::Fwd, "sig-bit", &p, &pk, &flip(rng, &sig), no);
        ed_gen(cx, tr, out, EdVia::Fwd, "payload-append", &[&p[..], &[0u8][..]].concat(), &pk, &sig, no);
        {
            let sk3 = SigningKey::from_bytes(&rbytes(rng, 32).try_into().unwrap());
            let pk3 = sk3.verifying_key().to_bytes().to_vec();
            let s3 = sk3.sign(&p).to_bytes().to_vec();
            let mut bad = s3.clone(); bad[63 - (i % 2) * 32] ^= 1;
            ed_gen(cx, tr, out, EdVia::Lib, "fresh-corrupted-first", &p, &pk3, &bad, no);
            ed_gen(cx, tr, out, EdVia::Ex, "fresh-corrupted-first", &p, &pk3, &bad, no);
            ed_gen(cx, tr, out, EdVia::Lib, "fresh-genuine-after", &p, &pk3, &s3, Some(true));
            ed_gen(cx, tr, out, EdVia::Ex, "fresh-genuine-after", &p, &pk3, &s3, Some(true));
        }
        ed_call(cx, tr, out, via(rng), "genuine-again", &p, &pk, &sig, Some(true));
    }
    tr.flush(out, "ed25519: genuine signatures and corruptions");
}

fn bound_term(k: u32, n: u32) -> String { match k { 0 => "Unbounded".into(), 1 => format!("(Included {})", n), _ => format!("(Excluded {})", n) } }

fn small_calls(cx: &Ctx, out: &mut Out, rng: &mut Rng, thorough: bool) {
    let e = cx.e;
    let need = |n: usize| (4 * n + 2) / 3;
    // ---- base64url: every length, exact / short / long destination ----
    let mut tr = Tr::new();
    let b64 = |tr: &mut Tr, out: &mut Out, kind: &str, dst: usize, src: &[u8]| {
        let r = cx.lib.try_b64(&(dst as u32), &Bytes::from_slice(e, src));
        let (res, tag) = match r { Ok(Ok(v)) => (format!("(Ok (OBytes {}))", tr.bs(&bv(&v))), "ok"), _ => ("Fail".to_string(), "fail") };
        let call = format!("B64 {} {}", dst, tr.bs(src));
        tr.push(out, &format!("b64/{}/{}", kind, tag), call, res);
    };
    let maxlen = if thorough { 200 } else { 64 };
    let reps = if thorough { 6 } else { 2 } * out.cfg.scale as usize;
    for n in 0..=maxlen {
        for r in 0..reps {
            let src = match r { 0 => rbytes(rng, n), 1 => (0..n).map(|_| *rng.pick(&[0u8, 0xFF, 0xFB, 0xFE, 0x3E, 0x3F, 0xF8, 0x80, 0x01])).collect(), _ => rbytes(rng, n) };
            b64(&mut tr, out, &format!("len{}mod3", n % 3), need(n), &src);
            if r == 0 {
                if need(n) > 0 { b64(&mut tr, out, "short-dst", need(n) - 1, &src); }
                b64(&mut tr, out, "long-dst", need(n) + 1 + rng.below(4) as usize, &src);
                if n % 3 != 0 { b64(&mut tr, out, "short-dst", need(n - n % 3), &src); }
            }
        }
        if n % 16 == 15 { tr.flush(out, "base64url: lengths, destination sizes"); }
    }
    tr.flush(out, "base64url: lengths, destination sizes");
    // round 4 (K2): lengths around 2^k and k*64*3 (an index or length kept in a narrower integer, a fixed-size fast path)
    for n in [127usize, 128, 129, 191, 192, 193, 255, 256, 257, 300, 767, 768, 1023, 1024] {
        let src = rbytes(rng, n);
        b64(&mut tr, out, "len-large", need(n), &src);
        let src2: Vec<u8> = (0..n).map(|_| *rng.pick(&[0u8, 0xFF, 0xFB, 0xFE, 0x3E, 0x3F, 0xF8, 0x80, 0x01])).collect();
        b64(&mut tr, out, "len-large", need(n) + 2, &src2);
        b64(&mut tr, out, "short-dst", need(n) - 1, &src);
    }
    tr.flush(out, "base64url: long inputs");
    // round 4 (K2): a destination buffer that is NOT zeroed (all ones, 'A's, random): the encoding must be written,
    // not merged, and the rest left as it was
    let b64f = |tr: &mut Tr, out: &mut Out, kind: &str, dst: &[u8], src: &[u8]| {
        let r = cx.lib.try_b64f(&Bytes::from_slice(e, dst), &Bytes::from_slice(e, src));
        let (res, tag) = match r { Ok(Ok(v)) => (format!("(Ok (OBytes {}))", tr.bs(&bv(&v))), "ok"), _ => ("Fail".to_string(), "fail") };
        let call = format!("B64F {} {}", tr.bs(dst), tr.bs(src));
        tr.push(out, &format!("b64/{}/{}", kind, tag), call, res);
    };
    for n in [0usize, 1, 2, 3, 4, 5, 6, 31, 32, 33] {
        let src = rbytes(rng, n);
        for (j, fill) in [0xFFu8, b'A', 0x80].into_iter().enumerate() {
            b64f(&mut tr, out, "dst-filled", &std::vec![fill; need(n) + [0usize, 1, 3][j]], &src);
        }
        { let d = rbytes(rng, need(n) + 2); b64f(&mut tr, out, "dst-filled", &d, &src); }
        if need(n) > 0 { b64f(&mut tr, out, "dst-filled-short", &std::vec![0xFFu8; need(n) - 1], &src); }
    }
    tr.flush(out, "base64url: destination buffer not zeroed");
    // all single bytes, and pairs / triples hitting every sextet value in every position
    for a in 0..=255u8 { b64(&mut tr, out, "len1mod3", 2, &[a]); }
    tr.flush(out, "base64url: all single bytes");
    for v in 0..64u32 {
        for pos in 0..4u32 {
            let x: u32 = (v << (18 - 6 * pos)) | (rng.next_u64() as u32 & 0xFFFFFF & !(0x3F << (18 - 6 * pos)));
            let t = [(x >> 16) as u8, (x >> 8) as u8, x as u8];
            b64(&mut tr, out, "len0mod3", 4, &t);
            if pos < 3 { b64(&mut tr, out, "len2mod3", 3, &t[..2]); }
        }
    }
    tr.flush(out, "base64url: every sextet value in every position");
    let nr = if thorough { 3000 } else { 200 } * out.cfg.scale as usize;
    for i in 0..nr {
        let n = 1 + rng.below(3) as usize + 3 * rng.below(3) as usize;
        b64(&mut tr, out, &format!("len{}mod3", n % 3), need(n), &rbytes(rng, n));
        if i % 100 == 99 { tr.flush(out, "base64url: random short inputs"); }
    }
    tr.flush(out, "base64url: random short inputs");

    // ---- extract_from_bytes ----
    let ext = |tr: &mut Tr, out: &mut Out, n: u32, data: &[u8], sk: u32, s: u32, ek: u32, en: u32| {
        let d = Bytes::from_slice(e, data);
        let r: Option<Option<Vec<u8>>> = match n {
            3 => cx.lib.try_extract3(&d, &sk, &s, &ek, &en).ok().and_then(|x| x.ok()).map(|o| o.map(|b| b.to_array().to_vec())),
            32 => cx.lib.try_extract32(&d, &sk, &s, &ek, &en).ok().and_then(|x| x.ok()).map(|o| o.map(|b| b.to_array().to_vec())),
            _ => cx.lib.try_extract65(&d, &sk, &s, &ek, &en).ok().and_then(|x| x.ok()).map(|o| o.map(|b| b.to_array().to_vec())),
        };
        let (res, tag) = match r { Some(Some(v)) => (format!("(Ok (OOpt (Some {})))", tr.bs(&v)), "some"), Some(None) => ("(Ok (OOpt None))".to_string(), "none"), None => ("Fail".to_string(), "fail") };
        let call = format!("Extract {} {} {} {}", n, bound_term(sk, s), bound_term(ek, en), tr.bs(data));
        tr.push(out, &format!("extract/{}", tag), call, res);
    };
    for &n in &[3u32, 32, 65] {
        for dl in [0u32, n - 1, n, n + 1, 2 * n, 2 * n + 5] {
            let data = rbytes(rng, dl as usize);
            // the ordinary a..b ranges around every boundary
            for s in [0u32, 1, n, dl.saturating_sub(n), dl] {
                for en in [s + n - 1, s + n, s + n + 1, dl, dl + 1, s, s.saturating_sub(1)] { ext(&mut tr, out, n, &data, 1, s, 2, en); }
            }
            // other bound kinds
            for (sk, ek) in [(0u32, 0u32), (0, 1), (0, 2), (1, 0), (1, 1), (2, 0), (2, 1), (2, 2)] {
                for _ in 0..2 {
                    let s = if sk == 0 { 0 } else { rng.below(dl as u64 + 2) as u32 };
                    let en = match rng.below(4) { 0 => s + n, 1 => (s + n).saturating_sub(1), 2 => dl, _ => rng.below(dl as u64 + 3) as u32 };
                    ext(&mut tr, out, n, &data, sk, s, ek, if ek == 0 { 0 } else { en });
                }
            }
            ext(&mut tr, out, n, &data, 1, 0, 1, u32::MAX);
            ext(&mut tr, out, n, &data, 1, u32::MAX, 2, dl);
            ext(&mut tr, out, n, &data, 2, u32::MAX, 2, dl);
            ext(&mut tr, out, n, &data, 1, 5, 2, 2);
        }
        tr.flush(out, "extract_from_bytes: ranges and bound kinds");
    }

    // ---- the flag validators on every byte; type and challenge validators ----
    for f in 0..=255u32 {
        let r = cx.lib.try_flags(&f);
        let okk = matches!(r, Ok(Ok(())));
        tr.push(out, &format!("flags/{}", if okk { "ok" } else { "fail" }), format!("Flags {}", f), if okk { "(Ok OUnit)".into() } else { "Fail".into() });
    }
    tr.flush(out, "flag validators: all 256 flag bytes");
    for w in 0..3u32 {
        for f in 0..=255u32 {
            let okk = matches!(cx.lib.try_flag_one(&w, &f), Ok(Ok(())));
            tr.push(out, &format!("flag-{}/{}", ["up", "uv", "backup"][w as usize], if okk { "ok" } else { "fail" }), format!("FlagOne {} {}", w, f), if okk { "(Ok OUnit)".into() } else { "Fail".into() });
        }
        tr.flush(out, "single flag validators: all 256 flag bytes");
    }
    for ty in ["webauthn.get", "webauthn.create", "", "webauthn.ge", "webauthn.gett", "WEBAUTHN.GET", "webauthn.get\u{0}", "webauthn.get\u{e9}", "webauthn.g\u{e9}t", "\u{1F511}webauthn.get", "webauthn,get", "xebauthn.get", "webauthn.geu", "w", "webauthn.get.get"] {
        let okk = matches!(cx.lib.try_type_chk(&Bytes::from_slice(e, ty.as_bytes())), Ok(Ok(())));
        let call = format!("TypeChk {}", tr.bs(ty.as_bytes()));
        tr.push(out, &format!("type/{}", if okk { "ok" } else { "fail" }), call, if okk { "(Ok OUnit)".into() } else { "Fail".into() });
    }
    let nch = if thorough { 400 } else { 40 } * out.cfg.scale as usize;
    for i in 0..nch {
        let plen = match i % 6 { 0 | 1 | 2 => 32usize, 3 => 31, 4 => 33, _ => rng.below(70) as usize };
        let p = rbytes(rng, plen);
        let good = b64url(&p[..plen.min(32)]);
        let mut chs: Vec<Vec<u8>> = vec![good.clone()];
        if !good.is_empty() {
            chs.push(flip_in(rng, &good, 0, good.len()).iter().map(|c| if c.is_ascii() { *c } else { b'?' }).collect());
            chs.push(good[..good.len() - 1].to_vec());
            let mut g2 = good.clone(); let l = g2.len() - 1; g2[l] = if g2[l] == b'A' { b'B' } else { b'A' }; chs.push(g2);
        }
        chs.push([&good[..], &b"="[..]].concat());
        chs.push(b64url(&p));
        for c in chs {
            let okk = matches!(cx.lib.try_challenge(&Bytes::from_slice(e, &c), &Bytes::from_slice(e, &p)), Ok(Ok(())));
            let call = format!("Challenge {} {}", tr.bs(&c), tr.bs(&p));
            tr.push(out, &format!("challenge/{}", if okk { "ok" } else { "fail" }), call, if okk { "(Ok OUnit)".into() } else { "Fail".into() });
        }
        if i % 20 == 19 { tr.flush(out, "type and challenge validators"); }
    }
    tr.flush(out, "type and challenge validators");
    // round 4 (K2): the challenge with exactly one character changed, at every one of the 43 positions; the all-zero and
    // all-ones payloads
    {
        let p = rbytes(rng, 32);
        let good = b64url(&p);
        for pos in 0..good.len() {
            let mut c = good.clone(); c[pos] = if c[pos] == b'A' { b'B' } else { b'A' };
            let okk = matches!(cx.lib.try_challenge(&Bytes::from_slice(e, &c), &Bytes::from_slice(e, &p)), Ok(Ok(())));
            let call = format!("Challenge {} {}", tr.bs(&c), tr.bs(&p));
            tr.push(out, &format!("challenge-pos/{}", if okk { "ok" } else { "fail" }), call, if okk { "(Ok OUnit)".into() } else { "Fail".into() });
        }
        for p in [vec![0u8; 32], vec![0xFFu8; 32]] {
            let c = b64url(&p);
            let okk = matches!(cx.lib.try_challenge(&Bytes::from_slice(e, &c), &Bytes::from_slice(e, &p)), Ok(Ok(())));
            let call = format!("Challenge {} {}", tr.bs(&c), tr.bs(&p));
            tr.push(out, &format!("challenge-boundary-payload/{}", if okk { "ok" } else { "fail" }), call, if okk { "(Ok OUnit)".into() } else { "Fail".into() });
        }
    }
    tr.flush(out, "challenge validator: every position, boundary payloads");
}

/// round 4 (K3): the example contracts reached through the generic interface with an argument that is NOT of the declared
/// type (Void, u32, Symbol, a Vec holding the right bytes, a String holding the right bytes, an Address, a bool) in each
/// of the three positions, the other two arguments being those of a genuine assertion; from the top level and from a contract
fn bad_arg_trace(cx: &Ctx, out: &mut Out, rng: &mut Rng) {
    use ed25519_dalek::{Signer, SigningKey};
    let e = cx.e;
    let mut tr = Tr::new();
    let tr = &mut tr;
    // genuine arguments of the two verifiers
    let payload = rbytes(rng, 32);
    let esk = SigningKey::from_bytes(&rbytes(rng, 32).try_into().unwrap());
    let epk = esk.verifying_key().to_bytes().to_vec();
    let esig = esk.sign(&payload).to_bytes().to_vec();
    let (sk, pk) = p256_key(rng);
    let ad = make_ad(rng, 0x05, AUTHENTICATOR_DATA_MIN_LEN.max(37));
    let cd = make_cd(0, "webauthn.get", &String::from_utf8(b64url(&payload)).unwrap(), 0);
    let g = sign_asn(&sk, &pk, &payload, &ad, &cd);
    let s64: [u8; 64] = g.sig.clone().try_into().unwrap();
    let xdr = WebAuthnSigData { signature: BytesN::from_array(e, &s64), authenticator_data: Bytes::from_slice(e, &ad), client_data: Bytes::from_slice(e, &cd) }.to_xdr(e);
    // the genuine ones are accepted through the same generic route
    ed_gen(cx, tr, out, EdVia::Ex, "genuine", &payload, &epk, &esig, Some(true));
    wa_ex_raw(cx, tr, out, "genuine", &payload, &pk, &xdr, Some(true), true);
    for which in 0..2u32 {
        let good: [Vec<u8>; 3] = if which == 0 { [payload.clone(), epk.clone(), esig.clone()] } else { [payload.clone(), pk.clone(), bv(&xdr)] };
        for via in [Via::Top, Via::Fwd] {
            for pos in 0..3usize {
                for ty in 0..7u32 {
                    let orig = Bytes::from_slice(e, &good[pos]);
                    let bad: Val = match ty {
                        0 => Val::VOID.to_val(),
                        1 => 7u32.into_val(e),
                        2 => Symbol::new(e, "verify").to_val(),
                        3 => soroban_sdk::vec![e, orig.clone()].to_val(),
                        4 => soroban_sdk::String::from_bytes(e, &good[pos]).to_val(),
                        5 => cx.ed_id.to_val(),
                        _ => true.into_val(e),
                    };
                    let mut args: [Val; 3] = [Bytes::from_slice(e, &good[0]).to_val(), Bytes::from_slice(e, &good[1]).to_val(), Bytes::from_slice(e, &good[2]).to_val()];
                    args[pos] = bad;
                    bad_arg(cx, tr, out, which, via, 100 * pos as u32 + ty, args[0], args[1], args[2]);
                }
            }
        }
    }
    tr.flush(out, "example verifiers: arguments of another type through the generic interface");
}

fn main() {
    // panics inside the contracts under test are expected outcomes (caught by the host); only the harness's own are shown
    std::panic::set_hook(Box::new(|info| {
        if info.location().map(|l| l.file().ends_with("c18.rs")).unwrap_or(true) || std::env::var("C18_VERBOSE").is_ok() { eprintln!("harness panic: {}", info); }
    }));
    let mut out = Out::new("From SC Require Import Lib.Prelude Lib.Int Model.Base64 Model.Verifiers Run.C18 Run.C18Unpack.\nFrom Coq Require Import Uint63.\nOpen Scope Z_scope.", "check_all");
    out.per_shard(220);
    let e = Env::default();
    e.cost_estimate().budget().reset_unlimited();
    e.cost_estimate().disable_resource_limits();
    // long ledger advances happen between calls: the registered contracts must outlive them
    e.ledger().with_mut(|l| { l.sequence_number = 1000; l.min_persistent_entry_ttl = 3_000_000_000; l.min_temp_entry_ttl = 16; l.max_entry_ttl = 3_100_000_000; });
    let lib_id = e.register(Lib, ());
    let wa_id = e.register(wa_ex::WebauthnVerifierContract, ());
    let ed_id = e.register(ed_ex::Ed25519VerifierContract, ());
    let fwd_id = e.register(Fwd, ());
    let cx = Ctx { e: &e, lib: LibClient::new(&e, &lib_id), wa: VerifierClient::new(&e, &wa_id), ed: VerifierClient::new(&e, &ed_id),
                   fwd: FwdClient::new(&e, &fwd_id), wa_id: wa_id.clone(), ed_id: ed_id.clone() };
    // the harness's own SHA-256 against the host's
    for m in [&b""[..], &b"abc"[..], &[0x61u8; 119][..], &[7u8; 64][..], &[9u8; 55][..], &[1u8; 56][..]] {
        assert_eq!(sha256(m), e.crypto().sha256(&Bytes::from_slice(&e, m)).to_array(), "own SHA-256 disagrees with the host");
    }
    assert_eq!(b64url(b"Man"), b"TWFu"); assert_eq!(b64url(&[0xfb, 0xff]), b"-_8");
    let mut rng = Rng::new(out.cfg.seed);
    let thorough = out.cfg.thorough;
    let scale = out.cfg.scale as usize;
    small_calls(&cx, &mut out, &mut rng, thorough);
    { let mut r = rng.fork(777); bad_arg_trace(&cx, &mut out, &mut r); }
    let nwa = if thorough { 64 } else { 14 } * scale;
    for i in 0..nwa { let mut r = rng.fork(i as u64); wa_trace(&cx, &mut out, &mut r, thorough, i); }
    let ned = if thorough { 24 } else { 6 } * scale;
    for i in 0..ned { let mut r = rng.fork(1000 + i as u64); ed_trace(&cx, &mut out, &mut r, 8); }
    out.finish();
}
