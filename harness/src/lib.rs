//! Shared pieces of the correspondence harness: PRNG, Gallina printers, trace/shard writer.
#![allow(dead_code)]
use std::collections::BTreeMap;
use std::fmt::Write as _;
use std::io::Write as _;
use std::sync::atomic::{AtomicU64, Ordering};
use std::sync::Mutex;

// ---------- watchdog: a call of the implementation that never returns ----------
// The harnesses run the contracts natively with an unlimited host budget, so a change that makes a loop of
// the code under test non-terminating (on chain: budget exhaustion, i.e. the call fails) would hang the
// harness. A watchdog thread measures the CPU time this process burns between two progress marks
// (`Out::case/label/trace`, `tick()`); CPU time, not wall-clock, so a loaded machine cannot trip it. When
// the limit is exceeded it reports where the run stood and exits with code 86; `check` reports a harness
// that aborts while driving the implementation as `VIOLATION ... no-failing-input-found`.
static PROGRESS: AtomicU64 = AtomicU64::new(0);
static MAX_GAP_MS: AtomicU64 = AtomicU64::new(0);
static LAST_MARK: Mutex<String> = Mutex::new(String::new());
pub fn tick() { PROGRESS.fetch_add(1, Ordering::Relaxed); }
fn mark(s: &str) { tick(); if let Ok(mut g) = LAST_MARK.try_lock() { g.clear(); g.extend(s.chars().take(300)); } }
fn cpu_ms() -> u64 {
    // utime + stime of this process from /proc/self/stat (clock ticks of 10 ms)
    let st = std::fs::read_to_string("/proc/self/stat").unwrap_or_default();
    let rest = st.rsplit(')').next().unwrap_or("");
    let f: Vec<&str> = rest.split_whitespace().collect();
    if f.len() > 12 { (f[11].parse::<u64>().unwrap_or(0) + f[12].parse::<u64>().unwrap_or(0)) * 10 } else { 0 }
}
fn start_watchdog() {
    static STARTED: AtomicU64 = AtomicU64::new(0);
    if STARTED.swap(1, Ordering::SeqCst) != 0 { return; }
    let limit_ms = std::env::var("VERIF_HANG_CPU_S").ok().and_then(|s| s.parse::<u64>().ok()).unwrap_or(240) * 1000;
    std::thread::spawn(move || {
        let (mut seen, mut cpu_at) = (PROGRESS.load(Ordering::Relaxed), cpu_ms());
        loop {
            std::thread::sleep(std::time::Duration::from_millis(1000));
            let (p, c) = (PROGRESS.load(Ordering::Relaxed), cpu_ms());
            let gap = c.saturating_sub(cpu_at);
            if gap > MAX_GAP_MS.load(Ordering::Relaxed) { MAX_GAP_MS.store(gap, Ordering::Relaxed); }
            if p != seen { seen = p; cpu_at = c; continue; }
            if gap > limit_ms {
                let last = LAST_MARK.lock().map(|g| g.clone()).unwrap_or_default();
                eprintln!("WATCHDOG: the implementation did not return: {} s of CPU time without completing a call \
                           (VERIF_SEED={:?} VERIF_TIER={:?}); progress marks so far: {}; last completed step: {}",
                          gap / 1000, std::env::var("VERIF_SEED").ok(), std::env::var("VERIF_TIER").ok(), p, last);
                std::process::exit(86);
            }
        }
    });
}

/// SplitMix64: every random choice of a run derives from one state seeded by VERIF_SEED.
#[derive(Clone)]
pub struct Rng(pub u64);
impl Rng {
    pub fn new(seed: u64) -> Self { Rng(seed ^ 0x9E37_79B9_7F4A_7C15) }
    pub fn fork(&mut self, tag: u64) -> Rng { Rng(self.next_u64() ^ tag.wrapping_mul(0xD6E8_FEB8_6659_FD93)) }
    pub fn next_u64(&mut self) -> u64 {
        self.0 = self.0.wrapping_add(0x9E37_79B9_7F4A_7C15);
        let mut z = self.0;
        z = (z ^ (z >> 30)).wrapping_mul(0xBF58_476D_1CE4_E5B9);
        z = (z ^ (z >> 27)).wrapping_mul(0x94D0_49BB_1331_11EB);
        z ^ (z >> 31)
    }
    pub fn next_u128(&mut self) -> u128 { ((self.next_u64() as u128) << 64) | self.next_u64() as u128 }
    pub fn below(&mut self, n: u64) -> u64 { if n == 0 { 0 } else { self.next_u64() % n } }
    pub fn range(&mut self, lo: i64, hi: i64) -> i64 { lo + self.below((hi - lo + 1) as u64) as i64 }
    pub fn chance(&mut self, num: u64, den: u64) -> bool { self.below(den) < num }
    pub fn pick<'a, T>(&mut self, xs: &'a [T]) -> &'a T { &xs[self.below(xs.len() as u64) as usize] }
    /// random i128 of a random bit length (0..=127) and random sign
    pub fn i128_any(&mut self) -> i128 {
        let bits = self.below(128) as u32;
        let mag: u128 = if bits == 0 { 0 } else { (self.next_u128() >> (128 - bits)) | (1u128 << (bits - 1)) };
        let v = mag as i128;
        if self.chance(1, 2) { v.wrapping_neg() } else { v }
    }
    /// random non-negative i128 of random bit length up to `maxbits`
    pub fn u_bits(&mut self, maxbits: u32) -> i128 {
        let bits = self.below(maxbits as u64 + 1) as u32;
        if bits == 0 { 0 } else { ((self.next_u128() >> (128 - bits)) | (1u128 << (bits - 1))) as i128 }
    }
}

/// boundary lattice of i128 named in the properties
pub fn lattice128() -> Vec<i128> {
    let mut v = vec![0i128, 1, -1, 2, -2, 3, -3, 7, -7];
    for b in [1i128 << 63, 1i128 << 64, 1_000_000_000_000_000_000i128, 1i128 << 126] {
        for d in [-1i128, 0, 1] { v.push(b + d); v.push(-(b + d)); }
    }
    v.extend_from_slice(&[i128::MIN, i128::MIN + 1, i128::MIN + 2, i128::MAX, i128::MAX - 1, i128::MAX - 2]);
    v.sort(); v.dedup(); v
}

// ---------- Gallina printers ----------
pub fn z(v: i128) -> String { if v < 0 { format!("({})", v) } else { format!("{}", v) } }
pub fn zu(v: u128) -> String { format!("{}", v) }
pub fn n(v: u64) -> String { format!("{}%N", v) }
pub fn b(v: bool) -> String { if v { "true".into() } else { "false".into() } }
pub fn opt<T: AsRef<str>>(o: Option<T>) -> String { match o { Some(s) => format!("(Some {})", s.as_ref()), None => "None".into() } }
pub fn list<T: AsRef<str>>(xs: &[T]) -> String {
    let mut s = String::from("[");
    for (i, x) in xs.iter().enumerate() { if i > 0 { s.push_str("; "); } s.push_str(x.as_ref()); }
    s.push(']'); s
}
pub fn pair(a: &str, b: &str) -> String { format!("({}, {})", a, b) }

// ---------- run configuration ----------
pub struct Cfg { pub seed: u64, pub thorough: bool, pub out: String, pub only: Option<usize>, pub scale: u64 }
pub fn cfg() -> Cfg {
    let seed = std::env::var("VERIF_SEED").ok().and_then(|s| s.parse::<u64>().ok()).unwrap_or(1);
    let thorough = std::env::var("VERIF_TIER").map(|t| t == "thorough").unwrap_or(false);
    let out = std::env::var("VERIF_OUT").unwrap_or_else(|_| "/verif/.cache/run/tmp".into());
    let only = std::env::var("VERIF_ONLY").ok().and_then(|s| s.parse::<usize>().ok());
    let scale = std::env::var("VERIF_SCALE").ok().and_then(|s| s.parse::<u64>().ok()).unwrap_or(1);
    Cfg { seed, thorough, out, only, scale }
}

/// Collects traces (each a Gallina term of the property's trace type), statistics and samples,
/// and writes `shard_<k>.v` files plus `meta.json`.
pub struct Out {
    pub cfg: Cfg,
    header: String,     // Coq header (Require Import ..., Open Scope)
    check_fn: String,   // Coq function : list trace -> list verdict
    traces: Vec<(String, String, usize)>, // (name/description, term, number of calls)
    pub labels: BTreeMap<String, u64>,
    samples: Vec<String>,
    per_shard_calls: usize,
    pub calls: u64,
    distinct: std::collections::HashSet<u64>,
}
impl Out {
    pub fn new(header: &str, check_fn: &str) -> Self {
        start_watchdog();
        Out { cfg: cfg(), header: header.into(), check_fn: check_fn.into(), traces: vec![], labels: BTreeMap::new(),
              samples: vec![], per_shard_calls: 1500, calls: 0, distinct: Default::default() }
    }
    pub fn per_shard(&mut self, n: usize) { self.per_shard_calls = n; }
    /// record one executed case: histogram label + distinctness of the case text
    pub fn case(&mut self, label: &str, text: &str) {
        mark(label);
        self.label(label);
        let mut h: u64 = 0xcbf29ce484222325;
        for b in text.as_bytes() { h ^= *b as u64; h = h.wrapping_mul(0x100000001b3); }
        self.distinct.insert(h);
    }
    pub fn label(&mut self, l: &str) { tick(); *self.labels.entry(l.to_string()).or_insert(0) += 1; }
    pub fn trace(&mut self, desc: &str, term: String, ncalls: usize) {
        mark(&format!("trace #{} ({})", self.traces.len(), desc));
        self.calls += ncalls as u64;
        if self.samples.len() < 4 && ncalls > 0 { let mut t = term.clone(); if t.len() > 1500 { t.truncate(1500); t.push_str(" ..."); } self.samples.push(format!("{}: {}", desc, t)); }
        self.traces.push((desc.to_string(), term, ncalls));
    }
    pub fn wants(&self, idx: usize) -> bool { self.cfg.only.map(|o| o == idx).unwrap_or(true) }
    pub fn finish(self) {
        std::fs::create_dir_all(&self.cfg.out).unwrap();
        // shard
        let mut shards: Vec<Vec<usize>> = vec![vec![]];
        let mut acc = 0usize;
        for (i, t) in self.traces.iter().enumerate() {
            if acc > 0 && acc + t.2 > self.per_shard_calls { shards.push(vec![]); acc = 0; }
            shards.last_mut().unwrap().push(i); acc += t.2;
        }
        let mut index = String::new();
        for (k, sh) in shards.iter().enumerate() {
            if sh.is_empty() { continue; }
            let mut s = String::new();
            writeln!(s, "{}", self.header).unwrap();
            for &i in sh { writeln!(s, "Definition t{} := {}.", i, self.traces[i].1).unwrap(); }
            let names: Vec<String> = sh.iter().map(|i| format!("t{}", i)).collect();
            writeln!(s, "Definition verdicts := Eval vm_compute in ({} {}).", self.check_fn, list(&names)).unwrap();
            writeln!(s, "Print verdicts.").unwrap();
            let p = format!("{}/shard_{}.v", self.cfg.out, k);
            std::fs::File::create(&p).unwrap().write_all(s.as_bytes()).unwrap();
            for &i in sh { writeln!(index, "{}\t{}\t{}\t{}", k, i, self.traces[i].2, self.traces[i].0.replace('\t', " ")).unwrap(); }
        }
        std::fs::write(format!("{}/index.tsv", self.cfg.out), index).unwrap();
        // meta.json (hand-written JSON; strings escaped)
        let esc = |s: &str| s.replace('\\', "\\\\").replace('"', "\\\"").replace('\n', " ");
        let mut m = String::from("{");
        write!(m, "\"seed\": {}, \"tier\": \"{}\", \"traces\": {}, \"calls\": {}, \"distinct\": {}, \"max_cpu_gap_ms\": {}, \"labels\": {{", self.cfg.seed,
               if self.cfg.thorough { "thorough" } else { "quick" }, self.traces.len(), self.calls, self.distinct.len(),
               MAX_GAP_MS.load(Ordering::Relaxed)).unwrap();
        for (i, (k, v)) in self.labels.iter().enumerate() { if i > 0 { m.push_str(", "); } write!(m, "\"{}\": {}", esc(k), v).unwrap(); }
        m.push_str("}, \"samples\": [");
        for (i, s) in self.samples.iter().enumerate() { if i > 0 { m.push_str(", "); } write!(m, "\"{}\"", esc(s)).unwrap(); }
        m.push_str("]}");
        std::fs::write(format!("{}/meta.json", self.cfg.out), m).unwrap();
    }
}
