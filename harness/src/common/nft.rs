//! Shared by the C10 and C11 harnesses: the three NFT flavours of /repo registered as thin
//! contracts (the real `NonFungibleToken` / `NonFungibleBurnable` / `NonFungibleEnumerable`
//! trait defaults dispatching through `ContractType` = Base / Enumerable / Consecutive),
//! a call alphabet mirroring coq/Model/Nft.v, exact authorisation sets, full observation
//! of the public getters after every call, and the Gallina trace printer.
#![allow(dead_code)]
use soroban_sdk::testutils::{Address as _, Ledger as _, MockAuth, MockAuthInvoke};
use soroban_sdk::{Address, Env, IntoVal, Symbol, Val};
use std::collections::BTreeSet;
use vh::*;

pub mod base_c {
    use soroban_sdk::{contract, contractimpl, Address, Env, String};
    use stellar_tokens::non_fungible::{burnable::NonFungibleBurnable, sequential, Base, NonFungibleToken};
    #[contract]
    pub struct BaseC;
    #[contractimpl]
    impl BaseC {
        pub fn mint_seq(e: &Env, to: Address) -> u32 { Base::sequential_mint(e, &to) }
        pub fn mint_id(e: &Env, to: Address, token_id: u32) { Base::mint(e, &to, token_id) }
        pub fn next_id(e: &Env) -> u32 { sequential::next_token_id(e) }
    }
    #[contractimpl(contracttrait)]
    impl NonFungibleToken for BaseC {
        type ContractType = Base;
    }
    #[contractimpl(contracttrait)]
    impl NonFungibleBurnable for BaseC {}
}

pub mod enum_c {
    use soroban_sdk::{contract, contractimpl, Address, Env, String};
    use stellar_tokens::non_fungible::{
        burnable::NonFungibleBurnable,
        enumerable::{Enumerable, NonFungibleEnumerable},
        sequential, NonFungibleToken,
    };
    #[contract]
    pub struct EnumC;
    #[contractimpl]
    impl EnumC {
        pub fn mint_seq(e: &Env, to: Address) -> u32 { Enumerable::sequential_mint(e, &to) }
        pub fn mint_id(e: &Env, to: Address, token_id: u32) { Enumerable::non_sequential_mint(e, &to, token_id) }
        pub fn next_id(e: &Env) -> u32 { sequential::next_token_id(e) }
    }
    #[contractimpl(contracttrait)]
    impl NonFungibleToken for EnumC {
        type ContractType = Enumerable;
    }
    #[contractimpl(contracttrait)]
    impl NonFungibleEnumerable for EnumC {}
    #[contractimpl(contracttrait)]
    impl NonFungibleBurnable for EnumC {}
}

pub mod cons_c {
    use soroban_sdk::{contract, contractimpl, Address, Env, String};
    use stellar_tokens::non_fungible::{
        burnable::NonFungibleBurnable,
        consecutive::{Consecutive, NonFungibleConsecutive},
        sequential, NonFungibleToken,
    };
    #[contract]
    pub struct ConsC;
    #[contractimpl]
    impl ConsC {
        pub fn batch_mint(e: &Env, to: Address, amount: u32) -> u32 { Consecutive::batch_mint(e, &to, amount) }
        pub fn next_id(e: &Env) -> u32 { sequential::next_token_id(e) }
    }
    #[contractimpl(contracttrait)]
    impl NonFungibleToken for ConsC {
        type ContractType = Consecutive;
    }
    impl NonFungibleConsecutive for ConsC {}
    #[contractimpl(contracttrait)]
    impl NonFungibleBurnable for ConsC {}
}

/// A contract that forwards a call: the forwarded invocation runs with this contract as its direct invoker, which is
/// how a contract address authorises (`require_auth` of the invoker's address holds without any signature).
pub mod proxy_c {
    use soroban_sdk::{contract, contractimpl, Address, Env, Symbol, Val, Vec};
    #[contract]
    pub struct ProxyC;
    #[contractimpl]
    impl ProxyC {
        pub fn call(e: Env, target: Address, f: Symbol, args: Vec<Val>) -> Val { e.invoke_contract::<Val>(&target, &f, args) }
    }
}

/// "Special" members of the address universe (indices into `World::addrs`), see `World::add_special`
#[derive(Clone, Copy, Debug)]
pub struct Special {
    /// the NFT contract's own address: nothing can sign for it (an authorisation entry cannot be mocked for it and
    /// a contract is never its own invoker), so it NEVER occurs in an authorisation set
    pub me: usize,
    /// another contract: it authorises exactly the calls it makes itself (a call whose authorisation set contains
    /// it is issued THROUGH it), never by a signature
    pub proxy: usize,
    /// a classic account (G... address, the all-zero key) nobody holds a key for: never in an authorisation set
    pub account: usize,
}

#[derive(Clone, Copy, PartialEq, Eq, Debug)]
pub enum Fl { Base, Enum, Cons }
impl Fl {
    pub fn coq(&self) -> &'static str { match self { Fl::Base => "FBase", Fl::Enum => "FEnum", Fl::Cons => "FCons" } }
    pub fn tag(&self) -> &'static str { match self { Fl::Base => "base", Fl::Enum => "enum", Fl::Cons => "cons" } }
}

/// addresses are indices into `World::addrs`
#[derive(Clone, Debug)]
pub enum Call {
    Advance(u32),
    MintSeq(usize),
    MintId(usize, u32),
    BatchMint(usize, u32),
    Transfer { auths: Vec<usize>, from: usize, to: usize, id: u32 },
    TransferFrom { auths: Vec<usize>, spender: usize, from: usize, to: usize, id: u32 },
    Burn { auths: Vec<usize>, from: usize, id: u32 },
    BurnFrom { auths: Vec<usize>, spender: usize, from: usize, id: u32 },
    Approve { auths: Vec<usize>, approver: usize, approved: usize, id: u32, live_until: u32 },
    ApproveForAll { auths: Vec<usize>, owner: usize, operator: usize, live_until: u32 },
}

fn nl(xs: &[usize]) -> String { list(&xs.iter().map(|a| n(*a as u64)).collect::<Vec<_>>()) }

impl Call {
    pub fn kind(&self) -> &'static str {
        match self {
            Call::Advance(_) => "advance", Call::MintSeq(_) => "mint_seq", Call::MintId(..) => "mint_id",
            Call::BatchMint(..) => "batch_mint", Call::Transfer { .. } => "transfer",
            Call::TransferFrom { .. } => "transfer_from", Call::Burn { .. } => "burn",
            Call::BurnFrom { .. } => "burn_from", Call::Approve { .. } => "approve",
            Call::ApproveForAll { .. } => "approve_for_all",
        }
    }
    pub fn coq(&self) -> String {
        match self {
            Call::Advance(k) => format!("Advance {}", n(*k as u64)),
            Call::MintSeq(to) => format!("MintSeq {}", n(*to as u64)),
            Call::MintId(to, id) => format!("MintId {} {}", n(*to as u64), n(*id as u64)),
            Call::BatchMint(to, amt) => format!("BatchMint {} {}", n(*to as u64), n(*amt as u64)),
            Call::Transfer { auths, from, to, id } =>
                format!("Transfer {} {} {} {}", nl(auths), n(*from as u64), n(*to as u64), n(*id as u64)),
            Call::TransferFrom { auths, spender, from, to, id } =>
                format!("TransferFrom {} {} {} {} {}", nl(auths), n(*spender as u64), n(*from as u64), n(*to as u64), n(*id as u64)),
            Call::Burn { auths, from, id } => format!("Burn {} {} {}", nl(auths), n(*from as u64), n(*id as u64)),
            Call::BurnFrom { auths, spender, from, id } =>
                format!("BurnFrom {} {} {} {}", nl(auths), n(*spender as u64), n(*from as u64), n(*id as u64)),
            Call::Approve { auths, approver, approved, id, live_until } =>
                format!("Approve {} {} {} {} {}", nl(auths), n(*approver as u64), n(*approved as u64), n(*id as u64), z(*live_until as i128)),
            Call::ApproveForAll { auths, owner, operator, live_until } =>
                format!("ApproveForAll {} {} {} {}", nl(auths), n(*owner as u64), n(*operator as u64), z(*live_until as i128)),
        }
    }
}

/// What the public getters answer (addresses as indices).
#[derive(Clone, Debug, Default, PartialEq)]
pub struct Obs {
    pub next: u32,
    pub owners: Vec<(u32, Option<usize>)>,
    pub bals: Vec<u32>,
    pub appr: Vec<(u32, Option<usize>)>,
    pub oper: Vec<((usize, usize), bool)>,
    pub total: u32,
    pub glob: Vec<Option<u32>>,
    pub otok: Vec<Vec<Option<u32>>>,
    /// getters that never fail in the model but trapped in the implementation are printed as impossible values
    /// (a number beyond u32, an address / operator outside the universe) so that diff and monitor flag them
    pub next_failed: bool,
    pub total_failed: bool,
    pub bal_failed: Vec<bool>,
}
pub const FAIL_N: u64 = 4_294_967_296; // u32::MAX + 1
pub const FAIL_ADDR: usize = 4_294_967_295;
impl Obs {
    pub fn owner(&self, id: u32) -> Option<usize> { self.owners.iter().find(|p| p.0 == id).and_then(|p| p.1).filter(|a| *a < 1_000_000) }
    pub fn existing(&self) -> Vec<u32> { self.owners.iter().filter(|p| p.1.is_some()).map(|p| p.0).collect() }
    pub fn approved(&self, id: u32) -> Option<usize> { self.appr.iter().find(|p| p.0 == id).and_then(|p| p.1).filter(|a| *a < 1_000_000) }
    pub fn coq(&self) -> String {
        let on = |o: &Option<usize>| opt(o.map(|a| n(a as u64)));
        let owners: Vec<String> = self.owners.iter().map(|(i, o)| pair(&n(*i as u64), &on(o))).collect();
        let bals: Vec<String> = self.bals.iter().enumerate().map(|(a, b_)| pair(&n(a as u64), &n(if self.bal_failed.get(a).copied().unwrap_or(false) { FAIL_N } else { *b_ as u64 }))).collect();
        let appr: Vec<String> = self.appr.iter().map(|(i, o)| pair(&n(*i as u64), &on(o))).collect();
        let oper: Vec<String> = self.oper.iter().map(|((o, p), v)| pair(&pair(&n(*o as u64), &n(*p as u64)), &b(*v))).collect();
        let glob: Vec<String> = self.glob.iter().map(|o| opt(o.map(|v| n(v as u64)))).collect();
        let otok: Vec<String> = self.otok.iter().enumerate().map(|(a, l)| {
            let items: Vec<String> = l.iter().map(|o| opt(o.map(|v| n(v as u64)))).collect();
            pair(&n(a as u64), &list(&items))
        }).collect();
        format!("mkObs {} {} {} {} {} {} {} {}", n(if self.next_failed { FAIL_N } else { self.next as u64 }), list(&owners), list(&bals), list(&appr), list(&oper),
                n(if self.total_failed { FAIL_N } else { self.total as u64 }), list(&glob), list(&otok))
    }
}

pub struct World {
    pub e: Env,
    pub id: Address,
    pub fl: Fl,
    pub addrs: Vec<Address>,
    pub now: u32,
    pub now0: u32,
    pub min_ttl: u32,
    pub max_ttl: u32,
    /// ids used by explicit mints or probed deliberately (always observed)
    pub extra_ids: BTreeSet<u32>,
    /// ids touched by calls (sampled-observation mode)
    pub touched: BTreeSet<u32>,
    /// Some(k): observe only a sample (touched +-2, word/bucket edges, k random ids); None: every id 0..next+3
    pub sample: Option<u32>,
    pub steps: Vec<String>,
    pub last: Obs,
    pub ncalls: usize,
    /// (token, account) pairs that were ever approved / (owner, operator) pairs ever appointed (successful calls)
    pub hist_approved: Vec<(u32, usize)>,
    pub hist_oper: Vec<(usize, usize)>,
    /// bit-level traces (C10): after every call the raw OwnershipBucket entries are read from storage
    pub dump: bool,
    pub dumps: Vec<String>,
    /// full observation of very many ids: get_approved only for the touched ids (owner_of for all)
    pub light_appr: bool,
    /// the special addresses at the end of `addrs` (None: only generated plain addresses)
    pub special: Option<Special>,
}

/// set once by the C10 binary: traces carry the raw consecutive ownership buckets and are printed as `mkBTrace`
pub static BTRACE: std::sync::atomic::AtomicBool = std::sync::atomic::AtomicBool::new(false);
pub fn ids_in_item() -> u32 { stellar_tokens::non_fungible::consecutive::storage::IDS_IN_ITEM as u32 }
pub fn items_in_bucket() -> u32 { stellar_tokens::non_fungible::consecutive::storage::ITEMS_IN_BUCKET as u32 }

pub fn ids_in_bucket() -> u32 { stellar_tokens::non_fungible::consecutive::storage::IDS_IN_BUCKET as u32 }
pub fn max_batch() -> u32 { stellar_tokens::non_fungible::consecutive::storage::MAX_TOKENS_IN_BATCH as u32 }

impl World {
    pub fn new(fl: Fl, naddr: usize, now0: u32, min_ttl: u32, max_ttl: u32, sample: Option<u32>) -> World {
        World::new_with(fl, naddr, now0, min_ttl, max_ttl, if max_ttl < 4096 { max_ttl } else { 4096 }, sample)
    }
    /// `min_persist` = min_persistent_entry_ttl: the lifetime the contract instance and every freshly written
    /// persistent entry get
    pub fn new_with(fl: Fl, naddr: usize, now0: u32, min_ttl: u32, max_ttl: u32, min_persist: u32, sample: Option<u32>) -> World {
        let e = Env::default();
        e.cost_estimate().budget().reset_unlimited();
        e.cost_estimate().disable_resource_limits();
        e.ledger().with_mut(|l| {
            l.sequence_number = now0;
            l.min_temp_entry_ttl = min_ttl;
            l.max_entry_ttl = max_ttl;
            l.min_persistent_entry_ttl = min_persist;
        });
        let id = match fl {
            Fl::Base => e.register(base_c::BaseC, ()),
            Fl::Enum => e.register(enum_c::EnumC, ()),
            Fl::Cons => e.register(cons_c::ConsC, ()),
        };
        let addrs: Vec<Address> = (0..naddr).map(|_| Address::generate(&e)).collect();
        let mut w = World { e, id, fl, addrs, now: now0, now0, min_ttl, max_ttl, extra_ids: BTreeSet::new(),
                            touched: BTreeSet::new(), sample, steps: vec![], last: Obs::default(), ncalls: 0,
                            hist_approved: vec![], hist_oper: vec![],
                            dump: BTRACE.load(std::sync::atomic::Ordering::Relaxed), dumps: vec![], light_appr: false, special: None };
        w.last = w.observe(&mut Rng::new(0));
        w
    }

    fn idx(&self, a: &Address) -> usize { self.addrs.iter().position(|x| x == a).unwrap_or(FAIL_ADDR - 1) }

    fn invoke<T: soroban_sdk::TryFromVal<Env, Val>>(&self, f: &str, args: soroban_sdk::Vec<Val>) -> Option<T> {
        match self.e.try_invoke_contract::<T, soroban_sdk::Error>(&self.id, &Symbol::new(&self.e, f), args) {
            Ok(Ok(v)) => Some(v),
            _ => None,
        }
    }

    /// Extend the address universe (before the first call) by the NFT contract's own address, a forwarding contract
    /// and a classic account: afterwards they occur as owner / recipient / spender / approved account / operator of
    /// every call kind like any other address.
    pub fn add_special(&mut self) -> Special {
        assert!(self.steps.is_empty() && self.ncalls == 0 && self.special.is_none());
        let k = self.addrs.len();
        let proxy = self.e.register(proxy_c::ProxyC, ());
        let account = Address::from_str(&self.e, "GAAAAAAAAAAAAAAAAAAAAAAAAAAAAAAAAAAAAAAAAAAAAAAAAAAAAWHF");
        self.addrs.push(self.id.clone());
        self.addrs.push(proxy);
        self.addrs.push(account);
        let sp = Special { me: k, proxy: k + 1, account: k + 2 };
        self.special = Some(sp);
        self.last = self.observe(&mut Rng::new(0));
        sp
    }
    /// can this address be put into an authorisation set?
    pub fn can_sign(&self, a: usize) -> bool { match self.special { Some(sp) => a != sp.me && a != sp.account, None => true } }
    /// drop from the authorisation set of a generated call the addresses nobody can sign for
    pub fn strip_unsignable(&self, c: &mut Call) {
        if self.special.is_none() { return; }
        match c {
            Call::Transfer { auths, .. } | Call::TransferFrom { auths, .. } | Call::Burn { auths, .. } | Call::BurnFrom { auths, .. }
            | Call::Approve { auths, .. } | Call::ApproveForAll { auths, .. } => { auths.retain(|a| self.can_sign(*a)); }
            _ => {}
        }
    }

    /// invoke `f(args)` with exactly the addresses `auths` authorising this very invocation: plain addresses by an
    /// authorisation entry for exactly this invocation, the forwarding contract by being the one that makes the call
    fn invoke_auth<T: soroban_sdk::TryFromVal<Env, Val>>(&self, auths: &[usize], f: &str, args: soroban_sdk::Vec<Val>) -> Option<T> {
        let inv = MockAuthInvoke { contract: &self.id, fn_name: f, args: args.clone(), sub_invokes: &[] };
        let mut uniq: Vec<usize> = auths.to_vec(); uniq.sort(); uniq.dedup();
        // (mock_auths would REPLACE the contract at a mocked address by a mock account contract)
        for a in &uniq { assert!(self.can_sign(*a), "address {} cannot authorise: generator bug", a); }
        let via = self.special.map(|sp| sp.proxy).filter(|p| uniq.contains(p));
        let mocks: Vec<MockAuth> = uniq.iter().filter(|a| Some(**a) != via).map(|a| MockAuth { address: &self.addrs[*a], invoke: &inv }).collect();
        self.e.mock_auths(&mocks);
        let r = match via {
            None => self.invoke::<T>(f, args),
            Some(p) => {
                let e = &self.e;
                let fwd: soroban_sdk::Vec<Val> = soroban_sdk::vec![e, self.id.into_val(e), Symbol::new(e, f).into_val(e), args.into_val(e)];
                match e.try_invoke_contract::<Val, soroban_sdk::Error>(&self.addrs[p], &Symbol::new(e, "call"), fwd) {
                    Ok(Ok(v)) => T::try_from_val(e, &v).ok(),
                    _ => None,
                }
            }
        };
        self.e.mock_auths(&[]);
        r
    }

    /// the ids whose owner / approval is queried after this step
    pub fn query_ids(&self, next: u32, rng: &mut Rng) -> Vec<u32> {
        let mut s: BTreeSet<u32> = self.extra_ids.clone();
        match self.sample {
            None => { for i in 0..next.saturating_add(3) { s.insert(i); } }
            Some(k) => {
                let ib = ids_in_bucket();
                for t in &self.touched { for d in 0..5u32 { if let Some(v) = (t + 2).checked_sub(d) { s.insert(v); } } }
                for i in 0..3u32 { s.insert(i); s.insert(next.saturating_add(i)); if next > i { s.insert(next - 1 - i); } }
                // bucket edges and a few word edges
                let mut bk = ib;
                while bk <= next.saturating_add(ib) && bk > 0 { for d in 0..4u32 { s.insert(bk + 1 - d); } bk = match bk.checked_add(ib) { Some(v) => v, None => break }; }
                for _ in 0..k { if next > 0 { s.insert(rng.below(next as u64 + 2) as u32); } }
                for _ in 0..(k / 4) { if next > 32 { let wd = (rng.below((next / 32) as u64) as u32 + 1) * 32; s.insert(wd); s.insert(wd - 1); } }
            }
        }
        s.into_iter().collect()
    }

    pub fn observe(&self, rng: &mut Rng) -> Obs {
        let e = &self.e;
        // every read is a try-call: a getter that traps becomes an observation, never a harness abort
        let next_r: Option<u32> = self.invoke("next_id", soroban_sdk::vec![e]);
        let next = next_r.unwrap_or(self.last.next);
        let qids = self.query_ids(next, rng);
        let mut o = Obs { next, next_failed: next_r.is_none(), ..Default::default() };
        for &i in &qids {
            let ow: Option<Address> = self.invoke("owner_of", soroban_sdk::vec![e, i.into_val(e)]);
            o.owners.push((i, ow.map(|a| self.idx(&a))));
            if self.light_appr && !self.touched.contains(&i) { continue; }
            let ap: Option<Option<Address>> = self.invoke("get_approved", soroban_sdk::vec![e, i.into_val(e)]);
            o.appr.push((i, match ap { Some(v) => v.map(|a| self.idx(&a)), None => Some(FAIL_ADDR) }));
        }
        for a in &self.addrs {
            let bl: Option<u32> = self.invoke("balance", soroban_sdk::vec![e, a.into_val(e)]);
            o.bals.push(bl.unwrap_or(0));
            o.bal_failed.push(bl.is_none());
        }
        for (i, a) in self.addrs.iter().enumerate() {
            for (j, c) in self.addrs.iter().enumerate() {
                let v: Option<bool> = self.invoke("is_approved_for_all", soroban_sdk::vec![e, a.into_val(e), c.into_val(e)]);
                match v {
                    Some(v) => o.oper.push(((i, j), v)),
                    None => { o.oper.push(((i, j), false)); o.oper.push(((i, FAIL_ADDR), true)); }
                }
            }
        }
        if self.fl == Fl::Enum {
            let t: Option<u32> = self.invoke("total_supply", soroban_sdk::vec![e]);
            o.total = t.unwrap_or(0);
            o.total_failed = t.is_none();
            for k in 0..o.total.saturating_add(2) {
                o.glob.push(self.invoke::<u32>("get_token_id", soroban_sdk::vec![e, k.into_val(e)]));
            }
            for (i, a) in self.addrs.iter().enumerate() {
                let mut l = vec![];
                for k in 0..o.bals[i].saturating_add(2) {
                    l.push(self.invoke::<u32>("get_owner_token_id", soroban_sdk::vec![e, a.into_val(e), k.into_val(e)]));
                }
                o.otok.push(l);
            }
        }
        o
    }

    /// execute one call on the real contract, observe, record; returns (ok?, returned id)
    pub fn step(&mut self, out: &mut Out, rng: &mut Rng, c: &Call) -> (bool, Option<u32>) {
        let e = self.e.clone();
        let a = |i: usize| -> Val { self.addrs[i].into_val(&e) };
        let (ok, ret): (bool, Option<u32>) = match c {
            Call::Advance(k) => {
                self.now += *k;
                let nw = self.now;
                self.e.ledger().with_mut(|l| { l.sequence_number = nw; });
                (true, None)
            }
            Call::MintSeq(to) => { let r: Option<u32> = self.invoke("mint_seq", soroban_sdk::vec![&e, a(*to)]); (r.is_some(), r) }
            Call::MintId(to, id) => {
                self.extra_ids.insert(*id);
                let r: Option<()> = self.invoke("mint_id", soroban_sdk::vec![&e, a(*to), id.into_val(&e)]); (r.is_some(), None)
            }
            Call::BatchMint(to, amt) => { let r: Option<u32> = self.invoke("batch_mint", soroban_sdk::vec![&e, a(*to), amt.into_val(&e)]); (r.is_some(), r) }
            Call::Transfer { auths, from, to, id } => {
                let r: Option<()> = self.invoke_auth(auths, "transfer", soroban_sdk::vec![&e, a(*from), a(*to), id.into_val(&e)]); (r.is_some(), None)
            }
            Call::TransferFrom { auths, spender, from, to, id } => {
                let r: Option<()> = self.invoke_auth(auths, "transfer_from", soroban_sdk::vec![&e, a(*spender), a(*from), a(*to), id.into_val(&e)]); (r.is_some(), None)
            }
            Call::Burn { auths, from, id } => {
                let r: Option<()> = self.invoke_auth(auths, "burn", soroban_sdk::vec![&e, a(*from), id.into_val(&e)]); (r.is_some(), None)
            }
            Call::BurnFrom { auths, spender, from, id } => {
                let r: Option<()> = self.invoke_auth(auths, "burn_from", soroban_sdk::vec![&e, a(*spender), a(*from), id.into_val(&e)]); (r.is_some(), None)
            }
            Call::Approve { auths, approver, approved, id, live_until } => {
                let r: Option<()> = self.invoke_auth(auths, "approve", soroban_sdk::vec![&e, a(*approver), a(*approved), id.into_val(&e), live_until.into_val(&e)]); (r.is_some(), None)
            }
            Call::ApproveForAll { auths, owner, operator, live_until } => {
                let r: Option<()> = self.invoke_auth(auths, "approve_for_all", soroban_sdk::vec![&e, a(*owner), a(*operator), live_until.into_val(&e)]); (r.is_some(), None)
            }
        };
        match c {
            Call::Transfer { id, .. } | Call::TransferFrom { id, .. } | Call::Burn { id, .. } | Call::BurnFrom { id, .. }
            | Call::Approve { id, .. } | Call::MintId(_, id) => { self.touched.insert(*id); }
            _ => {}
        }
        if ok {
            match c {
                Call::Approve { approved, id, .. } => { self.hist_approved.push((*id, *approved)); }
                Call::ApproveForAll { owner, operator, .. } => { self.hist_oper.push((*owner, *operator)); }
                _ => {}
            }
        }
        if let Some(r) = ret {
            self.touched.insert(r);
            if let Call::BatchMint(_, amt) = c {
                self.touched.insert(r + 1 - *amt);
                if (r + 1 - *amt) / ids_in_bucket() != r / ids_in_bucket() { out.label("cons/batch_mint/bucket-crossing"); }
                if r / ids_in_bucket() - (r + 1 - *amt) / ids_in_bucket() >= 10 { out.label("cons/batch_mint/spanning-11-buckets"); }
            }
        }
        let o = self.observe(rng);
        if self.dump && self.fl == Fl::Cons { let d = self.dump_buckets(o.next); self.dumps.push(d); }
        let outcome = if !ok { "Fail".to_string() } else { format!("(Ok {})", opt(ret.map(|v| n(v as u64)))) };
        let ct = c.coq();
        out.case(&format!("{}/{}/{}", self.fl.tag(), c.kind(), if ok { "ok" } else { "fail" }), &format!("{} {} {}", self.fl.tag(), ct, self.now));
        self.steps.push(format!("({}, {}, {})", ct, outcome, o.coq()));
        self.last = o;
        self.ncalls += 1;
        (ok, ret)
    }

    /// the trace as a Gallina term of type Run.NftCommon.trace
    pub fn term(&self) -> String {
        format!("mkTrace {} (Build_cfg (Build_hostcfg {} {}) {} {}) {} {} {}", self.fl.coq(), z(self.min_ttl as i128),
                z(self.max_ttl as i128), n(ids_in_bucket() as u64), n(max_batch() as u64), z(self.now0 as i128),
                b(self.sample.is_none()), list(&self.steps))
    }
    pub fn flush(&mut self, out: &mut Out, desc: &str) {
        if !self.steps.is_empty() {
            let k = self.steps.len();
            let term = if self.dump {
                format!("mkBTrace ({}) (Build_bcfg {} {}) {}", self.term(), n(ids_in_item() as u64), n(items_in_bucket() as u64), list(&self.dumps))
            } else { self.term() };
            out.trace(&format!("{}:{}", self.fl.tag(), desc), term, k);
        }
        self.steps.clear();
        self.dumps.clear();
    }

    /// the raw `OwnershipBucket(i)` entries for i = 0 ..= next/IDS_IN_BUCKET + 1, read straight from the contract's
    /// persistent storage: None = no entry, Some (number of words, non-zero words with their item index)
    fn dump_buckets(&self, next: u32) -> String {
        use stellar_tokens::non_fungible::consecutive::storage::NFTConsecutiveStorageKey;
        let nb = next / ids_in_bucket() + 2;
        let mut items: Vec<String> = vec![];
        for i in 0..nb {
            let e = self.e.clone();
            let id = self.id.clone();
            let r = std::panic::catch_unwind(std::panic::AssertUnwindSafe(|| {
                e.as_contract(&id, || e.storage().persistent().get::<_, soroban_sdk::Vec<u32>>(&NFTConsecutiveStorageKey::OwnershipBucket(i)))
            }));
            let v = match r {
                Ok(None) => "None".to_string(),
                Ok(Some(words)) => {
                    let nz: Vec<String> = words.iter().enumerate().filter(|(_, w)| *w != 0).map(|(k, w)| pair(&n(k as u64), &n(w as u64))).collect();
                    format!("(Some ({}, {}))", n(words.len() as u64), list(&nz))
                }
                // an entry that is not a vector of words: an impossible length
                Err(_) => format!("(Some ({}, []))", n(FAIL_N)),
            };
            items.push(pair(&n(i as u64), &v));
        }
        list(&items)
    }
}

/// draw an authorisation set for a call that needs `needed`: mostly exactly that, sometimes
/// missing, empty, someone else, or with a superfluous extra signer
pub fn draw_auths(rng: &mut Rng, needed: usize, naddr: usize, p_wrong: u64) -> Vec<usize> {
    if rng.below(100) >= p_wrong { return vec![needed]; }
    match rng.below(5) {
        0 => vec![],
        1 => vec![(needed + 1 + rng.below(naddr as u64 - 1) as usize) % naddr],
        2 => { let x = rng.below(naddr as u64) as usize; vec![needed, x] }
        3 => (0..naddr).filter(|a| *a != needed).collect(),
        _ => (0..naddr).collect(),
    }
}

/// weights of the call kinds (per mille) and of wrong-authorisation draws (per cent)
#[derive(Clone, Debug)]
pub struct Profile {
    pub mint: u64, pub transfer: u64, pub transfer_from: u64, pub burn: u64, pub burn_from: u64,
    pub approve: u64, pub approve_all: u64, pub advance: u64,
    pub p_wrong_auth: u64,
    /// explicit-id minting for Base/Enumerable: 0 = sequential only, 1 = explicit only, 2 = both
    pub mint_mode: u32,
    /// batch sizes to draw from (Consecutive)
    pub batches: Vec<u32>,
    /// stop minting when next_id (or the number of explicit mints) reaches this
    pub max_ids: u32,
    /// per cent of the Advance calls that jump far (20 .. 4 000 000 ledgers) in ONE step, so that the observation
    /// right after it sees any entry that silently lapsed
    pub p_long_advance: u64,
}

pub const LONG_GAPS: [u32; 6] = [20, 100, 17_281, 20_000, 600_000, 4_000_000];

pub const EXPLICIT_BASE: u32 = 1000;

impl World {
    pub fn naddr(&self) -> usize { self.addrs.len() }
    fn rand_addr(&self, rng: &mut Rng) -> usize { rng.below(self.naddr() as u64) as usize }

    /// an id worth operating on: mostly an existing token, sometimes a missing / burned / not yet minted one,
    /// in sampled mode biased to batch, word and bucket edges
    pub fn pick_id(&self, rng: &mut Rng) -> u32 {
        let ex = self.last.existing();
        let next = self.last.next;
        let r = rng.below(100);
        if self.sample.is_some() && r < 45 && next > 0 {
            let ib = ids_in_bucket();
            let base = match rng.below(4) {
                0 => { let t: Vec<u32> = self.touched.iter().cloned().collect(); if t.is_empty() { 0 } else { *rng.pick(&t) } }
                1 => (rng.below((next / ib + 1) as u64) as u32) * ib,
                2 => (rng.below((next / 32 + 1) as u64) as u32) * 32,
                _ => rng.below(next as u64) as u32,
            };
            let d = rng.range(-2, 2);
            let v = base as i64 + d;
            return if v < 0 { 0 } else { v as u32 };
        }
        if r < 78 && !ex.is_empty() { return *rng.pick(&ex); }
        if r < 88 { let all: Vec<u32> = self.last.owners.iter().map(|p| p.0).collect(); if !all.is_empty() { return *rng.pick(&all); } }
        if r < 95 { return next.saturating_add(rng.below(3) as u32); }
        if !self.extra_ids.is_empty() { let t: Vec<u32> = self.extra_ids.iter().cloned().collect(); return *rng.pick(&t); }
        rng.below(next as u64 + 3) as u32
    }

    /// somebody who might be allowed to move `id`: its owner, its approved account, an operator of the owner, or anybody
    pub fn pick_spender(&self, rng: &mut Rng, id: u32) -> usize {
        let owner = self.last.owner(id);
        match rng.below(12) {
            0 | 1 => owner.unwrap_or_else(|| self.rand_addr(rng)),
            2 | 3 | 4 => self.last.approved(id).unwrap_or_else(|| self.rand_addr(rng)),
            5 | 6 | 7 => {
                let ops: Vec<usize> = self.last.oper.iter().filter(|((o, q_), v)| *v && Some(*o) == owner && *q_ < 1_000_000).map(|((_, p), _)| *p).collect();
                if ops.is_empty() { self.rand_addr(rng) } else { *rng.pick(&ops) }
            }
            // an account that was approved for this token at some time (possibly expired, revoked, cleared by a move)
            8 | 9 => {
                let h: Vec<usize> = self.hist_approved.iter().filter(|(i, _)| *i == id).map(|(_, a)| *a).collect();
                if h.is_empty() { self.rand_addr(rng) } else { *rng.pick(&h) }
            }
            // an account that was an operator of the current owner at some time, or an owner whose operator the current owner is
            10 => {
                let h: Vec<usize> = self.hist_oper.iter().filter(|(o, p)| Some(*o) == owner || Some(*p) == owner).map(|(o, p)| if Some(*o) == owner { *p } else { *o }).collect();
                if h.is_empty() { self.rand_addr(rng) } else { *rng.pick(&h) }
            }
            _ => self.rand_addr(rng),
        }
    }

    pub fn pick_live_until(&self, rng: &mut Rng) -> u32 {
        let now = self.now;
        match rng.below(16) {
            0 => 0,
            1 => now.saturating_sub(1),
            2 => now,
            3 => now + 1,
            4 | 5 | 6 | 7 | 8 => now + 1 + rng.below(6) as u32,
            9 => now.saturating_add(self.max_ttl).saturating_sub(1),
            10 => now.saturating_add(self.max_ttl).saturating_sub(2),
            11 => now.saturating_add(self.max_ttl),
            12 => u32::MAX,
            _ => now + rng.below(40) as u32,
        }
    }

    pub fn gen_call(&self, rng: &mut Rng, p: &Profile) -> Call {
        let mut c = self.gen_call_raw(rng, p);
        self.strip_unsignable(&mut c);
        c
    }
    fn gen_call_raw(&self, rng: &mut Rng, p: &Profile) -> Call {
        let tot = p.mint + p.transfer + p.transfer_from + p.burn + p.burn_from + p.approve + p.approve_all + p.advance;
        let mut r = rng.below(tot);
        let na = self.naddr();
        if r < p.mint {
            let to = self.rand_addr(rng);
            return match self.fl {
                Fl::Cons => {
                    let amt = if rng.chance(1, 25) { if rng.chance(1, 2) { 0 } else { max_batch() + 1 } } else { *rng.pick(&p.batches) };
                    if self.last.next.saturating_add(amt) > p.max_ids && amt <= max_batch() && amt > 0 {
                        Call::Advance(1)
                    } else { Call::BatchMint(to, amt) }
                }
                _ => {
                    let explicit = match p.mint_mode { 0 => false, 1 => true, _ => rng.chance(1, 2) };
                    if explicit && p.mint_mode == 3 {
                        // OUTSIDE the property's quantifier (separate labelled family): explicit ids in the range of the
                        // sequential counter, existing or not - the counter meets live explicit ids, ids are re-minted
                        return Call::MintId(to, rng.below(p.max_ids as u64 + 2) as u32);
                    }
                    if explicit {
                        // a fresh explicit id (never one that currently exists; may be one burned earlier):
                        // explicit-only contracts use ids anywhere (0.., 1000.., up to u32::MAX); mixed ones use 1000.. or an
                        // id below the counter that was burned (the counter never meets an explicit id)
                        let draw = |rng: &mut Rng| -> u32 {
                            match (p.mint_mode, rng.below(6)) {
                                (1, 0) | (1, 1) => rng.below(p.max_ids as u64) as u32,
                                (1, 2) => u32::MAX - rng.below(3) as u32,
                                (2, 0) | (2, 1) if self.last.next > 0 => rng.below(self.last.next as u64) as u32,
                                _ => EXPLICIT_BASE + rng.below(p.max_ids as u64) as u32,
                            }
                        };
                        let mut id = draw(rng);
                        let mut tries = 0;
                        while self.last.owner(id).is_some() && tries < 50 { id = draw(rng); tries += 1; }
                        if self.last.owner(id).is_some() || (!self.extra_ids.contains(&id) && self.extra_ids.len() as u32 >= p.max_ids) { Call::Advance(1) } else { Call::MintId(to, id) }
                    } else if self.last.next >= p.max_ids { Call::Advance(1) } else { Call::MintSeq(to) }
                }
            };
        }
        r -= p.mint;
        let id = self.pick_id(rng);
        let owner = self.last.owner(id);
        let from = if rng.below(100) < 88 { owner.unwrap_or_else(|| self.rand_addr(rng)) } else { self.rand_addr(rng) };
        let to = if rng.chance(1, 8) { from } else { self.rand_addr(rng) };
        if r < p.transfer { return Call::Transfer { auths: draw_auths(rng, from, na, p.p_wrong_auth), from, to, id }; }
        r -= p.transfer;
        if r < p.transfer_from {
            let spender = self.pick_spender(rng, id);
            return Call::TransferFrom { auths: draw_auths(rng, spender, na, p.p_wrong_auth), spender, from, to, id };
        }
        r -= p.transfer_from;
        if r < p.burn { return Call::Burn { auths: draw_auths(rng, from, na, p.p_wrong_auth), from, id }; }
        r -= p.burn;
        if r < p.burn_from {
            let spender = self.pick_spender(rng, id);
            return Call::BurnFrom { auths: draw_auths(rng, spender, na, p.p_wrong_auth), spender, from, id };
        }
        r -= p.burn_from;
        if r < p.approve {
            // approver: owner, an operator of the owner, or anybody
            let approver = match rng.below(10) {
                0..=5 => owner.unwrap_or_else(|| self.rand_addr(rng)),
                6 | 7 => {
                    let ops: Vec<usize> = self.last.oper.iter().filter(|((o, q_), v)| *v && Some(*o) == owner && *q_ < 1_000_000).map(|((_, q), _)| *q).collect();
                    if ops.is_empty() { self.rand_addr(rng) } else { *rng.pick(&ops) }
                }
                _ => self.rand_addr(rng),
            };
            let approved = self.rand_addr(rng);
            return Call::Approve { auths: draw_auths(rng, approver, na, p.p_wrong_auth), approver, approved, id, live_until: self.pick_live_until(rng) };
        }
        r -= p.approve;
        if r < p.approve_all {
            let ow = self.rand_addr(rng);
            let op = self.rand_addr(rng);
            return Call::ApproveForAll { auths: draw_auths(rng, ow, na, p.p_wrong_auth), owner: ow, operator: op, live_until: self.pick_live_until(rng) };
        }
        // advance: small steps, or one very long gap
        if rng.below(100) < p.p_long_advance && self.now < 3_000_000_000 { return Call::Advance(*rng.pick(&LONG_GAPS)); }
        Call::Advance(1 + rng.below(4) as u32)
    }
}


/// Persistence across long ledger gaps, for every kind of stored item of the three flavours: owners, balances,
/// the id counter, both enumerations and their reverse indexes, consecutive buckets / owner markers / burnt flags,
/// and approvals / operators up to their live_until.  Each gap is ONE Advance, so the full observation right after
/// it sees anything that lapsed; then calls follow that read the entries used only on mutation paths.
pub fn persistence_scenarios(out: &mut Out, rng: &mut Rng) {
    let tr = |from: usize, to: usize, id: u32| Call::Transfer { auths: vec![from], from, to, id };
    let bu = |from: usize, id: u32| Call::Burn { auths: vec![from], from, id };
    // (min_temp_entry_ttl, max_entry_ttl, min_persistent_entry_ttl)
    for (ci, (min_ttl, max_ttl, min_persist)) in [(1u32, 6_312_000u32, 4096u32), (16, 1000, 1000), (16, 10_000_001, 10_000_000)].iter().enumerate() {
        for fl in [Fl::Base, Fl::Enum, Fl::Cons] {
            let mut w = World::new_with(fl, 5, 10, *min_ttl, *max_ttl, *min_persist, None);
            match fl {
                Fl::Cons => { w.step(out, rng, &Call::BatchMint(0, 4)); w.step(out, rng, &Call::BatchMint(1, 5)); }
                _ => {
                    for to in [0usize, 0, 0, 0, 1, 1, 1, 1, 1] { w.step(out, rng, &Call::MintSeq(to)); }
                    w.step(out, rng, &Call::MintId(2, EXPLICIT_BASE));
                }
            }
            // ids 0..3 -> account 0, 4..8 -> account 1
            w.step(out, rng, &tr(0, 2, 1));
            w.step(out, rng, &bu(0, 2));
            let far = |w: &World, d: u32| if w.max_ttl > d { w.now + d } else { w.now + w.max_ttl - 1 };
            let lu_a = far(&w, 700_000);
            w.step(out, rng, &Call::Approve { auths: vec![0], approver: 0, approved: 3, id: 0, live_until: lu_a });
            let lu_o = far(&w, 5_000_000);
            w.step(out, rng, &Call::ApproveForAll { auths: vec![1], owner: 1, operator: 4, live_until: lu_o });
            let lu_s = w.now + 25;
            w.step(out, rng, &Call::Approve { auths: vec![1], approver: 1, approved: 3, id: 5, live_until: lu_s });
            for (k, gap) in LONG_GAPS.iter().enumerate() {
                w.step(out, rng, &Call::Advance(*gap));
                // entries read only when something moves: reverse indexes, previous-token markers, buckets
                let id = 3u32;
                let (from, to) = match w.last.owner(id) { Some(0) => (0usize, 1usize), _ => (1, 0) };
                w.step(out, rng, &tr(from, to, id));
                match k {
                    0 => { w.step(out, rng, &Call::TransferFrom { auths: vec![3], spender: 3, from: 1, to: 3, id: 5 }); }
                    2 => { w.step(out, rng, &Call::TransferFrom { auths: vec![4], spender: 4, from: 1, to: 4, id: 6 }); }
                    3 => { w.step(out, rng, &bu(1, 4)); }
                    4 => { w.step(out, rng, &Call::TransferFrom { auths: vec![3], spender: 3, from: 0, to: 3, id: 0 }); }
                    5 => { w.step(out, rng, &Call::TransferFrom { auths: vec![4], spender: 4, from: 1, to: 4, id: 7 });
                           w.step(out, rng, &Call::BurnFrom { auths: vec![4], spender: 4, from: 1, id: 8 }); }
                    _ => {}
                }
            }
            match fl { Fl::Cons => { w.step(out, rng, &Call::BatchMint(2, 2)); } _ => { w.step(out, rng, &Call::MintSeq(2)); w.step(out, rng, &bu(2, EXPLICIT_BASE)); } }
            let last = w.last.next.saturating_sub(1);
            w.step(out, rng, &tr(2, 0, last));
            w.step(out, rng, &bu(2, 1));
            w.step(out, rng, &Call::Advance(4_000_000));
            w.flush(out, &format!("persistence/cfg{}", ci));
        }
    }
}
