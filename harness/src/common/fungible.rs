//! C01 / C02 correspondence harness (shared by bin/c01.rs and bin/c02.rs).
//! Drives the real fungible-token code of /repo (Base + Burnable, AllowList, BlockList,
//! FungibleVotes, the example vault over a Base asset token, RWA with permissive mocks)
//! inside the Soroban test host with exact authorisation sets, and prints every call with its
//! outcome, the token's events and a full observation as a Gallina `trace` term.
#![allow(dead_code, unused_imports, clippy::all)]
use soroban_sdk::{
    testutils::{storage::Temporary as _, Address as _, Events as _, Ledger as _, MockAuth, MockAuthInvoke},
    xdr, Address, Env, IntoVal, Symbol, TryFromVal, Val, Vec as SVec,
};
use stellar_tokens::fungible::{AllowanceKey, Base, FungibleStorageKey};
use vh::*;

// ---------------------------------------------------------------------------------------------
// contracts under test: thin wrappers around the library entry points
// ---------------------------------------------------------------------------------------------
pub mod base_c {
    use soroban_sdk::{contract, contractimpl, Address, Env, MuxedAddress, String, Symbol, Vec};
    use stellar_tokens::fungible::{burnable::FungibleBurnable, Base, FungibleToken};
    #[contract]
    pub struct BaseC;
    #[contractimpl]
    impl BaseC {
        pub fn __constructor(e: &Env) {
            Base::set_metadata(e, 7, String::from_str(e, "Tok"), String::from_str(e, "TOK"));
        }
        pub fn mint(e: &Env, to: Address, amount: i128) { Base::mint(e, &to, amount); }
    }
    #[contractimpl(contracttrait)]
    impl FungibleToken for BaseC { type ContractType = Base; }
    #[contractimpl(contracttrait)]
    impl FungibleBurnable for BaseC {}
}

pub mod allow_c {
    use soroban_sdk::{contract, contractimpl, Address, Env, MuxedAddress, String, Symbol, Vec};
    use stellar_tokens::fungible::{allowlist::AllowList, burnable::FungibleBurnable, Base, FungibleToken};
    #[contract]
    pub struct AllowC;
    #[contractimpl]
    impl AllowC {
        pub fn __constructor(e: &Env) {
            Base::set_metadata(e, 7, String::from_str(e, "Tok"), String::from_str(e, "TOK"));
        }
        pub fn mint(e: &Env, to: Address, amount: i128) { Base::mint(e, &to, amount); }
        pub fn set_listed(e: &Env, user: Address, b: bool) {
            if b { AllowList::allow_user(e, &user) } else { AllowList::disallow_user(e, &user) }
        }
    }
    #[contractimpl(contracttrait)]
    impl FungibleToken for AllowC { type ContractType = AllowList; }
    #[contractimpl(contracttrait)]
    impl FungibleBurnable for AllowC {
        fn burn(e: &Env, from: Address, amount: i128) { AllowList::burn(e, &from, amount); }
        fn burn_from(e: &Env, spender: Address, from: Address, amount: i128) { AllowList::burn_from(e, &spender, &from, amount); }
    }
}

pub mod block_c {
    use soroban_sdk::{contract, contractimpl, Address, Env, MuxedAddress, String, Symbol, Vec};
    use stellar_tokens::fungible::{blocklist::BlockList, burnable::FungibleBurnable, Base, FungibleToken};
    #[contract]
    pub struct BlockC;
    #[contractimpl]
    impl BlockC {
        pub fn __constructor(e: &Env) {
            Base::set_metadata(e, 7, String::from_str(e, "Tok"), String::from_str(e, "TOK"));
        }
        pub fn mint(e: &Env, to: Address, amount: i128) { Base::mint(e, &to, amount); }
        pub fn set_listed(e: &Env, user: Address, b: bool) {
            if b { BlockList::block_user(e, &user) } else { BlockList::unblock_user(e, &user) }
        }
    }
    #[contractimpl(contracttrait)]
    impl FungibleToken for BlockC { type ContractType = BlockList; }
    #[contractimpl(contracttrait)]
    impl FungibleBurnable for BlockC {
        fn burn(e: &Env, from: Address, amount: i128) { BlockList::burn(e, &from, amount); }
        fn burn_from(e: &Env, spender: Address, from: Address, amount: i128) { BlockList::burn_from(e, &spender, &from, amount); }
    }
}

pub mod votes_c {
    use soroban_sdk::{contract, contractimpl, Address, Env, MuxedAddress, String, Symbol, Vec};
    use stellar_tokens::fungible::{burnable::FungibleBurnable, votes::FungibleVotes, Base, FungibleToken};
    #[contract]
    pub struct VotesC;
    #[contractimpl]
    impl VotesC {
        pub fn __constructor(e: &Env) {
            Base::set_metadata(e, 7, String::from_str(e, "Tok"), String::from_str(e, "TOK"));
        }
        pub fn mint(e: &Env, to: Address, amount: i128) { FungibleVotes::mint(e, &to, amount); }
        pub fn delegate(e: &Env, account: Address, delegatee: Address) {
            stellar_governance::votes::delegate(e, &account, &delegatee);
        }
    }
    #[contractimpl(contracttrait)]
    impl FungibleToken for VotesC { type ContractType = FungibleVotes; }
    #[contractimpl(contracttrait)]
    impl FungibleBurnable for VotesC {
        fn burn(e: &Env, from: Address, amount: i128) { FungibleVotes::burn(e, &from, amount); }
        fn burn_from(e: &Env, spender: Address, from: Address, amount: i128) { FungibleVotes::burn_from(e, &spender, &from, amount); }
    }
}

// the real example vault
#[path = "/repo/examples/fungible-vault/src/contract.rs"]
pub mod vault_example;

pub mod rwa_c {
    use soroban_sdk::{contract, contractimpl, contracttype, Address, Env, MuxedAddress, String, Symbol, Vec};
    use stellar_contract_utils::pausable;
    use stellar_tokens::{fungible::{Base, FungibleToken}, rwa::RWA};
    #[contract]
    pub struct RwaC;
    #[contractimpl]
    impl RwaC {
        pub fn __constructor(e: &Env, compliance: Address, idv: Address) {
            Base::set_metadata(e, 7, String::from_str(e, "Tok"), String::from_str(e, "TOK"));
            RWA::set_compliance(e, &compliance);
            RWA::set_identity_verifier(e, &idv);
        }
        pub fn mint(e: &Env, to: Address, amount: i128) { RWA::mint(e, &to, amount); }
        pub fn rburn(e: &Env, user: Address, amount: i128) { RWA::burn(e, &user, amount); }
        pub fn forced(e: &Env, from: Address, to: Address, amount: i128) { RWA::forced_transfer(e, &from, &to, amount); }
        pub fn recover(e: &Env, old: Address, new: Address) -> bool { RWA::recover_balance(e, &old, &new) }
        pub fn freeze(e: &Env, user: Address, amount: i128) { RWA::freeze_partial_tokens(e, &user, amount); }
        pub fn unfreeze(e: &Env, user: Address, amount: i128) { RWA::unfreeze_partial_tokens(e, &user, amount); }
        pub fn set_frozen(e: &Env, user: Address, b: bool) { RWA::set_address_frozen(e, &user, b); }
        pub fn set_paused(e: &Env, b: bool) { if b { pausable::pause(e) } else { pausable::unpause(e) } }
    }
    #[contractimpl(contracttrait)]
    impl FungibleToken for RwaC { type ContractType = RWA; }

    // permissive mocks (C04 owns the gates; here only the balance-moving paths matter)
    #[contract]
    pub struct ComplianceMock;
    #[contractimpl]
    impl ComplianceMock {
        pub fn can_transfer(_e: &Env, _from: Address, _to: Address, _amount: i128, _token: Address) -> bool { true }
        pub fn can_create(_e: &Env, _to: Address, _amount: i128, _token: Address) -> bool { true }
        pub fn created(_e: &Env, _to: Address, _amount: i128, _token: Address) {}
        pub fn destroyed(_e: &Env, _from: Address, _amount: i128, _token: Address) {}
        pub fn transferred(_e: &Env, _from: Address, _to: Address, _amount: i128, _token: Address) {}
    }
    #[contracttype]
    pub enum IdvKey { Target(Address) }
    #[contract]
    pub struct IdvMock;
    #[contractimpl]
    impl IdvMock {
        pub fn verify_identity(_e: &Env, _account: Address) {}
        pub fn recovery_target(e: &Env, old_account: Address) -> Option<Address> {
            e.storage().persistent().get(&IdvKey::Target(old_account))
        }
        pub fn set_recovery(e: &Env, old: Address, new: Address) {
            e.storage().persistent().set(&IdvKey::Target(old), &new);
        }
    }
}

/// A forwarder contract: when it calls the token, the forwarder's own address is authorised by the
/// host's invoker rule (no authorisation entry, no mock), so a REGISTERED CONTRACT can be the
/// from / owner / spender / operator of a successful call.  (mock_auths on a contract address would
/// replace the contract.)
pub mod fwd_c {
    use soroban_sdk::{contract, contractimpl, Address, Env, Symbol, Val, Vec};
    #[contract]
    pub struct Fwd;
    #[contractimpl]
    impl Fwd {
        pub fn call(e: Env, target: Address, f: Symbol, args: Vec<Val>) -> Val { e.invoke_contract::<Val>(&target, &f, args) }
    }
}

// ---------------------------------------------------------------------------------------------
#[derive(Clone, Copy, PartialEq, Eq, Debug)]
pub enum Flav { Base, Allow, Block, Votes, Vault, Rwa }
impl Flav {
    fn coq(self) -> &'static str {
        match self { Flav::Base => "FBase", Flav::Allow => "FAllow", Flav::Block => "FBlock", Flav::Votes => "FVotes", Flav::Vault => "FVault", Flav::Rwa => "FRwa" }
    }
    fn tag(self) -> &'static str {
        match self { Flav::Base => "base", Flav::Allow => "allow", Flav::Block => "block", Flav::Votes => "votes", Flav::Vault => "vault", Flav::Rwa => "rwa" }
    }
    fn has_burn(self) -> bool { matches!(self, Flav::Base | Flav::Allow | Flav::Block | Flav::Votes) }
}

#[derive(Clone, Debug)]
pub enum C {
    Advance(u32),
    Mint(usize, i128),
    Transfer(Vec<usize>, usize, usize, Option<u64>, i128),
    TransferFrom(Vec<usize>, usize, usize, usize, i128),
    Approve(Vec<usize>, usize, usize, i128, u32),
    Burn(Vec<usize>, usize, i128),
    BurnFrom(Vec<usize>, usize, usize, i128),
    QBalance(usize),
    QSupply,
    QAllowance(usize, usize),
    SetListed(usize, bool),
    Delegate(Vec<usize>, usize, usize),
    VDeposit(Vec<usize>, Vec<usize>, i128, usize, usize, usize), // auths, signers whose entry covers the nested asset call, ...
    VMint(Vec<usize>, Vec<usize>, i128, usize, usize, usize),
    VWithdraw(Vec<usize>, i128, usize, usize, usize),
    VRedeem(Vec<usize>, i128, usize, usize, usize),
    AssetMint(usize, i128),
    AssetApprove(Vec<usize>, usize, usize, i128, u32),
    RForced(usize, usize, i128),
    RBurn(usize, i128),
    RRecover(usize, usize),
    RFreeze(usize, i128),
    RUnfreeze(usize, i128),
    RSetFrozen(usize, bool),
    RPause(bool),
    RSetRecovery(usize, usize),
}

fn na(i: usize) -> String { n(i as u64) }
fn nl(v: &[usize]) -> String { list(&v.iter().map(|i| na(*i)).collect::<Vec<_>>()) }

impl C {
    fn coq(&self) -> String {
        match self {
            C::Advance(k) => format!("Advance {}", k),
            C::Mint(t, a) => format!("Mint {} {}", na(*t), z(*a)),
            C::Transfer(au, f, t, m, a) => format!("Transfer {} {} {} {} {}", nl(au), na(*f), na(*t), match m { Some(id) => format!("(Some {})", id), None => "None".into() }, z(*a)),
            C::TransferFrom(au, s, f, t, a) => format!("TransferFrom {} {} {} {} {}", nl(au), na(*s), na(*f), na(*t), z(*a)),
            C::Approve(au, o, s, a, lu) => format!("Approve {} {} {} {} {}", nl(au), na(*o), na(*s), z(*a), lu),
            C::Burn(au, f, a) => format!("Burn {} {} {}", nl(au), na(*f), z(*a)),
            C::BurnFrom(au, s, f, a) => format!("BurnFrom {} {} {} {}", nl(au), na(*s), na(*f), z(*a)),
            C::QBalance(a) => format!("QBalance {}", na(*a)),
            C::QSupply => "QSupply".into(),
            C::QAllowance(o, s) => format!("QAllowance {} {}", na(*o), na(*s)),
            C::SetListed(a, b_) => format!("SetListed {} {}", na(*a), b(*b_)),
            C::Delegate(au, a, d) => format!("Delegate {} {} {}", nl(au), na(*a), na(*d)),
            C::VDeposit(au, sb, x, r, f, o) => format!("VDeposit {} {} {} {} {} {}", nl(au), nl(sb), z(*x), na(*r), na(*f), na(*o)),
            C::VMint(au, sb, x, r, f, o) => format!("VMint {} {} {} {} {} {}", nl(au), nl(sb), z(*x), na(*r), na(*f), na(*o)),
            C::VWithdraw(au, x, r, w, o) => format!("VWithdraw {} {} {} {} {}", nl(au), z(*x), na(*r), na(*w), na(*o)),
            C::VRedeem(au, x, r, w, o) => format!("VRedeem {} {} {} {} {}", nl(au), z(*x), na(*r), na(*w), na(*o)),
            C::AssetMint(t, a) => format!("AssetMint {} {}", na(*t), z(*a)),
            C::AssetApprove(au, o, s, a, lu) => format!("AssetApprove {} {} {} {} {}", nl(au), na(*o), na(*s), z(*a), lu),
            C::RForced(f, t, a) => format!("RForcedTransfer {} {} {}", na(*f), na(*t), z(*a)),
            C::RBurn(u, a) => format!("RBurn {} {}", na(*u), z(*a)),
            C::RRecover(o, nw) => format!("RRecover {} {}", na(*o), na(*nw)),
            C::RFreeze(u, a) => format!("RFreeze {} {}", na(*u), z(*a)),
            C::RUnfreeze(u, a) => format!("RUnfreeze {} {}", na(*u), z(*a)),
            C::RSetFrozen(u, b_) => format!("RSetFrozen {} {}", na(*u), b(*b_)),
            C::RPause(b_) => format!("RPause {}", b(*b_)),
            C::RSetRecovery(o, nw) => format!("RSetRecovery {} {}", na(*o), na(*nw)),
        }
    }
    fn kind(&self) -> &'static str {
        match self {
            C::Advance(_) => "advance", C::Mint(..) => "mint", C::Transfer(..) => "transfer", C::TransferFrom(..) => "transfer_from",
            C::Approve(..) => "approve", C::Burn(..) => "burn", C::BurnFrom(..) => "burn_from", C::QBalance(_) => "q_balance",
            C::QSupply => "q_supply", C::QAllowance(..) => "q_allowance", C::SetListed(..) => "set_listed", C::Delegate(..) => "delegate",
            C::VDeposit(..) => "v_deposit", C::VMint(..) => "v_mint", C::VWithdraw(..) => "v_withdraw", C::VRedeem(..) => "v_redeem",
            C::AssetMint(..) => "asset_mint", C::AssetApprove(..) => "asset_approve", C::RForced(..) => "r_forced", C::RBurn(..) => "r_burn",
            C::RRecover(..) => "r_recover", C::RFreeze(..) => "r_freeze", C::RUnfreeze(..) => "r_unfreeze", C::RSetFrozen(..) => "r_set_frozen",
            C::RPause(_) => "r_pause", C::RSetRecovery(..) => "r_set_recovery",
        }
    }
}

/// what the generator remembers of the last observation
#[derive(Clone, Default)]
pub struct Mirror {
    pub now: u32,
    pub supply: i128,
    pub bal: Vec<i128>,
    pub allow: Vec<Vec<(i128, u32, i64)>>, // [owner][spender] = (amount, live_until, storage live_until or -1)
    pub abal: Vec<i128>,                   // vault: asset balances
    pub frozen: Vec<i128>,                 // rwa
    pub listed: Vec<bool>,                 // allow / block list flag per address
    pub afrozen: Vec<bool>,                // rwa: address frozen
}

pub struct World {
    pub e: Env,
    pub flav: Flav,
    pub tok: Address,
    pub asset: Option<Address>,
    pub idv: Option<Address>,
    pub addrs: Vec<Address>, // universe: users 0..nu-1, the token contract, an account-type address, (vault: the asset contract), the forwarder contract
    pub fwd: usize,          // index of the forwarder contract (last of the universe)
    pub sc: Vec<xdr::ScAddress>,
    pub nu: usize,
    pub start: u32,
    pub min_temp: u32,
    pub max_ttl: u32,
    pub offset: u32,
    pub m: Mirror,
    pub items: Vec<String>,
    pub dead: bool,
    pub rtarget: Vec<Option<usize>>, // rwa: recovery targets set so far
    pub genesis: String, // observation taken before the first call
    pub appr: Vec<Vec<Option<u32>>>, // live_until of the last successful approve per (owner, spender)
}

fn i128_of(e: &Env, v: &Val) -> Option<i128> { i128::try_from_val(e, v).ok() }

/// value printed when a getter of the code under test traps: negative, so both the diff and the
/// monitors flag it (no balance / allowance / supply is ever negative)
pub const SENTINEL: i128 = -7_777_777;
thread_local! { static QUIET: std::cell::Cell<u32> = std::cell::Cell::new(0); }
/// run a read of the code under test; a trap (panic_with_error / host error) becomes None instead of
/// aborting the harness
fn guarded<T>(f: impl FnOnce() -> T) -> Option<T> {
    QUIET.with(|q| q.set(q.get() + 1));
    let r = std::panic::catch_unwind(std::panic::AssertUnwindSafe(f)).ok();
    QUIET.with(|q| q.set(q.get() - 1));
    r
}
/// the observation printed when nothing could be observed: malformed on purpose (no balances, negative
/// supply), so that diff and monitors reject the trace at that point
fn sentinel_obs(now: u32) -> String {
    format!("{{| o_now := {}; o_supply := {}; o_bal := []; o_allow := []; o_extra := [] |}}", now, z(SENTINEL))
}
fn install_panic_hook() {
    let default = std::panic::take_hook();
    std::panic::set_hook(Box::new(move |info| { if QUIET.with(|q| q.get()) == 0 || std::env::var("VERIF_LOUD").is_ok() { default(info); } }));
}

impl World {
    pub fn new(flav: Flav, nu: usize, start: u32, min_temp: u32, max_ttl: u32, offset: u32) -> World {
        World::new_cfg(flav, nu, start, min_temp, 4096.min(max_ttl), max_ttl, offset)
    }
    pub fn new_cfg(flav: Flav, nu: usize, start: u32, min_temp: u32, min_pers: u32, max_ttl: u32, offset: u32) -> World {
        let e = Env::default();
        e.cost_estimate().budget().reset_unlimited();
        e.cost_estimate().disable_resource_limits();
        e.ledger().with_mut(|l| {
            l.sequence_number = start;
            l.min_temp_entry_ttl = min_temp;
            l.min_persistent_entry_ttl = min_pers;
            l.max_entry_ttl = max_ttl;
        });
        let mut addrs: Vec<Address> = (0..nu).map(|_| Address::generate(&e)).collect();
        let (mut asset, mut idv) = (None, None);
        let tok = match flav {
            Flav::Base => e.register(base_c::BaseC, ()),
            Flav::Allow => e.register(allow_c::AllowC, ()),
            Flav::Block => e.register(block_c::BlockC, ()),
            Flav::Votes => e.register(votes_c::VotesC, ()),
            Flav::Vault => {
                let a = e.register(base_c::BaseC, ());
                let v = e.register(
                    vault_example::ExampleContract,
                    (soroban_sdk::String::from_str(&e, "Vault"), soroban_sdk::String::from_str(&e, "VLT"), a.clone(), offset),
                );
                asset = Some(a);
                v
            }
            Flav::Rwa => {
                let c = e.register(rwa_c::ComplianceMock, ());
                let i = e.register(rwa_c::IdvMock, ());
                let t = e.register(rwa_c::RwaC, (c.clone(), i.clone()));
                idv = Some(i);
                t
            }
        };
        addrs.push(tok.clone());
        // an account-type (G...) address: it never signs; it is the recipient of muxed transfers
        let acct_sc = xdr::ScAddress::Account(xdr::AccountId(xdr::PublicKey::PublicKeyTypeEd25519(xdr::Uint256([7u8; 32]))));
        let acct = Address::try_from_val(&e, &xdr::ScVal::Address(acct_sc)).unwrap();
        addrs.push(acct);
        if let Some(a) = &asset { addrs.push(a.clone()); }   // vault: the asset token's address can hold shares too
        // another registered contract that can really authorise (it is the direct invoker of what it forwards)
        addrs.push(e.register(fwd_c::Fwd, ()));
        let fwd = addrs.len() - 1;
        let sc = addrs.iter().map(|a| xdr::ScAddress::from(a)).collect();
        let nall0 = addrs.len();
        let mut w = World { e, flav, tok, asset, idv, addrs, fwd, sc, nu, start, min_temp, max_ttl, offset, m: Mirror::default(), items: vec![], dead: false, genesis: String::new(), rtarget: vec![None; nall0], appr: vec![vec![None; nall0]; nall0] };
        w.m.now = start;
        w.genesis = guarded(|| w.observe()).unwrap_or_else(|| sentinel_obs(start));
        w
    }

    fn a(&self, i: usize) -> &Address { &self.addrs[i] }
    fn listed(&self, i: usize) -> bool { self.m.listed.get(i).copied().unwrap_or(false) }
    fn addr_frozen(&self, i: usize) -> bool { self.m.afrozen.get(i).copied().unwrap_or(false) }
    fn now(&self) -> u32 { self.e.ledger().sequence() }

    /// invoke `f(args)` on `contract` with exactly the addresses `auths` authorising this
    /// invocation (and the given sub-invocations); returns Some(ret) on success
    fn invoke(&self, contract: &Address, f: &str, args: SVec<Val>, auths: &[usize], subs: &[(Address, &str, SVec<Val>)]) -> (Option<Val>, Vec<String>) {
        let e = &self.e;
        let sub_invokes: Vec<MockAuthInvoke> = subs.iter().map(|(c, f, a)| MockAuthInvoke { contract: c, fn_name: f, args: a.clone(), sub_invokes: &[] }).collect();
        let inv = MockAuthInvoke { contract, fn_name: f, args: args.clone(), sub_invokes: &sub_invokes };
        let mut seen: Vec<usize> = vec![];
        for &i in auths { if i < self.nu && !seen.contains(&i) { seen.push(i); } }
        let mocks: Vec<MockAuth> = seen.iter().map(|&i| MockAuth { address: &self.addrs[i], invoke: &inv }).collect();
        e.mock_auths(&mocks);
        let r = self.call_maybe_forwarded(contract, f, args, auths);
        let evs = self.events();
        e.mock_auths(&[]);
        match r { Some(v) => (Some(v), evs), None => (None, evs) }
    }

    /// like `invoke`, but only the signers listed in `with_sub` have the nested sub-invocations in their
    /// authorisation entry; the other signers authorise the root invocation only
    fn invoke_sub(&self, contract: &Address, f: &str, args: SVec<Val>, auths: &[usize], with_sub: &[usize], subs: &[(Address, &str, SVec<Val>)]) -> (Option<Val>, Vec<String>) {
        let e = &self.e;
        let sub_invokes: Vec<MockAuthInvoke> = subs.iter().map(|(c, f, a)| MockAuthInvoke { contract: c, fn_name: f, args: a.clone(), sub_invokes: &[] }).collect();
        let inv_full = MockAuthInvoke { contract, fn_name: f, args: args.clone(), sub_invokes: &sub_invokes };
        let inv_root = MockAuthInvoke { contract, fn_name: f, args: args.clone(), sub_invokes: &[] };
        let mut seen: Vec<usize> = vec![];
        assert!(with_sub.iter().all(|&i| i < self.nu), "only users can authorise the nested asset-token call");
        for &i in auths.iter().chain(with_sub.iter()) { if i < self.nu && !seen.contains(&i) { seen.push(i); } }
        // a signer of the nested call that does not sign the root at all: its entry is rooted at the nested call
        let nested_only: Vec<MockAuthInvoke> = subs.iter().map(|(c, f, a)| MockAuthInvoke { contract: c, fn_name: f, args: a.clone(), sub_invokes: &[] }).collect();
        let mut mocks: Vec<MockAuth> = vec![];
        for &i in &seen {
            let in_root = auths.contains(&i); let in_sub = with_sub.contains(&i);
            if in_root && in_sub { mocks.push(MockAuth { address: &self.addrs[i], invoke: &inv_full }); }
            else if in_root { mocks.push(MockAuth { address: &self.addrs[i], invoke: &inv_root }); }
            else if let Some(n0) = nested_only.first() { mocks.push(MockAuth { address: &self.addrs[i], invoke: n0 }); }
        }
        e.mock_auths(&mocks);
        let r = self.call_maybe_forwarded(contract, f, args, auths);
        let evs = self.events();
        e.mock_auths(&[]);
        match r { Some(v) => (Some(v), evs), None => (None, evs) }
    }

    /// the root invocation: direct, or - when the forwarder is among the authorising addresses - through the
    /// forwarder contract (then the forwarder is the direct invoker of the token call and its address is
    /// authorised by the host's invoker rule; the users' mocked entries are rooted at the token call as before)
    fn call_maybe_forwarded(&self, contract: &Address, f: &str, args: SVec<Val>, auths: &[usize]) -> Option<Val> {
        let e = &self.e;
        // only users (mocked entries) and the forwarder (invoker rule) can authorise; any other index in an
        // authorisation set would make the model believe in a signature that the harness cannot attach
        assert!(auths.iter().all(|&i| i < self.nu || i == self.fwd), "authorisation set names a non-signing address");
        let r = if auths.contains(&self.fwd) {
            let fargs: SVec<Val> = soroban_sdk::vec![e, contract.to_val(), Symbol::new(e, f).to_val(), args.to_val()];
            e.try_invoke_contract::<Val, soroban_sdk::Error>(&self.addrs[self.fwd], &Symbol::new(e, "call"), fargs)
        } else {
            e.try_invoke_contract::<Val, soroban_sdk::Error>(contract, &Symbol::new(e, f), args)
        };
        match r { Ok(Ok(v)) => Some(v), _ => None }
    }

    fn idx_of(&self, a: &xdr::ScAddress) -> String {
        match self.sc.iter().position(|x| x == a) { Some(i) => na(i), None => "999%N".into() }
    }

    /// the token contract's events of the last invocation, as Gallina `event` terms
    fn events(&self) -> Vec<String> {
        let all = self.e.events().all().filter_by_contract(&self.tok);
        let mut out = vec![];
        for ev in all.events() {
            let xdr::ContractEventBody::V0(body) = &ev.body;
            let topics: Vec<&xdr::ScVal> = body.topics.iter().collect();
            let name = match topics.first() { Some(xdr::ScVal::Symbol(s)) => s.to_utf8_string_lossy(), _ => continue };
            let taddr = |k: usize| -> String { match topics.get(k) { Some(xdr::ScVal::Address(a)) => self.idx_of(a), _ => "998%N".into() } };
            let field = |key: &str| -> Option<xdr::ScVal> {
                match &body.data {
                    xdr::ScVal::Map(Some(m)) => m.iter().find(|en| matches!(&en.key, xdr::ScVal::Symbol(s) if s.to_utf8_string_lossy() == key)).map(|en| en.val.clone()),
                    other => if key == "amount" { Some(other.clone()) } else { None },
                }
            };
            let num = |key: &str| -> String {
                match field(key) {
                    Some(xdr::ScVal::I128(p)) => z(((p.hi as i128) << 64) | (p.lo as i128)),
                    Some(xdr::ScVal::U32(v)) => format!("{}", v),
                    Some(xdr::ScVal::U64(v)) => format!("{}", v),
                    _ => "(-999)".into(),
                }
            };
            match name.as_str() {
                "mint" => out.push(format!("EMint {} {}", taddr(1), num("amount"))),
                "burn" => out.push(format!("EBurn {} {}", taddr(1), num("amount"))),
                "transfer" => {
                    let mux = match field("to_muxed_id") { Some(xdr::ScVal::U64(v)) => format!("(Some {})", v), _ => "None".into() };
                    out.push(format!("ETransfer {} {} {} {}", taddr(1), taddr(2), mux, num("amount")))
                }
                "approve" => out.push(format!("EApprove {} {} {} {}", taddr(1), taddr(2), num("amount"), num("live_until_ledger"))),
                "deposit" => out.push(format!("EDeposit {} {} {} {} {}", taddr(1), taddr(2), taddr(3), num("assets"), num("shares"))),
                "withdraw" => out.push(format!("EWithdraw {} {} {} {} {}", taddr(1), taddr(2), taddr(3), num("assets"), num("shares"))),
                _ => {}
            }
        }
        out
    }

    /// read every getter the properties talk about; refresh the mirror; return the Gallina `obs`
    pub fn observe(&mut self) -> String {
        let e = self.e.clone();
        e.mock_auths(&[]);
        let n_all = self.addrs.len();
        let now = self.now();
        let tok = self.tok.clone();
        let addrs = self.addrs.clone();
        // total_supply(), balance(), allowance(): through the contract's public entry points (they dispatch
        // through the flavour's ContractType overrides); a trap becomes the sentinel
        let ep = |f: &str, args: SVec<Val>| -> i128 {
            match e.try_invoke_contract::<Val, soroban_sdk::Error>(&tok, &Symbol::new(&e, f), args) {
                Ok(Ok(v)) => i128_of(&e, &v).unwrap_or(SENTINEL),
                _ => SENTINEL,
            }
        };
        let supply = ep("total_supply", soroban_sdk::vec![&e]);
        let bal: Vec<i128> = addrs.iter().map(|a| ep("balance", soroban_sdk::vec![&e, a.to_val()])).collect();
        let ep_allow: Vec<Vec<i128>> = addrs.iter().map(|o| addrs.iter().map(|s| ep("allowance", soroban_sdk::vec![&e, o.to_val(), s.to_val()])).collect()).collect();
        // live_until of the allowance and the storage lifetime of its entry: library / storage reads
        let allow = e.as_contract(&tok, || {
            let mut allow = vec![];
            for o in addrs.iter() {
                let mut row = vec![];
                for s in addrs.iter() {
                    let r = guarded(|| {
                        let d = Base::allowance_data(&e, o, s);
                        let key = FungibleStorageKey::Allowance(AllowanceKey { owner: o.clone(), spender: s.clone() });
                        let ttl: i64 = if e.storage().temporary().has(&key) { now as i64 + e.storage().temporary().get_ttl(&key) as i64 } else { -1 };
                        (d.amount, d.live_until_ledger, ttl)
                    });
                    row.push(r.unwrap_or((SENTINEL, 0, -1)));
                }
                allow.push(row);
            }
            allow
        });
        // the amount is the public getter's answer (it must agree with allowance_data; if it does not, the
        // public answer is what is observed and the live_until / entry lifetime stay the library's)
        let allow: Vec<Vec<(i128, u32, i64)>> = allow.iter().enumerate().map(|(i, row)| row.iter().enumerate().map(|(j, &(am, lu, ttl))| {
            let pubv = ep_allow[i][j];
            if pubv == am { (am, lu, ttl) } else { (pubv, lu, ttl) }
        }).collect()).collect();
        let mut extra: Vec<String> = vec![];
        let mut abal = vec![];
        let mut frozen = vec![];
        let mut listed: Vec<bool> = vec![];
        let mut afrozen: Vec<bool> = vec![];
        let gz = |r: Option<i128>| -> String { z(r.unwrap_or(SENTINEL)) };
        match self.flav {
            Flav::Base => {}
            Flav::Allow => e.as_contract(&tok, || for a in addrs.iter() { let r = guarded(|| stellar_tokens::fungible::allowlist::AllowList::allowed(&e, a) as i128); listed.push(r == Some(1)); extra.push(gz(r)); }),
            Flav::Block => e.as_contract(&tok, || for a in addrs.iter() { let r = guarded(|| stellar_tokens::fungible::blocklist::BlockList::blocked(&e, a) as i128); listed.push(r == Some(1)); extra.push(gz(r)); }),
            Flav::Votes => e.as_contract(&tok, || {
                use stellar_governance::votes::{get_delegate, get_total_supply, get_votes, get_voting_units};
                let gu = |r: Option<u128>| -> String { match r { Some(v) => zu(v), None => z(SENTINEL) } };
                extra.push(gu(guarded(|| get_total_supply(&e))));
                for a in addrs.iter() {
                    extra.push(gu(guarded(|| get_voting_units(&e, a))));
                    extra.push(gu(guarded(|| get_votes(&e, a))));
                    extra.push(match guarded(|| get_delegate(&e, a)) {
                        Some(Some(d)) => { let sc = xdr::ScAddress::from(&d); match self.sc.iter().position(|x| *x == sc) { Some(i) => format!("{}", i), None => "999".into() } }
                        Some(None) => "(-1)".into(),
                        None => z(SENTINEL),
                    });
                }
            }),
            Flav::Vault => {
                let asset = self.asset.clone().unwrap();
                e.as_contract(&asset, || for a in addrs.iter() { let v = guarded(|| Base::balance(&e, a)).unwrap_or(SENTINEL); abal.push(v); extra.push(z(v)); });
            }
            Flav::Rwa => e.as_contract(&tok, || {
                use stellar_tokens::rwa::RWA;
                extra.push(gz(guarded(|| stellar_contract_utils::pausable::paused(&e) as i128)));
                for a in addrs.iter() {
                    let f = guarded(|| RWA::get_frozen_tokens(&e, a)).unwrap_or(SENTINEL);
                    frozen.push(f);
                    extra.push(z(f));
                    let r = guarded(|| RWA::is_frozen(&e, a) as i128); afrozen.push(r == Some(1)); extra.push(gz(r));
                }
            }),
        }
        let bal_s: Vec<String> = (0..n_all).map(|i| pair(&na(i), &z(bal[i]))).collect();
        let mut allow_s = vec![];
        for o in 0..n_all { for s in 0..n_all {
            let (am, lu, ttl) = allow[o][s];
            if (am, lu, ttl) == (0, 0, -1) { continue; }
            allow_s.push(format!("(({}, {}), (({}, {}), {}))", na(o), na(s), z(am), lu, z(ttl as i128)));
        } }
        self.m = Mirror { now, supply, bal, allow, abal, frozen, listed, afrozen };
        format!("{{| o_now := {}; o_supply := {}; o_bal := {}; o_allow := {}; o_extra := {} |}}", now, z(supply), list(&bal_s), list(&allow_s), list(&extra))
    }

    fn av(&self, i: usize) -> Val { self.addrs[i].to_val() }
    fn iv(&self, v: i128) -> Val { v.into_val(&self.e) }

    /// execute one call on the real contracts; record the trace item; returns ok?
    /// Execute one call.  Nothing the code under test (or the test host under it) does may abort the
    /// harness: if executing or observing panics outside the host's own error handling, the call is
    /// recorded as failed with a sentinel observation (flagged by diff and monitors) and the rest of the
    /// trace is not executed (the environment may be inconsistent).
    pub fn step(&mut self, out: &mut Out, c: C) -> bool {
        if self.dead { return false; }
        let text = c.coq();
        let r = { let me = &mut *self; let o = &mut *out; guarded(move || me.step_inner(o, c)) };
        match r {
            Some(ok) => ok,
            None => {
                self.dead = true;
                out.label("harness/execution-panicked");
                let now = guarded(|| self.e.ledger().sequence()).unwrap_or(0);
                self.items.push(format!("({}, Fail, [], {})", text, sentinel_obs(now)));
                false
            }
        }
    }

    fn step_inner(&mut self, out: &mut Out, c: C) -> bool {
        // Test-host limitation (soroban-env-host invocation_metering.rs:1013, test-only code): a
        // persistent entry removed and re-created inside one invocation shrinks its TTL and makes
        // the host's resource metering panic.  FungibleVotes does that for a self-transfer of the
        // holder's entire balance (VotingUnits removed at 0, then set again); such a call cannot be
        // executed in the test host, so it is generated one unit smaller.
        let c = match c {
            C::Transfer(au, f, t, m, a) if self.flav == Flav::Votes && f == t && a > 0 && a == self.m.bal[f] => C::Transfer(au, f, t, m, a - 1),
            // a muxed recipient must be the account-type address (the last one of the universe)
            C::Transfer(au, f, t, Some(_), a) if t != self.nu + 1 => C::Transfer(au, f, t, None, a),
            C::TransferFrom(au, s, f, t, a) if self.flav == Flav::Votes && f == t && a > 0 && a == self.m.bal[f] => C::TransferFrom(au, s, f, t, a - 1),
            other => other,
        };
        let e = self.e.clone();
        let tok = self.tok.clone();
        let mut evs: Vec<String> = vec![];
        let classes = self.classes(&c);
        if std::env::var("VERIF_DEBUG").is_ok() { eprintln!("[{}] now={} {}", self.flav.tag(), self.now(), c.coq()); }
        // returns Some(value as Z text) on success
        let res: Option<String> = match &c {
            C::Advance(k) => {
                let nn = self.now() as u64 + *k as u64;
                if nn > u32::MAX as u64 { None } else { e.ledger().with_mut(|l| l.sequence_number = nn as u32); Some("0".into()) }
            }
            C::Mint(t, a) => self.unit(self.invoke(&tok, "mint", soroban_sdk::vec![&e, self.av(*t), self.iv(*a)], &[], &[]), &mut evs),
            C::Transfer(au, f, t, m, a) => {
                let to_val: Val = match m {
                    Some(id) => { use soroban_sdk::testutils::MuxedAddress as _; soroban_sdk::MuxedAddress::new(self.addrs[*t].clone(), *id).to_val() }
                    None => self.av(*t),
                };
                self.unit(self.invoke(&tok, "transfer", soroban_sdk::vec![&e, self.av(*f), to_val, self.iv(*a)], au, &[]), &mut evs)
            }
            C::TransferFrom(au, s, f, t, a) => self.unit(self.invoke(&tok, "transfer_from", soroban_sdk::vec![&e, self.av(*s), self.av(*f), self.av(*t), self.iv(*a)], au, &[]), &mut evs),
            C::Approve(au, o, s, a, lu) => self.unit(self.invoke(&tok, "approve", soroban_sdk::vec![&e, self.av(*o), self.av(*s), self.iv(*a), (*lu).into_val(&e)], au, &[]), &mut evs),
            C::Burn(au, f, a) => self.unit(self.invoke(&tok, "burn", soroban_sdk::vec![&e, self.av(*f), self.iv(*a)], au, &[]), &mut evs),
            C::BurnFrom(au, s, f, a) => self.unit(self.invoke(&tok, "burn_from", soroban_sdk::vec![&e, self.av(*s), self.av(*f), self.iv(*a)], au, &[]), &mut evs),
            C::QBalance(a) => self.num(self.invoke(&tok, "balance", soroban_sdk::vec![&e, self.av(*a)], &[], &[]), &mut evs),
            C::QSupply => self.num(self.invoke(&tok, "total_supply", soroban_sdk::vec![&e], &[], &[]), &mut evs),
            C::QAllowance(o, s) => self.num(self.invoke(&tok, "allowance", soroban_sdk::vec![&e, self.av(*o), self.av(*s)], &[], &[]), &mut evs),
            C::SetListed(a, b_) => self.unit(self.invoke(&tok, "set_listed", soroban_sdk::vec![&e, self.av(*a), (*b_).into_val(&e)], &[], &[]), &mut evs),
            C::Delegate(au, a, d) => self.unit(self.invoke(&tok, "delegate", soroban_sdk::vec![&e, self.av(*a), self.av(*d)], au, &[]), &mut evs),
            C::VDeposit(au, sb, x, r, f, o) | C::VMint(au, sb, x, r, f, o) => {
                let is_dep = matches!(c, C::VDeposit(..));
                let asset = self.asset.clone().unwrap();
                // the assets pulled by the nested token call (for `mint`: preview_mint(shares))
                let assets: i128 = if is_dep { *x } else {
                    match self.invoke(&tok, "preview_mint", soroban_sdk::vec![&e, self.iv(*x)], &[], &[]).0 { Some(v) => i128_of(&e, &v).unwrap_or(0), None => 0 }
                };
                let subs: Vec<(Address, &str, SVec<Val>)> = if o == f {
                    vec![(asset.clone(), "transfer", soroban_sdk::vec![&e, self.av(*f), tok.to_val(), self.iv(assets)])]
                } else {
                    vec![(asset.clone(), "transfer_from", soroban_sdk::vec![&e, self.av(*o), self.av(*f), tok.to_val(), self.iv(assets)])]
                };
                self.num(self.invoke_sub(&tok, if is_dep { "deposit" } else { "mint" }, soroban_sdk::vec![&e, self.iv(*x), self.av(*r), self.av(*f), self.av(*o)], au, sb, &subs), &mut evs)
            }
            C::VWithdraw(au, x, r, w, o) => self.num(self.invoke(&tok, "withdraw", soroban_sdk::vec![&e, self.iv(*x), self.av(*r), self.av(*w), self.av(*o)], au, &[]), &mut evs),
            C::VRedeem(au, x, r, w, o) => self.num(self.invoke(&tok, "redeem", soroban_sdk::vec![&e, self.iv(*x), self.av(*r), self.av(*w), self.av(*o)], au, &[]), &mut evs),
            C::AssetMint(t, a) => { let asset = self.asset.clone().unwrap(); self.unit(self.invoke(&asset, "mint", soroban_sdk::vec![&e, self.av(*t), self.iv(*a)], &[], &[]), &mut evs) }
            C::AssetApprove(au, o, s, a, lu) => { let asset = self.asset.clone().unwrap(); self.unit(self.invoke(&asset, "approve", soroban_sdk::vec![&e, self.av(*o), self.av(*s), self.iv(*a), (*lu).into_val(&e)], au, &[]), &mut evs) }
            C::RForced(f, t, a) => self.unit(self.invoke(&tok, "forced", soroban_sdk::vec![&e, self.av(*f), self.av(*t), self.iv(*a)], &[], &[]), &mut evs),
            C::RBurn(u, a) => self.unit(self.invoke(&tok, "rburn", soroban_sdk::vec![&e, self.av(*u), self.iv(*a)], &[], &[]), &mut evs),
            C::RRecover(o, nw) => {
                let (r, ev) = self.invoke(&tok, "recover", soroban_sdk::vec![&e, self.av(*o), self.av(*nw)], &[], &[]);
                evs = ev;
                r.and_then(|v| bool::try_from_val(&e, &v).ok()).map(|bv| if bv { "1".to_string() } else { "0".to_string() })
            }
            C::RFreeze(u, a) => self.unit(self.invoke(&tok, "freeze", soroban_sdk::vec![&e, self.av(*u), self.iv(*a)], &[], &[]), &mut evs),
            C::RUnfreeze(u, a) => self.unit(self.invoke(&tok, "unfreeze", soroban_sdk::vec![&e, self.av(*u), self.iv(*a)], &[], &[]), &mut evs),
            C::RSetFrozen(u, b_) => self.unit(self.invoke(&tok, "set_frozen", soroban_sdk::vec![&e, self.av(*u), (*b_).into_val(&e)], &[], &[]), &mut evs),
            C::RPause(b_) => self.unit(self.invoke(&tok, "set_paused", soroban_sdk::vec![&e, (*b_).into_val(&e)], &[], &[]), &mut evs),
            C::RSetRecovery(o, nw) => { let idv = self.idv.clone().unwrap(); self.unit(self.invoke(&idv, "set_recovery", soroban_sdk::vec![&e, self.av(*o), self.av(*nw)], &[], &[]), &mut evs) }
        };
        // asset-token / mock calls are not the token under test: their events are not the token's
        let ok = res.is_some();
        let call_text = c.coq();
        let label = format!("{}/{}/{}", self.flav.tag(), c.kind(), if ok { "ok" } else { "fail" });
        out.case(&label, &format!("{} {}", self.flav.tag(), call_text));
        out.label(&format!("{}/{}", c.kind(), if ok { "ok" } else { "fail" }));
        for cl in &classes { out.label(&format!("cls/{}/{}", cl, if ok { "ok" } else { "fail" })); }
        if ok { if let C::Approve(_, o, s, _, lu) = &c { self.appr[*o][*s] = Some(*lu); } }
        if ok { if let C::RSetRecovery(o, t) = &c { self.rtarget[*o] = Some(*t); } }
        let outcome = match &res { Some(v) => format!("Ok {}", v), None => "Fail".into() };
        let obs = self.observe();
        self.items.push(format!("({}, {}, {}, {})", call_text, outcome, list(&evs), obs));
        ok
    }

    /// boundary / malformed-input classes of a call, judged on the state before the call
    fn classes(&self, c: &C) -> Vec<String> {
        let m = &self.m;
        let now = m.now as i64;
        let mut v: Vec<String> = vec![];
        let mut amt_cls = |v: &mut Vec<String>, k: &str, a: i128, bal: i128| {
            if a < 0 { v.push(format!("{}/negative", k)); }
            if a == 0 { v.push(format!("{}/zero", k)); }
            if a > 0 && a == bal { v.push(format!("{}/whole-balance", k)); }
            if a > 0 && Some(a) == bal.checked_add(1) { v.push(format!("{}/balance-plus-1", k)); }
        };
        let spend_cls = |v: &mut Vec<String>, k: &str, au: &Vec<usize>, s: usize, f: usize, a: i128| {
            let (al, _lu, _) = m.allow[f][s];
            if !au.contains(&s) { v.push(format!("{}/spender-not-signing", k)); }
            if !au.contains(&s) && au.contains(&f) { v.push(format!("{}/owner-signs-instead", k)); }
            if au.is_empty() { v.push(format!("{}/no-auth", k)); }
            if a > 0 && a == al { v.push(format!("{}/exact-allowance", k)); }
            if a > 0 && Some(a) == al.checked_add(1) { v.push(format!("{}/allowance-plus-1", k)); }
            if a > 0 && a < al { v.push(format!("{}/part-of-allowance", k)); }
            if a == 0 { v.push(format!("{}/zero", k)); }
            if a < 0 { v.push(format!("{}/negative", k)); }
            if a == 0 && al == 0 { v.push(format!("{}/zero-without-allowance", k)); }
            if s == f { v.push(format!("{}/spender-is-owner", k)); }
            if let Some(lu) = self.appr[f][s] {
                if (lu as i64) < now { v.push(format!("{}/after-live-until", k)); }
                if lu as i64 == now && al > 0 { v.push(format!("{}/at-last-ledger", k)); }
                if lu as i64 + 1 == now { v.push(format!("{}/first-dead-ledger", k)); }
            }
            if a > 0 && m.allow[s][f].0 >= a && al < a { v.push(format!("{}/only-reverse-allowance", k)); }
        };
        // K1: special addresses as parties - the token contract itself, another registered contract (the
        // forwarder; for the vault also the asset token), the account-type address
        let nu = self.nu; let fwd = self.fwd; let is_vault = self.flav == Flav::Vault;
        let party = |v: &mut Vec<String>, k: &str, role: &str, i: usize| {
            if i == nu { v.push(format!("{}/{}-is-token-contract", k, role)); }
            if i == fwd { v.push(format!("{}/{}-is-other-contract", k, role)); }
            if is_vault && i == nu + 2 { v.push(format!("{}/{}-is-asset-contract", k, role)); }
            if i == nu + 1 { v.push(format!("{}/{}-is-account-address", k, role)); }
        };
        // K2: the amount catalogue (magic numbers of plausible fast paths)
        if let Some(a) = match c { C::Mint(_, a) | C::Transfer(_, _, _, _, a) | C::TransferFrom(_, _, _, _, a) | C::Approve(_, _, _, a, _) | C::Burn(_, _, a)
                                   | C::BurnFrom(_, _, _, a) | C::VDeposit(_, _, a, ..) | C::VRedeem(_, a, ..) | C::RBurn(_, a) | C::RForced(_, _, a) => Some(*a), _ => None } {
            if let Some((name, _)) = amount_catalogue().iter().find(|(_, x)| *x == a) { v.push(format!("amount/{}", name)); }
        }
        match c {
            C::Transfer(au, f, t, mx, a) => {
                party(&mut v, "transfer", "from", *f); party(&mut v, "transfer", "to", *t);
                if au.contains(&fwd) && au.len() > 1 { v.push("transfer/forwarded-with-user-signers".into()); }
                if let Some(id) = mx { if *id == 0 { v.push("transfer/muxed-id-zero".into()); } if *id == u64::MAX { v.push("transfer/muxed-id-max".into()); } }
                if mx.is_some() && self.flav == Flav::Block && self.listed(*t) { v.push("transfer/muxed-to-blocked".into()); }
                if mx.is_some() && self.flav == Flav::Allow && self.listed(*t) { v.push("transfer/muxed-to-allowed".into()); }
                if mx.is_some() && self.flav == Flav::Allow && !self.listed(*t) { v.push("transfer/muxed-to-not-allowed".into()); }
                if mx.is_some() && self.flav == Flav::Rwa && self.addr_frozen(*t) { v.push("transfer/muxed-to-frozen".into()); }
                if *a == 1 && m.bal[*f] == 0 { v.push("transfer/one-from-empty".into()); }
                if !au.contains(f) { v.push("transfer/holder-not-signing".into()); }
                if au.is_empty() { v.push("transfer/no-auth".into()); }
                if au.len() > 1 && au.contains(f) { v.push("transfer/extra-signers".into()); }
                if f == t { v.push("transfer/self".into()); }
                if mx.is_some() { v.push("transfer/muxed".into()); }
                if *f < m.bal.len() { amt_cls(&mut v, "transfer", *a, m.bal[*f]); }
            }
            C::Burn(au, f, a) => {
                party(&mut v, "burn", "from", *f);
                if *a == 1 && m.bal[*f] == 0 { v.push("burn/one-from-empty".into()); }
                if !au.contains(f) { v.push("burn/holder-not-signing".into()); }
                amt_cls(&mut v, "burn", *a, m.bal[*f]);
            }
            C::TransferFrom(au, s, f, t, a) => {
                party(&mut v, "transfer_from", "spender", *s); party(&mut v, "transfer_from", "from", *f); party(&mut v, "transfer_from", "to", *t);
                if *a == 1 && m.allow[*f][*s].0 == 0 { v.push("transfer_from/one-without-allowance".into()); }
                spend_cls(&mut v, "transfer_from", au, *s, *f, *a);
                if f == t { v.push("transfer_from/self".into()); }
                if s == t && s != f { v.push("transfer_from/spender-is-recipient".into()); }
                if s == f && f == t { v.push("transfer_from/all-three-aliased".into()); }
                if a > &m.bal[*f] && *a <= m.allow[*f][*s].0 { v.push("transfer_from/allowance-exceeds-balance".into()); }
            }
            C::BurnFrom(au, s, f, a) => {
                party(&mut v, "burn_from", "spender", *s); party(&mut v, "burn_from", "from", *f);
                if *a == 1 && m.allow[*f][*s].0 == 0 { v.push("burn_from/one-without-allowance".into()); }
                spend_cls(&mut v, "burn_from", au, *s, *f, *a)
            }
            C::VWithdraw(au, _, r, w, o) | C::VRedeem(au, _, r, w, o) => {
                party(&mut v, "vault_out", "receiver", *r); party(&mut v, "vault_out", "owner", *w); party(&mut v, "vault_out", "operator", *o);
                if let C::VWithdraw(_, x, ..) = c {
                    // withdraw by a third-party operator: at 1 share per asset (offset 0, no donation) the shares burned = assets
                    if o != w && self.offset == 0 && m.supply == m.abal[nu] {
                        if *x > 0 && *x == m.allow[*w][*o].0 { v.push("vault_out/withdraw-exact-allowance".into()); }
                        if *x > 0 && Some(*x) == m.allow[*w][*o].0.checked_add(1) { v.push("vault_out/withdraw-allowance-plus-1".into()); }
                    }
                }
                if !au.contains(o) { v.push("vault_out/operator-not-signing".into()); }
                if o != w { v.push("vault_out/operator-is-not-owner".into()); }
                if o != w && !au.contains(o) && au.contains(w) { v.push("vault_out/owner-signs-instead".into()); }
                if o != w && o == r { v.push("vault_out/operator-is-receiver".into()); }
                if o != w { if let C::VRedeem(_, x, ..) = c { spend_cls(&mut v, "vault_out", au, *o, *w, *x); } }
            }
            C::VDeposit(au, sb, _, r, f, o) | C::VMint(au, sb, _, r, f, o) => {
                party(&mut v, "vault_in", "receiver", *r); party(&mut v, "vault_in", "from", *f); party(&mut v, "vault_in", "operator", *o);
                if o != f { if let C::VMint(..) = c { v.push("vault_in/mint-operator-is-not-payer".into()); } }
                if !au.contains(o) { v.push("vault_in/operator-not-signing".into()); }
                if au.contains(o) && !sb.contains(o) { v.push("vault_in/operator-signs-root-only".into()); }
                if o != f { v.push("vault_in/operator-is-not-payer".into()); }
            }
            C::Approve(au, o, s, a, lu) => {
                party(&mut v, "approve", "owner", *o); party(&mut v, "approve", "spender", *s);
                if now == 0 && *lu == 0 && *a > 0 { v.push("approve/live-until-zero-at-ledger-zero".into()); }
                if *lu == 1 { v.push("approve/live-until-one".into()); }
                if *lu == u32::MAX { v.push("approve/live-until-u32-max".into()); }
                let maxl = now + self.max_ttl as i64 - 1;
                let lu = *lu as i64;
                if !au.contains(o) { v.push("approve/owner-not-signing".into()); }
                if !au.contains(o) && au.contains(s) { v.push("approve/spender-signs-instead".into()); }
                if *a < 0 { v.push("approve/negative".into()); }
                if *a == 0 { v.push("approve/zero".into()); }
                if *a == 0 && m.allow[*o][*s].0 > 0 { v.push("approve/revoke-live".into()); }
                if *a == 0 && m.allow[*o][*s].0 > 0 && lu < now { v.push("approve/revoke-live-with-past-ledger".into()); }
                if lu < now { v.push(if *a > 0 { "approve/live-until-past".into() } else { "approve/zero-live-until-past".into() }); }
                if lu == now { v.push("approve/live-until-now".into()); }
                if lu == maxl { v.push("approve/live-until-at-max".into()); }
                if lu == maxl + 1 { v.push("approve/live-until-max-plus-1".into()); }
                if lu > maxl + 1 { v.push("approve/live-until-far-beyond-max".into()); }
                let (al, olu, _) = m.allow[*o][*s];
                if al > 0 && *a > 0 && lu < olu as i64 && lu >= now { v.push("approve/shorter-over-live".into()); }
                if al > 0 && *a > 0 && lu > olu as i64 && lu <= maxl { v.push("approve/longer-over-live".into()); }
                if o == s { v.push("approve/self".into()); }
            }
            C::Advance(k) => {
                let k = *k as i64;
                if k == 0 { v.push("advance/zero".into()); }
                if now == 0 && k > 0 { v.push("advance/from-ledger-zero".into()); }
                if k >= 17_281 { v.push("advance/gap-over-1-day".into()); }
                if k >= 600_000 { v.push("advance/gap-over-30-days".into()); }
                if k >= 4_000_000 { v.push("advance/gap-4M".into()); }
                if k > self.max_ttl as i64 { v.push("advance/gap-over-max-entry-ttl".into()); }
                if m.allow.iter().any(|row| row.iter().any(|&(am, lu, _)| am > 0 && k >= 17_281 && now + k <= lu as i64)) { v.push("advance/long-gap-within-live-until".into()); }
                for row in &m.allow { for &(am, lu, ttl) in row {
                    let lu = lu as i64;
                    if am > 0 && now < lu && now + k == lu { v.push("advance/to-last-ledger".into()); }
                    if am > 0 && now <= lu && now + k == lu + 1 { v.push("advance/to-first-dead-ledger".into()); }
                    if am > 0 && now + k > lu + 1 { v.push("advance/beyond-live-until".into()); }
                    if ttl >= 0 && now + k > ttl && ttl > lu { v.push("advance/entry-outlived-allowance".into()); }
                    if ttl >= 0 && now + k > ttl + self.max_ttl as i64 { v.push("advance/far-beyond-entry-ttl".into()); }
                } }
                v.sort(); v.dedup();
            }
            C::Delegate(au, a, d) => {
                party(&mut v, "delegate", "account", *a); party(&mut v, "delegate", "delegatee", *d);
                if a == d { v.push("delegate/self".into()); }
                if !au.contains(a) { v.push("delegate/account-not-signing".into()); }
            }
            C::SetListed(a, _) => party(&mut v, "set_listed", "user", *a),
            C::QBalance(a) => party(&mut v, "q_balance", "account", *a),
            C::QAllowance(o, s) => { party(&mut v, "q_allowance", "owner", *o); party(&mut v, "q_allowance", "spender", *s); }
            C::RForced(f, t, _) => { party(&mut v, "r_forced", "from", *f); party(&mut v, "r_forced", "to", *t); if f == t { v.push("r_forced/self".into()); } }
            C::RBurn(u, _) => party(&mut v, "r_burn", "account", *u),
            C::RRecover(o, nw) => { party(&mut v, "r_recover", "old", *o); party(&mut v, "r_recover", "new", *nw); if o == nw { v.push("r_recover/self".into()); } }
            C::RFreeze(u, _) => party(&mut v, "r_freeze", "account", *u),
            C::RSetFrozen(u, _) => party(&mut v, "r_set_frozen", "account", *u),
            C::Mint(t, a) => {
                party(&mut v, "mint", "to", *t);
                if *a < 0 { v.push("mint/negative".into()); }
                if *a == 0 { v.push("mint/zero".into()); }
                if *a > 0 && *a > i128::MAX.saturating_sub(m.supply) { v.push("mint/supply-overflow".into()); }
                if *a > 0 && *a == i128::MAX.saturating_sub(m.supply) { v.push("mint/supply-to-max".into()); }
            }
            _ => {}
        }
        v
    }

    fn unit(&self, r: (Option<Val>, Vec<String>), evs: &mut Vec<String>) -> Option<String> { *evs = r.1; r.0.map(|_| "0".to_string()) }
    fn num(&self, r: (Option<Val>, Vec<String>), evs: &mut Vec<String>) -> Option<String> {
        *evs = r.1;
        r.0.and_then(|v| i128_of(&self.e, &v)).map(z)
    }

    pub fn finish(self, out: &mut Out, desc: &str) {
        let ncalls = self.items.len();
        let univ: Vec<String> = (0..self.addrs.len()).map(na).collect();
        let term = format!(
            "{{| t_cfg := {{| c_host := {{| min_temp_ttl := {}; max_ttl := {} |}}; c_flav := {}; c_self := {}; c_offset := {} |}}; t_univ := {}; t_start := {}; t_init := {}; t_items := {} |}}",
            self.min_temp, self.max_ttl, self.flav.coq(), na(self.nu), self.offset, list(&univ), self.start, self.genesis, list(&self.items));
        out.trace(&format!("{}:{}", self.flav.tag(), desc), term, ncalls);
    }
}

// ---------------------------------------------------------------------------------------------
// generators
// ---------------------------------------------------------------------------------------------
#[derive(Clone, Copy, PartialEq)]
pub enum Mode { Supply, Auth }

/// K2: amounts at which a plausible fast path / narrower integer type / scale constant would switch
/// (2^k and 2^k +- 1 around the u32 / i64 / u64 limits, 10^k +- 1 around the decimals scale 10^7, 10^9 and 10^18)
pub fn amount_catalogue() -> Vec<(&'static str, i128)> {
    let p = |k: u32| 1i128 << k;
    let t = |k: u32| 10i128.pow(k);
    vec![("1", 1), ("2", 2),
         ("2p31-1", p(31) - 1), ("2p31", p(31)), ("2p32-1", p(32) - 1), ("2p32", p(32)), ("2p32+1", p(32) + 1),
         ("2p63-1", p(63) - 1), ("2p63", p(63)), ("2p63+1", p(63) + 1), ("2p64-1", p(64) - 1), ("2p64", p(64)), ("2p64+1", p(64) + 1),
         ("10p7-1", t(7) - 1), ("10p7", t(7)), ("10p7+1", t(7) + 1), ("10p9-1", t(9) - 1), ("10p9", t(9)), ("10p9+1", t(9) + 1),
         ("10p18-1", t(18) - 1), ("10p18", t(18)), ("10p18+1", t(18) + 1), ("2p96", p(96)), ("2p126", p(126)), ("2p127-2", i128::MAX - 1)]
}

fn near(rng: &mut Rng, v: i128) -> i128 { v.saturating_add(rng.range(-1, 1) as i128) }

fn pick_amt(rng: &mut Rng, lat: &[i128], rel: &[i128]) -> i128 {
    match rng.below(100) {
        0..=34 => rng.range(0, 30) as i128,
        35..=64 => if rel.is_empty() { rng.range(0, 30) as i128 } else { let v = *rng.pick(rel); near(rng, v) },
        65..=72 => 0,
        73..=80 => *rng.pick(lat),
        81..=86 => -(rng.range(1, 5) as i128),
        _ => rng.u_bits(127),
    }
}

/// authorisation subset: mostly exactly the needed signer, otherwise none / others only / everybody / needed + extra
fn pick_auths(rng: &mut Rng, nu: usize, needed: usize, mode: Mode) -> Vec<usize> {
    let good = if mode == Mode::Auth { 55 } else { 85 };
    let r = rng.below(100);
    if r < good { return vec![needed]; }
    match rng.below(5) {
        0 => vec![],
        1 => { let o = rng.below(nu as u64) as usize; if o == needed { vec![] } else { vec![o] } }
        2 => (0..nu).filter(|i| *i != needed).collect(),
        3 => (0..nu).collect(),
        _ => { let o = rng.below(nu as u64) as usize; vec![o, needed] }
    }
}

/// which of the signers also authorise the nested asset-token call: mostly all of them
fn pick_sub(rng: &mut Rng, au: &Vec<usize>) -> Vec<usize> {
    match rng.below(10) {
        0 => vec![],
        1 => au.iter().cloned().filter(|_| rng.chance(1, 2)).collect(),
        _ => au.clone(),
    }
}

fn pick_lu(rng: &mut Rng, w: &World) -> u32 {
    let now = w.m.now as u64;
    let maxl = now + w.max_ttl as u64 - 1;
    let v: u64 = match rng.below(100) {
        0..=39 => now + rng.range(1, 40) as u64,
        40..=47 => now,
        48..=53 => now.saturating_sub(1),
        54..=59 => now + 1,
        60..=67 => maxl,
        68..=73 => maxl + 1,
        74..=79 => maxl - 1,
        80..=84 => 0,
        85..=88 => u32::MAX as u64,
        89..=93 => now + w.min_temp as u64 - 1 + rng.range(0, 2) as u64,
        _ => now + rng.range(0, w.max_ttl as i64 + 5) as u64,
    };
    v.min(u32::MAX as u64) as u32
}

fn pick_advance(rng: &mut Rng, w: &World) -> u32 {
    // aim at expiry boundaries of live allowances
    let now = w.m.now as i64;
    let mut targets: Vec<i64> = vec![];
    for row in &w.m.allow { for &(am, lu, ttl) in row { if am > 0 { targets.push(lu as i64); } if ttl >= 0 { targets.push(ttl); } } }
    if rng.chance(1, 9) { return *rng.pick(&LONG_GAPS); }
    let v: i64 = match rng.below(100) {
        0..=29 => rng.range(1, 3),
        30..=69 if !targets.is_empty() => { let t = *rng.pick(&targets); (t - now + rng.range(-1, 1)).max(0) }
        70..=79 => rng.range(1, 40),
        80..=89 => w.max_ttl as i64 + rng.range(-2, 5),
        90..=94 => 0,
        _ => rng.range(1, 2 * w.max_ttl as i64),
    };
    v.max(0).min(100_000_000) as u32
}

pub fn gen_call(w: &World, rng: &mut Rng, lat: &[i128], mode: Mode) -> C {
    let nu = w.nu;
    let nall = w.addrs.len();
    let m = &w.m;
    // any address of the universe, mostly users
    let any = |rng: &mut Rng| -> usize { if rng.chance(1, 9) { nu + rng.below((nall - nu) as u64) as usize } else { rng.below(nu as u64) as usize } };
    let user = |rng: &mut Rng| -> usize { rng.below(nu as u64) as usize };
    let fwd = w.fwd;
    let holder = |rng: &mut Rng| -> usize {
        // now and then a contract is the acting party: the forwarder (it can authorise: invoker rule) or the
        // token contract itself (nobody can authorise for it)
        if rng.chance(1, 12) { return if rng.chance(2, 3) { fwd } else { nu }; }
        let hs: Vec<usize> = (0..nu).filter(|i| m.bal[*i] > 0).collect();
        if hs.is_empty() || rng.chance(1, 6) { rng.below(nu as u64) as usize } else { *rng.pick(&hs) }
    };
    // who signs for party i: a user or the forwarder signs for itself; for any other address somebody else
    let signer = |rng: &mut Rng, i: usize| -> usize { if i < nu || i == fwd { i } else { rng.below(nu as u64) as usize } };
    // an (owner, spender) pair with a positive allowance, if any
    let live_pair = |rng: &mut Rng| -> Option<(usize, usize)> {
        let mut ps = vec![];
        for o in 0..nall { for s in 0..nall { if m.allow[o][s].0 > 0 { ps.push((o, s)); } } }
        if ps.is_empty() { None } else { Some(*rng.pick(&ps)) }
    };
    let k = rng.below(100);
    let flavour_specific = k >= 84;
    if flavour_specific {
        match w.flav {
            Flav::Allow | Flav::Block => return C::SetListed(any(rng), rng.chance(if w.flav == Flav::Allow { 3 } else { 1 }, 4)),
            Flav::Votes => { let a = if rng.chance(1, 10) { fwd } else { user(rng) }; let d = any(rng); return C::Delegate(pick_auths(rng, nu, a, mode), a, d); }
            Flav::Vault => {
                let op = user(rng);
                let other = if rng.chance(2, 3) { op } else { user(rng) };
                let recv = if rng.chance(1, 2) { other } else { any(rng) };
                let au = pick_auths(rng, nu, op, mode);
                return match rng.below(7) {
                    0 => C::AssetMint(any(rng), pick_amt(rng, lat, &[1000, i128::MAX.saturating_sub(m.abal.iter().fold(0i128, |x, y| x.saturating_add(*y)))])),
                    1 => { let o = user(rng); C::AssetApprove(pick_auths(rng, nu, o, mode), o, user(rng), pick_amt(rng, lat, &[100]), pick_lu(rng, w)) }
                    2 => { let sb = pick_sub(rng, &au); C::VDeposit(au, sb, pick_amt(rng, lat, &[m.abal[other], 100]), recv, other, op) }
                    3 => { let sb = pick_sub(rng, &au); C::VMint(au, sb, pick_amt(rng, lat, &[100]), recv, other, op) }
                    4 | 5 if rng.chance(1, 8) => {
                        // the forwarder contract as operator (of its own shares or of somebody's allowance), or the vault as owner
                        let owner = match rng.below(3) { 0 => fwd, 1 => nu, _ => other };
                        let au = pick_auths(rng, nu, fwd, mode);
                        C::VRedeem(au, pick_amt(rng, lat, &[m.bal[owner], m.allow[owner][fwd].0]), recv, owner, fwd)
                    }
                    4 => C::VWithdraw(au, pick_amt(rng, lat, &[m.bal[other], 10]), recv, other, op),
                    5 => C::VRedeem(au, pick_amt(rng, lat, &[m.bal[other], m.allow[other][op].0]), recv, other, op),
                    _ => { let sb = pick_sub(rng, &au); C::VDeposit(au, sb, rng.range(1, 200) as i128, recv, other, op) }
                };
            }
            Flav::Rwa => {
                let a = if rng.chance(1, 6) { any(rng) } else { holder(rng) };   // also the token contract / account address
                let known: Vec<(usize, usize)> = w.rtarget.iter().enumerate().filter_map(|(o, t)| t.map(|t| (o, t))).collect();
                return match rng.below(10) {
                    0 => C::RForced(a, any(rng), pick_amt(rng, lat, &[m.bal[a], m.bal[a].saturating_sub(m.frozen[a])])),
                    1 => C::RBurn(a, pick_amt(rng, lat, &[m.bal[a], m.bal[a].saturating_sub(m.frozen[a])])),
                    2 => if !known.is_empty() && rng.chance(3, 4) { let (o, t) = *rng.pick(&known); C::RRecover(o, t) } else { C::RRecover(a, if rng.chance(1, 5) { a } else { user(rng) }) },
                    3 | 4 => C::RFreeze(a, pick_amt(rng, lat, &[m.bal[a].saturating_sub(m.frozen[a])])),
                    5 => C::RUnfreeze(a, pick_amt(rng, lat, &[m.frozen[a]])),
                    6 => C::RSetFrozen(any(rng), rng.chance(1, 2)),
                    7 => C::RPause(rng.chance(1, 2)),
                    8 => { let o = holder(rng); let nw = user(rng); C::RSetRecovery(o, nw) }
                    _ => { let o = holder(rng); let nw = if rng.chance(1, 6) { o } else { user(rng) }; C::RSetRecovery(o, nw) }
                };
            }
            Flav::Base => {}
        }
    }
    let k = rng.below(100);
    let supply_room = i128::MAX.saturating_sub(m.supply);
    match k {
        0..=13 => {
            if w.flav == Flav::Vault { let t = any(rng); return C::AssetMint(t, pick_amt(rng, lat, &[1000, 50])); }
            let t = any(rng);
            C::Mint(t, pick_amt(rng, lat, &[supply_room, 100, 1000]))
        }
        14..=33 => {
            let f = holder(rng);
            let t = if rng.chance(1, 8) { f } else { any(rng) };
            let mux = if t == nu + 1 && rng.chance(3, 4) { Some(rng.below(1 << 40)) } else { None };
            let sg = signer(rng, f);
            C::Transfer(pick_auths(rng, nu, sg, mode), f, t, mux, pick_amt(rng, lat, &[m.bal[f]]))
        }
        34..=51 => {
            let (f, s) = match live_pair(rng) { Some(p) if rng.chance(4, 5) => p, _ => (holder(rng), any(rng)) };
            // sometimes with the roles swapped (the allowance runs the other way)
            let (f, s) = if rng.chance(1, 5) { (s, f) } else { (f, s) };
            let t = match rng.below(8) { 0 => f, 1 => s, _ => any(rng) };
            let s_auth = signer(rng, s);
            C::TransferFrom(pick_auths(rng, nu, s_auth, mode), s, f, t, pick_amt(rng, lat, &[m.allow[f][s].0, m.bal[f]]))
        }
        52..=67 => {
            let o = holder(rng);
            let s = if rng.chance(1, 10) { o } else { any(rng) };
            let sg = signer(rng, o);
            C::Approve(pick_auths(rng, nu, sg, mode), o, s, pick_amt(rng, lat, &[m.bal[o], m.allow[o][s].0]), pick_lu(rng, w))
        }
        68..=75 => {
            let f = holder(rng);
            let sg = signer(rng, f);
            if w.flav.has_burn() { C::Burn(pick_auths(rng, nu, sg, mode), f, pick_amt(rng, lat, &[m.bal[f]])) }
            else { C::Transfer(pick_auths(rng, nu, sg, mode), f, any(rng), None, pick_amt(rng, lat, &[m.bal[f]])) }
        }
        76..=83 => {
            let (f, s) = match live_pair(rng) { Some(p) if rng.chance(4, 5) => p, _ => (holder(rng), any(rng)) };
            let (f, s) = if rng.chance(1, 7) { (s, f) } else { (f, s) };
            let s_auth = signer(rng, s);
            if w.flav.has_burn() { C::BurnFrom(pick_auths(rng, nu, s_auth, mode), s, f, pick_amt(rng, lat, &[m.allow[f][s].0, m.bal[f]])) }
            else { C::TransferFrom(pick_auths(rng, nu, s_auth, mode), s, f, any(rng), pick_amt(rng, lat, &[m.allow[f][s].0, m.bal[f]])) }
        }
        84..=94 => C::Advance(pick_advance(rng, w)),
        95..=96 => C::QBalance(any(rng)),
        97 => C::QSupply,
        _ => { let o = any(rng); let s = any(rng); C::QAllowance(o, s) }
    }
}

fn setup_calls(w: &World, rng: &mut Rng) -> Vec<C> {
    // a few fixtures so that most calls have something to act on
    let nu = w.nu;
    let mut v = vec![];
    match w.flav {
        Flav::Allow => for i in 0..nu { if rng.chance(4, 5) { v.push(C::SetListed(i, true)); } },
        Flav::Block => if rng.chance(1, 2) { v.push(C::SetListed(rng.below(nu as u64) as usize, true)); },
        _ => {}
    }
    if w.flav == Flav::Vault {
        for i in 0..nu { v.push(C::AssetMint(i, rng.range(50, 5000) as i128)); }
        let d = rng.below(nu as u64) as usize;
        v.push(C::VDeposit(vec![d], vec![d], rng.range(10, 500) as i128, d, d, d));
    } else {
        for i in 0..nu { if rng.chance(3, 4) { v.push(C::Mint(i, rng.range(1, 1000) as i128)); } }
    }
    v
}

pub fn random_trace(out: &mut Out, rng: &mut Rng, lat: &[i128], flav: Flav, mode: Mode, len: usize, nu: usize, desc: &str) {
    let start = *rng.pick(&[0u32, 1, 100, 1000, 50_000, 4_000_000]);
    let (min_temp, min_pers, max_ttl) = *rng.pick(&[(1u32, 200u32, 200u32), (1, 4096, 5000), (16, 4096, 100_000), (1, 4096, 6_312_000),
                                                    (16, 4096, 6_312_000), (17_280, 2_073_600, 3_110_400)]);
    let offset = if flav == Flav::Vault { rng.below(4) as u32 * rng.below(4) as u32 } else { 0 };
    let mut w = World::new_cfg(flav, nu, start, min_temp, min_pers, max_ttl, offset);
    for c in setup_calls(&w, rng) { w.step(out, c); }
    for _ in 0..len {
        if w.dead { break; }
        let c = match guarded(|| gen_call(&w, rng, lat, mode)) {
            Some(c) => c,
            None => {
                out.label("harness/generator-panicked");
                let now = w.m.now;
                w.items.push(format!("(QSupply, Fail, [], {})", sentinel_obs(now)));   // rejected by diff and monitors
                w.dead = true;
                break;
            }
        };
        w.step(out, c);
    }
    w.finish(out, desc);
}

// ---------------------------------------------------------------------------------------------
// directed scenarios (replayed first on every run)
// ---------------------------------------------------------------------------------------------
fn scenario_overflow(out: &mut Out, flav: Flav) {
    let mut w = World::new(flav, 3, 10, 1, 5000, 0);
    if flav == Flav::Allow { for i in 0..3 { w.step(out, C::SetListed(i, true)); } }
    let mx = i128::MAX;
    w.step(out, C::Mint(0, mx - 5));
    w.step(out, C::Mint(1, 6));            // supply overflow
    w.step(out, C::Mint(1, 5));            // exactly MAX
    w.step(out, C::Mint(2, 1));            // overflow
    w.step(out, C::Mint(2, 0));
    w.step(out, C::Mint(2, -1));
    w.step(out, C::Mint(2, i128::MIN));
    w.step(out, C::Transfer(vec![1], 1, 0, None, 5));  // credit side reaches MAX
    w.step(out, C::Transfer(vec![0], 0, 0, None, mx)); // self transfer of everything
    w.step(out, C::Transfer(vec![0], 0, 0, None, 0));
    w.step(out, C::Transfer(vec![0], 0, 1, None, mx));
    w.step(out, C::Transfer(vec![1], 1, 1, None, mx));
    w.step(out, C::Transfer(vec![1], 1, 2, None, -1));
    w.step(out, C::Transfer(vec![1], 1, 4, Some(77), 3));     // muxed recipient (account address)
    w.step(out, C::Transfer(vec![1], 1, 4, None, 2));
    w.step(out, C::Transfer(vec![], 1, 4, Some(78), 2));
    if flav.has_burn() {
        w.step(out, C::Burn(vec![1], 1, mx));
        w.step(out, C::Burn(vec![1], 1, 1));
        w.step(out, C::Burn(vec![1], 1, 0));
        w.step(out, C::Mint(1, mx));
        w.step(out, C::Approve(vec![1], 1, 2, mx, 100));
        w.step(out, C::BurnFrom(vec![2], 2, 1, mx - 1));
        w.step(out, C::BurnFrom(vec![2], 2, 1, 2));
        w.step(out, C::BurnFrom(vec![2], 2, 1, 1));
    }
    w.step(out, C::QSupply);
    w.finish(out, "overflow-boundaries");
}

fn scenario_expiry(out: &mut Out, flav: Flav, min_temp: u32, max_ttl: u32) {
    let mut w = World::new(flav, 3, 100, min_temp, max_ttl, 0);
    if flav == Flav::Allow { for i in 0..3 { w.step(out, C::SetListed(i, true)); } }
    if flav == Flav::Vault { w.step(out, C::AssetMint(0, 1000)); w.step(out, C::VDeposit(vec![0], vec![0], 1000, 0, 0, 0)); } else { w.step(out, C::Mint(0, 1000)); }
    let spend = |w: &mut World, out: &mut Out, amt: i128| -> bool {
        if flav == Flav::Vault { w.step(out, C::VRedeem(vec![1], amt, 1, 0, 1)) } else { w.step(out, C::TransferFrom(vec![1], 1, 0, 2, amt)) }
    };
    // live_until boundaries against max_live_until
    let maxl = 100 + max_ttl - 1;
    w.step(out, C::Approve(vec![0], 0, 1, 10, maxl + 1));
    w.step(out, C::Approve(vec![0], 0, 1, 10, u32::MAX));
    w.step(out, C::Approve(vec![0], 0, 1, 0, maxl + 1));
    w.step(out, C::Approve(vec![0], 0, 1, 10, 99));
    w.step(out, C::Approve(vec![0], 0, 1, 0, 99));
    w.step(out, C::Approve(vec![0], 0, 1, 0, 0));
    w.step(out, C::Approve(vec![0], 0, 1, 10, maxl));
    w.step(out, C::Approve(vec![0], 0, 1, 50, 105));
    spend(&mut w, out, 10);
    w.step(out, C::Advance(4));
    spend(&mut w, out, 10);
    w.step(out, C::Advance(1));       // now == live_until
    spend(&mut w, out, 10);
    w.step(out, C::QAllowance(0, 1));
    w.step(out, C::Advance(1));       // now == live_until + 1: worth zero
    w.step(out, C::QAllowance(0, 1));
    spend(&mut w, out, 1);
    spend(&mut w, out, 0);
    // re-approve shorter over a longer one; the stored entry outlives the allowance
    w.step(out, C::Approve(vec![0], 0, 1, 30, 150));
    w.step(out, C::Approve(vec![0], 0, 1, 20, 110));
    w.step(out, C::Advance(4));       // 110
    spend(&mut w, out, 5);
    w.step(out, C::Advance(1));       // 111: expired although the entry is still stored
    spend(&mut w, out, 5);
    w.step(out, C::QAllowance(0, 1));
    // longer over shorter
    w.step(out, C::Approve(vec![0], 0, 1, 20, 115));
    w.step(out, C::Approve(vec![0], 0, 1, 25, 140));
    w.step(out, C::Advance(20));      // 131
    spend(&mut w, out, 5);
    // jump far beyond the storage TTL, then approve afresh
    w.step(out, C::Advance(max_ttl + 7));
    w.step(out, C::QAllowance(0, 1));
    spend(&mut w, out, 1);
    let now = w.m.now;
    w.step(out, C::Approve(vec![0], 0, 1, 7, now));
    spend(&mut w, out, 3);
    w.step(out, C::Advance(1));
    spend(&mut w, out, 3);
    // spend everything, then time passes, then zero-approve
    let now = w.m.now;
    w.step(out, C::Approve(vec![0], 0, 2, 9, now + 3));
    if flav != Flav::Vault { w.step(out, C::TransferFrom(vec![2], 2, 0, 1, 9)); w.step(out, C::TransferFrom(vec![2], 2, 0, 1, 1)); }
    w.step(out, C::Approve(vec![0], 0, 2, 0, 0));
    w.step(out, C::Advance(5));
    w.step(out, C::Approve(vec![0], 0, 2, 4, now + 9));
    w.finish(out, &format!("expiry-boundaries(min_temp={},max_ttl={})", min_temp, max_ttl));
}

/// every authorisation subset of the users, for every entry point that moves tokens or allowances
fn scenario_auth_subsets(out: &mut Out, flav: Flav, nu: usize, expiry_pos: i64) {
    let mut w = World::new(flav, nu, 500, 1, 5000, 0);
    if flav == Flav::Allow { for i in 0..nu { w.step(out, C::SetListed(i, true)); } }
    let fund = |w: &mut World, out: &mut Out| {
        if flav == Flav::Vault { w.step(out, C::AssetMint(0, 100_000)); w.step(out, C::VDeposit(vec![0], vec![0], 100_000, 0, 0, 0)); } else { w.step(out, C::Mint(0, 100_000)); }
    };
    fund(&mut w, out);
    // allowance 0 -> 1 that is live / at its last ledger / just expired when the subsets are tried
    w.step(out, C::Approve(vec![0], 0, 1, 1_000, 520));
    w.step(out, C::Advance((20 + expiry_pos) as u32));
    let subsets: Vec<Vec<usize>> = (0..(1u32 << nu)).map(|mask| (0..nu).filter(|i| mask & (1 << i) != 0).collect()).collect();
    for au in &subsets {
        w.step(out, C::Transfer(au.clone(), 0, 2, None, 3));
        w.step(out, C::TransferFrom(au.clone(), 1, 0, 2, 3));
        let now = w.m.now;
        w.step(out, C::Approve(au.clone(), 0, 2, 5, now + 10));
        if flav.has_burn() {
            w.step(out, C::Burn(au.clone(), 0, 3));
            w.step(out, C::BurnFrom(au.clone(), 1, 0, 3));
        }
        if flav == Flav::Vault {
            w.step(out, C::VRedeem(au.clone(), 3, 2, 0, 1));
            w.step(out, C::VWithdraw(au.clone(), 1, 2, 0, 1));
            w.step(out, C::VRedeem(au.clone(), 3, 2, 0, 0));
            w.step(out, C::VWithdraw(au.clone(), 1, 1, 0, 0));
        }
    }
    w.finish(out, &format!("auth-subsets(expiry_pos={})", expiry_pos));
}

/// Persistence across long ledger gaps: every kind of stored item (balances, supply, allowances within
/// their live_until, list flags, voting units / delegation, vault configuration and asset balances, RWA
/// freezes / pause / recovery table) is written, then ONE Advance of +20 ... +4_000_000 ledgers follows
/// (nothing is read in between: the observation after the Advance is the first read), then the state is
/// questioned and used.  Run under two host configurations.
pub const LONG_GAPS: [u32; 6] = [20, 100, 17_281, 20_000, 600_000, 4_000_000];
fn scenario_persistence(out: &mut Out, flav: Flav, min_temp: u32, min_pers: u32, max_ttl: u32, descending: bool) {
    let mut w = World::new_cfg(flav, 3, 1000, min_temp, min_pers, max_ttl, if flav == Flav::Vault { 2 } else { 0 });
    match flav {
        Flav::Allow => for i in 0..3 { w.step(out, C::SetListed(i, true)); },
        Flav::Block => { w.step(out, C::SetListed(2, true)); }
        _ => {}
    }
    if flav == Flav::Vault {
        for i in 0..3 { w.step(out, C::AssetMint(i, 100_000)); w.step(out, C::VDeposit(vec![i], vec![i], 10_000 * (i as i128 + 1), i, i, i)); }
        w.step(out, C::AssetMint(3, 555));      // donation to the vault
    } else { for i in 0..3 { w.step(out, C::Mint(i, 10_000 * (i as i128 + 1))); } }
    match flav {
        Flav::Votes => { w.step(out, C::Delegate(vec![0], 0, 1)); w.step(out, C::Delegate(vec![2], 2, 2)); }
        Flav::Rwa => {
            w.step(out, C::RFreeze(0, 4_000));
            w.step(out, C::RSetFrozen(2, true));
            w.step(out, C::RSetRecovery(1, 0));
        }
        _ => {}
    }
    let mut gaps: Vec<u32> = LONG_GAPS.to_vec();
    if descending { gaps.reverse(); }
    gaps.push(max_ttl + 3);
    for gap in gaps {
        // (re-)establish allowances: one at the longest possible live_until, one shorter
        let now = w.m.now;
        w.step(out, C::Approve(vec![0], 0, 1, 3_000, now + max_ttl - 1));
        w.step(out, C::Approve(vec![1], 1, 2, 50, now + 30_000.min(max_ttl - 1)));
        // ---- the gap: a single Advance, nothing read or written in between ----
        w.step(out, C::Advance(gap));
        // ---- question and use the state ----
        w.step(out, C::QSupply);
        w.step(out, C::QBalance(2));
        w.step(out, C::QAllowance(0, 1));
        w.step(out, C::Transfer(vec![0], 0, 1, None, 7));
        w.step(out, C::TransferFrom(vec![1], 1, 0, 1, 5));            // the long allowance (if still within live_until)
        w.step(out, C::TransferFrom(vec![2], 2, 1, 0, 1));            // the shorter one
        w.step(out, C::Transfer(vec![2], 2, 0, None, 3));             // 2: blocked (BlockList) / frozen (RWA) / plain holder
        if flav.has_burn() { w.step(out, C::Burn(vec![1], 1, 2)); w.step(out, C::BurnFrom(vec![1], 1, 0, 2)); }
        match flav {
            Flav::Allow => { w.step(out, C::Transfer(vec![0], 0, 4, Some(5), 1)); }   // recipient never allowed
            Flav::Votes => { w.step(out, C::Delegate(vec![1], 1, 0)); w.step(out, C::Delegate(vec![1], 1, 2)); }
            Flav::Vault => {
                w.step(out, C::VRedeem(vec![1], 4, 1, 0, 1));          // operator 1 spends 0's share allowance
                w.step(out, C::VDeposit(vec![2], vec![2], 10, 2, 2, 2));
                w.step(out, C::VWithdraw(vec![0], 1, 0, 0, 0));
            }
            Flav::Rwa => {
                w.step(out, C::Transfer(vec![0], 0, 1, None, 5_990));  // beyond the free (unfrozen) part
                w.step(out, C::RForced(2, 1, 1));
                w.step(out, C::RUnfreeze(0, 1));
                w.step(out, C::RFreeze(0, 1));
            }
            _ => {}
        }
    }
    if flav == Flav::Rwa { w.step(out, C::RRecover(1, 0)); }
    w.finish(out, &format!("persistence-across-gaps(min_temp={},min_pers={},max_ttl={}{})", min_temp, min_pers, max_ttl, if descending { ",descending" } else { "" }));
}

/// ledger sequence at the top of the range the host supports: the host raises an unrecoverable
/// InternalError ("misconfiguration of the network") in every TTL operation once
/// sequence + max_entry_ttl - 1 overflows u32, so the last usable ledgers are those just below
/// u32::MAX - max_entry_ttl; live_until values then reach up to (almost) u32::MAX.
fn scenario_ledger_near_u32_max(out: &mut Out, flav: Flav) {
    let max_ttl = 6_312_000u32;
    let start = u32::MAX - max_ttl - 400;
    let mut w = World::new_cfg(flav, 3, start, 1, 4096, max_ttl, 0);
    w.step(out, C::Mint(0, 1000));
    w.step(out, C::Approve(vec![0], 0, 1, 100, u32::MAX));                // beyond max_live_until_ledger
    w.step(out, C::Approve(vec![0], 0, 1, 100, start + max_ttl));         // max + 1
    w.step(out, C::Approve(vec![0], 0, 1, 100, start + max_ttl - 1));     // exactly max = u32::MAX - 401
    w.step(out, C::Approve(vec![0], 0, 2, 50, start + 200));
    w.step(out, C::TransferFrom(vec![1], 1, 0, 2, 10));
    w.step(out, C::Advance(200));                                          // last ledger of 0 -> 2
    w.step(out, C::TransferFrom(vec![2], 2, 0, 1, 10));
    w.step(out, C::Advance(1));
    w.step(out, C::TransferFrom(vec![2], 2, 0, 1, 10));
    w.step(out, C::TransferFrom(vec![1], 1, 0, 2, 10));
    w.step(out, C::Advance(100));                                          // now + max_ttl - 1 = u32::MAX - 100
    w.step(out, C::QAllowance(0, 1));
    w.step(out, C::Approve(vec![0], 0, 2, 7, u32::MAX - 100));
    w.step(out, C::Approve(vec![0], 0, 2, 7, u32::MAX - 99));
    w.step(out, C::Transfer(vec![0], 0, 1, None, 1));
    w.finish(out, "ledger-at-top-of-supported-range");
}

/// who may spend whose allowance: reverse allowances, wrong signers, revocation, last ledger
fn scenario_roles(out: &mut Out, flav: Flav) {
    let mut w = World::new(flav, 3, 700, 1, 5000, 0);
    if flav == Flav::Allow { for i in 0..3 { w.step(out, C::SetListed(i, true)); } }
    if flav == Flav::Vault {
        for i in 0..2 { w.step(out, C::AssetMint(i, 1000)); w.step(out, C::VDeposit(vec![i], vec![i], 1000, i, i, i)); }
    } else { w.step(out, C::Mint(0, 1000)); w.step(out, C::Mint(1, 1000)); }
    // only 1 -> 0 exists: 1 may not take from 0
    w.step(out, C::Approve(vec![1], 1, 0, 50, 710));
    w.step(out, C::TransferFrom(vec![1], 1, 0, 2, 10));
    w.step(out, C::TransferFrom(vec![0, 1], 1, 0, 2, 10));
    w.step(out, C::TransferFrom(vec![1], 0, 1, 2, 10));     // right pair, owner signs instead of the spender
    w.step(out, C::TransferFrom(vec![], 0, 1, 2, 10));
    w.step(out, C::TransferFrom(vec![2], 0, 1, 2, 10));
    w.step(out, C::TransferFrom(vec![0], 0, 1, 2, 10));
    w.step(out, C::TransferFrom(vec![0, 2], 0, 1, 0, 10));  // extra signer, spender is the recipient
    if flav.has_burn() {
        w.step(out, C::BurnFrom(vec![1], 0, 1, 5));
        w.step(out, C::BurnFrom(vec![0], 0, 1, 5));
        w.step(out, C::BurnFrom(vec![0], 1, 0, 5));
        w.step(out, C::Burn(vec![1], 0, 5));
        w.step(out, C::Burn(vec![0, 1], 0, 5));
    }
    if flav == Flav::Vault {
        w.step(out, C::VRedeem(vec![1], 5, 1, 0, 1));       // operator 1 has no allowance from 0 (only 1 -> 0)
        w.step(out, C::VRedeem(vec![0], 5, 0, 1, 0));       // operator 0 spends 1's shares
        w.step(out, C::VWithdraw(vec![1], 5, 0, 1, 0));     // owner signs instead of the operator
        w.step(out, C::VWithdraw(vec![0], 5, 0, 1, 0));
    }
    let b1 = w.m.bal[1];
    w.step(out, C::Transfer(vec![1], 1, 2, None, b1 + 1));   // one more than the balance
    if flav.has_burn() { w.step(out, C::Burn(vec![1], 1, -1)); }
    w.step(out, C::Approve(vec![1], 1, 0, -1, 720));         // negative approval
    w.step(out, C::TransferFrom(vec![2], 2, 2, 0, 1));       // spender = owner without a self-allowance
    w.step(out, C::Approve(vec![1], 1, 2, b1 + 500, 720));   // allowance larger than the balance
    w.step(out, C::TransferFrom(vec![2], 2, 1, 0, b1 + 1));
    w.step(out, C::Approve(vec![1], 1, 2, 0, 720));
    w.step(out, C::TransferFrom(vec![0], 0, 1, 2, -1));     // negative spend
    w.step(out, C::TransferFrom(vec![2], 2, 1, 0, 0));      // zero spend without any allowance
    w.step(out, C::TransferFrom(vec![0], 0, 1, 0, 3));      // spender is the recipient
    if flav.has_burn() { w.step(out, C::BurnFrom(vec![0], 0, 1, -1)); w.step(out, C::BurnFrom(vec![2], 2, 1, 0)); }
    // approve signed by the spender / nobody / both
    w.step(out, C::Approve(vec![0], 1, 0, 500, 720));
    w.step(out, C::Approve(vec![], 1, 0, 500, 720));
    w.step(out, C::Approve(vec![0, 1], 1, 0, 40, 705));    // shorter over a live one
    w.step(out, C::Advance(5));                              // 705 = last ledger
    w.step(out, C::TransferFrom(vec![0], 0, 1, 2, 10));
    if flav.has_burn() { w.step(out, C::BurnFrom(vec![0], 0, 1, 10)); }
    w.step(out, C::Approve(vec![1], 1, 0, 0, 705));         // revoke a live allowance
    w.step(out, C::TransferFrom(vec![0], 0, 1, 2, 1));
    w.step(out, C::Approve(vec![1], 1, 0, 25, 709));
    w.step(out, C::Approve(vec![1], 1, 0, 0, 0));           // SAC-style revocation with a past ledger
    w.step(out, C::QAllowance(1, 0));
    w.step(out, C::TransferFrom(vec![0], 0, 1, 2, 1));
    w.step(out, C::Approve(vec![1], 1, 0, 25, 709));
    w.step(out, C::Approve(vec![1], 1, 0, 0, 704));         // ... with the ledger just past
    w.step(out, C::TransferFrom(vec![0], 0, 1, 2, 1));
    w.step(out, C::Approve(vec![1], 1, 0, 30, 706));
    w.step(out, C::Approve(vec![1], 1, 0, 35, 730));        // longer over a live one
    w.step(out, C::Approve(vec![1], 1, 1, 35, 730));        // self allowance
    w.step(out, C::TransferFrom(vec![1], 1, 1, 1, 5));
    w.step(out, C::Advance(26));                             // 731: first dead ledger
    w.step(out, C::TransferFrom(vec![0], 0, 1, 2, 1));
    w.step(out, C::TransferFrom(vec![0], 0, 1, 2, 0));
    // the largest approvable amount is spent down like any other ("infinite approval" shortcuts)
    let now = w.m.now;
    w.step(out, C::Approve(vec![1], 1, 0, i128::MAX, now + 50));
    w.step(out, C::TransferFrom(vec![0], 0, 1, 2, 5));
    w.step(out, C::QAllowance(1, 0));
    w.step(out, C::Approve(vec![1], 1, 0, i128::MAX - 1, now + 50));
    w.step(out, C::TransferFrom(vec![0], 0, 1, 2, 5));
    w.finish(out, "roles-and-signers");
}

/// vault shares at the i128 boundary: share supply within 6000 of i128::MAX (decimals offset 3), then a
/// deposit whose shares overflow the supply (phantom-overflow path of mul_div included), exact fill, drain
fn scenario_vault_overflow(out: &mut Out) {
    let mut w = World::new(Flav::Vault, 3, 10, 1, 5000, 3);
    let a0 = (i128::MAX - 5000) / 1000;
    w.step(out, C::AssetMint(0, a0));
    w.step(out, C::AssetMint(1, 1_000_000));
    let ok = w.step(out, C::VDeposit(vec![0], vec![0], a0, 0, 0, 0));
    if ok && w.m.supply > (1i128 << 126) { out.label("cls/vault_in/share-supply-near-max/ok"); }
    let ok = w.step(out, C::VDeposit(vec![1], vec![1], 10, 1, 1, 1));          // shares ~ 10_000 > room
    if !ok { out.label("cls/vault_in/share-supply-overflow/fail"); }
    w.step(out, C::VMint(vec![1], vec![1], 6_000, 1, 1, 1));
    w.step(out, C::VMint(vec![1], vec![1], 100, 1, 1, 1));
    w.step(out, C::VDeposit(vec![1], vec![1], 0, 1, 1, 1));
    w.step(out, C::Transfer(vec![0], 0, 1, None, i128::MAX / 2));
    w.step(out, C::Transfer(vec![1], 1, 1, None, i128::MAX / 2));
    w.step(out, C::Approve(vec![0], 0, 1, i128::MAX, 100));
    let b0 = w.m.bal[0];
    w.step(out, C::VRedeem(vec![1], b0, 1, 0, 1));
    w.step(out, C::VRedeem(vec![1], 1, 1, 0, 1));
    let b1 = w.m.bal[1];
    w.step(out, C::VRedeem(vec![1], b1, 1, 1, 1));
    w.step(out, C::QSupply);
    w.finish(out, "vault-share-supply-at-i128-boundary");
}

/// vault positions with whole-share rounding dust (decimals offset 3: a share is worth less than one asset unit):
/// mints of share counts that do not convert to a whole number of assets, then withdraw of max_withdraw - 1,
/// of max_withdraw + 1, of EXACTLY max_withdraw(owner) by the owner, the same through a third-party operator
/// holding exactly the needed share allowance, and redeem of max_redeem.  Labels only when the situation is
/// really the intended one (computed on the mirror of the last observation).
fn scenario_vault_dust(out: &mut Out) {
    let off = 3u32;
    let unit = 10i128.pow(off);
    let mut w = World::new(Flav::Vault, 3, 50, 1, 5000, off);
    let vault = w.nu;
    fn maxw(w: &World, o: usize, unit: i128, vault: usize) -> i128 { w.m.bal[o] * (w.m.abal[vault] + 1) / (w.m.supply + unit) }
    fn prevw(w: &World, a: i128, unit: i128, vault: usize) -> i128 { let d = w.m.abal[vault] + 1; (a * (w.m.supply + unit) + d - 1) / d }
    let lab = |out: &mut Out, name: &str, ok: bool| out.label(&format!("cls/vault_out/{}/{}", name, if ok { "ok" } else { "fail" }));
    for i in 0..3 { w.step(out, C::AssetMint(i, 1000)); }
    let mut all = true;
    for (i, sh) in [(0usize, 1500i128), (1, 2500), (2, 3700)] {
        let ok = w.step(out, C::VMint(vec![i], vec![i], sh, i, i, i));
        all &= ok && w.m.bal[i] == sh;
    }
    if all { out.label("cls/vault_in/mint-shares-not-whole-assets/ok"); }
    // sibling: owner 2 withdraws max_withdraw - 1, then max_withdraw + 1 (refused)
    let mx = maxw(&w, 2, unit, vault);
    if mx >= 2 && prevw(&w, mx, unit, vault) < w.m.bal[2] {
        let ok = w.step(out, C::VWithdraw(vec![2], mx - 1, 2, 2, 2));
        if ok { lab(out, "withdraw-max-minus-1-with-dust", true); }
    }
    let mx = maxw(&w, 2, unit, vault);
    if !w.step(out, C::VWithdraw(vec![2], mx + 1, 2, 2, 2)) { lab(out, "withdraw-max-plus-1-with-dust", false); }
    // owner 0 withdraws exactly max_withdraw; the shares for it are fewer than his balance
    let mx = maxw(&w, 0, unit, vault);
    let (ps, b) = (prevw(&w, mx, unit, vault), w.m.bal[0]);
    if mx >= 1 && ps < b {
        let ok = w.step(out, C::VWithdraw(vec![0], mx, 0, 0, 0));
        if ok && w.m.bal[0] == b - ps { lab(out, "withdraw-exactly-max-with-dust", true); }
    }
    // the same by operator 2 on owner 1's shares, with exactly the share allowance needed
    let mx = maxw(&w, 1, unit, vault);
    let (ps, b) = (prevw(&w, mx, unit, vault), w.m.bal[1]);
    if mx >= 1 && ps < b {
        w.step(out, C::Approve(vec![1], 1, 2, ps, 200));
        let ok = w.step(out, C::VWithdraw(vec![2], mx, 2, 1, 2));
        if ok && w.m.bal[1] == b - ps && w.m.allow[1][2].0 == 0 { lab(out, "withdraw-exactly-max-with-dust-by-operator", true); }
    }
    // sibling: redeem of max_redeem (the whole balance, dust included)
    let b = w.m.bal[2];
    if b > 0 && b % unit != 0 {
        let ok = w.step(out, C::VRedeem(vec![2], b, 2, 2, 2));
        if ok && w.m.bal[2] == 0 { lab(out, "redeem-max-with-dust", true); }
    }
    w.step(out, C::QSupply);
    w.finish(out, "vault-withdraw-exactly-max-with-share-dust");
}

fn scenario_flavour(out: &mut Out, flav: Flav) {
    match flav {
        Flav::Allow | Flav::Block => {
            let mut w = World::new(flav, 3, 50, 1, 5000, 0);
            let good = flav == Flav::Allow;
            for i in 0..3 { w.step(out, C::Mint(i, 100)); }
            w.step(out, C::Transfer(vec![0], 0, 1, None, 5));
            w.step(out, C::SetListed(0, good));
            w.step(out, C::Transfer(vec![0], 0, 1, None, 5));
            w.step(out, C::SetListed(1, good));
            w.step(out, C::Transfer(vec![0], 0, 1, None, 5));
            w.step(out, C::Approve(vec![0], 0, 2, 50, 90));
            w.step(out, C::TransferFrom(vec![2], 2, 0, 1, 5));
            w.step(out, C::BurnFrom(vec![2], 2, 0, 5));
            w.step(out, C::Burn(vec![0], 0, 5));
            w.step(out, C::SetListed(0, !good));
            w.step(out, C::Transfer(vec![0], 0, 1, None, 5));
            w.step(out, C::TransferFrom(vec![2], 2, 0, 1, 5));
            w.step(out, C::BurnFrom(vec![2], 2, 0, 5));
            w.step(out, C::Burn(vec![0], 0, 5));
            w.step(out, C::Approve(vec![0], 0, 2, 50, 90));
            w.step(out, C::Transfer(vec![1], 1, 0, None, 5));
            w.step(out, C::SetListed(0, !good));
            w.step(out, C::SetListed(0, good));
            w.step(out, C::SetListed(0, good));
            w.step(out, C::Burn(vec![0], 0, 5));
            w.finish(out, "list-gates");
        }
        Flav::Votes => {
            let mut w = World::new(flav, 3, 50, 1, 5000, 0);
            w.step(out, C::Mint(0, 100));
            w.step(out, C::Delegate(vec![0], 0, 1));
            w.step(out, C::Delegate(vec![0], 0, 1));
            w.step(out, C::Delegate(vec![], 0, 2));
            w.step(out, C::Mint(0, 50));
            w.step(out, C::Transfer(vec![0], 0, 2, None, 30));
            w.step(out, C::Delegate(vec![2], 2, 2));
            w.step(out, C::Advance(3));
            w.step(out, C::Delegate(vec![0], 0, 2));
            w.step(out, C::Burn(vec![0], 0, 20));
            w.step(out, C::Approve(vec![2], 2, 1, 25, 90));
            w.step(out, C::BurnFrom(vec![1], 1, 2, 10));
            w.step(out, C::TransferFrom(vec![1], 1, 2, 0, 10));
            w.step(out, C::Transfer(vec![0], 0, 0, None, 10));
            w.step(out, C::Transfer(vec![0], 0, 1, None, 0));
            w.step(out, C::Mint(1, i128::MAX - 200));
            w.step(out, C::Mint(1, 100));
            w.finish(out, "votes-hooks");
        }
        Flav::Vault => {
            for offset in [0u32, 3, 10] {
                let mut w = World::new(flav, 3, 50, 1, 5000, offset);
                for i in 0..3 { w.step(out, C::AssetMint(i, 10_000)); }
                w.step(out, C::VDeposit(vec![0], vec![0], 1000, 0, 0, 0));
                w.step(out, C::VDeposit(vec![1], vec![1], 500, 2, 1, 1));
                w.step(out, C::VDeposit(vec![], vec![], 500, 2, 1, 1));
                w.step(out, C::VDeposit(vec![1], vec![], 500, 2, 1, 1));      // operator signs the root call only
                w.step(out, C::VDeposit(vec![], vec![1], 500, 2, 1, 1));      // ... the nested call only
                w.step(out, C::VDeposit(vec![2], vec![2], 500, 2, 1, 2));     // operator without asset allowance
                w.step(out, C::AssetApprove(vec![1], 1, 2, 700, 90));
                w.step(out, C::VDeposit(vec![2], vec![2], 500, 2, 1, 2));
                w.step(out, C::VDeposit(vec![2], vec![2], 500, 2, 1, 2));     // asset allowance exhausted
                w.step(out, C::AssetMint(3, 777));                   // donation to the vault
                w.step(out, C::VMint(vec![0], vec![0], 100, 1, 0, 0));
                w.step(out, C::VMint(vec![0], vec![0], 0, 1, 0, 0));
                w.step(out, C::VMint(vec![0], vec![0], -1, 1, 0, 0));
                w.step(out, C::VWithdraw(vec![0], 100, 0, 0, 0));
                w.step(out, C::VRedeem(vec![0], 100, 1, 0, 0));
                w.step(out, C::VRedeem(vec![1], 10, 1, 0, 1));       // operator without share allowance
                w.step(out, C::Approve(vec![0], 0, 1, 50, 90));
                w.step(out, C::VRedeem(vec![1], 10, 1, 0, 1));
                w.step(out, C::VWithdraw(vec![1], 10, 2, 0, 1));
                w.step(out, C::VRedeem(vec![1], 100, 1, 0, 1));
                w.step(out, C::VRedeem(vec![0], 100, 1, 0, 1));      // owner signs, operator does not
                w.step(out, C::Transfer(vec![0], 0, 3, None, 10));         // shares to the vault itself
                w.step(out, C::TransferFrom(vec![1], 1, 0, 2, 5));
                let b0 = w.m.bal[0];
                w.step(out, C::VRedeem(vec![0], b0 + 1, 0, 0, 0));
                w.step(out, C::VRedeem(vec![0], b0, 0, 0, 0));
                w.step(out, C::VWithdraw(vec![2], i128::MAX, 2, 2, 2));
                w.step(out, C::VDeposit(vec![2], vec![2], i128::MAX, 2, 2, 2));
                w.finish(out, &format!("vault-paths(offset={})", offset));
            }
        }
        Flav::Rwa => {
            let mut w = World::new(flav, 4, 50, 1, 5000, 0);
            w.step(out, C::Mint(0, 100));
            w.step(out, C::Mint(1, 50));
            w.step(out, C::RFreeze(0, 60));
            w.step(out, C::Transfer(vec![0], 0, 1, None, 41));
            w.step(out, C::Transfer(vec![0], 0, 1, None, 40));
            w.step(out, C::RForced(0, 2, 30));       // unfreezes 30 of the 60
            w.step(out, C::RBurn(0, 25));
            w.step(out, C::RBurn(0, 6));
            w.step(out, C::RUnfreeze(0, 3));
            w.step(out, C::RSetFrozen(1, true));
            w.step(out, C::Transfer(vec![1], 1, 0, None, 1));
            w.step(out, C::Transfer(vec![2], 2, 1, None, 1));
            w.step(out, C::RForced(1, 2, 10));
            w.step(out, C::RRecover(1, 3));
            w.step(out, C::RSetRecovery(1, 3));
            w.step(out, C::RFreeze(1, 20));
            w.step(out, C::RRecover(1, 2));
            w.step(out, C::RRecover(1, 3));
            w.step(out, C::RRecover(1, 3));
            w.step(out, C::RPause(true));
            w.step(out, C::RPause(true));
            w.step(out, C::Transfer(vec![2], 2, 0, None, 1));
            w.step(out, C::RForced(2, 0, 1));
            w.step(out, C::Mint(2, 5));
            w.step(out, C::RPause(false));
            w.step(out, C::Approve(vec![2], 2, 0, 20, 90));
            w.step(out, C::TransferFrom(vec![0], 0, 2, 0, 7));
            w.step(out, C::TransferFrom(vec![0], 0, 2, 3, 7));
            w.step(out, C::RForced(2, 0, -1));
            w.step(out, C::RBurn(2, -1));
            // balances held by the token contract itself and by the account-type address
            w.step(out, C::Mint(4, 40));
            w.step(out, C::Mint(5, 50));
            w.step(out, C::RForced(4, 0, 15));
            w.step(out, C::RBurn(5, 20));
            w.step(out, C::RForced(5, 4, 5));
            // self recovery (recovery target = the old account itself) and a second real recovery
            w.step(out, C::RSetRecovery(0, 0));
            w.step(out, C::RRecover(0, 0));
            w.step(out, C::RSetRecovery(0, 2));
            w.step(out, C::RFreeze(0, 3));
            w.step(out, C::RRecover(0, 2));
            w.step(out, C::RRecover(0, 2));
            w.finish(out, "rwa-supervisory");
        }
        Flav::Base => {}
    }
}

/// K1 - special addresses as parties: the token contract's own address, another registered contract (the
/// forwarder, which authorises as the direct invoker; for the vault also the asset token's address) and the
/// account-type address as from / to / owner / spender / operator / receiver / delegatee / queried account.
/// Nobody can authorise for the token contract from outside, so every call that needs ITS signature must fail
/// whoever signs; the forwarder's own calls succeed exactly when they go through the forwarder.
fn scenario_special_parties(out: &mut Out, flav: Flav) {
    let mut w = World::new(flav, 3, 300, 1, 5000, 0);
    let (t, acct, f) = (w.nu, w.nu + 1, w.fwd);
    let nall = w.addrs.len();
    let lu = 400u32;
    let burn = flav.has_burn();
    if flav == Flav::Allow { for i in 0..nall { w.step(out, C::SetListed(i, true)); } }
    // every special address holds tokens
    if flav == Flav::Vault {
        for i in 0..3 { w.step(out, C::AssetMint(i, 10_000)); }
        w.step(out, C::VDeposit(vec![0], vec![0], 1000, 0, 0, 0));
        w.step(out, C::VDeposit(vec![1], vec![1], 100, t, 1, 1));      // shares minted to the vault itself
        w.step(out, C::VDeposit(vec![1], vec![1], 70, f, 1, 1));       // ... to the forwarder contract
        w.step(out, C::VDeposit(vec![1], vec![1], 50, acct, 1, 1));    // ... to the account-type address
        w.step(out, C::VDeposit(vec![1], vec![1], 30, t + 2, 1, 1));   // ... to the asset token's address
        w.step(out, C::VMint(vec![2], vec![2], 20, t, 2, 2));
    } else {
        w.step(out, C::Mint(0, 1000)); w.step(out, C::Mint(t, 100)); w.step(out, C::Mint(f, 70)); w.step(out, C::Mint(acct, 50));
    }
    w.step(out, C::QBalance(t)); w.step(out, C::QBalance(f)); w.step(out, C::QBalance(acct)); w.step(out, C::QSupply);
    // the token contract's own tokens: no signature from outside can stand for the contract
    for au in [vec![], vec![0], vec![0, 1, 2]] {
        w.step(out, C::Transfer(au.clone(), t, 0, None, 10));
        w.step(out, C::Approve(au.clone(), t, 0, 10, lu));
        if burn { w.step(out, C::Burn(au.clone(), t, 5)); }
    }
    w.step(out, C::Transfer(vec![], t, t, None, 0));              // not even a zero self-transfer
    w.step(out, C::Approve(vec![0], 0, t, 20, lu));               // an allowance granted TO the contract
    w.step(out, C::QAllowance(0, t));
    w.step(out, C::QAllowance(t, 0));
    w.step(out, C::TransferFrom(vec![], t, 0, 1, 5));             // ... which the contract cannot use from outside
    w.step(out, C::TransferFrom(vec![0], t, 0, 1, 5));
    w.step(out, C::TransferFrom(vec![1], 1, t, 1, 5));            // from the contract, no allowance
    w.step(out, C::TransferFrom(vec![1], 1, t, 1, 0));            // zero amount: moves nothing
    if burn { w.step(out, C::BurnFrom(vec![], t, 0, 5)); w.step(out, C::BurnFrom(vec![1], 1, t, 5)); }
    w.step(out, C::Transfer(vec![0], 0, t, None, 7));             // to the contract itself
    w.step(out, C::TransferFrom(vec![0], 0, 0, t, 0));
    // the account-type address holds tokens and never signs
    w.step(out, C::Transfer(vec![], acct, 0, None, 1));
    w.step(out, C::Transfer(vec![0], acct, 0, None, 1));
    w.step(out, C::Approve(vec![0], acct, 0, 5, lu));
    // another registered contract: it authorises exactly when it is the direct invoker
    w.step(out, C::Transfer(vec![], f, 1, None, 5));
    w.step(out, C::Transfer(vec![0], f, 1, None, 5));
    w.step(out, C::Transfer(vec![0, 1, 2], f, 1, None, 5));
    w.step(out, C::Transfer(vec![f], f, 1, None, 5));
    w.step(out, C::Transfer(vec![f], f, f, None, 5));             // contract to itself
    w.step(out, C::Transfer(vec![f], f, t, None, 1));             // contract to the token contract
    w.step(out, C::Transfer(vec![f], 0, 1, None, 5));             // the forwarder forwards, the holder does not sign
    w.step(out, C::Transfer(vec![f, 0], 0, 1, None, 5));          // the holder's entry beneath the forwarder's frame
    w.step(out, C::Transfer(vec![0], 0, f, None, 9));
    w.step(out, C::Approve(vec![], f, 2, 30, lu));
    w.step(out, C::Approve(vec![2], f, 2, 30, lu));
    w.step(out, C::Approve(vec![f], f, 2, 30, lu));
    w.step(out, C::TransferFrom(vec![2], 2, f, 0, 10));           // a user spends the contract's allowance
    w.step(out, C::Approve(vec![0], 0, f, 15, lu));
    w.step(out, C::TransferFrom(vec![], f, 0, 1, 5));
    w.step(out, C::TransferFrom(vec![0], f, 0, 1, 5));
    w.step(out, C::TransferFrom(vec![f], f, 0, 1, 5));            // the contract spends a user's allowance
    w.step(out, C::TransferFrom(vec![f], f, 0, f, 10));           // exactly the rest, to itself
    w.step(out, C::TransferFrom(vec![f], f, 0, 1, 1));            // exhausted
    w.step(out, C::TransferFrom(vec![f], f, 1, 0, 1));            // no allowance 1 -> contract
    if burn {
        w.step(out, C::Burn(vec![0], f, 3));
        w.step(out, C::Burn(vec![f], f, 3));
        w.step(out, C::Approve(vec![0], 0, f, 4, lu));
        w.step(out, C::BurnFrom(vec![], f, 0, 1));
        w.step(out, C::BurnFrom(vec![f], f, 0, 2));
    }
    match flav {
        Flav::Allow => {
            w.step(out, C::SetListed(t, false));
            w.step(out, C::Transfer(vec![0], 0, t, None, 1));                 // the contract itself is not allowed
            w.step(out, C::SetListed(f, false));
            w.step(out, C::Transfer(vec![f], f, 1, None, 1));
            w.step(out, C::Approve(vec![f], f, 1, 1, lu));
            w.step(out, C::Transfer(vec![0], 0, f, None, 1));
            w.step(out, C::SetListed(f, true));
            w.step(out, C::Transfer(vec![f], f, 1, None, 1));
            // muxed destinations: the gate looks at the underlying address, whatever the id
            w.step(out, C::Transfer(vec![0], 0, acct, Some(0), 1));
            w.step(out, C::Transfer(vec![0], 0, acct, Some(u64::MAX), 1));
            w.step(out, C::SetListed(acct, false));
            w.step(out, C::Transfer(vec![0], 0, acct, Some(9), 1));
            w.step(out, C::Transfer(vec![0], 0, acct, Some(0), 0));
        }
        Flav::Block => {
            w.step(out, C::SetListed(t, true));
            w.step(out, C::Transfer(vec![0], 0, t, None, 1));                 // the contract itself blocked
            w.step(out, C::SetListed(t, false));
            w.step(out, C::SetListed(f, true));
            w.step(out, C::Transfer(vec![f], f, 1, None, 1));
            w.step(out, C::Approve(vec![f], f, 1, 1, lu));
            w.step(out, C::Transfer(vec![0], 0, f, None, 1));
            w.step(out, C::SetListed(f, false));
            w.step(out, C::Transfer(vec![f], f, 1, None, 1));
            w.step(out, C::Transfer(vec![0], 0, acct, Some(0), 1));
            w.step(out, C::Transfer(vec![0], 0, acct, Some(u64::MAX), 1));
            w.step(out, C::SetListed(acct, true));
            w.step(out, C::Transfer(vec![0], 0, acct, Some(9), 1));
            w.step(out, C::Transfer(vec![0], 0, acct, Some(0), 0));
        }
        Flav::Votes => {
            w.step(out, C::Delegate(vec![0], 0, t));                            // delegate to the token contract
            w.step(out, C::Delegate(vec![], t, 0));
            w.step(out, C::Delegate(vec![0], t, 0));                            // nobody delegates for the contract
            w.step(out, C::Delegate(vec![0], f, 1));
            w.step(out, C::Delegate(vec![f], f, 1));                            // a contract delegates its own units
            w.step(out, C::Delegate(vec![1], 1, f));                            // ... and is a delegatee
            w.step(out, C::Transfer(vec![f], f, 1, None, 3));
            w.step(out, C::Delegate(vec![f], f, f));
            w.step(out, C::Mint(t, 5));
            w.step(out, C::Transfer(vec![0], 0, acct, Some(0), 1));
            w.step(out, C::Transfer(vec![0], 0, acct, Some(u64::MAX), 1));
        }
        Flav::Vault => {
            let asset = t + 2;
            w.step(out, C::VRedeem(vec![1], 3, 1, t, 1));                       // the vault's own shares: no allowance for anybody
            w.step(out, C::VRedeem(vec![], 3, t, t, t));
            w.step(out, C::VRedeem(vec![0, 1, 2], 3, 0, t, t));
            w.step(out, C::VWithdraw(vec![1], 1, 1, t, 1));
            w.step(out, C::VRedeem(vec![0], 10, f, f, f));                      // a user cannot redeem the contract's shares
            w.step(out, C::VRedeem(vec![f], 10, f, f, f));                      // the contract redeems its own shares
            w.step(out, C::VWithdraw(vec![f], 5, 0, f, f));
            w.step(out, C::VWithdraw(vec![0], 5, asset, 0, 0));                 // receiver = the asset token's own address
            w.step(out, C::VRedeem(vec![0], 5, f, 0, 0));
            w.step(out, C::VDeposit(vec![0], vec![0], 5, 0, t, 0));             // from = the vault: it gave no asset allowance
            w.step(out, C::VDeposit(vec![f], vec![], 5, f, f, f));              // the forwarder is not the invoker of the nested asset call
            w.step(out, C::VDeposit(vec![f, 0], vec![0], 5, 0, 0, f));
            w.step(out, C::VMint(vec![f], vec![], 5, 0, 0, f));
            w.step(out, C::Approve(vec![0], 0, f, 50, lu));
            w.step(out, C::VRedeem(vec![f], 10, f, 0, f));                      // the contract as third-party operator
            w.step(out, C::VRedeem(vec![f], 41, f, 0, f));
            w.step(out, C::VWithdraw(vec![f], 40, 1, 0, f));                    // withdraw by operator: exactly the remaining allowance (1 share per asset)
            w.step(out, C::VWithdraw(vec![f], 1, 1, 0, f));
            w.step(out, C::Approve(vec![0], 0, 1, 10, lu));
            w.step(out, C::VWithdraw(vec![1], 11, 1, 0, 1));                    // allowance + 1
            w.step(out, C::VWithdraw(vec![1], 10, 1, 0, 1));                    // exact
            w.step(out, C::AssetApprove(vec![1], 1, 2, 100, lu));
            w.step(out, C::VMint(vec![2], vec![2], 7, 2, 1, 2));                // mint by an operator who is not the payer
            w.step(out, C::Transfer(vec![0], 0, acct, Some(0), 1));
            w.step(out, C::Transfer(vec![0], 0, acct, Some(u64::MAX), 1));
            // (last: from here on a share is worth more than one asset)
            w.step(out, C::VRedeem(vec![0], 5, t, 0, 0));                       // receiver = the vault itself: the assets stay
            w.step(out, C::VWithdraw(vec![1], 3, t, 1, 1));
        }
        Flav::Rwa => {
            w.step(out, C::RSetFrozen(t, true));
            w.step(out, C::Transfer(vec![0], 0, t, None, 1));                   // the contract's own address frozen
            w.step(out, C::RForced(t, 0, 5));                                   // supervisory: moves the contract's tokens
            w.step(out, C::RSetFrozen(t, false));
            w.step(out, C::RFreeze(t, 10));
            w.step(out, C::RForced(t, t, 90));                                  // forced self-transfer beyond the free part
            w.step(out, C::RBurn(t, 1));
            w.step(out, C::RFreeze(f, 5));
            let free = w.m.bal[f] - w.m.frozen[f];
            w.step(out, C::Transfer(vec![f], f, 1, None, free + 1));
            w.step(out, C::Transfer(vec![f], f, 1, None, free));                // exactly the free part
            w.step(out, C::RSetRecovery(t, 1));
            w.step(out, C::RRecover(t, 1));                                     // recovery out of the contract's own address
            w.step(out, C::RSetRecovery(0, t));
            w.step(out, C::RRecover(0, t));                                     // ... and into it
            w.step(out, C::RSetRecovery(1, f));
            w.step(out, C::RRecover(1, f));
            w.step(out, C::RSetFrozen(acct, true));
            w.step(out, C::Transfer(vec![f], f, acct, Some(0), 1));             // muxed destination whose address is frozen
            w.step(out, C::RSetFrozen(acct, false));
            w.step(out, C::Transfer(vec![f], f, acct, Some(0), 1));
            w.step(out, C::Transfer(vec![f], f, acct, Some(u64::MAX), 1));
        }
        Flav::Base => {
            w.step(out, C::Transfer(vec![0], 0, acct, Some(0), 1));
            w.step(out, C::Transfer(vec![0], 0, acct, Some(u64::MAX), 1));
            w.step(out, C::Transfer(vec![0], 0, acct, Some(1), 0));
        }
    }
    w.step(out, C::QBalance(t)); w.step(out, C::QSupply);
    w.finish(out, "special-parties");
}

/// K2 - amounts at which a fast path, a narrower integer type or a scale constant would switch: each is
/// minted, probed one above the balance, moved, approved, spent exactly and destroyed again.
fn scenario_amount_catalogue(out: &mut Out, flav: Flav) {
    let mut w = World::new(flav, 3, 50, 1, 5000, 0);
    if flav == Flav::Allow { for i in 0..3 { w.step(out, C::SetListed(i, true)); } }
    // amount 1 against nothing
    w.step(out, C::Transfer(vec![0], 0, 1, None, 1));
    w.step(out, C::TransferFrom(vec![1], 1, 0, 2, 1));
    if flav.has_burn() { w.step(out, C::Burn(vec![0], 0, 1)); w.step(out, C::BurnFrom(vec![1], 1, 0, 1)); }
    for (_, a) in amount_catalogue() {
        if flav == Flav::Vault { w.step(out, C::AssetMint(0, a)); w.step(out, C::VDeposit(vec![0], vec![0], a, 0, 0, 0)); } else { w.step(out, C::Mint(0, a)); }
        w.step(out, C::Transfer(vec![0], 0, 1, None, a.saturating_add(1)));   // one above the balance
        w.step(out, C::Transfer(vec![0], 0, 1, None, a));
        w.step(out, C::Approve(vec![1], 1, 2, a, 90));
        w.step(out, C::TransferFrom(vec![2], 2, 1, 0, a));                    // allowance = balance = amount
        match flav {
            Flav::Vault => { w.step(out, C::VRedeem(vec![0], a, 0, 0, 0)); }
            Flav::Rwa => { w.step(out, C::RBurn(0, a)); }
            _ => { w.step(out, C::Burn(vec![0], 0, a)); }
        }
    }
    w.step(out, C::QSupply);
    w.finish(out, "amount-catalogue");
}

/// K2 - ledger 0 / live_until 0 and 1 / u32::MAX: an allowance approved with live_until 0 at ledger 0 is valid
/// for that ledger only (its storage entry lives on: min_temp_entry_ttl 16), "0" is not "never expires"
fn scenario_ledger_zero(out: &mut Out, flav: Flav, min_temp: u32) {
    let mut w = World::new_cfg(flav, 3, 0, min_temp, 4096, 5000, 0);
    if flav == Flav::Allow { for i in 0..3 { w.step(out, C::SetListed(i, true)); } }
    if flav == Flav::Vault { w.step(out, C::AssetMint(0, 1000)); w.step(out, C::VDeposit(vec![0], vec![0], 1000, 0, 0, 0)); } else { w.step(out, C::Mint(0, 1000)); }
    let spend = |w: &mut World, out: &mut Out, sp: usize, amt: i128| -> bool {
        if flav == Flav::Vault { w.step(out, C::VRedeem(vec![sp], amt, sp, 0, sp)) } else { w.step(out, C::TransferFrom(vec![sp], sp, 0, 2, amt)) }
    };
    w.step(out, C::Approve(vec![0], 0, 1, 10, 0));       // live_until 0 = the current ledger
    w.step(out, C::QAllowance(0, 1));
    spend(&mut w, out, 1, 3);
    w.step(out, C::Advance(0));
    w.step(out, C::QAllowance(0, 1));
    w.step(out, C::Advance(1));                           // ledger 1: worth zero, the entry is still stored
    w.step(out, C::QAllowance(0, 1));
    spend(&mut w, out, 1, 1);
    w.step(out, C::Approve(vec![0], 0, 1, 10, 0));       // now in the past
    w.step(out, C::Approve(vec![0], 0, 1, 0, 0));
    w.step(out, C::Approve(vec![0], 0, 2, 5, 1));        // live_until 1 = the current ledger
    spend(&mut w, out, 2, 2);
    w.step(out, C::Advance(1));
    spend(&mut w, out, 2, 1);
    w.step(out, C::QAllowance(0, 2));
    w.step(out, C::Approve(vec![0], 0, 2, 5, u32::MAX));
    w.step(out, C::Approve(vec![0], 0, 2, 0, u32::MAX));
    w.step(out, C::Approve(vec![0], 0, 2, 5, 2 + 5000 - 1));
    w.step(out, C::Advance(4998));
    spend(&mut w, out, 2, 1);                             // last ledger of the longest possible allowance
    w.step(out, C::Advance(1));
    spend(&mut w, out, 2, 1);
    w.finish(out, &format!("ledger-zero(min_temp={})", min_temp));
}

/// K6 / K5 / K3 - multi-step histories: a balance drained and refilled across transactions, one allowance read by
/// sibling paths in turn, exhausted / revoked / expired allowances re-created, list removal and re-adding with a
/// surviving allowance, freezes lifted and re-applied.  `hist` labels are set only when the history went as planned.
fn scenario_histories(out: &mut Out, flav: Flav) {
    let off = 0;
    let mut w = World::new(flav, 3, 200, 16, 5000, off);
    let burn = flav.has_burn();
    let lu = 260u32;
    if flav == Flav::Allow { for i in 0..3 { w.step(out, C::SetListed(i, true)); } }
    if flav == Flav::Votes { w.step(out, C::Delegate(vec![0], 0, 1)); w.step(out, C::Delegate(vec![1], 1, 1)); }
    let fund = |w: &mut World, out: &mut Out, a: i128| -> bool {
        if flav == Flav::Vault { w.step(out, C::AssetMint(0, a)); w.step(out, C::VDeposit(vec![0], vec![0], a, 0, 0, 0)) } else { w.step(out, C::Mint(0, a)) }
    };
    let destroy = |w: &mut World, out: &mut Out, a: i128| -> bool {
        match flav { Flav::Vault => w.step(out, C::VRedeem(vec![0], a, 0, 0, 0)), Flav::Rwa => w.step(out, C::RBurn(0, a)), _ => w.step(out, C::Burn(vec![0], 0, a)) }
    };
    let mark = |out: &mut Out, ok: bool, l: &str| { if ok { out.label(&format!("cls/history/{}/ok", l)); } };
    // a balance drained to zero and refilled, the supply drained to zero and refilled
    let mut ok = fund(&mut w, out, 10);
    ok &= w.step(out, C::Transfer(vec![0], 0, 1, None, 10));
    ok &= w.m.bal[0] == 0;
    ok &= !w.step(out, C::Transfer(vec![0], 0, 1, None, 1));
    ok &= w.step(out, C::Transfer(vec![1], 1, 0, None, 10));
    ok &= destroy(&mut w, out, 10);
    ok &= w.m.supply == 0;
    ok &= fund(&mut w, out, 40);
    ok &= w.m.bal[0] == 40 && w.m.supply == 40;
    mark(out, ok, "balance-and-supply-drained-and-refilled");
    // one allowance read by the sibling paths in turn
    let mut ok = w.step(out, C::Approve(vec![0], 0, 1, 10, lu));
    ok &= w.step(out, C::TransferFrom(vec![1], 1, 0, 2, 3));
    ok &= match flav {
        Flav::Vault => w.step(out, C::VRedeem(vec![1], 3, 1, 0, 1)),
        _ if burn => w.step(out, C::BurnFrom(vec![1], 1, 0, 3)),
        _ => w.step(out, C::TransferFrom(vec![1], 1, 0, 1, 3)),
    };
    ok &= w.m.allow[0][1].0 == 4;
    ok &= !w.step(out, C::TransferFrom(vec![1], 1, 0, 2, 5));
    if flav == Flav::Vault { ok &= !w.step(out, C::VWithdraw(vec![1], 5, 1, 0, 1)); }
    if burn { ok &= !w.step(out, C::BurnFrom(vec![1], 1, 0, 5)); }
    ok &= w.step(out, C::TransferFrom(vec![1], 1, 0, 2, 4));
    mark(out, ok, "allowance-shared-by-sibling-paths");
    let mut ok = !w.step(out, C::TransferFrom(vec![1], 1, 0, 2, 1));          // exhausted
    ok &= w.step(out, C::Approve(vec![0], 0, 1, 6, lu));
    ok &= w.step(out, C::TransferFrom(vec![1], 1, 0, 2, 6));
    mark(out, ok, "re-approved-after-exhaustion");
    let mut ok = w.step(out, C::Approve(vec![0], 0, 1, 5, lu));
    ok &= w.step(out, C::Approve(vec![0], 0, 1, 0, lu));                        // revoked
    ok &= !w.step(out, C::TransferFrom(vec![1], 1, 0, 2, 1));
    ok &= w.step(out, C::Approve(vec![0], 0, 1, 2, lu));
    ok &= w.step(out, C::TransferFrom(vec![1], 1, 0, 2, 2));
    mark(out, ok, "re-approved-after-revocation");
    let mut ok = w.step(out, C::Approve(vec![0], 0, 1, 5, 210));
    ok &= w.step(out, C::Advance(11));                                          // 211: expired, the entry is still stored (min_temp 16)
    ok &= !w.step(out, C::TransferFrom(vec![1], 1, 0, 2, 1));
    ok &= w.step(out, C::Approve(vec![0], 0, 1, 3, 230));
    ok &= w.step(out, C::TransferFrom(vec![1], 1, 0, 2, 3));
    ok &= !w.step(out, C::TransferFrom(vec![1], 1, 0, 2, 1));
    mark(out, ok, "re-approved-after-expiry");
    // spender == owner with a self-allowance, also for burn_from
    let mut ok = w.step(out, C::Approve(vec![0], 0, 0, 2, lu));
    ok &= w.step(out, C::TransferFrom(vec![0], 0, 0, 1, 1));
    if burn { ok &= w.step(out, C::BurnFrom(vec![0], 0, 0, 1)); ok &= !w.step(out, C::BurnFrom(vec![0], 0, 0, 1)); }
    mark(out, ok, "self-allowance-spent");
    match flav {
        Flav::Allow | Flav::Block => {
            let good = flav == Flav::Allow;
            let mut ok = w.step(out, C::Approve(vec![0], 0, 1, 4, lu));
            ok &= w.step(out, C::SetListed(0, !good));                          // the owner leaves the list / is blocked
            ok &= !w.step(out, C::TransferFrom(vec![1], 1, 0, 2, 1));
            ok &= !w.step(out, C::Approve(vec![], 0, 1, 0, lu));                 // nobody may wipe the allowance meanwhile
            ok &= !w.step(out, C::Approve(vec![1], 0, 1, 0, lu));
            ok &= !w.step(out, C::Approve(vec![0], 0, 1, 0, lu));
            ok &= w.step(out, C::SetListed(0, good));
            ok &= w.step(out, C::QAllowance(0, 1));
            ok &= w.m.allow[0][1].0 == 4;
            ok &= w.step(out, C::TransferFrom(vec![1], 1, 0, 2, 1));
            mark(out, ok, "allowance-survives-delisting");
            let mut ok = w.step(out, C::SetListed(2, !good));
            ok &= !w.step(out, C::Transfer(vec![0], 0, 2, None, 1));
            ok &= w.step(out, C::SetListed(2, good));
            ok &= w.step(out, C::Transfer(vec![0], 0, 2, None, 1));
            ok &= w.step(out, C::SetListed(2, !good));
            ok &= !w.step(out, C::Transfer(vec![2], 2, 0, None, 1));
            ok &= w.step(out, C::SetListed(2, good));
            mark(out, ok, "listed-removed-re-added");
        }
        Flav::Votes => {
            // units and delegated votes follow a balance through zero and back
            let b0 = w.m.bal[0];
            let mut ok = w.step(out, C::Transfer(vec![0], 0, 2, None, b0));
            ok &= w.step(out, C::Delegate(vec![0], 0, 2));
            ok &= w.step(out, C::Transfer(vec![2], 2, 0, None, b0));
            ok &= w.step(out, C::Delegate(vec![0], 0, 1));
            ok &= w.step(out, C::Burn(vec![0], 0, b0));
            ok &= w.step(out, C::Mint(0, 9));
            ok &= w.step(out, C::Delegate(vec![0], 0, 0));
            mark(out, ok, "votes-follow-balance-through-zero");
        }
        Flav::Vault => {
            // redeem everything (share supply back to zero with dust left), deposit again
            let mut ok = true;
            for i in 0..3 { let b = w.m.bal[i]; if b > 0 { ok &= w.step(out, C::VRedeem(vec![i], b, i, i, i)); } }
            ok &= w.m.supply == 0;
            ok &= w.step(out, C::AssetMint(w.nu, 3));                           // donation into the empty vault
            ok &= w.step(out, C::VDeposit(vec![0], vec![0], 8, 0, 0, 0));
            ok &= w.step(out, C::VMint(vec![0], vec![0], 1, 1, 0, 0));
            let b = w.m.bal[0];
            ok &= w.step(out, C::VRedeem(vec![0], b, 0, 0, 0));
            mark(out, ok, "vault-emptied-and-refilled");
        }
        Flav::Rwa => {
            let b0 = w.m.bal[0];
            let mut ok = w.step(out, C::RFreeze(0, 5));
            ok &= !w.step(out, C::Transfer(vec![0], 0, 1, None, b0 - 4));
            ok &= w.step(out, C::Transfer(vec![0], 0, 1, None, b0 - 5));        // exactly the free part
            ok &= !w.step(out, C::Transfer(vec![0], 0, 1, None, 1));
            ok &= w.step(out, C::RUnfreeze(0, 5));
            ok &= w.step(out, C::Transfer(vec![0], 0, 1, None, 1));
            ok &= w.step(out, C::RFreeze(0, 2));
            ok &= w.step(out, C::RForced(0, 0, 4));                             // forced self-transfer beyond the free part
            ok &= w.step(out, C::RFreeze(0, 1));
            mark(out, ok, "frozen-unfrozen-refrozen");
            let mut ok = w.step(out, C::Approve(vec![1], 1, 2, 6, lu));
            ok &= w.step(out, C::RPause(true));
            ok &= !w.step(out, C::TransferFrom(vec![2], 2, 1, 0, 1));
            ok &= w.step(out, C::RPause(false));
            ok &= w.step(out, C::TransferFrom(vec![2], 2, 1, 0, 1));
            ok &= w.step(out, C::RSetFrozen(1, true));
            ok &= !w.step(out, C::TransferFrom(vec![2], 2, 1, 0, 1));
            ok &= w.step(out, C::RSetFrozen(1, false));
            ok &= w.step(out, C::TransferFrom(vec![2], 2, 1, 0, 5));
            mark(out, ok, "allowance-survives-pause-and-freeze");
            let mut ok = w.step(out, C::RSetRecovery(1, 2));
            ok &= w.step(out, C::RRecover(1, 2));
            ok &= w.step(out, C::RSetRecovery(2, 1));
            ok &= w.step(out, C::RRecover(2, 1));                               // and back again
            mark(out, ok, "recovered-there-and-back");
        }
        Flav::Base => {}
    }
    w.step(out, C::QSupply);
    w.finish(out, "histories");
}

/// exhaustive small scope (thorough): every call sequence of length <= depth over 2 accounts x amounts
fn exhaustive_base(out: &mut Out, depth: usize) {
    let amts = [0i128, 1, 2, i128::MAX];
    let mut alphabet: Vec<C> = vec![];
    for &a in &amts {
        for u in 0..2usize {
            alphabet.push(C::Mint(u, a));
            alphabet.push(C::Transfer(vec![u], u, 1 - u, None, a));
            alphabet.push(C::Burn(vec![u], u, a));
        }
        alphabet.push(C::Transfer(vec![0], 0, 0, None, a));
        alphabet.push(C::Approve(vec![0], 0, 1, a, 20));
        alphabet.push(C::TransferFrom(vec![1], 1, 0, 1, a));
        alphabet.push(C::BurnFrom(vec![1], 1, 0, a));
    }
    let nalpha = alphabet.len();
    let mut idx = vec![0usize; depth];
    loop {
        let mut w = World::new(Flav::Base, 2, 10, 1, 5000, 0);
        for &i in &idx { w.step(out, alphabet[i].clone()); }
        w.finish(out, "exhaustive-small-scope");
        let mut k = depth;
        loop {
            if k == 0 { return; }
            k -= 1;
            idx[k] += 1;
            if idx[k] < nalpha { break; }
            idx[k] = 0;
        }
    }
}

/// last line of defence: a panic in scenario / generator code itself loses that trace, not the run
fn safely(out: &mut Out, f: impl FnOnce(&mut Out)) {
    let lost = { let o = &mut *out; guarded(move || f(o)).is_none() };
    if lost {
        // a lost trace must not go unnoticed: emit a malformed trace that diff and monitors reject
        out.label("harness/trace-lost-to-panic");
        let poison = format!("{{| t_cfg := {{| c_host := {{| min_temp_ttl := 1; max_ttl := 1 |}}; c_flav := FBase; c_self := 0%N; c_offset := 0 |}}; t_univ := []; t_start := 0; t_init := {}; t_items := [] |}}", sentinel_obs(0));
        out.trace("LOST: a scenario / generator panicked in harness code", poison, 1);
    }
}

pub fn run(pid: &str) {
    install_panic_hook();
    let header = format!("From SC Require Import Lib.Prelude Lib.Int Lib.Host Model.Math Model.Fungible Model.FungibleObs Run.{}.\nOpen Scope Z_scope.", pid);
    let mut out = Out::new(&header, "check_all");
    out.per_shard(if out.cfg.thorough { 600 } else { 260 });
    let mut rng = Rng::new(out.cfg.seed ^ if pid == "C02" { 0xC02 } else { 0xC01 });
    let lat = lattice128();
    let thorough = out.cfg.thorough;
    let scale = out.cfg.scale as usize;
    let mode = if pid == "C02" { Mode::Auth } else { Mode::Supply };
    let flavs: Vec<Flav> = if pid == "C02" { vec![Flav::Base, Flav::Allow, Flav::Block, Flav::Vault, Flav::Rwa, Flav::Votes] }
                           else { vec![Flav::Base, Flav::Allow, Flav::Block, Flav::Votes, Flav::Vault, Flav::Rwa] };

    // 1. directed scenarios
    for &f in &flavs {
        if f != Flav::Vault { safely(&mut out, |out| scenario_overflow(out, f)); } else { safely(&mut out, |out| scenario_vault_overflow(out)); safely(&mut out, |out| scenario_vault_dust(out)); }
        safely(&mut out, |out| scenario_flavour(out, f));
    }
    for &f in &[Flav::Base, Flav::Allow, Flav::Block, Flav::Vault, Flav::Rwa, Flav::Votes] { safely(&mut out, |out| scenario_roles(out, f)); }
    // follow-up classes: special addresses as parties, amount catalogue, ledger 0, multi-step histories
    for &f in &[Flav::Base, Flav::Allow, Flav::Block, Flav::Votes, Flav::Vault, Flav::Rwa] {
        safely(&mut out, |out| scenario_special_parties(out, f));
        safely(&mut out, |out| scenario_amount_catalogue(out, f));
        safely(&mut out, |out| scenario_histories(out, f));
    }
    for &f in &[Flav::Base, Flav::Vault, Flav::Rwa] { safely(&mut out, |out| scenario_ledger_zero(out, f, 16)); }
    safely(&mut out, |out| scenario_ledger_zero(out, Flav::Base, 1));
    for &f in &[Flav::Base, Flav::Rwa] { safely(&mut out, |out| scenario_ledger_near_u32_max(out, f)); }
    for &f in &[Flav::Base, Flav::Allow, Flav::Block, Flav::Votes, Flav::Vault, Flav::Rwa] {
        safely(&mut out, |out| scenario_persistence(out, f, 16, 4096, 6_312_000, false));           // SDK test defaults
        safely(&mut out, |out| scenario_persistence(out, f, 17_280, 2_073_600, 3_110_400, true));   // network-like settings
    }
    for &f in &[Flav::Base, Flav::Allow, Flav::Block, Flav::Vault, Flav::Rwa] {
        safely(&mut out, |out| scenario_expiry(out, f, 1, 200));
        if pid == "C02" || thorough { safely(&mut out, |out| scenario_expiry(out, f, 16, 6_312_000)); }
    }
    if pid == "C02" || thorough {
        let fl: Vec<Flav> = if thorough || pid == "C02" { vec![Flav::Base, Flav::Allow, Flav::Block, Flav::Vault, Flav::Votes, Flav::Rwa] } else { vec![Flav::Base, Flav::Vault] };
        for &f in &fl { for pos in [-1i64, 0, 1] { safely(&mut out, |out| scenario_auth_subsets(out, f, if thorough { 4 } else { 3 }, pos)); } }
    }
    // 2. random adaptive traces
    // VERIF_NO_RANDOM=1: directed scenarios only (used to check that the coverage gate does not depend on the random stream)
    let per_flav = if std::env::var("VERIF_NO_RANDOM").is_ok() { 0 } else { (if thorough { 120 } else { 22 }) * scale };
    let len = if thorough { 60 } else { 30 };
    for &f in &flavs {
        let weight = match (pid, f) { ("C02", Flav::Votes) | ("C02", Flav::Rwa) => 1, ("C02", _) => 2, _ => 2 };
        for i in 0..(per_flav * weight / 2).max(if per_flav == 0 { 0 } else { 1 }) {
            let nu = if thorough && i % 3 == 0 { 6 } else { 4 };
            let mut r = rng.fork(i as u64);
            safely(&mut out, |out| random_trace(out, &mut r, &lat, f, mode, len, nu, "random"));
        }
    }
    // 3. exhaustive small scope (thorough only)
    if thorough && pid == "C01" { safely(&mut out, |out| exhaustive_base(out, 3)); }
    out.finish();
}
